// C-ABI shared object around the UNMODIFIED working-tree raw_io.cc (compiled against the pybind11 stand-in, no sanitizers):
// lets the Python reader from the working tree drive the C++ parser from the working tree through ctypes
// (tools/impl/c03_impl.py replaces pybes3.besio.raw_io.read_bes_raw by an adapter around raw_abi_parse).
//   int  raw_abi_parse(const uint32_t* data, size_t n, unsigned selmask, char** out)
//        returns 0 and a malloc'ed JSON document of the returned dict, or 1 and the what() of the C++ exception;
//        selmask bit0 mdc .. bit5 ef, 0 = empty list, bit 6 = invalid name "xyz"
//   void raw_abi_free(char*)
#include <cstring>
#include "raw_io.hh"
#include <cstdio>
#include <cstdlib>
#include <string>
#include <vector>
namespace py = pybind11;

static void dump( const py::obj_ptr& o, std::string& out ) {
    char tmp[32];
    if ( auto a = std::get_if<py::arr_impl>( &o->v ) )
    {
        out += "{\"d\":\"" + a->dtype + "\",\"a\":[";
        for ( size_t i = 0; i < a->n; i++ )
        {
            uint64_t x = 0;
            memcpy( &x, a->bytes.data() + i * a->itemsize, a->itemsize );
            snprintf( tmp, sizeof tmp, "%s%llu", i ? "," : "", (unsigned long long)x );
            out += tmp;
        }
        out += "]}";
    }
    else if ( auto m = std::get_if<2>( &o->v ) )
    {
        out += "{";
        bool f = true;
        for ( auto& k : o->key_order )
        {
            out += ( f ? "\"" : ",\"" ) + k + "\":";
            dump( m->at( k ), out );
            f = false;
        }
        out += "}";
    }
    else if ( auto t = std::get_if<3>( &o->v ) )
    {
        out += "[";
        for ( size_t i = 0; i < t->size(); i++ )
        {
            if ( i ) out += ",";
            dump( ( *t )[i], out );
        }
        out += "]";
    }
    else out += "null";
}

extern "C" int raw_abi_parse( const uint32_t* data, size_t n, unsigned mask, char** out ) {
    static const char* NAMES[6] = { "mdc", "tof", "emc", "muc", "trg", "ef" };
    std::vector<std::string> sd;
    for ( int i = 0; i < 6; i++ )
        if ( mask & ( 1u << i ) ) sd.push_back( NAMES[i] );
    if ( mask & 64u ) sd.push_back( "xyz" );
    std::string s;
    int rc = 0;
    try
    {
        std::vector<uint32_t> w( data, data + n );
        auto r = py_read_bes_raw( py::array_t<uint32_t>::from_vector( w ), sd );
        dump( r.p, s );
    } catch ( std::exception& e )
    {
        s  = e.what();
        rc = 1;
    }
    *out = (char*)malloc( s.size() + 1 );
    memcpy( *out, s.c_str(), s.size() + 1 );
    return rc;
}
extern "C" void raw_abi_free( char* p ) { free( p ); }
