#pragma once
// Additions to the pybind11 stand-in (native/shim) needed by uproot-custom.hh / root_io.hh: the templates named inside
// `declare_reader` (never instantiated by the harness) only have to exist for two-phase lookup.
#include <pybind11/pybind11.h>
namespace pybind11 {
template <class... A> struct class_ {
  template <class M> class_(M&, const char*) {}
  template <class I> class_& def(I) { return *this; }
};
template <class F> int init(F) { return 0; }
}
