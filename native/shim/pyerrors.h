// stand-in
