#pragma once
// Minimal stand-in for pybind11: just enough surface for pybes3's raw_io / root_io sources.
#include <cstdint>
#include <cstddef>
#include <map>
#include <memory>
#include <string>
#include <variant>
#include <vector>
#include <stdexcept>
#include <functional>
namespace pybind11 {
struct buffer_info { void* ptr; size_t size; };
struct object_impl;
using obj_ptr = std::shared_ptr<object_impl>;
struct arr_impl { std::string dtype; size_t itemsize; std::vector<uint8_t> bytes; size_t n; };
struct object_impl {
  std::variant<std::monostate, arr_impl, std::map<std::string, obj_ptr>, std::vector<obj_ptr>> v;
  std::vector<std::string> key_order;
};
struct object { obj_ptr p; object() : p(std::make_shared<object_impl>()) {} };
struct capsule { template <class F> capsule(void* p, F f) { /* keep alive: leak intentionally small */ (void)p; (void)f; } };
template <class T> struct dtype_name;
#define DT(T, N) template <> struct dtype_name<T> { static const char* get() { return N; } };
DT(uint8_t,"u1") DT(uint16_t,"u2") DT(uint32_t,"u4") DT(uint64_t,"u8") DT(int8_t,"i1") DT(int16_t,"i2") DT(int32_t,"i4") DT(int64_t,"i8") DT(float,"f4") DT(double,"f8") DT(bool,"b1")
// flags as in pybind11 (py::array::c_style etc.); the stand-in holds contiguous data only, so every flag combination behaves alike
struct array { enum { c_style = 1, f_style = 2, forcecast = 16 }; };
template <class T, int Flags = array::forcecast> struct array_t : object {
  array_t() {}
  template <int G> array_t(const array_t<T, G>& o) : object(o), own(o.own), n_(o.n_) {}   // pybind11: converting constructor from object
  array_t(size_t n, const T* data) { set(n, data); }
  array_t(size_t n, const T* data, capsule) { set(n, data); }
  void set(size_t n, const T* data) { arr_impl a; a.dtype = dtype_name<T>::get(); a.itemsize = sizeof(T); a.n = n;
    a.bytes.assign((const uint8_t*)data, (const uint8_t*)data + n * sizeof(T)); p->v = std::move(a); }
  // exact-size heap copy so that ASan sees the true buffer bounds
  static array_t from_vector(const std::vector<T>& v) { array_t r; r.own = std::shared_ptr<T[]>(new T[v.size() ? v.size() : 1]); for (size_t i = 0; i < v.size(); i++) r.own[i] = v[i]; r.n_ = v.size(); return r; }
  buffer_info request() const { return buffer_info{ (void*)own.get(), n_ }; }
  size_t size() const { return n_; }
  std::shared_ptr<T[]> own; size_t n_ = 0;
};
struct item_accessor { obj_ptr d; std::string k;
  template <class O> item_accessor& operator=(const O& o) { auto& m = std::get<2>(d->v); if (!m.count(k)) d->key_order.push_back(k); m[k] = o.p; return *this; } };
struct dict : object { dict() { p->v = std::map<std::string, obj_ptr>(); }
  item_accessor operator[](const char* k) { return item_accessor{ p, k }; }
  item_accessor operator[](const std::string& k) { return item_accessor{ p, k }; } };
struct tuple : object { tuple() { p->v = std::vector<obj_ptr>(); } };
template <class... A> tuple make_tuple(const A&... a) { tuple t; auto& v = std::get<3>(t.p->v); (v.push_back(a.p), ...); return t; }
struct gil_scoped_release {}; struct gil_scoped_acquire {};
struct module_ { static module_ import(const char*) { return module_(); } };
using module = module_;
template <class T> T arg(const char*) { return T(); }
}
