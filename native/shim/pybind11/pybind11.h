#pragma once
// Minimal stand-in for pybind11: just enough surface for pybes3's raw_io / root_io sources.
#include <cstdint>
#include <cstddef>
#include <cstring>
#include <map>
#include <memory>
#include <string>
#include <variant>
#include <vector>
#include <stdexcept>
#include <functional>
namespace pybind11 {
struct buffer_info { void* ptr; size_t size; };
struct object_impl;
using obj_ptr = std::shared_ptr<object_impl>;
struct arr_impl { std::string dtype; size_t itemsize; std::vector<uint8_t> bytes; size_t n; };
struct object_impl {
  std::variant<std::monostate, arr_impl, std::map<std::string, obj_ptr>, std::vector<obj_ptr>> v;
  std::vector<std::string> key_order;
};
struct object { obj_ptr p; object() : p(std::make_shared<object_impl>()) {} };
struct capsule { template <class F> capsule(void* p, F f) { /* keep alive: leak intentionally small */ (void)p; (void)f; } };
template <class T> struct dtype_name;
#define DT(T, N) template <> struct dtype_name<T> { static const char* get() { return N; } };
DT(uint8_t,"u1") DT(uint16_t,"u2") DT(uint32_t,"u4") DT(uint64_t,"u8") DT(int8_t,"i1") DT(int16_t,"i2") DT(int32_t,"i4") DT(int64_t,"i8") DT(float,"f4") DT(double,"f8") DT(bool,"b1")
// py::array: a 1-D view (owner, first item, item count, item size, stride in bytes, dtype tag) as NumPy hands it over.  Ownership is by
// reference count as in Python: a converted copy lives exactly as long as the C++ object that holds it (ASan then sees reads after that).
struct array : object {
  enum { c_style = 1, f_style = 2, forcecast = 16 };
  std::shared_ptr<void> owner; char* data = nullptr; size_t n_ = 0; size_t isz = 0; ptrdiff_t stride_b = 0; std::string dt;
  size_t size() const { return n_; }
  ptrdiff_t itemsize() const { return (ptrdiff_t)isz; }
  ptrdiff_t ndim() const { return 1; }
  ptrdiff_t strides(size_t) const { return stride_b; }
  ptrdiff_t shape(size_t) const { return (ptrdiff_t)n_; }
  ptrdiff_t nbytes() const { return (ptrdiff_t)(n_ * isz); }
  bool c_contiguous() const { return n_ <= 1 || stride_b == (ptrdiff_t)isz; }
  // a view over caller-owned items: element i at first + i * stride_bytes
  static array view(std::shared_ptr<void> owner, void* first, size_t n, size_t isz, ptrdiff_t stride_bytes, const std::string& dt) {
    array a; a.owner = std::move(owner); a.data = (char*)first; a.n_ = n; a.isz = isz; a.stride_b = stride_bytes; a.dt = dt; return a; }
  // value of item i as NumPy's casting would see it
  long double item(size_t i) const {
    const char* q = data + (ptrdiff_t)i * stride_b;
    auto ld = [&](auto t) { decltype(t) x; std::memcpy(&x, q, sizeof x); return (long double)x; };
    if (dt == "u4") return ld(uint32_t()); if (dt == "i4") return ld(int32_t()); if (dt == "u8") return ld(uint64_t());
    if (dt == "i8") return ld(int64_t()); if (dt == "u2") return ld(uint16_t()); if (dt == "u1") return ld(uint8_t());
    if (dt == "f8") return ld(double()); if (dt == "f4") return ld(float());
    if (dt == ">u4") { uint32_t x; std::memcpy(&x, q, 4); return (long double)__builtin_bswap32(x); }
    throw std::invalid_argument("shim: dtype " + dt);
  }
};
template <class T, int Flags = array::forcecast> struct array_t : array {
  array_t() { dt = dtype_name<T>::get(); isz = sizeof(T); stride_b = sizeof(T); }
  // pybind11's converting constructor (== PyArray_FromAny(o, dtype T, ENSUREARRAY | Flags)): the SAME array (one more reference) when it already
  // is native T and meets the layout the flags ask for; otherwise a NEW array whose only owner is the constructed object
  array_t(const array& o) { convert(o); }
  template <int G> array_t(const array_t<T, G>& o) { convert(o); }
  array_t(size_t n, const T* src) { set(n, src); }
  array_t(size_t n, const T* src, capsule) { set(n, src); }
  void convert(const array& o) {
    if (o.dt == dtype_name<T>::get() && (!(Flags & c_style) || o.c_contiguous())) { static_cast<array&>(*this) = o; return; }
    std::shared_ptr<T[]> fresh(new T[o.n_ ? o.n_ : 1]);
    for (size_t i = 0; i < o.n_; i++) {
      if (o.dt == "i4" && sizeof(T) == 4) { int32_t x; std::memcpy(&x, o.data + (ptrdiff_t)i * o.stride_b, 4); fresh[i] = (T)x; }   // same-width: bits kept
      else fresh[i] = (T)o.item(i);
    }
    owner = fresh; data = (char*)fresh.get(); n_ = o.n_; isz = sizeof(T); stride_b = sizeof(T); dt = dtype_name<T>::get();
  }
  void set(size_t n, const T* src) { arr_impl a; a.dtype = dtype_name<T>::get(); a.itemsize = sizeof(T); a.n = n;
    a.bytes.assign((const uint8_t*)src, (const uint8_t*)src + n * sizeof(T)); p->v = std::move(a); }
  // exact-size heap copy so that ASan sees the true buffer bounds
  static array_t from_vector(const std::vector<T>& v) { std::shared_ptr<T[]> b(new T[v.size() ? v.size() : 1]); for (size_t i = 0; i < v.size(); i++) b[i] = v[i];
    return adopt(b, b.get(), v.size()); }
  static array_t adopt(std::shared_ptr<void> owner, T* first, size_t n) { array_t r; r.owner = std::move(owner); r.data = (char*)first; r.n_ = n; return r; }
  buffer_info request() const { return buffer_info{ (void*)data, n_ }; }
  const T* data_ptr() const { return (const T*)data; }
};
struct item_accessor { obj_ptr d; std::string k;
  template <class O> item_accessor& operator=(const O& o) { auto& m = std::get<2>(d->v); if (!m.count(k)) d->key_order.push_back(k); m[k] = o.p; return *this; } };
struct dict : object { dict() { p->v = std::map<std::string, obj_ptr>(); }
  item_accessor operator[](const char* k) { return item_accessor{ p, k }; }
  item_accessor operator[](const std::string& k) { return item_accessor{ p, k }; } };
struct tuple : object { tuple() { p->v = std::vector<obj_ptr>(); } };
template <class... A> tuple make_tuple(const A&... a) { tuple t; auto& v = std::get<3>(t.p->v); (v.push_back(a.p), ...); return t; }
struct gil_scoped_release {}; struct gil_scoped_acquire {};
struct module_ { static module_ import(const char*) { return module_(); } };
using module = module_;
template <class T> T arg(const char*) { return T(); }
}
