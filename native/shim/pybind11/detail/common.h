#include "../pybind11.h"
