#include "pybind11/pybind11.h"
