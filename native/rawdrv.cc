#include <cstring>
#include "raw_io.hh"
#include <cstdio>
#include <fstream>
#include <iostream>
namespace py = pybind11;
static void dump(const py::obj_ptr& o, int ind) {
  if (auto a = std::get_if<py::arr_impl>(&o->v)) { printf("%s[", a->dtype.c_str());
    for (size_t i = 0; i < a->n; i++) { uint64_t x = 0; memcpy(&x, a->bytes.data() + i * a->itemsize, a->itemsize); printf("%s%llu", i ? "," : "", (unsigned long long)x); } printf("]"); }
  else if (auto m = std::get_if<2>(&o->v)) { printf("{"); bool f = true; for (auto& k : o->key_order) { printf("%s%s:", f ? "" : ";", k.c_str()); dump(m->at(k), ind + 1); f = false; } printf("}"); }
  else if (auto t = std::get_if<3>(&o->v)) { printf("("); for (size_t i = 0; i < t->size(); i++) { if (i) printf("|"); dump((*t)[i], ind + 1); } printf(")"); }
}
int main(int argc, char** argv) {
  std::ifstream f(argv[1], std::ios::binary); std::vector<char> b((std::istreambuf_iterator<char>(f)), {});
  std::vector<uint32_t> w(b.size() / 4); memcpy(w.data(), b.data(), w.size() * 4);
  std::vector<std::string> sd; for (int i = 2; i < argc; i++) sd.push_back(argv[i]);
  try { auto r = py_read_bes_raw(py::array_t<uint32_t>::from_vector(w), sd); dump(r.p, 0); printf("\n"); }
  catch (std::exception& e) { printf("EXC %s\n", e.what()); }
}
