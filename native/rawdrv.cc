// Native driver around the UNMODIFIED working-tree raw_io.cc (compiled against the pybind11 stand-in in native/shim).
//
//   rawdrv <file> [sub_detector names...]      one buffer from a file of little-endian words (prototype mode)
//   rawdrv --batch [timeout_s]                 line protocol on stdin, one case per line:
//                                                 <selmask> <n> w0 w1 ... w(n-1)        (decimal)
//                                              selmask bit0 mdc, 1 tof, 2 emc, 3 muc, 4 trg, 5 ef; 0 = empty list
//                                              (py_read_bes_raw then applies its default selection); bit 6 adds the
//                                              invalid name "xyz"; bits 8..11: how the words are handed over (0 a
//                                              C-contiguous uint32 array, 1..6 see form_array).
//                                              one answer line per case:
//                                                 OK <json>        arrays returned
//                                                 EXC <what()>     C++ exception (= Python exception through pybind11)
//                                                 SAN <kind> <pc offsets...>   sanitizer report (ASan / UBSan) or fatal signal
//                                                 TIMEOUT          wall-clock guard expired
//   rawdrv --threads <T> <rounds>              same case lines on stdin; every case is decoded once alone (reference) and
//                                              then by T threads at the same time, <rounds> times each, in ONE process
//                                              (as RawBinaryReader.arrays does with its thread pool): prints
//                                              "THREADS OK <n calls>" or "THREADS MISMATCH <case> <thread>"; a sanitizer
//                                              report (data shared between calls) aborts the process with its report on stderr
//
// Every case runs in a forked child.  The word buffer is placed so that it ENDS exactly at the end of a
// read/write mapping that is followed by 40 GiB of PROT_NONE address space (raw mmap syscall, not intercepted):
// the parser's cursor only ever moves forward by at most 2 x (2^32-1) words between two reads, so every read past the
// supplied buffer faults (reported by ASan's SEGV handler) no matter how far it lands; heap objects of the parser
// itself (the temporary std::vector in read_ROB) are covered by ordinary ASan red zones.
#include <cstring>
#include "raw_io.hh"
#include <cstdio>
#include <cstdlib>
#include <fstream>
#include <iostream>
#include <sstream>
#include <string>
#include <vector>
#include <thread>
#include <atomic>
#include <poll.h>
#include <signal.h>
#include <sys/mman.h>
#include <sys/syscall.h>
#include <sys/wait.h>
#include <time.h>
#include <unistd.h>
namespace py = pybind11;

static void dump( const py::obj_ptr& o, std::string& out ) {
    char tmp[32];
    if ( auto a = std::get_if<py::arr_impl>( &o->v ) )
    {
        out += "{\"d\":\"" + a->dtype + "\",\"a\":[";
        for ( size_t i = 0; i < a->n; i++ )
        {
            uint64_t x = 0;
            memcpy( &x, a->bytes.data() + i * a->itemsize, a->itemsize );
            snprintf( tmp, sizeof tmp, "%s%llu", i ? "," : "", (unsigned long long)x );
            out += tmp;
        }
        out += "]}";
    }
    else if ( auto m = std::get_if<2>( &o->v ) )
    {
        out += "{";
        bool f = true;
        for ( auto& k : o->key_order )
        {
            out += ( f ? "\"" : ",\"" ) + k + "\":";
            dump( m->at( k ), out );
            f = false;
        }
        out += "}";
    }
    else if ( auto t = std::get_if<3>( &o->v ) )
    {
        out += "[";
        for ( size_t i = 0; i < t->size(); i++ )
        {
            if ( i ) out += ",";
            dump( ( *t )[i], out );
        }
        out += "]";
    }
    else out += "null";
}

static const char* NAMES[6] = { "mdc", "tof", "emc", "muc", "trg", "ef" };
static std::vector<std::string> sel_of_mask( unsigned mask ) {
    std::vector<std::string> sd;
    for ( int i = 0; i < 6; i++ )
        if ( mask & ( 1u << i ) ) sd.push_back( NAMES[i] );
    if ( mask & 64u ) sd.push_back( "xyz" );
    return sd;
}

static const size_t GUARD = 40ull << 30;

// place the words so that the buffer ends at a PROT_NONE boundary
static py::array_t<uint32_t> guarded_array( const std::vector<uint32_t>& w ) {
    size_t page  = 4096;
    size_t bytes = w.size() * 4;
    size_t rw    = ( ( bytes + page - 1 ) / page + 1 ) * page;
    void* base   = (void*)syscall( SYS_mmap, nullptr, rw + GUARD, PROT_NONE,
                                   MAP_PRIVATE | MAP_ANONYMOUS | MAP_NORESERVE, -1, 0 );
    if ( base == MAP_FAILED )
    {
        fprintf( stderr, "HARNESS mmap failed\n" );
        _exit( 97 );
    }
    if ( syscall( SYS_mprotect, base, rw, PROT_READ | PROT_WRITE ) != 0 )
    {
        fprintf( stderr, "HARNESS mprotect failed\n" );
        _exit( 97 );
    }
    uint32_t* p = (uint32_t*)( (char*)base + rw - bytes );
    if ( bytes ) memcpy( p, w.data(), bytes );
    return py::array_t<uint32_t>::adopt( std::shared_ptr<void>( (void*)p, []( void* ) {} ), p, w.size() );
}

// the same words handed over the way NumPy can hand them over (forms 1..6); every form must decode exactly as form 0
//   1 stride-2 view of a longer array   2 int32 items with the same bits   3 negative-stride view   4 uint64 items   5 big-endian
//   uint32 items   6 float64 items.   Exact-size heap blocks: ASan sees reads outside them and reads after their release.
static py::array form_array( const std::vector<uint32_t>& w, int form ) {
    size_t n = w.size();
    if ( form == 1 )
    {
        std::shared_ptr<uint32_t[]> b( new uint32_t[2 * n + 1] );
        for ( size_t i = 0; i < 2 * n + 1; i++ ) b[i] = 0xdeadbeefu;
        for ( size_t i = 0; i < n; i++ ) b[2 * i] = w[i];
        return py::array::view( b, b.get(), n, 4, 8, "u4" );
    }
    if ( form == 3 )
    {
        std::shared_ptr<uint32_t[]> b( new uint32_t[n + 1] );
        for ( size_t i = 0; i < n; i++ ) b[n - 1 - i] = w[i];
        return py::array::view( b, b.get() + ( n ? n - 1 : 0 ), n, 4, -4, "u4" );
    }
    if ( form == 4 || form == 6 )
    {
        std::shared_ptr<uint64_t[]> b( new uint64_t[n + 1] );
        for ( size_t i = 0; i < n; i++ )
        {
            if ( form == 4 ) b[i] = w[i];
            else
            {
                double d = (double)w[i];
                memcpy( &b[i], &d, 8 );
            }
        }
        return py::array::view( b, b.get(), n, 8, 8, form == 4 ? "u8" : "f8" );
    }
    std::shared_ptr<uint32_t[]> b( new uint32_t[n + 1] );
    for ( size_t i = 0; i < n; i++ ) b[i] = form == 5 ? __builtin_bswap32( w[i] ) : w[i];
    return py::array::view( b, b.get(), n, 4, 4, form == 2 ? "i4" : form == 5 ? ">u4" : "u4" );
}

static std::string run_one( const std::vector<uint32_t>& w, unsigned mask, bool guarded ) {
    std::string out;
    try
    {
        int form = ( mask >> 8 ) & 15;        // bits 8..11 of the selection mask: how the words are handed over
        mask &= 255;
        py::dict r;
        if ( form ) r = py_read_bes_raw( form_array( w, form ), sel_of_mask( mask ) );
        else
        {
            auto arr = guarded ? guarded_array( w ) : py::array_t<uint32_t>::from_vector( w );
            r        = py_read_bes_raw( arr, sel_of_mask( mask ) );
        }
        out      = "OK ";
        dump( r.p, out );
    } catch ( std::exception& e )
    { out = std::string( "EXC " ) + e.what(); }
    return out;
}

static std::string summarize_report( const std::string& err, int status ) {
    // first sanitizer headline + the raw pcs of the first frames (symbolize=0 -> "(rawdrv+0x...)")
    std::string kind;
    size_t p;
    if ( ( p = err.find( "ERROR: AddressSanitizer: " ) ) != std::string::npos )
    {
        size_t b = p + strlen( "ERROR: AddressSanitizer: " );
        size_t e = err.find_first_of( " \n", b );
        kind     = "asan:" + err.substr( b, e - b );
    }
    else if ( ( p = err.find( "runtime error: " ) ) != std::string::npos )
    {
        size_t b = p + strlen( "runtime error: " );
        size_t e = err.find( '\n', b );
        kind     = "ubsan:" + err.substr( b, std::min<size_t>( e - b, 60 ) );
        for ( auto& c : kind )
            if ( c == ' ' ) c = '_';
    }
    else if ( err.find( "HARNESS" ) != std::string::npos ) kind = "harness-failure";
    else if ( WIFSIGNALED( status ) ) kind = "signal:" + std::to_string( WTERMSIG( status ) );
    else kind = "exit:" + std::to_string( WIFEXITED( status ) ? WEXITSTATUS( status ) : -1 );
    std::string pcs;
    size_t pos = 0;
    int nf     = 0;
    while ( nf < 6 && ( pos = err.find( "+0x", pos ) ) != std::string::npos )
    {
        size_t e = err.find( ')', pos );
        if ( e == std::string::npos ) break;
        // only frames of this binary
        size_t lb = err.rfind( '(', pos );
        if ( lb != std::string::npos && err.substr( lb, pos - lb ).find( "rawdrv" ) != std::string::npos )
        {
            pcs += " " + err.substr( pos + 1, e - pos - 1 );
            nf++;
        }
        pos = e;
    }
    return "SAN " + kind + pcs;
}

static std::string run_forked( const std::vector<uint32_t>& w, unsigned mask, int timeout_s ) {
    int po[2], pe[2];
    if ( pipe( po ) || pipe( pe ) ) return "SAN harness-failure pipe";
    pid_t pid = fork();
    if ( pid == 0 )
    {
        close( po[0] );
        close( pe[0] );
        dup2( pe[1], 2 );
        std::string out = run_one( w, mask, true );
        out += "\n";
        size_t off = 0;
        while ( off < out.size() )
        {
            ssize_t k = write( po[1], out.data() + off, out.size() - off );
            if ( k <= 0 ) break;
            off += k;
        }
        _exit( 0 );
    }
    close( po[1] );
    close( pe[1] );
    std::string out, err;
    struct timespec t0;
    clock_gettime( CLOCK_MONOTONIC, &t0 );
    bool timed_out = false;
    struct pollfd fds[2] = { { po[0], POLLIN, 0 }, { pe[0], POLLIN, 0 } };
    int open_fds         = 2;
    char buf[65536];
    while ( open_fds > 0 )
    {
        struct timespec t1;
        clock_gettime( CLOCK_MONOTONIC, &t1 );
        double el = ( t1.tv_sec - t0.tv_sec ) + 1e-9 * ( t1.tv_nsec - t0.tv_nsec );
        if ( el > timeout_s )
        {
            timed_out = true;
            kill( pid, SIGKILL );
            break;
        }
        int r = poll( fds, 2, 200 );
        if ( r < 0 ) break;
        for ( int i = 0; i < 2; i++ )
        {
            if ( fds[i].fd < 0 ) continue;
            if ( fds[i].revents & ( POLLIN | POLLHUP | POLLERR ) )
            {
                ssize_t k = read( fds[i].fd, buf, sizeof buf );
                if ( k > 0 )
                {
                    if ( i == 0 ) out.append( buf, k );
                    else if ( err.size() < ( 1u << 20 ) ) err.append( buf, k );
                }
                else
                {
                    close( fds[i].fd );
                    fds[i].fd = -1;
                    open_fds--;
                }
            }
        }
    }
    for ( int i = 0; i < 2; i++ )
        if ( fds[i].fd >= 0 ) close( fds[i].fd );
    int status = 0;
    waitpid( pid, &status, 0 );
    if ( timed_out ) return "TIMEOUT";
    bool clean = WIFEXITED( status ) && WEXITSTATUS( status ) == 0 && !out.empty() && out.back() == '\n' &&
                 err.find( "runtime error: " ) == std::string::npos;
    if ( clean )
    {
        out.pop_back();
        return out;
    }
    return summarize_report( err, status );
}

int main( int argc, char** argv ) {
    if ( argc >= 2 && std::string( argv[1] ) == "--batch" )
    {
        int timeout_s = argc >= 3 ? atoi( argv[2] ) : 10;
        std::ios::sync_with_stdio( false );
        std::string line;
        while ( std::getline( std::cin, line ) )
        {
            if ( line.empty() ) continue;
            std::istringstream is( line );
            unsigned mask;
            size_t n;
            is >> mask >> n;
            std::vector<uint32_t> w( n );
            for ( size_t i = 0; i < n; i++ )
            {
                unsigned long long x;
                is >> x;
                w[i] = (uint32_t)x;
            }
            std::string r = run_forked( w, mask, timeout_s );
            fputs( r.c_str(), stdout );
            fputc( '\n', stdout );
            fflush( stdout );
        }
        return 0;
    }
    if ( argc >= 4 && std::string( argv[1] ) == "--threads" )
    {
        int T = atoi( argv[2] ), rounds = atoi( argv[3] );
        std::vector<std::pair<unsigned, std::vector<uint32_t>>> cases;
        std::string line;
        while ( std::getline( std::cin, line ) )
        {
            if ( line.empty() ) continue;
            std::istringstream is( line );
            unsigned mask;
            size_t n;
            is >> mask >> n;
            std::vector<uint32_t> w( n );
            for ( size_t i = 0; i < n; i++ )
            {
                unsigned long long x;
                is >> x;
                w[i] = (uint32_t)x;
            }
            cases.emplace_back( mask, std::move( w ) );
        }
        std::vector<std::string> ref;
        for ( auto& c : cases ) ref.push_back( run_one( c.second, c.first, false ) );
        std::atomic<long> calls{ 0 };
        std::atomic<int> bad_case{ -1 }, bad_thread{ -1 };
        std::vector<std::thread> th;
        for ( int t = 0; t < T; t++ )
            th.emplace_back( [&, t]() {
                for ( int r = 0; r < rounds && bad_case.load() < 0; r++ )
                    for ( size_t k = 0; k < cases.size(); k++ )
                    {
                        size_t i = ( k * ( 2 * t + 1 ) + r + t ) % cases.size();   // different threads walk the cases in different orders
                        std::string got = run_one( cases[i].second, cases[i].first, false );
                        calls++;
                        if ( got != ref[i] )
                        {
                            bad_case = (int)i;
                            bad_thread = t;
                            return;
                        }
                    }
            } );
        for ( auto& x : th ) x.join();
        if ( bad_case.load() >= 0 ) printf( "THREADS MISMATCH %d %d\n", bad_case.load(), bad_thread.load() );
        else printf( "THREADS OK %ld\n", calls.load() );
        return 0;
    }
    if ( argc < 2 )
    {
        fprintf( stderr, "usage: rawdrv <file> [names...] | rawdrv --batch [timeout_s] | rawdrv --threads T rounds\n" );
        return 2;
    }
    std::ifstream f( argv[1], std::ios::binary );
    std::vector<char> b( ( std::istreambuf_iterator<char>( f ) ), {} );
    std::vector<uint32_t> w( b.size() / 4 );
    memcpy( w.data(), b.data(), w.size() * 4 );
    std::vector<std::string> sd;
    for ( int i = 2; i < argc; i++ ) sd.push_back( argv[i] );
    std::string out;
    try
    {
        auto r = py_read_bes_raw( py::array_t<uint32_t>::from_vector( w ), sd );
        out    = "OK ";
        dump( r.p, out );
    } catch ( std::exception& e )
    { out = std::string( "EXC " ) + e.what(); }
    puts( out.c_str() );
    return 0;
}
