// Native harness for C01: drives Bes3TObjArrayReader and Bes3CgemClusterColReader from the WORKING-TREE root_io.hh
// (include path given by the check) against the pybind11 stand-in, under ASan/UBSan.
// stdin, one request per line:   <T|G> <hexdata|-> <n_offsets> <offset>*
//   T: Bes3TObjArrayReader with the scaffold BlobReader as element reader (captures each element's byte range:
//      fNBytes word + fNBytes bytes); output "T OK <offsets..> | <len>:<checksum> ..." or "T EXC <what>"
//   G: Bes3CgemClusterColReader; output "G OK <key>=<dtype>[v,v,..];..." (doubles as 64-bit patterns) or "G EXC <what>"
// The entry loop replicates uproot_custom's read_data: one read() per entry, the cursor must land on the entry's end offset.
#include <pybind11_extra.h>
#include <cstdio>
#include <cstdlib>
#include <cstring>
#include <iostream>
#include <sstream>
#include "root_io.hh"

class BlobReader : public IReader {
  public:
    std::vector<std::pair<long, long>> m_ranges;  // (start offset in the buffer, length)
    const uint8_t* m_base = nullptr;
    BlobReader( std::string name ) : IReader( name ) {}
    void read( BinaryBuffer& b ) override {
        const uint8_t* start = b.get_cursor();
        auto nb              = b.read_fNBytes();
        b.skip( nb );
        m_ranges.push_back( { start - b.get_data(), 4 + (long)nb } );
    }
    py::object data() const override { return py::object(); }
};

static void dump_arr( const py::obj_ptr& o ) {
    auto& a = std::get<py::arr_impl>( o->v );
    printf( "%s[", a.dtype.c_str() );
    for ( size_t i = 0; i < a.n; i++ )
    {
        uint64_t x = 0;
        memcpy( &x, a.bytes.data() + i * a.itemsize, a.itemsize );
        if ( a.dtype[0] == 'i' && a.itemsize == 4 ) printf( "%s%d", i ? "," : "", (int32_t)x );
        else printf( "%s%llu", i ? "," : "", (unsigned long long)x );
    }
    printf( "]" );
}

int main() {
    std::string line;
    long k = 0;
    while ( std::getline( std::cin, line ) )
    {
        if ( line.empty() ) continue;
        std::istringstream is( line );
        std::string op, hex;
        size_t noff;
        is >> op >> hex >> noff;
        if ( hex == "-" ) hex = "";
        std::vector<uint8_t> bytes( hex.size() / 2 );
        for ( size_t i = 0; i < bytes.size(); i++ )
        {
            auto hv = []( char c ) { return c <= '9' ? c - '0' : c - 'a' + 10; };
            bytes[i] = (uint8_t)( 16 * hv( hex[2 * i] ) + hv( hex[2 * i + 1] ) );
        }
        std::vector<uint32_t> offs( noff );
        for ( auto& o : offs ) is >> o;
        printf( "BEGIN %ld\n", k++ );
        fflush( stdout );
        auto da = py::array_t<uint8_t>::from_vector( bytes );
        auto oa = py::array_t<uint32_t>::from_vector( offs );
        try
        {
            BinaryBuffer buf( da, oa );
            if ( op == "T" )
            {
                auto blob = std::make_shared<BlobReader>( "blob" );
                Bes3TObjArrayReader rd( "col", blob );
                for ( size_t e = 0; e + 1 < noff; e++ )
                {
                    rd.read( buf );
                    if ( buf.get_cursor() != buf.get_data() + offs[e + 1] ) throw std::runtime_error( "entry end mismatch" );
                }
                auto out = rd.data();
                auto& t  = std::get<3>( out.p->v );
                auto& oarr = std::get<py::arr_impl>( t[0]->v );
                printf( "T OK" );
                for ( size_t i = 0; i < oarr.n; i++ ) { uint32_t x; memcpy( &x, oarr.bytes.data() + 4 * i, 4 ); printf( " %u", x ); }
                printf( " |" );
                for ( auto& r : blob->m_ranges )
                {
                    long cs = 0;
                    for ( long i = 0; i < r.second; i++ ) cs = ( cs + ( i + 1 ) * bytes[r.first + i] ) & 0x7fffffff;
                    printf( " %ld:%ld", r.second, cs );
                }
                printf( "\n" );
            }
            else
            {
                Bes3CgemClusterColReader rd( "cgem" );
                for ( size_t e = 0; e + 1 < noff; e++ )
                {
                    rd.read( buf );
                    if ( buf.get_cursor() != buf.get_data() + offs[e + 1] ) throw std::runtime_error( "entry end mismatch" );
                }
                auto out = rd.data();
                auto& m  = std::get<2>( out.p->v );
                printf( "G OK " );
                for ( auto& key : out.p->key_order ) { printf( "%s=", key.c_str() ); dump_arr( m.at( key ) ); printf( ";" ); }
                printf( "\n" );
            }
        } catch ( std::exception& e ) { printf( "%s EXC %s\n", op.c_str(), e.what() ); }
        fflush( stdout );
    }
    return 0;
}
