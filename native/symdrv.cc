// Native harness for C16: drives Bes3SymMatrixArrayReader<double> from the WORKING-TREE root_io.hh (include path given by
// the check) against the pybind11 stand-in.  stdin lines:
//   C <flat> <dim>                         -> "C <flat> <dim> A|X"           (constructor accepted / threw)
//   R <flat> <dim> <nobj> <nvals> <hex64>* -> "R <flat> <dim> <nobj> X" or "R <flat> <dim> <nobj> A <consumed> <hex64>*"
// The hex words are the 64-bit patterns of the doubles; they are written big-endian into an exact-size heap buffer (so ASan
// sees the true bounds) and read() is called <nobj> times on one BinaryBuffer.
#include <pybind11_extra.h>
#include <cstdio>
#include <cstdlib>
#include <cstring>
#include <iostream>
#include <sstream>
#include "root_io.hh"

int main() {
  std::string line;
  long k = 0;
  while (std::getline(std::cin, line)) {
    if (line.empty()) continue;
    std::istringstream is(line);
    std::string op; unsigned long long flat, dim; is >> op >> flat >> dim;
    printf("BEGIN %ld\n", k++); fflush(stdout);
    if (op == "C") {
      try { Bes3SymMatrixArrayReader<double> r("m", (uint32_t)flat, (uint32_t)dim); printf("C %llu %llu A\n", flat, dim); }
      catch (std::exception& e) { printf("C %llu %llu X\n", flat, dim); }
    } else {
      unsigned long nobj, nvals; is >> nobj >> nvals;
      std::vector<uint8_t> bytes(nvals * 8);
      for (unsigned long i = 0; i < nvals; i++) { std::string h; is >> h; uint64_t v = strtoull(h.c_str(), nullptr, 16);
        for (int b = 0; b < 8; b++) bytes[i * 8 + b] = (uint8_t)(v >> (56 - 8 * b)); }
      std::vector<uint32_t> offs{0, (uint32_t)bytes.size()};
      auto da = py::array_t<uint8_t>::from_vector(bytes); auto oa = py::array_t<uint32_t>::from_vector(offs);
      try {
        Bes3SymMatrixArrayReader<double> r("m", (uint32_t)flat, (uint32_t)dim);
        BinaryBuffer buf(da, oa);
        for (unsigned long o = 0; o < nobj; o++) r.read(buf);
        auto out = r.data(); auto& a = std::get<py::arr_impl>(out.p->v);
        printf("R %llu %llu %lu A %ld", flat, dim, nobj, (long)(buf.get_cursor() - buf.get_data()) / 8);
        for (size_t i = 0; i < a.n; i++) { uint64_t v; memcpy(&v, a.bytes.data() + i * 8, 8); printf(" %016llx", (unsigned long long)v); }
        printf("\n");
      } catch (std::exception& e) { printf("R %llu %llu %lu X\n", flat, dim, nobj); }
    }
    fflush(stdout);
  }
  return 0;
}
