"""Shared machinery for the pybes3 verification checks (Coq 8.16 proofs + checked ties).

A check = (1) regenerate the generated part of the model from /repo's working tree,
          (2) compile the property's proof files against it (obligations),
          (3) run the correspondence between model and implementation,
          (4) on any broken obligation/tie: search for a concrete failing input,
          (5) write evidence, print VIOLATION / KNOWN-FINDING lines, exit 0/1.
"""
from __future__ import annotations

import fcntl
import hashlib
import json
import os
import random
import re
import shutil
import subprocess
import sys
import time
from pathlib import Path

VERIF = Path(__file__).resolve().parent.parent
REPO = Path(os.environ.get("PYBES3_REPO", "/repo"))
SRC = REPO / "src" / "pybes3"
COQ = VERIF / "coq"
BUILD = VERIF / "build"
PY = "/venv/bin/python"

FORBIDDEN = re.compile(
    r"\b(Admitted|admit|Axiom|Axioms|Parameter|Parameters|Conjecture|Conjectures|Hypothesis|Hypotheses|Variable|Variables"
    r"|Admit Obligations|bypass_check|Unset Guard Checking|Unset Positivity Checking|Unset Universe Checking"
    r"|type-in-type|impredicative-set|native_compute)\b")
# `Variable`/`Hypothesis` are allowed inside Sections only; checked separately.
SECTION_ONLY = {"Hypothesis", "Hypotheses", "Variable", "Variables"}

STD_AXIOMS = {
    "ClassicalDedekindReals.sig_not_dec": "Coq.Reals (standard library axiom)",
    "ClassicalDedekindReals.sig_forall_dec": "Coq.Reals (standard library axiom)",
    "FunctionalExtensionality.functional_extensionality_dep": "Coq.Logic.FunctionalExtensionality (standard library axiom)",
    "Classical_Prop.classic": "Coq.Logic.Classical_Prop (standard library axiom)",
    "Eqdep.Eq_rect_eq.eq_rect_eq": "Coq.Logic.Eqdep (standard library axiom)",
    "JMeq.JMeq_eq": "Coq.Logic.JMeq (standard library axiom)",
    "ProofIrrelevance.proof_irrelevance": "Coq.Logic.ProofIrrelevance (standard library axiom)",
    "PropExtensionality.propositional_extensionality": "Coq.Logic.PropExtensionality (standard library axiom)",
    "ClassicalEpsilon.constructive_indefinite_description": "Coq.Logic.ClassicalEpsilon (standard library axiom)",
    "Epsilon.epsilon_statement": "Coq.Logic.Epsilon (standard library axiom)",
}


PRIMITIVE_PREFIXES = ("PrimInt63.", "PrimFloat.", "Uint63.", "Sint63.")  # kernel primitives, not axioms of ours


def _raise_stack_limit():
    """coqc evaluates generated case files whose list literals can be long: with the usual 8 MiB soft stack limit a long literal ends in
    `Error: Stack overflow` (seen once at the thorough tier).  Applied (preexec) to the Coq tools only (1 GiB, or the hard limit if lower)."""
    try:
        import resource
        soft, hard = resource.getrlimit(resource.RLIMIT_STACK)
        want = 1 << 30
        if hard != resource.RLIM_INFINITY:
            want = min(want, hard)
        if soft == resource.RLIM_INFINITY or soft >= want:
            return
        resource.setrlimit(resource.RLIMIT_STACK, (want, hard))
    except Exception:  # noqa: BLE001
        pass


def _is_coq_cmd(cmd):
    head = cmd if isinstance(cmd, str) else " ".join(map(str, cmd[:3]))
    return any(t in head for t in ("coqc", "coqchk", "coqtop", "make"))


def sh(cmd, timeout=600, cwd=None, env=None, input=None):
    """Run a command, return (rc, stdout, stderr); rc=124 on timeout.  Only the Coq tools get the raised stack limit: a process-wide
    limit would also become the default stack size of every thread the implementation's pools start (1 GiB each)."""
    try:
        p = subprocess.run(cmd, shell=isinstance(cmd, str), cwd=cwd, env=env, input=input,
                           capture_output=True, text=True, timeout=timeout,
                           preexec_fn=_raise_stack_limit if _is_coq_cmd(cmd) else None)
        return p.returncode, p.stdout, p.stderr
    except subprocess.TimeoutExpired as e:
        so = e.stdout.decode() if isinstance(e.stdout, bytes) else (e.stdout or "")
        se = e.stderr.decode() if isinstance(e.stderr, bytes) else (e.stderr or "")
        return 124, so, se + "\nTIMEOUT"


def impl_env(extra=None, cache_dir=None):
    """Environment for running the implementation from /repo's working tree."""
    env = dict(os.environ)
    env["PYTHONPATH"] = str(REPO / "src") + os.pathsep + str(VERIF / "tools")
    env["PYTHONHASHSEED"] = "0"
    env["PYTHONDONTWRITEBYTECODE"] = "1"
    env["NUMBA_CACHE_DIR"] = str(cache_dir or (BUILD / "nbcache" / str(os.getpid())))
    env["PYBES3_VERIF"] = "1"
    env["OMP_NUM_THREADS"] = "4"
    if extra:
        env.update(extra)
    return env


def ensure_static():
    """Build coq/Lib and coq/Model (static, hand-written) with a full .vo build; idempotent, locked."""
    BUILD.mkdir(exist_ok=True)
    with open(BUILD / ".static.lock", "w") as lk:
        fcntl.flock(lk, fcntl.LOCK_EX)
        files = sorted(str(p.relative_to(COQ)) for d in ("Lib", "Model") for p in (COQ / d).glob("*.v"))
        rc, so, se = sh(["coq_makefile", "-f", "_CoqProject", *files, "-o", "Makefile"], cwd=COQ, timeout=60)
        if rc != 0:
            raise RuntimeError("coq_makefile failed: " + se)
        rc, so, se = sh(["make", "-j16"], cwd=COQ, timeout=1800)
        if rc != 0:
            raise RuntimeError("static Coq build failed:\n" + so[-3000:] + se[-3000:])


def scan_forbidden(path: Path):
    """Return list of forbidden tokens found in a .v file (comments stripped; Variable/Hypothesis ok in Sections)."""
    txt = path.read_text()
    # strip comments (non-nested good enough: our files do not nest comments)
    txt = re.sub(r"\(\*.*?\*\)", " ", txt, flags=re.S)
    bad = []
    depth = 0
    for line in txt.splitlines():
        if re.match(r"\s*Section\s+\w+", line):
            depth += 1
        for m in FORBIDDEN.finditer(line):
            tok = m.group(1)
            if tok in SECTION_ONLY and depth > 0:
                continue
            bad.append(tok)
        if re.match(r"\s*End\s+\w+", line) and depth > 0:
            depth -= 1
    return bad


class Check:
    def __init__(self, pid: str, tier: str, seed: int):
        self.pid, self.tier, self.seed = pid, tier, seed
        self.rng = random.Random(seed)
        self.t0 = time.time()
        self.bdir = BUILD / pid
        self.gen = self.bdir / "gen"
        self.props = self.bdir / "props"
        for d in (self.gen, self.props):
            if d.exists():
                shutil.rmtree(d)
            d.mkdir(parents=True)
        (BUILD / "replays").mkdir(parents=True, exist_ok=True)
        for old in (BUILD / "replays").glob(f"{pid}_*.json"):
            old.unlink()
        self.obligations = []  # dict(name, status, assumptions)
        self.broken = []  # dict(kind, name, detail)
        self.viol = []  # dict(key, what, replay)
        self.cov = {"evaluations": 0, "samples": [], "rule": ""}
        self.distinct = set()
        self.assumptions = []
        self.trusted = [
            "Coq 8.16.1 kernel incl. vm_compute (no native_compute); full .vo build",
        ]
        self.checker_cmds = []
        self.notes = []
        self.axioms_seen = set()

    # ---------------------------------------------------------------- coq
    def coq_flags(self):
        return ["-R", str(COQ / "Lib"), "PV.Lib", "-R", str(COQ / "Model"), "PV.Model",
                "-R", str(self.gen), "PV.Gen", "-R", str(self.props), "PV.Props"]

    def write_gen(self, name: str, text: str):
        (self.gen / name).write_text(text)

    def coqc(self, path: Path, timeout=900):
        bad = scan_forbidden(path)
        if bad:
            return 2, "", f"forbidden construct(s) in {path.name}: {sorted(set(bad))}"
        cmd = ["coqc", *self.coq_flags(), str(path)]
        self.checker_cmds.append("coqc -R coq/Lib PV.Lib -R coq/Model PV.Model -R build/%s/gen PV.Gen "
                                 "-R build/%s/props PV.Props %s" % (self.pid, self.pid, path.name))
        rc, so, se = sh(cmd, timeout=timeout)
        return rc, so, se

    def compile_gen(self, names, timeout=900, parallel=False):
        """Compile generated model files (in order). A failure is a broken tie (model cannot be regenerated)."""
        if parallel:
            from concurrent.futures import ThreadPoolExecutor
            with ThreadPoolExecutor(16) as ex:
                res = list(ex.map(lambda n: (n, self.coqc(self.gen / n, timeout)), names))
        else:
            res = []
            for n in names:
                r = self.coqc(self.gen / n, timeout)
                res.append((n, r))
                if r[0] != 0:
                    break
        ok = True
        for n, (rc, so, se) in res:
            if rc != 0:
                ok = False
                self.tie_broken("regenerated-model", n, (se or so)[-1500:])
        return ok

    def prove(self, proof_files, stmt_file, timeout=1500):
        """Copy proof files + statement file from coq/Props into the build dir and compile them.
        Obligations = Theorem/Example statements of stmt_file. Returns True iff all discharged."""
        for f in list(proof_files) + [stmt_file]:
            shutil.copy(COQ / "Props" / f, self.props / f)
        stmts = re.findall(r"^(?:Theorem|Example)\s+(\w+)", (self.props / stmt_file).read_text(), flags=re.M)
        failed = None
        for f in proof_files:
            rc, so, se = self.coqc(self.props / f, timeout)
            if rc != 0:
                failed = (f, se or so)
                break
        per_thm = {}
        if failed is None:
            rc, so, se = self.coqc(self.props / stmt_file, timeout)
            if rc != 0:
                failed = (stmt_file, se or so)
            else:
                per_thm = self.parse_assumptions(self.props / stmt_file, so)
        if failed is not None:
            f, msg = failed
            lemma = self.locate_lemma(self.props / f, msg)
            for s in stmts:
                self.obligations.append({"name": s, "status": "not-checked", "assumptions": None})
            self.tie_broken("proof", f"{f}:{lemma}", msg[-1500:])
            return False
        for s in stmts:
            ax = per_thm.get(s)
            self.obligations.append({"name": s, "status": "proved", "assumptions": ax if ax is not None else "n/a"})
            for a in ax or []:
                self.axioms_seen.add(a)
        if self.tier == "thorough":
            self.coqchk(stmt_file)
        unknown = [a for a in self.axioms_seen if a not in STD_AXIOMS and not a.startswith(PRIMITIVE_PREFIXES)]
        if unknown:
            self.tie_broken("axiom-audit", stmt_file, "non-standard assumptions: " + ", ".join(unknown))
            return False
        return True

    def coqchk(self, stmt_file, timeout=2400):
        """thorough tier: re-check the compiled statement file and everything it depends on with the independent checker"""
        mod = "PV.Props." + stmt_file[:-2]
        cmd = ["coqchk", "-o", "-silent", "-R", str(COQ / "Lib"), "PV.Lib", "-R", str(COQ / "Model"), "PV.Model",
               "-R", str(self.gen), "PV.Gen", "-R", str(self.props), "PV.Props", mod]
        rc, so, se = sh(cmd, timeout=timeout)
        out = so + se
        self.checker_cmds.append("coqchk -o -silent -R ... " + mod)
        if rc != 0:
            self.tie_broken("coqchk", mod, out[-1500:])
            return
        m = re.search(r"\* Axioms:(.*?)\n\s*\n\* Constants/Inductives relying on type-in-type:(.*?)\n\s*\n\* Constants/Inductives relying on unsafe"
                      r" \(co\)fixpoints:(.*?)\n\s*\n\* Inductives whose positivity is assumed:(.*?)(\n\s*\n|$)", out, flags=re.S)
        if not m:
            self.tie_broken("coqchk", mod, "unparsable summary: " + out[-600:])
            return
        axioms = [a.strip() for a in m.group(1).strip().splitlines() if a.strip() and a.strip() != "<none>"]
        unsafe = [g.strip() for g in (m.group(2), m.group(3), m.group(4)) if g.strip() != "<none>"]
        self.cov["coqchk"] = {"module": mod, "axioms": axioms, "unsafe_flags": unsafe}
        if unsafe:
            self.tie_broken("coqchk", mod, "kernel checks switched off: " + "; ".join(unsafe))
        for a in axioms:
            name = a.split()[0].split(":")[0]
            short = ".".join(name.split(".")[-2:])
            if not any(short == k or name.endswith(k) for k in STD_AXIOMS) and not any(p in name for p in PRIMITIVE_PREFIXES):
                self.tie_broken("coqchk", mod, "axiom outside the standard library: " + a)

    @staticmethod
    def locate_lemma(path: Path, msg: str):
        m = re.search(r"line (\d+)", msg)
        if not m:
            return "?"
        ln = int(m.group(1))
        name = "?"
        for i, line in enumerate(path.read_text().splitlines(), 1):
            if i > ln:
                break
            mm = re.match(r"\s*(?:Lemma|Theorem|Example|Definition|Fixpoint|Corollary)\s+(\w+)", line)
            if mm:
                name = mm.group(1)
        return name

    @staticmethod
    def parse_assumptions(path: Path, out: str):
        """Pair `Print Assumptions X.` commands (in file order) with coqc's output blocks."""
        names = re.findall(r"^Print Assumptions\s+(\w+)\s*\.", path.read_text(), flags=re.M)
        blocks = []
        cur = None
        for line in out.splitlines():
            if line.startswith("Closed under the global context"):
                if cur is not None:
                    blocks.append(cur)
                    cur = None
                blocks.append([])
            elif line.startswith("Axioms:"):
                if cur is not None:
                    blocks.append(cur)
                cur = []
            elif cur is not None:
                m = re.match(r"^([A-Za-z_][\w.']*)\s*$|^([A-Za-z_][\w.']*)\s*:", line)
                if m:
                    cur.append(m.group(1) or m.group(2))
        if cur is not None:
            blocks.append(cur)
        res = {}
        for n, b in zip(names, blocks):
            res[n] = b
        return res

    # ---------------------------------------------------------------- bookkeeping
    def tie_broken(self, kind, name, detail):
        self.broken.append({"kind": kind, "name": name, "detail": detail})

    def violation(self, key, what, replay):
        self.viol.append({"key": key, "what": what, "replay": replay})

    def case(self, canon, nontrivial=True):
        """Count one evaluated case; `canon` is any JSON-able canonical form used for distinctness."""
        self.cov["evaluations"] += 1
        if nontrivial:
            self.distinct.add(hashlib.sha1(json.dumps(canon, sort_keys=True, default=str).encode()).digest()[:8])

    def cases_bulk(self, n_eval, hashes):
        self.cov["evaluations"] += int(n_eval)
        self.distinct.update(hashes)

    def sample(self, s):
        if len(self.cov["samples"]) < 12:
            self.cov["samples"].append(s)

    # ---------------------------------------------------------------- finish
    def known_findings(self):
        kf = VERIF / "known_findings.txt"
        res = {}
        if kf.exists():
            for line in kf.read_text().splitlines():
                m = re.match(r"finding:\s+property=(\w+)\s+key=(\S+)\s+(.*)", line)
                if m and m.group(1) == self.pid:
                    res[m.group(2)] = m.group(3)
        return res

    def finish(self):
        known = self.known_findings()
        lines = []
        n_unknown = 0
        reported_known = set()
        for i, v in enumerate(self.viol):
            if v["key"] in known:
                if v["key"] not in reported_known:
                    lines.append(f"KNOWN-FINDING: property={self.pid} {v['key']}: {known[v['key']]}")
                    reported_known.add(v["key"])
                continue
            n_unknown += 1
            rp = BUILD / "replays" / f"{self.pid}_{i}.json"
            rp.write_text(json.dumps({"property": self.pid, "key": v["key"], "what": v["what"], "seed": self.seed, "tier": self.tier,
                                      "replay": v["replay"], "broken": self.broken}, indent=1, default=str))
            lines.append(f"VIOLATION property={self.pid} replay={rp}")
        if self.broken and n_unknown == 0:
            rp = BUILD / "replays" / f"{self.pid}_broken.json"
            rp.write_text(json.dumps({"property": self.pid, "no_failing_input_found": True,
                                      "broken": self.broken,
                                      "note": "the theorem / correspondence named here no longer checks; the "
                                              "failing-input search found no concrete counterexample"},
                                     indent=1, default=str))
            n_unknown += 1
            lines.append(f"VIOLATION property={self.pid} replay={rp} no-failing-input-found")
        # evidence
        obl = len(self.obligations)
        dis = sum(1 for o in self.obligations if o["status"] == "proved")
        cov = dict(self.cov)
        cov["distinct_nontrivial"] = len(self.distinct)
        cov["obligations"] = max(obl, 1)
        if dis >= 1:
            cov["discharged"] = dis
        else:  # schema: a proof-level record needs discharged >= 1; a run with no discharged obligation reports the generic keys
            cov["discharged_none"] = True
            cov["evaluations"] = max(cov["evaluations"], 1)
        cov["checker_cmd"] = "; ".join(dict.fromkeys(self.checker_cmds)) or "coqc"
        tb = list(self.trusted)
        for a in sorted(self.axioms_seen):
            if a.startswith(PRIMITIVE_PREFIXES):
                tb.append(f"primitive {a} — Coq kernel primitive 63-bit integers (used to parse table literals quickly)")
            else:
                tb.append(f"axiom {a} — {STD_AXIOMS.get(a, 'NOT a standard-library axiom')}")
        cov["trusted_base"] = tb
        cov["theorems"] = self.obligations
        cov["broken_ties"] = self.broken
        cov["known_findings_reported"] = sorted(reported_known)
        if self.notes:
            cov["notes"] = self.notes
        ev = {
            "property_id": self.pid, "tier": self.tier, "seed": self.seed, "level": "proof",
            "coverage": cov, "assumptions": self.assumptions, "wall_s": round(time.time() - self.t0, 2),
            "violations": n_unknown,
        }
        # evidence/ describes runs against /repo itself; runs against a scratch worktree (seeded changes) go elsewhere
        evdir = VERIF / "evidence" if str(REPO) == "/repo" else BUILD / "evidence_scratch"
        evdir.mkdir(exist_ok=True)
        ev["coverage"]["source_tree"] = str(REPO)
        (evdir / f"{self.pid}.json").write_text(json.dumps(ev, indent=1, default=str))
        for l in lines:
            print(l)
        print(f"[{self.pid}] tier={self.tier} seed={self.seed} obligations={dis}/{obl} "
              f"evaluations={cov['evaluations']} distinct={cov['distinct_nontrivial']} "
              f"broken={len(self.broken)} violations={n_unknown} wall={ev['wall_s']}s")
        for b in self.broken:
            print(f"  broken {b['kind']}: {b['name']}: {b['detail'][-400:]}")
        sys.stdout.flush()
        return 1 if n_unknown else 0


def run_impl_script(script: str, args=(), timeout=900, env_extra=None, input=None, cache_dir=None):
    """Run a helper script of tools/impl/ under the implementation interpreter, against /repo's working tree."""
    env = impl_env(env_extra, cache_dir)
    Path(env["NUMBA_CACHE_DIR"]).mkdir(parents=True, exist_ok=True)
    try:
        return sh([PY, str(VERIF / "tools" / "impl" / script), *map(str, args)], timeout=timeout, env=env,
                  input=input, cwd=str(BUILD))
    finally:
        shutil.rmtree(env["NUMBA_CACHE_DIR"], ignore_errors=True)


def coq_zlist(xs):
    return "[" + "; ".join(f"({x})" if x < 0 else str(x) for x in xs) + "]"
