"""M-REID — regenerates the electronics-id part of the model from the working tree (tie G, fail closed).

  * runs the four nullary table builders `build_{mdc,tof,emc,muc}_re2te()` of <repo>/src/pybes3/besio/_reid.py in a
    child interpreter (the file is loaded by path with importlib — it needs only numpy — so no other part of the
    package, and in particular not the prebuilt C++ extension, is involved) and emits the COMPLETE tables as Coq
    `list Z` (parsed through Uint63 literals).  For a nullary builder the table is its whole observable behaviour.
  * extracts the four `uint16_t id = ...` expressions of `RawBinaryParser::fill_digi` in raw_io.cc (two accepted
    shapes: `( digi & MASK ) >> SHIFT` and `( digi >> SHIFT ) & MASK`) and emits them as Gallina functions.
  * emits the pinned reference tables of corpus/reid_ref_*.json as a second set of lists.

Used as a module by tools/props/c10.py; as a script (`reid2coq.py dump <path/_reid.py>`) it is the child process.
"""
from __future__ import annotations
import json, re, sys
from pathlib import Path

DETS = ("mdc", "tof", "emc", "muc")
EXPECT_LEN = {"mdc": 16384, "tof": 16384, "emc": 8192, "muc": 2048}
INVALID = 0xFFFFFFFF
SUBDET_CPP = {"mdc": "MDC", "tof": "TOF", "emc": "EMC", "muc": "MUC"}


class Untranslatable(Exception):
    pass


# --------------------------------------------------------------------------------------------- child process
def _dump(path):
    import importlib.util
    import numpy as np
    spec = importlib.util.spec_from_file_location("_reid_under_study", path)
    m = importlib.util.module_from_spec(spec)
    spec.loader.exec_module(m)
    out = {}
    for d in DETS:
        fn = getattr(m, f"build_{d}_re2te")
        t = fn()
        if not isinstance(t, np.ndarray):
            raise SystemExit(f"build_{d}_re2te() returned {type(t).__name__}, not ndarray")
        t2 = fn()  # the builder is nullary and cached; a second call must describe the same table
        out[d] = {"dtype": str(t.dtype), "shape": list(t.shape), "writeable": bool(t.flags.writeable),
                  "values": [int(v) for v in t.ravel().tolist()],
                  "stable": bool(t2 is t or (t2.shape == t.shape and bool((t2 == t).all())))}
    out["_invalid"] = int(getattr(m, "_INVALID_TEID"))
    json.dump(out, sys.stdout)


# --------------------------------------------------------------------------------------------- tables
def load_tables(reid_py: Path, python="/venv/bin/python", timeout=120):
    """returns ({det: [int]}, log); raises Untranslatable on anything unexpected."""
    import subprocess, os
    env = dict(os.environ)
    env.pop("PYTHONPATH", None)
    env["PYTHONDONTWRITEBYTECODE"] = "1"
    env["PYTHONHASHSEED"] = "0"
    try:
        p = subprocess.run([python, str(Path(__file__).resolve()), "dump", str(reid_py)], capture_output=True, text=True,
                           timeout=timeout, env=env, cwd="/")
    except subprocess.TimeoutExpired:
        raise Untranslatable(f"table builders of {reid_py} did not finish within {timeout}s")
    if p.returncode != 0:
        raise Untranslatable(f"table builders of {reid_py} failed: {p.stderr[-800:]}")
    try:
        raw = json.loads(p.stdout)
    except Exception as e:
        raise Untranslatable(f"unreadable builder output: {e}")
    if raw.get("_invalid") != INVALID:
        raise Untranslatable(f"_INVALID_TEID is {raw.get('_invalid')!r}, expected 0xFFFFFFFF")
    tabs, log = {}, {}
    for d in DETS:
        r = raw[d]
        if r["dtype"] != "uint32":
            raise Untranslatable(f"{d} table dtype {r['dtype']}, expected uint32")
        if r["shape"] != [EXPECT_LEN[d]]:
            raise Untranslatable(f"{d} table shape {r['shape']}, expected [{EXPECT_LEN[d]}]")
        if not r["stable"]:
            raise Untranslatable(f"build_{d}_re2te() returned different tables on two calls")
        v = r["values"]
        if len(v) != EXPECT_LEN[d] or not all(isinstance(x, int) and 0 <= x <= INVALID for x in v):
            raise Untranslatable(f"{d} table values outside uint32")
        tabs[d] = v
        log[d] = {"entries": len(v), "mapped": sum(1 for x in v if x != INVALID), "writeable": r["writeable"]}
    return tabs, log


def _col(name, vals):
    lit = ";".join(map(str, vals))
    return (f"Definition {name}_raw : list int := [{lit}]%uint63.\n"
            f"Definition {name} : list Z := Eval vm_compute in map Uint63.to_Z {name}_raw.\n")


HDR = ("(* GENERATED on every run by tools/reid2coq.py from {src} — do not edit *)\n"
       "From Coq Require Import ZArith List Uint63.\nImport ListNotations.\n")


def tables_v(tabs, src, prefix="reid"):
    t = HDR.format(src=src)
    for d in DETS:
        t += _col(f"{prefix}_{d}", tabs[d])
    return t


# --------------------------------------------------------------------------------------------- fill_digi id fields
_NUM = r"(0[xX][0-9a-fA-F]+|\d+)"
_SHAPE_A = re.compile(r"^\(\s*digi\s*&\s*" + _NUM + r"\s*\)\s*>>\s*" + _NUM + r"$")      # ( digi & M ) >> S
_SHAPE_B = re.compile(r"^\(\s*digi\s*>>\s*" + _NUM + r"\s*\)\s*&\s*" + _NUM + r"$")      # ( digi >> S ) & M


def id_fields(raw_io_cc: Path):
    """returns ({det: ("A"|"B", mask, shift, ctype_bits)}, text of the Gallina definitions)"""
    src = raw_io_cc.read_text()
    src = re.sub(r"//[^\n]*", "", src)
    src = re.sub(r"/\*.*?\*/", " ", src, flags=re.S)
    m = re.search(r"void\s+RawBinaryParser::fill_digi\s*\(", src)
    if not m:
        raise Untranslatable("raw_io.cc: RawBinaryParser::fill_digi not found")
    body = src[m.end():]
    nxt = re.search(r"\n[A-Za-z_:<>\w\s\*&]+RawBinaryParser::\w+\s*\(", body)
    if nxt:
        body = body[:nxt.start()]
    blocks = re.split(r"if\s*\(\s*sub_det_id\s*==\s*SubDetID::(\w+)\s*\)", body)
    seen = {}
    for name, blk in zip(blocks[1::2], blocks[2::2]):
        if name in seen:
            raise Untranslatable(f"raw_io.cc: two fill_digi branches for {name}")
        seen[name] = blk
    out, defs = {}, ""
    for d in DETS:
        blk = seen.get(SUBDET_CPP[d])
        if blk is None:
            raise Untranslatable(f"raw_io.cc: fill_digi has no branch for {SUBDET_CPP[d]}")
        if not re.search(r"for\s*\(\s*auto\s+digi\s*:\s*tmp_data\s*\)", blk):
            raise Untranslatable(f"raw_io.cc: {d} branch does not iterate `auto digi : tmp_data`")
        decls = re.findall(r"\b(u?int\d+_t|unsigned|int|auto|size_t)\s+id\s*=\s*([^;]+);", blk)
        if len(decls) != 1:
            raise Untranslatable(f"raw_io.cc: {d} branch has {len(decls)} declarations of `id`, expected 1")
        ctype, expr = decls[0]
        if ctype != "uint16_t":
            raise Untranslatable(f"raw_io.cc: {d} id declared {ctype}, expected uint16_t")
        if not re.search(r"data_id\s*\.\s*push_back\s*\(\s*id\s*\)", blk):
            raise Untranslatable(f"raw_io.cc: {d} branch does not push `id` into data_id")
        e = expr.strip()
        a, b = _SHAPE_A.match(e), _SHAPE_B.match(e)
        if a:
            mask, shift = int(a.group(1), 0), int(a.group(2), 0)
            out[d] = ("A", mask, shift)
            defs += (f"(* raw_io.cc fill_digi {SUBDET_CPP[d]}: uint16_t id = {e} *)\n"
                     f"Definition raw_id_{d} (digi : Z) : Z := u16 (Z.shiftr (Z.land digi {mask}) {shift}).\n")
        elif b:
            shift, mask = int(b.group(1), 0), int(b.group(2), 0)
            out[d] = ("B", mask, shift)
            defs += (f"(* raw_io.cc fill_digi {SUBDET_CPP[d]}: uint16_t id = {e} *)\n"
                     f"Definition raw_id_{d} (digi : Z) : Z := u16 (Z.land (Z.shiftr digi {shift}) {mask}).\n")
        else:
            raise Untranslatable(f"raw_io.cc: {d} id expression `{e}` is outside the accepted shapes")
        if not (0 <= shift < 32 and 0 <= mask <= 0xFFFFFFFF):
            raise Untranslatable(f"raw_io.cc: {d} id mask/shift out of 32-bit range")
    return out, defs


def eval_id_field(spec, w):
    kind, mask, shift = spec
    return (((w & mask) >> shift) if kind == "A" else ((w >> shift) & mask)) & 0xFFFF


# --------------------------------------------------------------------------------------------- whole Gen set
def generate(repo: Path, corpus: Path):
    """returns (files, log, tabs, ref, idspec).  ref is None when no pinned reference exists yet."""
    reid_py = repo / "src" / "pybes3" / "besio" / "_reid.py"
    cc = repo / "src" / "pybes3" / "besio" / "cpp" / "raw_io.cc"
    tabs, log = load_tables(reid_py)
    idspec, defs = id_fields(cc)
    files = {}
    files["Reid.v"] = (tables_v(tabs, reid_py) + "From PV.Lib Require Import Bits.\nLocal Open Scope Z_scope.\n"
                       f"Definition INVALID_TEID : Z := {INVALID}.\n" + defs)
    ref = {}
    for d in DETS:
        f = corpus / f"reid_ref_{d}.json"
        if not f.exists():
            ref = None
            break
        v = json.loads(f.read_text())["table"]
        if not (isinstance(v, list) and all(isinstance(x, int) and 0 <= x <= INVALID for x in v)):
            raise Untranslatable(f"{f}: malformed pinned reference")
        ref[d] = v
    if ref is not None:
        files["ReidRef.v"] = tables_v(ref, "corpus/reid_ref_*.json (pinned reference)", prefix="ref")
    log = {"tables": log, "id_fields": {d: {"shape": s[0], "mask": hex(s[1]), "shift": s[2]} for d, s in idspec.items()},
           "pinned_reference": ref is not None}
    return files, log, tabs, ref, idspec


def write_reference(tabs, corpus: Path, note):
    corpus.mkdir(exist_ok=True)
    for d in DETS:
        (corpus / f"reid_ref_{d}.json").write_text(json.dumps(
            {"detector": d, "note": note, "entries": len(tabs[d]),
             "mapped": sum(1 for x in tabs[d] if x != INVALID), "table": tabs[d]}, separators=(",", ":")))


if __name__ == "__main__":
    if len(sys.argv) == 3 and sys.argv[1] == "dump":
        _dump(sys.argv[2])
    else:
        raise SystemExit("usage: reid2coq.py dump <path/to/_reid.py>")
