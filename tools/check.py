#!/venv/bin/python
"""Single entry point: tools/check.py <ID> [--tier quick|thorough] [--replay path]"""
import argparse, importlib, os, sys
sys.path.insert(0, os.path.dirname(os.path.abspath(__file__)))
import vlib

def main():
    ap = argparse.ArgumentParser()
    ap.add_argument("pid")
    ap.add_argument("--tier", default=os.environ.get("VERIF_TIER", "quick"))
    ap.add_argument("--replay", default=None)
    a = ap.parse_args()
    seed = int(os.environ.get("VERIF_SEED", "20260930"))
    mod = importlib.import_module("props." + a.pid.lower())
    if a.replay:
        sys.exit(mod.replay(a.replay))
    vlib.ensure_static()
    import fcntl
    vlib.BUILD.mkdir(exist_ok=True)
    lock = open(vlib.BUILD / f".lock_{a.pid}", "w")
    fcntl.flock(lock, fcntl.LOCK_EX)   # runs of the same property share build/<ID>: serialise them
    ck = vlib.Check(a.pid, a.tier, seed)
    try:
        import pins
        pins.verify(ck)
        mod.run(ck)
    except Exception as e:  # a crash of the machinery must not look like a pass
        import traceback
        ck.tie_broken("harness-error", type(e).__name__, traceback.format_exc()[-2000:])
    sys.exit(ck.finish())

if __name__ == "__main__":
    main()
