"""Regenerates the geometry part of the model from /repo's working tree:
   - integer / double columns of mdc_geom.npz and emc_geom.npz (complete tables, exact),
   - the gid / lookup kernels of mdc.py and emc.py (ast -> Gallina, fail closed),
   - the derived tables built by _ensure_loaded (statement dictionary, fail closed)."""
from __future__ import annotations
import ast, math, sys
import numpy as np
import py2coq_bits as pb
from py2coq_bits import Untranslatable

INT_HDR = ("(* GENERATED on every run by tools/gen_geom.py from {src} — do not edit *)\n"
           "From Coq Require Import ZArith List Uint63.\nImport ListNotations.\n")


def int_col(name, arr):
    """integer column as list Z, parsed through fast Uint63 literals (value + 2^20 to stay non-negative)."""
    vals = [int(v) for v in np.asarray(arr).astype(np.int64).tolist()]
    assert all(-(1 << 20) < v < (1 << 40) for v in vals)
    lit = ";".join(str(v + (1 << 20)) for v in vals)
    return (f"Definition {name}_raw : list int := [{lit}]%uint63.\n"
            f"Definition {name} : list Z := Eval vm_compute in map (fun x => (Uint63.to_Z x - 1048576)%Z) {name}_raw.\n")


def dyadic(v: float):
    """exact (m, e) with v = m * 2^e, m odd or 0"""
    if v == 0:
        return 0, 0
    if not math.isfinite(v):
        raise Untranslatable("non-finite table entry")
    m, e = math.frexp(v)
    mi = int(m * (1 << 53)); ee = e - 53
    while mi % 2 == 0:
        mi //= 2; ee += 1
    assert float(mi) * 2.0 ** ee == v
    return mi, ee


def dy_col(name, arr, K):
    """double column as list Z of v * 2^K (exact; K is common to the file), via Uint63 (|m| , meta) literals"""
    ms, metas = [], []
    for v in np.asarray(arr, dtype=np.float64).tolist():
        m, e = dyadic(v)
        s = e + K
        if s < 0:
            raise Untranslatable(f"table entry {v!r} needs more than {K} fractional bits")
        ms.append(abs(m)); metas.append(2 * s + (1 if m < 0 else 0))
    return (f"Definition {name}_m : list int := [{';'.join(map(str, ms))}]%uint63.\n"
            f"Definition {name}_e : list int := [{';'.join(map(str, metas))}]%uint63.\n"
            f"Definition {name} : list Z := map2z {name}_m {name}_e.\n")


DY_HDR = INT_HDR + ("Local Open Scope Z_scope.\n"
  "Definition dyz (m e : int) : Z := let ez := Uint63.to_Z e in\n"
  "  let v := Z.shiftl (Uint63.to_Z m) (ez / 2) in if ez mod 2 =? 1 then - v else v.\n"
  "Fixpoint map2z (ms es : list int) : list Z := match ms, es with m :: mr, e :: er => dyz m e :: map2z mr er | _, _ => [] end.\n")


def fractional_bits(arrs):
    k = 0
    for a in arrs:
        for v in np.asarray(a, dtype=np.float64).ravel().tolist():
            m, e = dyadic(v)
            k = max(k, -e)
    return k


# ---------------------------------------------------------------------------------------------------------
# loader (_ensure_loaded) statement dictionaries
MDC_LOADER_DERIVED = {
    "layer_start_gid = np.zeros(44, dtype=np.uint16)": None,
    "layer_start_gid[1:] = np.cumsum(np.bincount(_layer, minlength=43))":
        "Definition layer_start_gid : list Z := Eval vm_compute in 0 :: map (fun x => x mod 65536) (cumsum (bincount 43 {_layer})).",
    "dx_dz = (_east_x - _west_x) / (_east_z - _west_z)": "R:dx_dz",
    "dy_dz = (_east_y - _west_y) / (_east_z - _west_z)": "R:dy_dz",
    "_first_wire_idx = np.searchsorted(_layer, np.arange(43))": None,
    "is_layer_stereo = _is_stereo[_first_wire_idx].astype(bool)":
        "Definition is_layer_stereo : list Z := Eval vm_compute in map (fun l => if tlookup {_is_stereo} (searchsorted {_layer} l) =? 0 then 0 else 1) (zseq 43).",
}


def parse_loader(tree, fname, dict_name, npz_name, derived):
    fn = next((n for n in tree.body if isinstance(n, ast.FunctionDef) and n.name == "_ensure_loaded"), None)
    if fn is None:
        raise Untranslatable(f"{fname}: no _ensure_loaded")
    cols = {}   # python global -> npz column
    out = []
    seen = set()
    for s in fn.body:
        t = ast.unparse(s)
        if isinstance(s, ast.Expr) and isinstance(s.value, ast.Constant):
            continue
        if isinstance(s, ast.Global) or t in ("if _loaded:\n    return", "_loaded = True"):
            continue
        if t == f"{dict_name} = dict(np.load(_cur_dir / '{npz_name}'))":
            continue
        if (isinstance(s, ast.Assign) and len(s.targets) == 1 and isinstance(s.targets[0], ast.Name)
                and isinstance(s.value, ast.Subscript) and ast.unparse(s.value.value) == dict_name
                and isinstance(s.value.slice, ast.Constant) and isinstance(s.value.slice.value, str)):
            cols[s.targets[0].id] = s.value.slice.value
            continue
        if t in derived:
            seen.add(t)
            continue
        raise Untranslatable(f"{fname}:{s.lineno}: unrecognised loader statement: {t}")
    missing = set(derived) - seen
    if missing:
        raise Untranslatable(f"{fname}: loader statements missing: {sorted(missing)}")
    return cols


def kernel_module(path, tables, only, extra_skip=()):
    def skip_ok(node, text):
        if isinstance(node, ast.FunctionDef):
            return node.name in ("_ensure_loaded", "_make_lazy", "get_mdc_wire_position", "get_emc_crystal_position") or node.name in extra_skip
        if isinstance(node, ast.Assign):
            v = node.value
            if isinstance(v, ast.Constant) and (v.value is None or isinstance(v.value, (float, bool))):
                return True
            if text.startswith("_cur_dir = ") or text.startswith("superlayer_splits = np.array("):
                return True
        if isinstance(node, ast.For) and "_make_lazy" in text:
            return True
        if isinstance(node, ast.Delete):
            return True
        return False
    mt = pb.ModuleTranslator(path, tables=tables, skip_stmt_ok=skip_ok)
    return mt


def lazy_wrapped(tree):
    for n in tree.body:
        if isinstance(n, ast.For) and "_make_lazy" in ast.unparse(n) and isinstance(n.iter, ast.List):
            return [e.value for e in n.iter.elts if isinstance(e, ast.Constant)]
    return []


def generate_int(srcdir):
    """returns dict filename -> text, and a log. Integer tables + integer kernels."""
    files, log = {}, {}
    gdir = srcdir / "detectors" / "geometry"
    mdc = np.load(gdir / "mdc_geom.npz"); emc = np.load(gdir / "emc_geom.npz")
    exp_m = {"gid", "superlayer", "layer", "wire", "east_x", "east_y", "east_z", "west_x", "west_y", "west_z", "stereo", "is_stereo"}
    exp_e = {"gid", "part", "theta", "phi", "points_x", "points_y", "points_z", "center_x", "center_y", "center_z",
             "front_center_x", "front_center_y", "front_center_z"}
    if set(mdc.files) != exp_m or set(emc.files) != exp_e:
        raise Untranslatable(f"unexpected npz columns: {sorted(mdc.files)} / {sorted(emc.files)}")
    t = INT_HDR.format(src="mdc_geom.npz")
    for c in ("gid", "superlayer", "layer", "wire", "stereo", "is_stereo"):
        if mdc[c].ndim != 1:
            raise Untranslatable("mdc column rank")
        t += int_col("mdc_" + c, mdc[c])
    files["TabMdcInt.v"] = t
    t = INT_HDR.format(src="emc_geom.npz")
    for c in ("gid", "part", "theta", "phi"):
        t += int_col("emc_" + c, emc[c])
    files["TabEmcInt.v"] = t
    log["rows"] = {"mdc": int(len(mdc["gid"])), "emc": int(len(emc["gid"]))}

    # --- mdc.py
    mpath = str(gdir / "mdc.py")
    mtree = ast.parse(open(mpath).read())
    mcols = parse_loader(mtree, mpath, "_mdc_wire_position", "mdc_geom.npz", MDC_LOADER_DERIVED)
    int_tabs = {py: ("mdc_" + col, "Z") for py, col in mcols.items() if col in ("gid", "superlayer", "layer", "wire", "stereo", "is_stereo")}
    int_tabs["layer_start_gid"] = ("layer_start_gid", "Z")
    int_tabs["is_layer_stereo"] = ("is_layer_stereo", "Z")
    splits = None
    for n in mtree.body:
        if isinstance(n, ast.Assign) and ast.unparse(n.targets[0]) == "superlayer_splits":
            v = n.value
            if not (isinstance(v, ast.Call) and ast.unparse(v.func) == "np.array" and len(v.args) == 1 and isinstance(v.args[0], ast.List)
                    and all(isinstance(e, ast.Constant) and isinstance(e.value, int) for e in v.args[0].elts) and not v.keywords):
                raise Untranslatable("superlayer_splits is not a literal integer array")
            splits = [e.value for e in v.args[0].elts]
    if splits is None:
        raise Untranslatable("superlayer_splits not found")
    int_kernels = ["get_mdc_gid", "mdc_gid_to_superlayer", "mdc_layer_to_superlayer", "mdc_gid_to_layer", "mdc_gid_to_wire",
                   "mdc_gid_to_stereo", "mdc_layer_to_is_stereo", "mdc_gid_to_is_stereo"]
    float_kernels = ["mdc_gid_to_west_x", "mdc_gid_to_west_y", "mdc_gid_to_west_z", "mdc_gid_to_east_x", "mdc_gid_to_east_y",
                     "mdc_gid_to_east_z", "mdc_gid_z_to_x", "mdc_gid_z_to_y"]
    mt = kernel_module(mpath, int_tabs, int_kernels, extra_skip=float_kernels)
    mt.digitize_tables = {"superlayer_splits": "superlayer_splits"}
    body = mt.run(only=set(int_kernels))
    missing = [k for k in int_kernels if k not in mt.funcs]
    if missing:
        raise Untranslatable(f"mdc.py: kernels missing: {missing}")
    derived = []
    for stmt, tpl in MDC_LOADER_DERIVED.items():
        if tpl and not tpl.startswith("R:"):
            derived.append(tpl.format(**{py: "mdc_" + col for py, col in mcols.items()}))
    files["GidMdc.v"] = (pb.HEADER.format(src=mpath) + "From PV.Lib Require Import Tables.\nFrom PV.Gen Require Import TabMdcInt.\n"
                         "Import ListNotations.\n"
                         f"Definition superlayer_splits : list Z := {pb_zlist(splits)}.\n" + "\n".join(derived) + "\n" + body + "\n")
    log["mdc_kernels"] = mt.log
    log["mdc_lazy_wrapped"] = lazy_wrapped(mtree)
    log["mdc_columns"] = mcols

    # --- emc.py
    epath = str(gdir / "emc.py")
    etree = ast.parse(open(epath).read())
    ecols = parse_loader(etree, epath, "_emc_geom", "emc_geom.npz", {})
    etabs = {py: ("emc_" + col, "Z") for py, col in ecols.items() if col in ("gid", "part", "theta", "phi")}
    eint = ["get_emc_gid", "emc_gid_to_part", "emc_gid_to_theta", "emc_gid_to_phi"]
    efloat = ["emc_gid_to_point_x", "emc_gid_to_point_y", "emc_gid_to_point_z", "emc_gid_to_center_x", "emc_gid_to_center_y",
              "emc_gid_to_center_z", "emc_gid_to_front_center_x", "emc_gid_to_front_center_y", "emc_gid_to_front_center_z"]
    et = kernel_module(epath, etabs, eint, extra_skip=efloat)
    ebody = et.run(only=set(eint))
    missing = [k for k in eint if k not in et.funcs]
    if missing:
        raise Untranslatable(f"emc.py: kernels missing: {missing}")
    files["GidEmc.v"] = (pb.HEADER.format(src=epath) + "From PV.Lib Require Import Tables.\nFrom PV.Gen Require Import TabEmcInt.\n"
                         + ebody + "\n")
    log["emc_kernels"] = et.log
    log["emc_lazy_wrapped"] = lazy_wrapped(etree)
    log["emc_columns"] = ecols
    return files, log


def pb_zlist(xs):
    return "[" + "; ".join(pb.zlit(x) for x in xs) + "]"


# =========================================================================================================
# double-valued columns and the real-valued lookup kernels (C09)
RHDR = ("(* GENERATED on every run by tools/gen_geom.py from {src} — do not edit *)\n"
        "From Coq Require Import ZArith Bool List Reals.\nFrom PV.Lib Require Import Bits Tables RTables.\n")

MDC_POS = ("east_x", "east_y", "east_z", "west_x", "west_y", "west_z")
EMC_CTR = ("center_x", "center_y", "center_z", "front_center_x", "front_center_y", "front_center_z")
EMC_PTS = ("points_x", "points_y", "points_z")
PT_CHUNK = 780  # crystals per file


def copy_discipline(tree, fname, fn_name, dict_name):
    """statement dictionary for get_*_position: returns 'copy' iff every array handed out derives from a fresh copy"""
    fn = next((n for n in tree.body if isinstance(n, ast.FunctionDef) and n.name == fn_name), None)
    if fn is None:
        raise Untranslatable(f"{fname}: no {fn_name}")
    texts = [ast.unparse(s) for s in fn.body if not (isinstance(s, ast.Expr) and isinstance(s.value, ast.Constant))]
    if "_ensure_loaded()" not in texts[:1]:
        raise Untranslatable(f"{fname}: {fn_name} does not load first")
    cp = f"cp: dict[str, np.ndarray] = {{k: v.copy() for k, v in {dict_name}.items()}}"
    alias_markers = [t for t in texts if dict_name in t and t != cp]
    if cp in texts and not alias_markers:
        mode = "copy"
    else:
        mode = "alias"
    return mode, texts


def generate_float(srcdir):
    """returns (files, groups, log): groups = list of lists of file names that can be compiled in parallel, in order"""
    files, log = {}, {}
    gdir = srcdir / "detectors" / "geometry"
    mdc = np.load(gdir / "mdc_geom.npz"); emc = np.load(gdir / "emc_geom.npz")
    for c in MDC_POS:
        if mdc[c].dtype != np.float64 or mdc[c].shape != (6796,):
            raise Untranslatable(f"mdc column {c}: {mdc[c].dtype} {mdc[c].shape}")
    for c in EMC_CTR:
        if emc[c].dtype != np.float64 or emc[c].shape != (6240,):
            raise Untranslatable(f"emc column {c}")
    for c in EMC_PTS:
        if emc[c].dtype != np.float64 or emc[c].shape != (6240, 8):
            raise Untranslatable(f"emc column {c}")
    Km = fractional_bits([mdc[c] for c in MDC_POS])
    Ke = fractional_bits([emc[c] for c in EMC_CTR + EMC_PTS])
    log["K"] = {"mdc": Km, "emc": Ke}
    g1 = []
    for c in MDC_POS:
        files[f"TabMdcPos_{c}.v"] = DY_HDR.format(src="mdc_geom.npz") + dy_col("mdc_" + c, mdc[c], Km)
        g1.append(f"TabMdcPos_{c}.v")
    nchunk = (6240 + PT_CHUNK - 1) // PT_CHUNK
    for k in range(nchunk):
        t = DY_HDR.format(src="emc_geom.npz")
        sl = slice(k * PT_CHUNK, (k + 1) * PT_CHUNK)
        for c in EMC_CTR:
            t += dy_col(f"emc_{c}_{k}", emc[c][sl], Ke)
        for c in EMC_PTS:
            t += dy_col(f"emc_{c}_{k}", emc[c][sl].ravel(), Ke)
        t += f"Definition emc_chunk_rows_{k} : Z := {len(emc['gid'][sl])}.\n"
        files[f"TabEmcPos_{k}.v"] = t
        g1.append(f"TabEmcPos_{k}.v")
    t = ("From Coq Require Import ZArith List.\nImport ListNotations.\nFrom PV.Lib Require Import Tables RTables.\n"
         + "".join(f"From PV.Gen Require Import TabMdcPos_{c}.\n" for c in MDC_POS)
         + "".join(f"From PV.Gen Require Import TabEmcPos_{k}.\n" for k in range(nchunk))
         + f"Definition mdc_pos_K : Z := {Km}%Z.\nDefinition emc_pos_K : Z := {Ke}%Z.\n"
         + f"Definition emc_chunk : Z := {PT_CHUNK}%Z.\nDefinition emc_nchunk : Z := {nchunk}%Z.\n")
    for c in EMC_CTR:
        t += f"Definition emc_{c} : list Z := " + " ++ ".join(f"emc_{c}_{k}" for k in range(nchunk)) + ".\n"
    for c in EMC_PTS:
        t += (f"Definition emc_{c} : tab2 := {{| t2w := 8%Z; t2flat := "
              + " ++ ".join(f"emc_{c}_{k}" for k in range(nchunk)) + " |}.\n")
    files["TabPos.v"] = t
    # ---- kernels over R
    mpath = str(gdir / "mdc.py")
    mtree = ast.parse(open(mpath).read())
    mcols = parse_loader(mtree, mpath, "_mdc_wire_position", "mdc_geom.npz", MDC_LOADER_DERIVED)
    tabs = {}
    for py, col in mcols.items():
        if col in MDC_POS:
            tabs[py] = (f"mdc_pos_K mdc_{col}", "R")
    tabs["dx_dz"] = ("dx_dz", "RF")
    tabs["dy_dz"] = ("dy_dz", "RF")
    inv = {col: py for py, col in mcols.items()}
    float_kernels = ["mdc_gid_to_west_x", "mdc_gid_to_west_y", "mdc_gid_to_west_z", "mdc_gid_to_east_x", "mdc_gid_to_east_y",
                     "mdc_gid_to_east_z", "mdc_gid_z_to_x", "mdc_gid_z_to_y"]
    int_kernels = ["get_mdc_gid", "mdc_gid_to_superlayer", "mdc_layer_to_superlayer", "mdc_gid_to_layer", "mdc_gid_to_wire",
                   "mdc_gid_to_stereo", "mdc_layer_to_is_stereo", "mdc_gid_to_is_stereo"]
    mt = kernel_module(mpath, tabs, float_kernels, extra_skip=int_kernels)
    body = mt.run(only=set(float_kernels))
    body = "\n".join(l for l in body.splitlines() if not l.startswith("Definition superlayer"))  # int consts not needed
    missing = [k for k in float_kernels if k not in mt.funcs]
    if missing:
        raise Untranslatable(f"mdc.py: float kernels missing: {missing}")
    R = lambda c: f"rlookup mdc_pos_K mdc_{c} gid"
    derived = (f"Definition dx_dz (gid : Z) : R := (({R('east_x')}) - ({R('west_x')})) / (({R('east_z')}) - ({R('west_z')})).\n"
               f"Definition dy_dz (gid : Z) : R := (({R('east_y')}) - ({R('west_y')})) / (({R('east_z')}) - ({R('west_z')})).\n")
    mode_m, texts_m = copy_discipline(mtree, mpath, "get_mdc_wire_position", "_mdc_wire_position")
    epath = str(gdir / "emc.py")
    etree = ast.parse(open(epath).read())
    ecols = parse_loader(etree, epath, "_emc_geom", "emc_geom.npz", {})
    etabs = {py: (f"emc_pos_K emc_{col}", "R") for py, col in ecols.items() if col in EMC_CTR + EMC_PTS}
    efloat = ["emc_gid_to_point_x", "emc_gid_to_point_y", "emc_gid_to_point_z", "emc_gid_to_center_x", "emc_gid_to_center_y",
              "emc_gid_to_center_z", "emc_gid_to_front_center_x", "emc_gid_to_front_center_y", "emc_gid_to_front_center_z"]
    et = kernel_module(epath, etabs, efloat, extra_skip=["get_emc_gid", "emc_gid_to_part", "emc_gid_to_theta", "emc_gid_to_phi"])
    ebody = et.run(only=set(efloat))
    missing = [k for k in efloat if k not in et.funcs]
    if missing:
        raise Untranslatable(f"emc.py: float kernels missing: {missing}")
    mode_e, texts_e = copy_discipline(etree, epath, "get_emc_crystal_position", "_emc_geom")
    files["PosCode.v"] = (RHDR.format(src="mdc.py, emc.py") + "From PV.Gen Require Import TabPos "
                          + " ".join(f"TabMdcPos_{c}" for c in MDC_POS)
                          + ".\nLocal Open Scope R_scope.\n" + derived + body + "\n" + ebody + "\n"
                          + f"Definition mdc_table_handed_out_as_copy : bool := {'true' if mode_m == 'copy' else 'false'}.\n"
                          + f"Definition emc_table_handed_out_as_copy : bool := {'true' if mode_e == 'copy' else 'false'}.\n")
    log["float_kernels"] = mt.log + et.log
    log["copy_discipline"] = {"mdc": mode_m, "emc": mode_e}
    return files, [g1, ["TabPos.v"], ["PosCode.v"]], log
