import struct, numpy as np
def words(*ws): return list(ws)
def rob(subdet, data, status=[], status_pos=0, rob_status=[], rob_spec=[]):
    rod_header = [0xEE1234EE, 9] + [0]*7
    body = (status+data) if status_pos==0 else (data+status)
    trailer=[len(status), len(data), status_pos]
    rob_header=[0xDD1234DD, 0, 0, 0x3000000, subdet<<16, len(rob_status)]+rob_status+[len(rob_spec)]+rob_spec
    rob_header[2]=len(rob_header)
    tot=len(rob_header)+len(rod_header)+len(body)+3
    rob_header[1]=tot
    return rob_header+rod_header+body+trailer
def ros(subdet, robs, status=[]):
    h=[0xCC1234CC,0,0,0x3000000,subdet<<16,len(status)]+status+[3,1,2,3]
    h[2]=len(h); body=[w for r in robs for w in r]; h[1]=len(h)+len(body); return h+body
def subdet(sd, roses, status=[], spec=[]):
    h=[0xBB1234BB,0,0,0x3000000,sd<<16,len(status)]+status+[len(spec)]+spec
    h[2]=len(h); body=[w for r in roses for w in r]; h[1]=len(h)+len(body); return h+body
def event(hdr8, subdets, status=[]):
    t,no,run,l1,t1,t2,t3,t4=hdr8
    h=[0xAA1234AA,0,0,0x3000000,0,len(status)]+status+[10,t,no,run,l1,0,0,t1,t2,t3,t4]
    h[2]=len(h); body=[w for s in subdets for w in s]; h[1]=len(h)+len(body); return h+body
def block(events, num=0):
    body=[w for e in events for w in e]
    return [0x1234CCCC, 4, num, 4*len(body)]+body
def rawfile(blocks, name=b"abc.raw", tag=b"tg", nev=0):
    def pad(s): return s+b" "*((-len(s))%4)
    hdr=[0x1234AAAA,8,1,2,3,4,0,0]
    b=struct.pack("<%dI"%len(hdr),*hdr)
    b+=struct.pack("<II",0x1234AABB,len(name))+pad(name)+struct.pack("<I",len(tag))+pad(tag)
    rp=[0x1234BBBB,9,100,1000,0,1,2,3,4]
    b+=struct.pack("<%dI"%len(rp),*rp)
    for bl in blocks: b+=struct.pack("<%dI"%len(bl),*bl)
    tail=[0x1234DDDD,10,0,0,nev,0,0,0,0,0x1234EEEE]
    b+=struct.pack("<%dI"%len(tail),*tail)
    return b
def mdcw(id,tq,ov,val): return (id<<18)|(tq<<17)|(ov<<16)|val
if __name__=="__main__":
    ev=lambda i: event((10+i,i,100,i,1,2,3,4),[
        subdet(0xA1,[ros(0xA1,[rob(0xA1,[mdcw(5,0,0,111),mdcw(5,1,1,222),mdcw(3,1,0,7)],status=[9,9],status_pos=0),
                                rob(0xA1,[mdcw(5,0,0,1)],status=[8],status_pos=1)])]),
        subdet(0xA3,[ros(0xA3,[rob(0xA3,[(77<<19)|(5<<13)|(2<<11)|0x123])])]),
        subdet(0xA4,[ros(0xA4,[rob(0xA4,[(300<<16)|0xBEEF])])]),
        subdet(0xA2,[]),
        subdet(0x99,[ros(0x99,[rob(0x99,[1,2,3])])]),
    ])
    blocks=[block([ev(0)],0),block([ev(1),ev(2)],1),block([ev(3)],2)]
    open("/tmp/proto/t.raw","wb").write(rawfile(blocks,nev=4))
