From Coq Require Import Reals Lra Lia.
From Coquelicot Require Import Coquelicot.
Local Open Scope R_scope.

Section J.
Variables (s dr r x0 y0 x1 y1 : R).
Hypothesis Hs : s * s = 1.
Definition X (phi : R) := s * (x0 + (dr + r) * cos phi - x1).
Definition Y (phi : R) := s * (y0 + (dr + r) * sin phi - y1).
Definition ndr (phi : R) := s * sqrt (X phi * X phi + Y phi * Y phi) - r.

Lemma d_ndr_dphi (phi phi' : R) :
  let rho := sqrt (X phi * X phi + Y phi * Y phi) in
  0 < rho -> X phi = rho * cos phi' -> Y phi = rho * sin phi' ->
  is_derive ndr phi ((dr + r) * sin (phi' - phi)).
Proof.
  intros rho Hrho HX HY.
  assert (Hpos : 0 < X phi * X phi + Y phi * Y phi).
  { destruct (Rle_lt_dec (X phi * X phi + Y phi * Y phi) 0) as [Hle|Hlt]; [|exact Hlt].
    exfalso. unfold rho in Hrho. rewrite sqrt_neg_0 in Hrho by exact Hle. lra. }
  unfold ndr, X, Y.
  auto_derive.
  - unfold X, Y in Hpos. repeat split; auto. 
  - replace (s * (x0 + (dr + r) * cos phi + - x1)) with (X phi) by (unfold X; ring).
    replace (s * (y0 + (dr + r) * sin phi + - y1)) with (Y phi) by (unfold Y; ring).
    fold rho. rewrite sin_minus.
    assert (Hr : rho <> 0) by lra.
    rewrite HX, HY.
    replace (s * ((s * ((dr + r) * (1 * - sin phi)) * (rho * cos phi') + rho * cos phi' * (s * ((dr + r) * (1 * - sin phi))) + (s * ((dr + r) * (1 * cos phi)) * (rho * sin phi') + rho * sin phi' * (s * ((dr + r) * (1 * cos phi))))) * / (2 * rho)))
      with ((s*s) * ((dr + r) * (sin phi' * cos phi - cos phi' * sin phi))) by (field; exact Hr).
    rewrite Hs. ring.
Qed.
End J.
