# scratch reference decoder: member-by-member deserialisation following the file's streamer info
import struct, numpy as np, uproot, awkward as ak, sys, glob, math
kByteCountMask=0x40000000; kNewClassTag=0xFFFFFFFF; kIsReferenced=1<<4; kMemberwise=1<<14
PRIM={1:('>b',1),2:('>h',2),3:('>i',4),4:('>q',8),5:('>f',4),8:('>d',8),11:('>B',1),12:('>H',2),13:('>I',4),14:('>Q',8),18:('>B',1),15:('>I',4),6:('>i',4)}
TYPENAME={'bool':18,'char':1,'short':2,'int':3,'long':4,'float':5,'double':8,'unsigned char':11,'unsigned short':12,'unsigned int':13,'unsigned long':14,'Int_t':3,'Double_t':8,'Float_t':5,'UInt_t':13,'Bool_t':18}
class Buf:
    def __init__(s,b): s.b=b; s.p=0
    def rd(s,fmt,n): v=struct.unpack_from(fmt,s.b,s.p)[0]; s.p+=n; return v
    def u8(s): return s.rd('>B',1)
    def u16(s): return s.rd('>H',2)
    def u32(s): return s.rd('>I',4)
    def nbytes(s):
        v=s.u32(); assert v&kByteCountMask, hex(v); return v&~kByteCountMask
    def objhdr(s):
        s.nbytes(); tag=s.u32()
        if tag==kNewClassTag:
            e=s.b.index(b'\0',s.p); s.p=e+1
def bits(fmt,v):
    if fmt=='>d': return ('d',struct.unpack('>Q',struct.pack('>d',v))[0])
    if fmt=='>f': return ('f',struct.unpack('>I',struct.pack('>f',v))[0])
    return v
def rd_prim(buf,ft):
    fmt,n=PRIM[ft]; v=buf.rd(fmt,n)
    if ft==18: return bool(v)
    return bits(fmt,v)
def elem_type(tn, streamers):
    tn=tn.replace('std::','').strip()
    if tn in TYPENAME: return ('prim',TYPENAME[tn])
    if tn=='TString': return ('tstring',)
    if tn.startswith('vector<'): return ('vec', elem_type(tn[7:-1].strip(), streamers))
    if tn.startswith('map<'):
        inner=tn[4:-1]; k,v=inner.split(',',1); return ('map', elem_type(k.strip(),streamers), elem_type(v.strip(),streamers))
    raise NotImplementedError(tn)
def rd_val(buf,t,top=True):
    k=t[0]
    if k=='prim': return rd_prim(buf,t[1])
    if k=='tstring':
        n=buf.u8(); n=buf.u32() if n==255 else n; v=buf.b[buf.p:buf.p+n]; buf.p+=n; return bytes(v).decode()
    if k=='vec':
        if top:
            buf.nbytes(); ver=buf.u16(); assert not ver&kMemberwise
        n=buf.u32(); return [rd_val(buf,t[1],False) for _ in range(n)]
    if k=='map':
        if top:
            buf.nbytes(); ver=buf.u16(); buf.p+=6; mw=bool(ver&kMemberwise)
        else: mw=False
        n=buf.u32()
        if mw:
            ks=[rd_val(buf,t[1],False) for _ in range(n)]; vs=[rd_val(buf,t[2],False) for _ in range(n)]
        else:
            ks=[];vs=[]
            for _ in range(n): ks.append(rd_val(buf,t[1],False)); vs.append(rd_val(buf,t[2],False))
        return [{'key':a,'val':b} for a,b in zip(ks,vs)]
    raise NotImplementedError(k)
def shape(vals,dims):
    if not dims: return vals[0]
    if len(dims)==1: return vals
    step=int(np.prod(dims[1:])); return [shape(vals[i*step:(i+1)*step],dims[1:]) for i in range(dims[0])]
def rd_members(buf, cls, streamers, out):
    for el in streamers[cls]:
        kind=el['_kind']; name=el['fName']; ft=el['fType']; dims=[int(x) for x in el['fMaxIndex'][:el['fArrayDim']]]
        n=int(np.prod(dims)) if dims else 1
        if kind=='TStreamerBase':
            if ft==66:  # TObject
                buf.p+=2; buf.p+=4; fb=buf.u32()
                if fb&kIsReferenced: buf.p+=2
            else:
                nb=buf.nbytes(); end=buf.p+nb; buf.p+=2
                sub={}; rd_members(buf,name,streamers,sub); assert buf.p==end,(name,buf.p,end)
                out[name]=sub
        elif kind=='TStreamerBasicType':
            vals=[rd_prim(buf,ft if ft<20 else ft-20) for _ in range(n)]
            out[name]=shape(vals,dims)
        elif kind=='TStreamerString':
            if dims:
                buf.nbytes(); buf.p+=2
            vals=[rd_val(buf,('tstring',)) for _ in range(n)]; out[name]=shape(vals,dims)
        elif kind=='TStreamerSTL':
            t=elem_type(el['fTypeName'],streamers)
            if dims:
                # C array of STL: one header, then n bodies
                buf.nbytes(); ver=buf.u16()
                if t[0]=='map': buf.p+=6
                vals=[rd_val(buf,t,False) for _ in range(n)]
            else: vals=[rd_val(buf,t,True)]
            out[name]=shape(vals,dims)
        elif kind=='TStreamerObjectAny' and el['fTypeName'].startswith('TArray'):
            c={'TArrayI':3,'TArrayD':8,'TArrayF':5,'TArrayC':1,'TArrayS':2,'TArrayL':4}[el['fTypeName']]
            m=buf.u32(); out[name]=[rd_prim(buf,c) for _ in range(m)]
        else: raise NotImplementedError((kind,el['fTypeName'],ft))
def decode_branch(data, offs, cls, streamers):
    evs=[]
    for i in range(len(offs)-1):
        buf=Buf(bytes(data[offs[i]:offs[i+1]]))
        buf.nbytes(); buf.p+=2+2+4+4; nl=buf.u8(); assert nl==0; n=buf.u32(); buf.p+=4
        objs=[]
        for j in range(n):
            buf.objhdr(); nb=buf.nbytes(); end=buf.p+nb; buf.p+=2
            o={}; rd_members(buf,cls,streamers,o); assert buf.p==end,(cls,j,buf.p,end); objs.append(o)
        assert buf.p==len(buf.b),(cls,i,buf.p,len(buf.b)); evs.append(objs)
    return evs
def canon(x):
    # pybes3 awkward value -> same canonical python structure (doubles as bit patterns)
    if isinstance(x,dict): return {k:canon(v) for k,v in x.items()}
    if isinstance(x,list): return [canon(v) for v in x]
    return x
def tobits(arr):
    # convert awkward array to python lists with float -> ('d',bits)
    def conv(layout):
        pass
def ak_to_canon(a):
    t=str(ak.type(a))
    def rec(v, typ):
        return v
    return ak.to_list(a)
def compare(mine, theirs, path, typ):
    # mine: canonical with ('d',bits); theirs: python values from ak.to_list; compare floats by bits using struct
    if isinstance(mine,dict):
        assert isinstance(theirs,dict),(path,type(theirs)); 
        assert list(mine.keys())==list(theirs.keys()),(path,list(mine.keys()),list(theirs.keys()))
        for k in mine: compare(mine[k],theirs[k],path+'.'+k,typ)
    elif isinstance(mine,list):
        assert isinstance(theirs,list) and len(mine)==len(theirs),(path,len(mine),len(theirs) if isinstance(theirs,list) else theirs)
        for i,(a,b) in enumerate(zip(mine,theirs)): compare(a,b,path+'[%d]'%i,typ)
    elif isinstance(mine,tuple):
        if mine[0]=='d': tb=struct.unpack('>Q',struct.pack('>d',theirs))[0]
        else: tb=struct.unpack('>I',struct.pack('>f',theirs))[0]
        assert tb==mine[1],(path,mine,theirs)
    else: assert mine==theirs,(path,mine,theirs)
