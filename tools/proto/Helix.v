From Coq Require Import Reals Lra Lia.
From Coquelicot Require Import Coquelicot.
Local Open Scope R_scope.

Section Helix.
(* external: numpy arctan2, specified only by what the proofs use *)
Variable atan2 : R -> R -> R.
Hypothesis atan2_spec : forall y x, (x <> 0 \/ y <> 0) ->
  x = sqrt (x*x + y*y) * cos (atan2 y x) /\ y = sqrt (x*x + y*y) * sin (atan2 y x).

Definition alpha := - (1000 / 2.99792458).

(* python float %: x - m*floor(x/m) *)
Definition pymod (x m : R) : R := x - m * IZR (Int_part (x / m)).

Lemma cos_period_Z x k : cos (x + 2 * IZR k * PI) = cos x.
Proof. destruct (Z_le_gt_dec 0 k) as [H|H].
  - rewrite <- (Z2Nat.id k H), <- INR_IZR_INZ. apply cos_period.
  - rewrite <- (cos_period (x + 2 * IZR k * PI) (Z.to_nat (-k))).
    rewrite INR_IZR_INZ, Z2Nat.id by lia. rewrite opp_IZR. f_equal. ring. Qed.
Lemma sin_period_Z x k : sin (x + 2 * IZR k * PI) = sin x.
Proof. destruct (Z_le_gt_dec 0 k) as [H|H].
  - rewrite <- (Z2Nat.id k H), <- INR_IZR_INZ. apply sin_period.
  - rewrite <- (sin_period (x + 2 * IZR k * PI) (Z.to_nat (-k))).
    rewrite INR_IZR_INZ, Z2Nat.id by lia. rewrite opp_IZR. f_equal. ring. Qed.

Lemma pymod_cos x : cos (pymod x (2*PI)) = cos x.
Proof. unfold pymod. replace (x - 2*PI*IZR (Int_part (x/(2*PI)))) with (x + 2 * IZR (- Int_part (x/(2*PI))) * PI).
  - apply cos_period_Z. - rewrite opp_IZR. ring. Qed.
Lemma pymod_sin x : sin (pymod x (2*PI)) = sin x.
Proof. unfold pymod. replace (x - 2*PI*IZR (Int_part (x/(2*PI)))) with (x + 2 * IZR (- Int_part (x/(2*PI))) * PI).
  - apply sin_period_Z. - rewrite opp_IZR. ring. Qed.

Record params := { dr : R; phi0 : R; kappa : R; dz : R; tanl : R }.
Record vec3 := { vx : R; vy : R; vz : R }.

Definition rsigned (k : R) := alpha / k.
Definition centre_x (a : params) (p : vec3) := vx p + (dr a + rsigned (kappa a)) * cos (phi0 a).
Definition centre_y (a : params) (p : vec3) := vy p + (dr a + rsigned (kappa a)) * sin (phi0 a).

(* fixed version of the code: sign s = sign of r *)
Definition change_pivot (a : params) (p p' : vec3) : params :=
  let r := rsigned (kappa a) in
  let s := if Rlt_dec 0 r then 1 else -1 in
  let cx := centre_x a p in let cy := centre_y a p in
  let ndx := s * (cx - vx p') in let ndy := s * (cy - vy p') in
  let rho := sqrt (ndx*ndx + ndy*ndy) in
  let ndr := s * rho - r in
  let nphi := pymod (atan2 ndy ndx) (2*PI) in
  let dphi0 := pymod (nphi - phi0 a) (2*PI) in
  let dphi := if Rlt_dec PI dphi0 then dphi0 - 2*PI else dphi0 in
  {| dr := ndr; phi0 := nphi; kappa := kappa a;
     dz := vz p + dz a - r * tanl a * dphi - vz p'; tanl := tanl a |}.

Theorem centre_preserved a p p' :
  kappa a <> 0 -> (centre_x a p <> vx p' \/ centre_y a p <> vy p') ->
  centre_x (change_pivot a p p') p' = centre_x a p /\
  centre_y (change_pivot a p p') p' = centre_y a p.
Proof.
  intros Hk Hne.
  unfold change_pivot; cbv zeta.
  set (r := rsigned (kappa a)).
  set (s := if Rlt_dec 0 r then 1 else -1).
  assert (Hs : s * s = 1) by (unfold s; destruct (Rlt_dec 0 r); ring).
  set (ndx := s * (centre_x a p - vx p')). set (ndy := s * (centre_y a p - vy p')).
  assert (Hnz : ndx <> 0 \/ ndy <> 0).
  { unfold ndx, ndy, s. destruct (Rlt_dec 0 r); destruct Hne; [left|right|left|right]; lra. }
  destruct (atan2_spec ndy ndx Hnz) as [Hx Hy].
  unfold centre_x at 1, centre_y at 1; cbn [dr phi0 kappa].
  rewrite pymod_cos, pymod_sin. fold r.
  set (rho := sqrt (ndx*ndx + ndy*ndy)) in *.
  replace (s * rho - r + r) with (s * rho) by ring.
  split.
  - replace (s * rho * cos (atan2 ndy ndx)) with (s * ndx) by (rewrite Hx at 1; ring).
    unfold ndx. replace (s * (s * (centre_x a p - vx p'))) with ((s*s) * (centre_x a p - vx p')) by ring. rewrite Hs. ring.
  - replace (s * rho * sin (atan2 ndy ndx)) with (s * ndy) by (rewrite Hy at 1; ring).
    unfold ndy. replace (s * (s * (centre_y a p - vy p'))) with ((s*s) * (centre_y a p - vy p')) by ring. rewrite Hs. ring.
Qed.
End Helix.
Print Assumptions centre_preserved.
