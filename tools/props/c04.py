"""C04 — raw reads depend only on content and selection, and always terminate.

prove (C03Proofs / C03Wf / C03Reader / C04Proofs / C04.v) -> build the extracted reader model ->
correspondence: pybes3.open_raw(path).arrays(...) / concatenate_raw from the working tree on files written from
generated structures, over the configuration matrix n_blocks x n_block_per_batch x max_workers (with random delays
around every submitted task so that the completion order is really permuted; the observed order is fed to the model's
pool) x all 64 sub-detector subsets x call sequences on one reader x concatenation; each answer is compared with the
extracted model's (Ok / exception class / OutOfFuel <-> wall-clock guard);
search: the property's clauses stated directly on the implementation's answers."""
import json
from collections import Counter

import rawgen as G
import vlib
from props.c03 import agree_reader, first_diff, model_arrays_lines, parse_rmodel, write_file

NATIVE_DIR = vlib.BUILD / "native"
PROOFS = ["C03Proofs.v", "C03Wf.v", "C03Reader.v", "C04Proofs.v"]


def subs_of(mask):
    return None if mask == 0 else [d for k, d in enumerate(G.DETS) if mask >> k & 1]


def project(val, dets):
    return {"hdr": val["hdr"], "dets": [d for d in val["dets"] if d[0] in dets]}


def run(ck: vlib.Check):
    quick = ck.tier == "quick"
    rng = ck.rng
    for f in (vlib.BUILD / "replays").glob("C04_*.json"):
        f.unlink()
    ck.cov["rule"] = (
        "calls = (file, n_blocks, n_block_per_batch, max_workers, delay seed, sub-detector subset | call sequence | file list) "
        "on files of 1-7 blocks (1-3 events each) written from generated structures: n_blocks in {-1, 1..N, N+1, N+4} (calls with "
        "n_blocks > N run in a sacrificial subprocess under a wall-clock guard), batch sizes {1,2,3,N,1000,default}, max_workers "
        "{1,2,4,default} with random 0-30 ms delays around every submitted decoding task (observed completion order is recorded and "
        "fed to the model's pool), all 64 sub-detector subsets, sequences of arrays() calls on one reader, concatenate_raw over "
        "2-3 files.  Each answer is compared with the extracted reader model and the property's clauses are evaluated directly "
        "on the answers.  distinct_nontrivial = distinct call descriptions, hashed.")
    ck.trusted += [
        "hand model coq/Model/RawReader.v (mirror of raw_io.py) over RawParser.v — tied by this run's correspondence",
        "extraction (ExtrOcamlBasic) + ocaml/rawmodel_drv.ml",
        "the harness patches the name ThreadPoolExecutor inside pybes3.besio.raw_io (subclass recording submission index and "
        "completion order, adding delays) — no source hook; prebuilt besio_cpp.so decodes the batches",
        "real thread interleavings inside the GIL-released C++ section, OS file behaviour, awkward / numpy: modelled, not verified",
    ]
    ck.assumptions += ["decoding tasks are pure (each call builds its own parser); file size multiple of 4; decode_reid=False",
                       "termination is proved under the guard n_blocks = -1 or 0 <= n_blocks <= N (refuted beyond it)"]
    ck.prove(PROOFS, "C04.v")
    # structure obligation behind C04_pattern_listing_order_irrelevant: in concatenate(), a non-list argument is replaced by the SORTED
    # matches of the pattern (model: concatenate_pattern reads sort_by_name of the listing).  Fail closed; the search below decides.
    import ast as _ast
    try:
        tree = _ast.parse((vlib.SRC / "besio" / "raw_io.py").read_text())
        fn = next(n for n in tree.body if isinstance(n, _ast.FunctionDef) and n.name == "concatenate")
        globs = [n for n in _ast.walk(fn) if isinstance(n, _ast.Call) and _ast.unparse(n.func) in ("glob.glob", "glob.iglob", "glob")]
        sorted_globs = [n for n in _ast.walk(fn) if isinstance(n, _ast.Call) and _ast.unparse(n.func) == "sorted" and n.args and not n.keywords
                        and isinstance(n.args[0], _ast.Call) and n.args[0] in globs]
        ck.cov["pattern_listing"] = {"glob_calls": len(globs), "wrapped_in_sorted": len(sorted_globs)}
        # ... and the literal reading comes first: the glob sits in the else-branch of an `is_file()` / `isfile(...)` test of the argument
        lit = [n for n in _ast.walk(fn) if isinstance(n, _ast.If) and ("is_file" in _ast.unparse(n.test) or "isfile" in _ast.unparse(n.test))
               and any(g in list(_ast.walk(_ast.Module(body=n.orelse, type_ignores=[]))) for g in globs)]
        ck.cov["pattern_listing"]["literal_name_test_before_glob"] = len(lit)
        if not lit:
            ck.tie_broken("structure", "raw_io.py:concatenate:literal-name", "no `is_file` test whose else-branch holds the glob call: the model (concatenate_name) reads "
                          "an existing file's name literally")
        if not globs or len(sorted_globs) != len(globs):
            ck.tie_broken("structure", "raw_io.py:concatenate:pattern-listing", f"{len(globs)} glob call(s), {len(sorted_globs)} of them directly inside sorted(...): "
                          "the model reads the files a pattern matches in name order (concatenate_pattern / sort_by_name)")
    except Exception as e:  # noqa: BLE001
        ck.tie_broken("structure", "raw_io.py:concatenate:pattern-listing", f"{type(e).__name__}: {e}")
    mexe, mlog = G.build_model(NATIVE_DIR)
    if mexe is None:
        ck.tie_broken("model-build", "RawExtract.v", mlog)
        return
    fdir = ck.bdir / "files"
    fdir.mkdir(exist_ok=True)
    nfiles = 5 if quick else 30
    files = []
    for i in range(nfiles):
        nb = [3, 1, 5, 2, 7][i % 5] if i < 5 else rng.choice([1, 2, 3, 4, 5, 6, 7])
        f = G.gen_file(rng, nblocks=nb, small=(i % 2 == 1))
        # the event counter in the file tail is a free word of the format (RawFormat.wf_file asks only for a 32-bit word; the reader reports
        # it as `entries` and decodes the blocks that are there): a tail that was never filled in (0) or is stale must not change what is
        # read or concatenated (round 8: concatenate() skipping files whose counter is 0)
        if i == 1: f["entries"] = 0
        if i == 3: f["entries"] = f["entries"] + 5
        w = G.enc_file(f)
        p = fdir / f"f{i}.raw"
        write_file(p, w)
        files.append((f, w, str(p)))
    # a well-formed file without any data block (e.g. a run that was stopped at once): every clause applies to it as well
    fzero = G.gen_file(rng, nblocks=0); wzero = G.enc_file(fzero); pzero = fdir / "zero_blocks.raw"; write_file(pzero, wzero)
    files.append((fzero, wzero, str(pzero))); nfiles += 1
    # one file with many blocks: reads split into more batches than any bounded pending-queue / cache inside arrays() may hold
    fmany = G.gen_file(rng, nblocks=150 if quick else 400, small=True)
    wmany = G.enc_file(fmany); pmany = fdir / "many.raw"; write_file(pmany, wmany)
    files.append((fmany, wmany, str(pmany)))
    # thorough tier: a file whose undecoded batches exceed any plausible in-memory bound (9 blocks of 8 MiB each, the payload sits in an
    # unknown sub-detector that the parser skips): batch size / worker count must still not change the answer
    big_index = None
    if not quick:
        fbig = G.gen_file(rng, nblocks=9, small=True)
        for bi, b in enumerate(fbig["blocks"]):
            ev = G.gen_event(rng, nsub=0); ev["hdr"][1] = 7000 + bi
            sd = G.gen_subdet(rng, det_id=0x99); sd.pop("ros", None); sd["raw"] = [(bi * 2654435761 + k) & 0xFFFFFFFF for k in range(1 << 21)]
            ev["subs"] = [sd]; b["events"] = [ev]
        fbig["entries"] = 9
        wbig = G.enc_file(fbig); pbig = fdir / "big.raw"; write_file(pbig, wbig)
        files.append((fbig, wbig, str(pbig))); big_index = len(files) - 1
    calls, meta = [], []   # meta: dict(kind, file index(es), mask, n_blocks, pb, mw)
    abi, alog = G.build_abi(NATIVE_DIR)     # every third call decodes with the working tree's C++ through ctypes
    if abi is None:
        ck.tie_broken("native-build", "rawabi.cc", alog)

    def add(kind, fi, mask=63, nb=-1, pb=None, mw=None, delay=False, guard=False, seq=None, concat=None, decode=False, nomodel=False):
        c = {"id": len(calls), "paths": [files[k][2] for k in (concat if concat is not None else [fi])], "n_blocks": nb, "pb": pb,
             "subs": subs_of(mask), "max_workers": mw, "delay_seed": rng.randrange(1 << 30) if delay else None, "guard": guard,
             "native_so": str(abi) if (abi is not None and len(calls) % 3 == 1 and not decode and not nomodel) else None}
        if seq is not None:
            c["seq"] = seq
        if concat is not None:
            c["concat"] = True
        if decode:
            c["decode"] = True
        calls.append(c)
        # nomodel: calls with electronics-id decoding (the reader model is stated for decode_reid=False; decoding is C10's table image)
        meta.append({"kind": kind, "fi": fi, "mask": mask, "nb": nb, "pb": pb, "mw": mw, "seq": seq, "concat": concat,
                     "nomodel": nomodel or decode})

    beyond = 0
    many = len(files) - 1 - (1 if big_index is not None else 0)
    if big_index is not None:
        add("full", big_index, 15, -1, None, None, nomodel=True)
        add("batch", big_index, 15, -1, 1, 2, nomodel=True)
        add("batch", big_index, 15, -1, 2, None, nomodel=True)
    add("full", many, 63, -1, None, None)
    for pb, mw in ((1, 2), (2, None), (1, 1), (7, 4)):
        add("batch", many, 63, -1, pb, mw)
    add("first_n", many, 63, 131, 2, None)
    add("full-decoded", many, 63, -1, None, None, decode=True)
    add("batch-decoded", many, 63, -1, 1, 4, decode=True)
    for fi, (f, w, p) in enumerate(files[:many]):
        N = len(f["blocks"])
        add("full", fi, 63, -1, None, None)
        # with electronics ids decoded (the default of the public API): same clauses, judged against the decoded full read
        add("full-decoded", fi, 63, -1, None, None, decode=True)
        if fi < (2 if quick else 6):
            for mask in (range(1, 64) if fi == 0 else rng.sample(range(1, 64), 8)):
                add("select-decoded", fi, mask, -1, rng.choice([1, 2, 1000]), None, decode=True)
            add("batch-decoded", fi, 63, -1, 1, 4, decode=True, delay=True)
            # the FIRST decoding read of a fresh process, several batches on several threads at once (conversion tables are built lazily)
            for rep in range(3 if quick else 8):
                add("fresh-process-decoded", fi, 63, -1, 1, 4, guard=True, decode=True)
            # histories on one reader mixing decoded / undecoded reads of the same range
            add("reread-decode-mix", fi, 63, None, rng.choice([1, 1000]), None, nomodel=True,
                seq=[{"nb": -1, "decode": True}, {"nb": -1, "decode": False}, {"nb": -1, "decode": True}, {"nb": 1, "decode": False},
                     {"nb": 1, "decode": True}, {"nb": -1, "decode": False}])
        for pb in sorted({1, 2, 3, N, 1000}):
            for mw in ([1, 2, 4, None] if (fi < 2 or not quick) else [rng.choice([1, 2, 4, None])]):
                add("batch", fi, 63, -1, pb, mw, delay=(mw != 1))
        for n in range(1, N + 1):
            add("first_n", fi, 63, n, rng.choice([1, 2, 1000]), rng.choice([1, 3, None]), delay=True)
        if beyond < (3 if quick else 12):
            add("beyond", fi, 63, N + 1, rng.choice([1, 1000]), None, guard=True)
            beyond += 1
            if fi == 0:
                add("beyond", fi, 63, N + 4, 2, 2, guard=True)
                beyond += 1
        if fi < (1 if quick else 4):
            for mask in range(64):
                add("select", fi, mask, -1, rng.choice([1, 2, 1000]), None, delay=(mask % 8 == 0))
        else:
            for mask in rng.sample(range(64), 6):
                add("select", fi, mask, -1, None, None)
        add("reread", fi, 63, None, 2, 2, delay=True, seq=[-1, 1, -1, min(2, N), -1])
        if fi < (3 if quick else 10):   # histories containing calls that raise (invalid sub-detector name)
            add("reread", fi, 63, None, rng.choice([1, 1000]), None, seq=[-1, "bad", -1, 1, "bad", min(2, N), "bad", -1])
    # batch sizes chosen so that several decoding tasks run while the first one is still in its first conversion
    for pb in ((5, 75, 40, 5, 75, 1) if quick else (5, 75, 40, 5, 75, 1, 10, 20, 5, 75, 150, 3)):
        add("fresh-process-decoded", many, 63, -1, pb, 4, guard=True, decode=True)
    # a file may be listed more than once (also under another spelling of its path): every listing contributes its events
    add("concat", None, 63, -1, 2, None, concat=[0, 1, 0])
    add("concat", None, 63, -1, 1000, 1, concat=[2, 2])
    for k in range(2 if quick else 8):
        group = rng.sample(range(nfiles), rng.choice([2, 3]))
        add("concat", None, rng.choice([63, 63, rng.randrange(1, 64)]), -1, rng.choice([1, 2, 10000]), rng.choice([1, None]), concat=group)
    zi = nfiles - 1
    for mask in (16, 48, 3, 21):
        add("select", zi, mask, -1, rng.choice([1, 1000]), None)
        add("concat", None, mask, -1, rng.choice([1, 10000]), None, concat=[zi, 0])
        add("concat", None, mask, -1, 2, None, concat=[1, zi, 2])
    # extra: (a) one path whose file is replaced between reads; (b) a path spelled through a symlinked directory and "..": the file the
    # operating system resolves the name to is the one that must be read
    extra, extra_want = [], []
    prw = fdir / "rewritten.raw"
    for order in ([1, 0, 2], [0, 1], [2, zi, 1]):
        extra.append({"id": len(extra), "paths": [str(prw)], "rewrite": [files[k][1] for k in order], "n_blocks": -1, "pb": rng.choice([None, 1, 2]), "subs": None,
                      "max_workers": None, "delay_seed": None, "guard": False, "native_so": None, "concat": len(extra) == 1})
        extra_want.append(("rewritten-path", [[e for b in files[k][0]["blocks"] for e in b["events"]] for k in order], order))
    try:
        import os as _os, shutil as _sh
        _sh.rmtree(fdir / "store", ignore_errors=True); (fdir / "store" / "day1").mkdir(parents=True)
        if (fdir / "today").is_symlink(): (fdir / "today").unlink()
        _os.symlink(_os.path.join("store", "day1"), fdir / "today")
        write_file(fdir / "store" / "x.raw", files[0][1]); write_file(fdir / "x.raw", files[1][1])      # today/../x.raw IS store/x.raw
        spelled = str(fdir / "today" / ".." / "x.raw")
        for paths, want_k in (([spelled], [0]), ([spelled, str(fdir / "x.raw")], [0, 1])):
            extra.append({"id": len(extra), "paths": paths, "concat": True, "n_blocks": -1, "pb": None, "subs": None, "max_workers": None, "delay_seed": None,
                          "guard": False, "native_so": None})
            extra_want.append(("path-through-symlinked-directory", [[e for k in want_k for b in files[k][0]["blocks"] for e in b["events"]]], want_k))
        # (c) a single file given by its name as a string, the name containing characters that are special in patterns; another file sits
        #     where the pattern reading of the name points
        (fdir / "run[1]").mkdir(exist_ok=True); (fdir / "run1").mkdir(exist_ok=True)
        write_file(fdir / "run[1]" / "x.raw", files[0][1]); write_file(fdir / "run1" / "x.raw", files[1][1])
        extra.append({"id": len(extra), "paths": [], "glob": str(fdir / "run[1]" / "x.raw"), "n_blocks": -1, "pb": None, "subs": None, "max_workers": None,
                      "delay_seed": None, "guard": False, "native_so": None})
        extra_want.append(("literal-name-with-pattern-characters", [[e for b in files[0][0]["blocks"] for e in b["events"]]], [0, 1]))
    except OSError as e:
        ck.notes.append(f"symlinked-directory spelling not exercised: {e}")
    ejp = ck.bdir / "jobs_extra.json"
    ejp.write_text(json.dumps({"calls": extra, "guard_s": 20}))
    rc_e, so_e, se_e = vlib.run_impl_script("c03_impl.py", [ejp], timeout=600)
    if rc_e != 0:
        ck.tie_broken("correspondence", "implementation run (rewritten / re-spelled paths)", (se_e or so_e)[-800:])
    else:
        for c, (kind, wants, info), r in zip(extra, extra_want, json.loads(so_e)["results"]):
            ck.case([kind, info, c["pb"]])
            got = [{k: v[k] for k in ("hdr", "dets")} for v in (r.get("values") or [])]
            want = [G.py_columnar(G.mask_dets(15), evs) for evs in wants]
            if r["outcome"] != "ok" or got != want:
                k = next((i for i, (a, b) in enumerate(zip(got, want)) if a != b), len(got))
                what = (f"one path, its file replaced between reads by {len(wants)} well-formed files in turn (new reader each time, one interpreter): read {k} does not "
                        f"return the events of the file then at that path" if kind == "rewritten-path" else
                        f"concatenate_raw('<dir>/run[1]/x.raw') - an existing well-formed file named by a plain string - does not return that file's events "
                        f"(another file exists at <dir>/run1/x.raw, which is what the name matches when it is read as a pattern)" if kind.startswith("literal-name") else
                        f"concatenate_raw({[p.replace(str(fdir), '<dir>') for p in c['paths']]}) with <dir>/today -> store/day1: the name denotes <dir>/store/x.raw "
                        f"(that is what open() reads); the events returned are not that file's")
                ck.violation(f"C04:{kind}:{r['outcome']}", what + f" ({r['outcome']} {r.get('exc', '')})",
                             {"mode": kind, "order": info, "files": [files[k][1] for k in info]})
    jp = ck.bdir / "jobs.json"
    jp.write_text(json.dumps({"calls": calls, "guard_s": 12 if quick else 20}))
    rc, so, se = vlib.run_impl_script("c03_impl.py", [jp], timeout=3000)
    if rc != 0:
        ck.tie_broken("correspondence", "implementation run (c03_impl.py)", (se or so)[-1500:])
        return
    impl = json.loads(so)["results"]
    # ---- model answers (one model call per implementation array)
    lines, back = [], []
    for ci, (c, m, r) in enumerate(zip(calls, meta, impl)):
        if m.get("nomodel"):
            continue
        mask = m["mask"]
        pb = m["pb"] if m["pb"] is not None else (10000 if m["concat"] is not None else 1000)
        if m["concat"] is not None:
            ws = [files[k][1] for k in m["concat"]]
            lines.append("C 0 LFIX %d %d %d %s" % (pb, mask, len(ws), " ".join("%d %s" % (len(w), " ".join(map(str, w))) for w in ws)))
            back.append((ci, 0))
            continue
        w = files[m["fi"]][1]
        seq = [x for x in m["seq"] if x != "bad"] if m["seq"] is not None else [m["nb"]]
        for k, nb in enumerate(seq):
            orders = r.get("orders") or []
            order = orders[k] if k < len(orders) else []
            lines += [l.replace("A 0 0 ", "A 0 LFIX ", 1) for l in model_arrays_lines([(0, nb, pb, mask, order, w)])]
            back.append((ci, k))
    outcomes = Counter()
    permuted = 0

    def compare(lfix):
        mans = [parse_rmodel(a) for a in G.run_batch([str(mexe)], [l.replace("LFIX", str(lfix), 1) for l in lines])]
        by_call = {}
        for (ci, k), mm in zip(back, mans):
            by_call.setdefault(ci, []).append(mm)
        dis = []
        for ci, (c, m, r) in enumerate(zip(calls, meta, impl)):
            if ci not in by_call:
                continue
            vals = r.get("values") or []
            mods = by_call[ci]
            d = None
            if r["outcome"] == "ok" and len(vals) != len(mods):
                d = "number of returned arrays"
            else:
                for k, mm in enumerate(mods):
                    v = vals[k] if k < len(vals) else None
                    oc = "ok" if v is not None else r["outcome"]
                    d = agree_reader(mm, oc, v, r.get("exc", ""))
                    if v is not None and "problems" in v:
                        d = (d or "") + " shape: " + "; ".join(v["problems"])
                    if d:
                        d = f"call {k} of the sequence: " + d if m["seq"] else d
                        break
            if d:
                dis.append((m, d))
        return dis

    dis0, dis1 = compare(0), compare(1)
    variant = "pinned-loop" if len(dis0) <= len(dis1) else "repaired-loop"
    dis = dis0 if variant == "pinned-loop" else dis1
    ck.cov["reader_loop_variant_of_working_tree"] = variant
    ck.cov["disagreements"] = {"with_pinned_loop_model": len(dis0), "with_repaired_loop_model": len(dis1)}
    ck.cov["applicable_theorems"] = (
        "C04_first_n_beyond_never_terminates / C04_arrays_terminates_guarded (+ all variant-independent ones)" if variant == "pinned-loop"
        else "C04_first_n_beyond_whole_file / C04_arrays_terminates (+ all variant-independent ones)")
    for m, d in dis[:4]:
        ck.tie_broken("correspondence", f"reader model ({variant}) vs implementation: {m}", d)
    for ci, (c, m, r) in enumerate(zip(calls, meta, impl)):
        ck.case([m["kind"], m["fi"], m["mask"], m["nb"], m["pb"], m["mw"], m["seq"], m["concat"], c["delay_seed"] is not None])
        outcomes[m["kind"] + ":" + r["outcome"]] += 1
        for o in r.get("orders") or []:
            if o != sorted(o):
                permuted += 1
    ck.cov["outcomes"] = dict(sorted(outcomes.items()))
    ck.cov["thread_pools_with_permuted_completion_order"] = permuted
    ck.cov["calls_through_working_tree_cpp_via_ctypes"] = sum(1 for c in calls if c.get("native_so"))
    # ---- the property's clauses, directly on the implementation's answers
    full, fulld = {}, {}
    for c, m, r in zip(calls, meta, impl):
        if m["kind"] == "full" and r["outcome"] == "ok":
            full[m["fi"]] = r["values"][0]
        if m["kind"] == "full-decoded" and r["outcome"] == "ok":
            fulld[m["fi"]] = r["values"][0]

    def strip_ids(v):
        return {"hdr": v["hdr"], "dets": [[d[0], d[1], [row[1:] for row in d[2]] if d[0] in ("mdc", "tof", "emc", "muc") else d[2]] for d in v["dets"]]}

    def viol(key, what, c, fi):
        if not any(v["key"] == key for v in ck.viol):
            ck.violation(key, what, {"call": c, "files": [files[k][1] if len(files[k][1]) < 2_000_000 else f"<{len(files[k][1])} words: 9 blocks, one event each, "
                                                          "unknown sub-detector 0x99 with 2^21 payload words (see tools/props/c04.py)>" for k in ([fi] if fi is not None else [])],
                                     "n_blocks_in_file": [len(files[k][0]["blocks"]) for k in ([fi] if fi is not None else [])]})

    for c, m, r in zip(calls, meta, impl):
        fi = m["fi"]
        desc = f"n_blocks={m['nb']} n_block_per_batch={m['pb']} max_workers={m['mw']} sub_detectors={c['subs']}"
        if m["kind"] == "concat":
            evs = [e for k in m["concat"] for b in files[k][0]["blocks"] for e in b["events"]]
            want = G.py_columnar(G.mask_dets(m["mask"]), evs)
            if not (r["outcome"] == "ok" and {k: r["values"][0][k] for k in ("hdr", "dets")} == want):
                viol("C04:concatenate_raw", f"concatenate_raw over {len(m['concat'])} files ({desc}) is not the events of the files in "
                     f"order: {r['outcome']} {r.get('exc', '')}", c, None)
            continue
        f, w, p = files[fi]
        N = len(f["blocks"])
        if r["outcome"] == "timeout":
            key = "C04:n_blocks>N:never-terminates" if (m["nb"] is not None and m["nb"] > N) else f"C04:{m['kind']}:never-terminates"
            viol(key, f"open_raw(file with {N} blocks, {len(w)} words).arrays({desc}) did not return within the wall-clock guard "
                      f"({r.get('exc')}); the model answers OutOfFuel for every fuel (theorem C04_first_n_beyond_never_terminates)", c, fi)
            continue
        if r["outcome"] == "skipped":      # harness artefact: an earlier call of the same sacrificial process hung
            continue
        if r["outcome"] != "ok":
            viol(f"C04:{m['kind']}:{r['outcome']}", f"arrays({desc}) on a well-formed file: {r['outcome']} {r.get('exc')}", c, fi)
            continue
        if fi not in full:
            continue
        fl = full[fi]
        if m["kind"] in ("full-decoded", "select-decoded", "batch-decoded", "fresh-process-decoded", "reread-decode-mix"):
            fd = fulld.get(fi)
            if fd is None:
                continue
            if m["kind"] == "full-decoded":
                if strip_ids(fd) != strip_ids(fl):
                    viol("C04:decoded-vs-undecoded", f"arrays(decode_reid=True) differs from arrays(decode_reid=False) in something else than the id columns: {first_diff(strip_ids(fl), strip_ids(fd))}", c, fi)
            elif m["kind"] == "select-decoded":
                dets = G.mask_dets(m["mask"]); v = r["values"][0]
                if {x: v[x] for x in ("hdr", "dets")} != project(fd, dets):
                    viol("C04:selection:decoded", f"arrays({desc}, decode_reid=True) is not the projection of the decoded full read onto {dets}: "
                         f"{first_diff(project(fd, dets), v)}", c, fi)
            elif m["kind"] in ("batch-decoded", "fresh-process-decoded"):
                v = r["values"][0]
                if {x: v[x] for x in ("hdr", "dets")} != {x: fd[x] for x in ("hdr", "dets")}:
                    viol(f"C04:{m['kind']}", f"arrays({desc}, decode_reid=True){' as the first read of a fresh process' if m['kind'].startswith('fresh') else ''} differs from the "
                         f"single-batch decoded read at {first_diff(fd, v)}", c, fi)
            else:
                for k, (it, v) in enumerate(zip(m["seq"], r["values"])):
                    ref = fd if it["decode"] else fl
                    nblk = N if it["nb"] == -1 else it["nb"]
                    nev = sum(len(b["events"]) for b in f["blocks"][:nblk])
                    want = {"hdr": ref["hdr"][:nev], "dets": [[d[0], d[1][:nev + 1], d[2][:d[1][nev]]] for d in ref["dets"]]}
                    if {x: v[x] for x in ("hdr", "dets")} != want:
                        viol("C04:reread:decode-mix", f"call {k} ({it}) of a history of decoded / undecoded reads on one reader differs from the same read on a "
                             f"fresh reader at {first_diff(want, v)}", c, fi)
                        break
            continue
        for k, v in enumerate(r["values"]):
            nb = ([x for x in m["seq"] if x != "bad"][k] if m["seq"] else m["nb"])
            if m["kind"] in ("batch",):
                if v != fl:
                    viol("C04:batch/workers", f"arrays({desc}) differs from the default read at {first_diff(fl, v)}", c, fi)
            elif m["kind"] in ("first_n", "reread", "beyond"):
                nblk = N if (nb == -1 or nb > N) else nb
                evs = [e for b in f["blocks"][:nblk] for e in b["events"]]
                want = G.py_columnar(G.mask_dets(m["mask"]), evs)
                if {x: v[x] for x in ("hdr", "dets")} != want:
                    kk = "C04:first_n_blocks" if m["kind"] != "reread" else "C04:reread"
                    viol(kk, f"arrays({desc}; call {k} of {m['seq']}) is not the events of the first {nblk} blocks: differs at "
                             f"{first_diff(want, v)}", c, fi)
            elif m["kind"] == "select":
                dets = G.mask_dets(m["mask"])
                if {x: v[x] for x in ("hdr", "dets")} != project(fl, dets) and set(dets) <= {d[0] for d in fl["dets"]}:
                    viol("C04:selection", f"arrays({desc}) is not the projection of the full read onto {dets}", c, fi)
                elif not set(dets) <= {d[0] for d in fl["dets"]}:
                    pass
    glob_part(ck, [files[k] for k in range(min(7, many))])
    # selection vs the six-detector read needs a six-detector reference: the "full" call above uses all six (mask 63)
    for c, m, r in list(zip(calls, meta, impl))[:2] + [x for x in zip(calls, meta, impl) if x[1]["kind"] in ("beyond", "reread")][:2]:
        ck.sample({"call": {k: c[k] for k in ("n_blocks", "pb", "subs", "max_workers", "seq") if k in c}, "kind": m["kind"],
                   "outcome": r["outcome"], "orders": (r.get("orders") or [])[:2], "exc": r.get("exc")})


def glob_part(ck, fl, replaying=False):
    """concatenate_raw(<pattern>): the same files (names and contents) placed in directories that enumerate them differently (a hashed
    directory index; a tmpfs filled in name order; a tmpfs filled in reverse name order) must give the same events in the same order -
    the result may depend on content and selection only.  No order is presumed."""
    import os, shutil, tempfile
    names = ["run_%s.raw" % ch for ch in "abcdefg"][:len(fl)]
    roots, dirs = [], []
    try:
        d0 = ck.bdir / "glob_hashed"
        shutil.rmtree(d0, ignore_errors=True); d0.mkdir(parents=True)
        dirs.append(("directory under build/ (creation in name order)", d0, names))
        if os.path.isdir("/dev/shm") and os.access("/dev/shm", os.W_OK):
            r = tempfile.mkdtemp(prefix="c04glob_", dir="/dev/shm"); roots.append(r)
            for tag, order in (("tmpfs, files created in name order", names), ("tmpfs, files created in reverse name order", names[::-1])):
                d = os.path.join(r, "d%d" % len(dirs)); os.mkdir(d)
                dirs.append((tag, d, order))
        else:
            ck.notes.append("concatenate_raw(pattern): no tmpfs available, only one directory enumeration order exercised")
        for tag, d, order in dirs:
            for n in order:
                write_file(os.path.join(str(d), n), fl[names.index(n)][1])
        calls = [{"id": i, "paths": [], "glob": os.path.join(str(d), "run_*.raw"), "n_blocks": -1, "pb": None, "subs": None, "max_workers": None,
                  "delay_seed": None, "guard": False, "native_so": None} for i, (tag, d, order) in enumerate(dirs)]
        jp = ck.bdir / "jobs_glob.json"
        jp.write_text(json.dumps({"calls": calls, "guard_s": 20}))
        rc, so, se = vlib.run_impl_script("c03_impl.py", [jp], timeout=600)
        if rc != 0:
            ck.tie_broken("correspondence", "implementation run (concatenate_raw with a pattern)", (se or so)[-800:])
            return 1
        res = json.loads(so)["results"]
        firsts = []
        for (tag, d, order), r in zip(dirs, res):
            ck.case(["glob", tag])
            firsts.append((tag, sorted(os.listdir(str(d))) != os.listdir(str(d)), r["outcome"], [h[1] for h in r["values"][0]["hdr"]][:12] if r["outcome"] == "ok" else r.get("exc")))
        ck.cov["concatenate_raw_pattern"] = [{"directory": t, "enumeration_differs_from_name_order": e, "outcome": o, "first_evt_no": f} for t, e, o, f in firsts]
        bad = [i for i, r in enumerate(res) if r["outcome"] != "ok"]
        if bad:
            ck.violation("C04:concatenate_raw:pattern:" + res[bad[0]]["outcome"], f"concatenate_raw('{calls[bad[0]]['glob']}') over {len(names)} well-formed files: {res[bad[0]].get('exc')}",
                         {"mode": "glob", "files": [f[1] for f in fl]})
            return 1
        for i in range(1, len(res)):
            if res[i]["values"][0] != res[0]["values"][0]:
                ck.violation("C04:concatenate_raw:pattern:directory-enumeration-order",
                             f"concatenate_raw('<dir>/run_*.raw') over the same {len(names)} files (same names, same contents) returns the events in a different order "
                             f"depending on how the directory enumerates them: {firsts[0][0]} -> evt_no {firsts[0][3]}; {firsts[i][0]} -> evt_no {firsts[i][3]}",
                             {"mode": "glob", "files": [f[1] for f in fl]})
                return 1
        return 0
    finally:
        for r in roots:
            shutil.rmtree(r, ignore_errors=True)


def replay(path):
    data = json.load(open(path))
    print(json.dumps({k: data[k] for k in data if k != "replay"}, indent=1)[:1500])
    rp = data.get("replay") or {}
    if not rp.get("files"):
        return 0
    if rp.get("mode") == "glob":
        class _Ck:      # minimal stand-in: only what glob_part uses
            bdir = vlib.BUILD / "C04_replay"; notes = []; cov = {}
            def case(self, *a): pass
            def tie_broken(self, *a): print("tie broken:", a)
            def violation(self, key, what, rp): print("still fails on the current working tree:", key, what[:400])
        _Ck.bdir.mkdir(exist_ok=True)
        return glob_part(_Ck(), [(None, w, None) for w in rp["files"]])
    if rp.get("mode") in ("rewritten-path", "path-through-symlinked-directory", "literal-name-with-pattern-characters"):
        import os, shutil
        d = vlib.BUILD / "C04_replay"; shutil.rmtree(d, ignore_errors=True); (d / "store" / "day1").mkdir(parents=True)
        base = {"n_blocks": -1, "pb": None, "subs": None, "max_workers": None, "delay_seed": None, "guard": False, "native_so": None}
        calls = []
        for k, w in enumerate(rp["files"]):          # reference: every content at a path of its own
            write_file(d / f"own{k}.raw", w); calls.append(dict(base, id=k, paths=[str(d / f"own{k}.raw")]))
        if rp["mode"] == "rewritten-path":
            calls.append(dict(base, id=len(calls), paths=[str(d / "rewritten.raw")], rewrite=rp["files"]))
        elif rp["mode"] == "literal-name-with-pattern-characters":
            (d / "run[1]").mkdir(); (d / "run1").mkdir(); write_file(d / "run[1]" / "x.raw", rp["files"][0]); write_file(d / "run1" / "x.raw", rp["files"][1])
            calls.append(dict(base, id=len(calls), paths=[], glob=str(d / "run[1]" / "x.raw")))
        else:
            os.symlink(os.path.join("store", "day1"), d / "today"); write_file(d / "store" / "x.raw", rp["files"][0])
            write_file(d / "x.raw", rp["files"][-1] if len(rp["files"]) > 1 else rp["files"][0][:0] or rp["files"][0])
            calls.append(dict(base, id=len(calls), paths=[str(d / "today" / ".." / "x.raw")], concat=True))
        jp = d / "jobs.json"; jp.write_text(json.dumps({"calls": calls, "guard_s": 20}))
        rc, so, se = vlib.run_impl_script("c03_impl.py", [jp], timeout=300)
        res = json.loads(so)["results"]
        own = [r["values"][0] for r in res[:len(rp["files"])]]
        got = res[-1].get("values") or []
        want = own if rp["mode"] == "rewritten-path" else own[:1]
        ok = res[-1]["outcome"] == "ok" and [{k: v[k] for k in ("hdr", "dets")} for v in got] == [{k: v[k] for k in ("hdr", "dets")} for v in want]
        print("outcome on the current working tree:", "same events as the files read at paths of their own" if ok else f"DIFFERS ({res[-1]['outcome']} {res[-1].get('exc', '')})")
        return 0 if ok else 1
    d = vlib.BUILD / "C04_replay"
    d.mkdir(exist_ok=True)
    p = d / "replay.raw"
    write_file(p, rp["files"][0])
    c = dict(rp["call"]); c["paths"] = [str(p)]; c["guard"] = True
    jp = d / "jobs.json"
    jp.write_text(json.dumps({"calls": [c], "guard_s": 15}))
    rc, so, se = vlib.run_impl_script("c03_impl.py", [jp], timeout=300)
    r = json.loads(so)["results"][0]
    print("outcome on the current working tree:", r["outcome"], r.get("exc"))
    return 0 if r["outcome"] == "ok" else 1
