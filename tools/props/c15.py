"""C15 — the raw-data parser never reads outside its buffer.

prove (coq/Props/C15Proofs.v, C15.v) -> build the working tree's raw_io.cc natively under ASan/UBSan and the extracted
Gallina parser -> correspondence on well-formed streams, the adversarial stream and random buffers against BOTH model
variants (unchecked = pinned tree, checked = proposed repair) -> decide which variant mirrors the working tree ->
direct statement of the property on the implementation (no sanitizer abort, no time-out) with specific keys."""
import json
from collections import Counter, defaultdict
from pathlib import Path

import rawgen as G
import vlib

NATIVE_DIR = vlib.BUILD / "native"

# hand-minimised witnesses, identical to the Gallina definitions in C15Proofs.v (re-checked inside Coq on every run)
def _mini_event(body): return [G.FULL_EVENT, 17 + len(body), 17, G.EVT_VERSION, 0, 0, 10, 1, 2, 3, 4, 0, 0, 5, 6, 7, 8] + body
def _mini_sub(i, body): return [G.SUB_DETECTOR, 7 + len(body), 7, 0, i * 65536, 0, 0] + body
def _mini_ros(body): return [G.ROS, 10 + len(body), 10, 0, 0, 0, 3, 0, 0, 0] + body
def _mini_rob(total, body, tr): return [G.ROB, total, 7, 0, 0, 0, 0, G.ROD, 9, 0, 0, 0, 0, 0, 0, 0] + body + tr
def _w(total, tr): return _mini_event(_mini_sub(0xA1, _mini_ros(_mini_rob(total, [5], tr))))
CORPUS = [
    ("truncate", "evt.source", _mini_event([])[:5], "witness_truncated"),
    ("replace", "rob.total", _w(0, [0, 1, 0]), "witness_date_length"),
    ("replace", "rod.nstatus", _w(20, [7, 1, 0]), "witness_erase_front"),
    ("replace", "rod.ndata", _w(20, [0, 9, 1]), "witness_erase_back"),
    ("replace", "evt.nstatus", [G.FULL_EVENT, 17, 17, G.EVT_VERSION, 0, 4294967295, 10, 1, 2, 3, 4, 0, 0, 5, 6, 7, 8], "witness_n_status"),
    ("wellformed", "-", _w(20, [0, 1, 0]), "witness_erase_ok"),
]


def corruption_class(kind, label):
    if kind in ("truncate", "random", "wellformed"):
        return kind
    if kind == "replace-pair":
        return "two-header-words"
    f = label.split(".")[-1]
    if f in ("total", "hsize", "size"):
        return "size-word"
    if f in ("nstatus", "nspec", "ndata"):
        return "count-word"
    if f in ("flag", "version", "pos"):
        return "marker-word"
    if f == "source":
        return "source-word"
    return "payload-word"


def norm_kind(k):
    import re
    k = k.replace("asan:requested", "asan:allocation-size-too-big").rstrip(":")
    return re.sub(r"\d+", "N", k) if k.startswith("ubsan:") else k


def gen_cases(ck):
    quick = ck.tier == "quick"
    rng = ck.rng
    cases = []  # dict(mask, words, kind, label)
    for kind, label, w, name in CORPUS:
        cases.append({"mask": 1, "w": w, "kind": kind, "label": label, "name": name})
    for _ in range(400 if quick else 3000):
        evs, o = G.gen_stream(rng)
        cases.append({"mask": rng.choice([0, 63, 63, 127 if rng.random() < 0.1 else 63, rng.randrange(64), rng.randrange(1, 64)]),
                      "w": o.w, "kind": "wellformed", "label": "-"})
    # one ROB with more data words than fit a 16-bit counter (a legal, self-consistent fragment of > 256 KiB), per digi-producing detector
    for det in ((0xA1, 0xA3) if quick else (0xA1, 0xA2, 0xA3, 0xA4)):
        ev = G.gen_event(rng, nsub=0)
        sd = G.gen_subdet(rng, det_id=det); sd.pop("raw", None)
        rob = G.gen_rob(rng, det, big=True); rob["data"] = G.gen_data(rng, det, 65536 + 37)
        ros = G.gen_ros(rng, det); ros["robs"] = [rob]
        sd["ros"] = [ros]; ev["subs"] = [sd]
        cases.append({"mask": 63, "w": G.enc_items([(None, ev)]).w, "kind": "wellformed", "label": "big-rob"})
    # ... and ROB payloads just below / at / above the sizes at which an implementation may switch buffers (powers of two in words or bytes)
    sizes = [255, 256, 257, 1023, 1025, 4095, 4096, 4097, 6000, 16383, 16384, 16385, 32769]
    for k, nw in enumerate(sizes if not quick else [257, 1025, 4097, 6000, 16384, 16385]):
        det = (0xA1, 0xA3, 0xA4, 0xA2)[k % 4]
        ev = G.gen_event(rng, nsub=0)
        sd = G.gen_subdet(rng, det_id=det); sd.pop("raw", None)
        rob = G.gen_rob(rng, det, big=True); rob["data"] = G.gen_data(rng, det, nw)
        ros = G.gen_ros(rng, det); ros["robs"] = [rob]
        sd["ros"] = [ros]; ev["subs"] = [sd]
        cases.append({"mask": 63, "w": G.enc_items([(None, ev)]).w, "kind": "wellformed", "label": f"rob-{nw}-words"})
    nbase = 0
    want = 10 if quick else 80
    while nbase < want:
        evs, o = G.gen_stream(rng)
        if not (40 <= len(o.w) <= (260 if quick else 600)):
            continue
        nbase += 1
        masks = [63, rng.choice([0, 1, 2, 5, 16, 32, 48, rng.randrange(1, 64)])]
        for mask in masks:
            for kind, label, w in G.adversarial(rng, o):
                cases.append({"mask": mask, "w": w, "kind": kind, "label": label})
        if nbase <= (6 if quick else 40):
            for kind, label, w in G.adversarial_pairs(rng, o):
                cases.append({"mask": 63, "w": w, "kind": kind, "label": label})
    for kind, label, w in G.random_buffers(rng, 400 if quick else 5000):
        cases.append({"mask": rng.choice([63, 63, 0, rng.randrange(64)]), "w": w, "kind": kind, "label": label})
    return cases


def shrink_native(exe, mask, w):
    """greedy: shortest prefix (then zeroing of payload words is not attempted) that still ends in a sanitizer report"""
    best = w
    if len(w) > 1500:          # every prefix of a long buffer is too much work (and a time-out costs seconds each): keep it as it is
        return best
    lo_cases = [(mask, w[:k]) for k in range(len(w))]
    res = G.run_native(exe, lo_cases)
    for k, r in enumerate(res):
        if r[0] in ("san", "timeout"):
            best = w[:k]
            break
    return best


def run(ck: vlib.Check):
    ck.cov["rule"] = (
        "cases = (selection mask, word buffer) from one PRNG: (1) well-formed event streams from the encoder "
        "(0-6 sub-detector fragments incl. unknown ids / opaque bodies / empty ones, 0-3 ROS, 0-4 ROB, status words before or "
        "after the data, duplicate T/Q words, full-width values, 1-3 events with or without block separators); (2) the "
        "adversarial stream of base streams: every size/count/marker/source word replaced by each of {0,1,rem-1,rem,rem+1,2^31-1,"
        "2^32-1}, every truncation point, sampled payload replacements; (3) random word buffers seeded with the format's "
        "markers.  Each case is run through the working tree's raw_io.cc compiled natively with ASan+UBSan (forked child, "
        "buffer ending at a PROT_NONE guard) and through the extracted Gallina parser in both variants; outcome class "
        "(arrays / exception text / sanitizer abort / time-out vs Ok / Throw / OOB / OutOfFuel) and all arrays are compared. "
        "distinct_nontrivial = distinct (mask, buffer) pairs (hashed); every one is a full parser run.")
    ck.trusted += [
        "hand model coq/Model/RawParser.v (mirror of raw_io.cc, two variants) — tied by the native correspondence of this run",
        "pybind11 stand-in native/shim + driver native/rawdrv.cc; clang ASan/UBSan + PROT_NONE guard region as the oracle for "
        "out-of-bounds reads on the executed inputs",
        "extraction (ExtrOcamlBasic) + ocaml/rawmodel_drv.ml; a sample of its answers is re-computed inside coqc by vm_compute",
        "besio_cpp.cc binding glue is not rebuilt (no pybind11 in the sandbox): modelled, not verified",
    ]
    ck.assumptions += ["buffer elements are 32-bit words (numpy uint32 array)",
                       "memory safety is proved of the model; the binary is covered on the executed inputs by the sanitizers",
                       "advancing the cursor beyond the end without dereferencing it (unchecked skip) is not counted as a read"]
    for f in (vlib.BUILD / "replays").glob("C15_*.json"):   # replays of earlier runs would be misleading
        f.unlink()
    # ---- 1 prove
    ck.prove(["C15Proofs.v"], "C15.v")
    # ---- 2 build
    exe, log = G.build_native(NATIVE_DIR)
    ck.cov["native_build"] = log if exe else "FAILED"
    if exe is None:
        ck.tie_broken("native-build", "raw_io.cc", log)
    mexe, mlog = G.build_model(NATIVE_DIR)
    if mexe is None:
        ck.tie_broken("model-build", "RawExtract.v", mlog)
    if exe is None or mexe is None:
        return
    # ---- 2a binding glue: the parser walks `ptr .. ptr + size` of the array it is given, so the binding must hand it C-contiguous
    #         words only (pybind11: array_t<uint32_t, c_style | forcecast> converts any other layout; plain array_t<uint32_t> passes
    #         strided views through unchanged).  Source obligation + the experiment on the extension that can be imported.
    import re as _re
    cpp_dir = vlib.SRC / "besio" / "cpp"
    sig = _re.findall(r"py_read_bes_raw\s*\(\s*(py::array_t<[^)]*?>)\s*data", (cpp_dir / "raw_io.cc").read_text() + (cpp_dir / "raw_io.hh").read_text())
    ctor = _re.findall(r"RawBinaryParser\s*\(\s*(py::array_t<[^)]*?>)\s*data", (cpp_dir / "raw_io.hh").read_text())
    contiguity_check = bool(_re.search(r"c_style|c_contiguous|C_CONTIGUOUS|strides\s*\(", (cpp_dir / "raw_io.cc").read_text() + (cpp_dir / "raw_io.hh").read_text()))
    ck.cov["binding_signature"] = {"py_read_bes_raw": sig, "RawBinaryParser": ctor, "requires_or_checks_contiguity": contiguity_check}
    rc_s, so_s, se_s = vlib.run_impl_script("c15_stride_impl.py", [], timeout=300)
    strided = json.loads(so_s) if rc_s == 0 else {"error": (se_s or so_s)[-300:]}
    ck.cov["strided_input_through_prebuilt_extension"] = strided
    ck.case(["binding", "strided"])
    if not contiguity_check:
        ck.violation("C15:binding:accepts-non-contiguous-arrays",
                     f"py_read_bes_raw takes {sig[0] if sig else '?'} (no c_style flag, no contiguity check) and RawBinaryParser walks ptr .. ptr + size(): a strided "
                     f"uint32 view is read as if contiguous, i.e. from memory outside the words supplied.  Experiment on the importable extension (same signature): "
                     f"a valid stream with evt_no 7 -> {strided.get('contiguous')}; the SAME words as a negative-stride view -> {strided.get('reversed_view')} "
                     f"(4242 lives in memory placed after the view); as a stride-2 view -> {strided.get('stride2_view')}",
                     {"mode": "binding", "script": "tools/impl/c15_stride_impl.py", "observed": strided})
    elif isinstance(strided.get("reversed_view"), list) and strided.get("reversed_view") != strided.get("contiguous"):
        ck.notes.append("the source requires contiguous input; the prebuilt extension (older than the source) still mis-reads strided views: " + json.dumps(strided))
    # ---- 2b decoder calls running at the same time (RawBinaryReader.arrays decodes its batches on a thread pool with the GIL
    #         released): nothing may be shared between calls.  Well-formed streams of different sizes, 6 threads, one process, ASan.
    import os as _os, subprocess as _sp
    tcases = []
    while len(tcases) < (16 if ck.tier == "quick" else 48):
        evs, o = G.gen_stream(ck.rng)
        if 30 <= len(o.w) <= 4000:
            tcases.append((ck.rng.choice([63, 63, 15, 32, 48]), o.w))
    tin = "".join("%d %d %s\n" % (m, len(w), " ".join(map(str, w))) for m, w in tcases)
    tenv = dict(_os.environ); tenv.update(G.ASAN_ENV)
    try:
        tp = _sp.run([str(exe), "--threads", "6", "40" if ck.tier == "quick" else "200"], input=tin, capture_output=True, text=True, env=tenv, timeout=600)
        tout = (tp.stdout or "").strip().splitlines()
        ck.cov["concurrent_decoder_calls"] = {"streams": len(tcases), "threads": 6, "result": tout[-1] if tout else "", "rc": tp.returncode}
        for i in range(6 * len(tcases)):
            ck.case(["threads", i])
        if tp.returncode != 0 or not tout or not tout[-1].startswith("THREADS OK"):
            head = next((l for l in (tp.stderr or "").splitlines() if "ERROR: AddressSanitizer" in l or "runtime error" in l), (tout[-1] if tout else "no output"))
            ck.violation("threads:" + (head.split("AddressSanitizer: ")[1].split()[0] if "AddressSanitizer: " in head else head.split()[1] if head.startswith("THREADS") else "abort"),
                         f"decoding {len(tcases)} well-formed streams on 6 threads at the same time (one process, as the reader's thread pool does) "
                         f"differs from decoding them one at a time: {head[:300]}",
                         {"mode": "threads", "cases": [[m, w] for m, w in tcases[:4]], "stderr": (tp.stderr or "")[-1500:]})
    except _sp.TimeoutExpired:
        ck.violation("threads:timeout", "concurrent decoder calls did not finish within 600 s", {"mode": "threads"})
    # ---- 2c the same words handed over in the other layouts / item types NumPy can present (stride-2 view, int32 items, negative-stride
    #         view, uint64 items, big-endian items, float64 items): the binding converts them; the parser must then read exactly the
    #         supplied words, while the converted copy is alive.  Decoded result must equal that of the C-contiguous uint32 form, or
    #         be an exception; a sanitizer report (read outside / after release of the words) is the violation.
    FORMS = {1: "stride2-view", 2: "int32-items", 3: "negative-stride-view", 4: "uint64-items", 5: "big-endian-items", 6: "float64-items"}
    fcases = [(m, w) for m, w in tcases[:10 if ck.tier == "quick" else 40]]
    for m, w in list(fcases[:6]):
        fcases.append((m, w[:ck.rng.randrange(1, len(w))]))            # truncated streams take the error paths
        w2 = list(w); w2[ck.rng.randrange(len(w2))] = ck.rng.choice([0, 1, 2 ** 31 - 1, 2 ** 32 - 1]); fcases.append((m, w2))
    fcases += [(15, []), (15, [G.FULL_EVENT])]
    fin = [(m | (f << 8), w) for m, w in fcases for f in [0] + sorted(FORMS)]
    fres = G.run_native(exe, fin)
    per = len(FORMS) + 1
    form_out = Counter()
    fviol = {}

    def fv(key, what, rp, n):
        if key not in fviol or n < fviol[key][0]:
            fviol[key] = (n, what, rp)
    for k, (m, w) in enumerate(fcases):
        ref = fres[k * per]
        for j, f in enumerate(sorted(FORMS), start=1):
            got = fres[k * per + j]
            ck.case(["form", f, m, w])
            form_out[FORMS[f] + ":" + got[0]] += 1
            if got[0] in ("san", "timeout", "harness"):
                kind = norm_kind(got[1]) if got[0] == "san" else got[0]
                fv(f"binding:{FORMS[f]}:{kind}",
                             f"{len(w)} words handed to py_read_bes_raw as {FORMS[f]}: native outcome {list(got[:2])} (C-contiguous uint32 form: {ref[0]})",
                             {"mode": "forms", "mask": m, "form": f, "words": w[:1500], "native": list(got[:2])}, len(w))
            elif got[0] == "ok" and ref[0] == "ok" and got != ref:
                fv(f"binding:{FORMS[f]}:reads-other-memory",
                             f"{len(w)} words handed to py_read_bes_raw as {FORMS[f]} decode differently from the same words as a C-contiguous uint32 array: "
                             f"the parser read memory that is not the supplied words",
                             {"mode": "forms", "mask": m, "form": f, "words": w[:1500]}, len(w))
            elif got[0] == "ok" and ref[0] != "ok":
                fv(f"binding:{FORMS[f]}:accepted-where-contiguous-form-{ref[0]}",
                             f"{len(w)} words as {FORMS[f]} give arrays while the C-contiguous form gives {list(ref[:2])}",
                             {"mode": "forms", "mask": m, "form": f, "words": w[:1500]}, len(w))
    for key, (n, what, rp) in sorted(fviol.items()):
        ck.violation(key, what, rp)
    ck.cov["input_forms"] = {"streams": len(fcases), "forms": FORMS, "outcomes": dict(sorted(form_out.items()))}
    # ---- 3 run everything
    cases = gen_cases(ck)
    cw = [(c["mask"], c["w"]) for c in cases]
    nat = G.run_native(exe, cw)
    m0 = G.run_model(mexe, cw, False)
    m1 = G.run_model(mexe, cw, True)
    dis0 = [(i, G.agree(m0[i], nat[i])) for i in range(len(cases))]
    dis1 = [(i, G.agree(m1[i], nat[i])) for i in range(len(cases))]
    bad0 = [(i, d) for i, d in dis0 if d]
    bad1 = [(i, d) for i, d in dis1 if d]
    discriminating = sum(1 for a, b in zip(m0, m1) if a != b)
    if not bad0:
        variant = "unchecked"
    elif not bad1:
        variant = "checked"
    else:
        variant = "neither"
    ck.cov["variant_of_working_tree"] = variant
    ck.cov["cases_on_which_the_variants_differ"] = discriminating
    ck.cov["disagreements"] = {"with_unchecked_model": len(bad0), "with_checked_model": len(bad1)}
    ck.cov["applicable_theorem"] = {
        "unchecked": "C15_memory_safe_refuted_* (the property fails for the working tree), C15_unchecked_exact_guard, C15_parser_terminates",
        "checked": "C15_parser_memory_safe, C15_parser_terminates",
        "neither": "none — the working tree corresponds to neither model variant"}[variant]
    if variant == "neither":
        best = bad0 if len(bad0) <= len(bad1) else bad1
        which = "unchecked" if best is bad0 else "checked"
        for i, d in best[:4]:
            ck.tie_broken("correspondence", f"native vs {which} model, case {i} ({cases[i]['kind']} {cases[i]['label']})",
                          f"mask={cases[i]['mask']} words={cases[i]['w'][:60]} ... : {d}")
    outc = Counter()
    mdl = m0 if variant != "checked" else m1
    for c, n, m in zip(cases, nat, mdl):
        ck.case([c["mask"], c["w"]])
        outc[(c["kind"] if c["kind"] in ("wellformed", "truncate", "random") else "replace") + ":" + n[0]] += 1
    ck.cov["outcomes"] = dict(sorted(outc.items()))
    for c, n in list(zip(cases, nat))[:3] + list(zip(cases, nat))[len(CORPUS) + 400:len(CORPUS) + 403]:
        ck.sample({"mask": c["mask"], "kind": c["kind"], "label": c["label"], "n_words": len(c["w"]), "words_head": c["w"][:24],
                   "native": n[0] if n[0] == "ok" else list(n[:2])})
    # ---- 4 a sample of the extracted program's answers is re-computed inside Coq (ties extraction to the Gallina model)
    small = [i for i in range(len(cases)) if len(cases[i]["w"]) <= 140]
    pick = list(range(len(CORPUS))) + ck.rng.sample(small, min(len(small), 260 if ck.tier == "quick" else 1200))
    for chk, ms in ((False, m0), (True, m1)):
        for j in range(0, len(pick), 300):
            sub = pick[j:j + 300]
            v = ck.props / f"Cases{int(chk)}_{j // 300}.v"
            v.write_text(G.cases_file([cw[i] for i in sub], [ms[i] for i in sub], chk))
            rc, so, se = ck.coqc(v, 600)
            bools = G.parse_bools(so) if rc == 0 else None
            if bools is None or len(bools) != len(sub):
                ck.tie_broken("correspondence", f"vm_compute re-check {v.name}", (se or so)[-800:])
            elif not all(bools):
                k = sub[bools.index(False)]
                ck.tie_broken("correspondence", f"extracted model differs from vm_compute (chk={chk})",
                              f"mask={cw[k][0]} words={cw[k][1][:80]} extracted={ms[k][:3]}")
    ck.cov["vm_compute_rechecked"] = 2 * len(pick)
    # ---- 5 the property stated directly on the implementation: arrays or an exception, nothing else
    prefix = "unchecked" if variant == "unchecked" else "oob"
    groups = defaultdict(list)
    for i, (c, n) in enumerate(zip(cases, nat)):
        if n[0] in ("ok", "exc"):
            continue
        if n[0] == "san":
            prim = mdl[i][1] if (mdl[i][0] == "oob" and variant != "neither") else norm_kind(n[1])
            key = f"{prefix}:{prim}:{corruption_class(c['kind'], c['label'])}"
        elif n[0] == "timeout":
            key = f"timeout:{corruption_class(c['kind'], c['label'])}"
        else:
            ck.tie_broken("native-run", f"case {i}", str(n)[:300])
            continue
        groups[key].append(i)
    pcs = sorted({pc for idx in groups.values() for k in idx[:40] if nat[k][0] == "san" for pc in nat[k][2]})
    sym = G.symbolize(exe, pcs) if groups else {}
    for key, idx in sorted(groups.items()):
        i = min(idx, key=lambda k: len(cases[k]["w"]))
        c, n = cases[i], nat[i]
        w = c["w"] if variant == "unchecked" and key in ck.known_findings() else shrink_native(exe, c["mask"], c["w"])
        frames = [sym[pc][0] + " " + sym[pc][1].split("/")[-1] for pc in n[2] if pc in sym and "raw_io" in sym[pc][1]][:3] if n[0] == "san" else []
        ck.violation(key, f"{len(idx)} inputs; smallest: sub-detector mask {c['mask']}, {len(c['w'])} words, corruption "
                          f"{c['kind']} at {c['label']}: native outcome {list(n[:2])} frames {frames}; model ({variant}) says "
                          f"{list(mdl[i][:3]) if mdl[i][0] != 'ok' else 'ok'}",
                     {"mask": c["mask"], "words": w, "kind": c["kind"], "label": c["label"], "native": list(n[:2]), "frames": frames})
    ck.cov["sanitizer_aborts"] = sum(len(v) for k, v in groups.items() if not k.startswith("timeout"))
    ck.cov["timeouts"] = sum(len(v) for k, v in groups.items() if k.startswith("timeout"))


def replay(path):
    data = json.load(open(path))
    print(json.dumps({k: data[k] for k in data if k != "replay"}, indent=1)[:1500])
    rp = data.get("replay") or {}
    if "words" not in rp:
        return 0
    exe, log = G.build_native(NATIVE_DIR)
    if exe is None:
        print("native build failed:", log)
        return 1
    r = G.run_native(exe, [(rp["mask"] | (rp.get("form", 0) << 8), rp["words"])])[0]
    print("mask", rp["mask"], "words", rp["words"])
    print("native outcome on the current working tree:", r if r[0] != "ok" else "ok (arrays)")
    return 0 if r[0] in ("ok", "exc") else 1
