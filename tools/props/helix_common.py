"""Shared part of the helix checks (C06 C07 C11 C12 C13): regenerate HelixCode.v from helix.py, compile the shared
proof files, validate the translation rules numerically, run one search mode of tools/impl/helix_impl.py."""
import json
import vlib
import py2coq_helix

TRUSTED = [
    "translator tools/py2coq_helix.py (symbolic execution of helix.py -> Gallina over R; rules for the `vector` library, "
    "float % = x - m*floor(x/m), np.sign, np.where, np.isclose, isinstance-selected array branch with element-wise NumPy "
    "semantics except listed coupling operations); fail-closed; its rules are validated every run by rendering the same IR "
    "as Python and comparing with the implementation (object, record, array front-ends)",
    "R model: IEEE rounding and the tolerance behaviour of np.isclose at its boundary are outside the model",
    "atan2 is a Section variable specified by x = rho cos(atan2 y x), y = rho sin(atan2 y x) for (x,y) != 0; a concrete "
    "instance (built from atan) is proved to satisfy it",
]


def regenerate(ck, proof_files):
    """returns (ok, ir_py_path)"""
    src = vlib.SRC / "tracks" / "helix.py"
    try:
        ir = py2coq_helix.translate(str(src))
        text = py2coq_helix.emit_coq(ir, "src/pybes3/tracks/helix.py")
        pytext = py2coq_helix.emit_py(ir)
    except Exception as e:
        ck.tie_broken("translator", "helix.py", f"{type(e).__name__}: {e}")
        return False, None
    ck.write_gen("HelixCode.v", text)
    irpy = ck.bdir / "helix_ir.py"
    irpy.write_text(pytext)
    ck.cov["regenerated"] = {"HelixCode.v": {"coupling_operations": ir["coupling"], "definitions": text.count("Definition ")}}
    if any(ir["coupling"].values()):
        ck.notes.append(f"array/object branch uses coupling operation(s): {ir['coupling']}")
    ok = ck.compile_gen(["HelixCode.v"])
    return ok, irpy


def run_mode(ck, mode, irpy=None, timeout=1500):
    args = [mode, ck.seed, ck.tier] + ([irpy] if irpy else ["-"])
    rc, so, se = vlib.run_impl_script("helix_impl.py", args, timeout=timeout)
    if rc != 0:
        ck.tie_broken("correspondence" if mode == "validate" else "search", f"helix_impl {mode}", (se or so)[-1500:])
        return None
    try:
        res = json.loads(so)
    except Exception:
        ck.tie_broken("correspondence" if mode == "validate" else "search", f"helix_impl {mode}", "unparsable output: " + so[-500:])
        return None
    ck.cov["evaluations"] += res["evaluations"]
    ck.cov.setdefault("input_distribution", {}).update({f"{mode}:{k}": v for k, v in res["distribution"].items()})
    for k, v in res["distribution"].items():
        for i in range(v):
            ck.distinct.add((mode, k, i))
    for s in res["samples"]:
        ck.sample({mode: s})
    return res


def standard(ck, pid, stmt, proof_files, mode, rule):
    ck.cov["rule"] = rule
    ck.trusted += TRUSTED
    ck.assumptions += ["kappa != 0; new pivot not on the circle centre; exact real arithmetic (float rounding outside the model)"]
    ok, irpy = regenerate(ck, proof_files)
    if ok:
        ck.prove(proof_files, stmt, timeout=1800)
    if irpy is not None:
        val = run_mode(ck, "validate", irpy)
        if val is not None:
            for v in val["violations"]:
                # the rendered model and the implementation disagree: the tie (translation rules) is broken
                ck.tie_broken("correspondence", v["key"], v["what"] + " input=" + json.dumps(v["input"])[:400])
    res = run_mode(ck, mode)
    if res is not None:
        for v in res["violations"]:
            ck.violation(v["key"], v["what"], v["input"])
    return ok


def replay(mode):
    def f(path):
        txt = open(path).read()
        print(txt[:4000])
        rp = json.loads(txt)
        # every random choice of the search derives from (seed, tier): the same pair regenerates the same inputs in the same order
        seed, tier = rp.get("seed", 1), rp.get("tier", "quick")
        rc, so, se = vlib.run_impl_script("helix_impl.py", [mode, seed, tier, "-"], timeout=3000)
        r = json.loads(so)
        keys = [v["key"] for v in r["violations"]]
        print("current tree, same seed/tier:", keys)
        if rp.get("key") in keys:
            v = next(v for v in r["violations"] if v["key"] == rp["key"])
            print("reproduced:", v["what"], json.dumps(v["input"])[:600])
            return 1
        return 1 if keys else 0
    return f
