"""C05 — digi identifiers: regenerate DigiId.v from digi_id.py, prove C05.v, correspond on sampled cases
(model in vm_compute vs numba kernels under several dtypes), direct sweep of the implementation."""
import json, re
from pathlib import Path
import vlib
import py2coq_bits

FUNCS = {  # name -> list of (lo, hi) generators per arg kind
    "check_mdc_id": ["w"], "check_tof_id": ["w"], "check_emc_id": ["w"], "check_muc_id": ["w"], "check_cgem_id": ["w"],
    "mdc_id_to_wire": ["w"], "mdc_id_to_layer": ["w"], "mdc_id_to_is_stereo": ["w"],
    "tof_id_to_part": ["w"], "tof_id_to_end": ["w"], "tof_id_to_layer_or_module_none": ["w"],
    "tof_id_to_phi_or_strip_none": ["w"], "tof_id_to_layer_or_module_some": ["w", "p"], "tof_id_to_phi_or_strip_some": ["w", "p"],
    "emc_id_to_module": ["w"], "emc_id_to_theta": ["w"], "emc_id_to_phi": ["w"],
    "muc_id_to_part": ["w"], "muc_id_to_segment": ["w"], "muc_id_to_layer": ["w"], "muc_id_to_channel": ["w"],
    "muc_id_to_gap": ["w"], "muc_id_to_strip": ["w"],
    "cgem_id_to_layer": ["w"], "cgem_id_to_sheet": ["w"], "cgem_id_to_strip": ["w"], "cgem_id_to_is_x_strip": ["w"],
    "get_mdc_digi_id": ["f", "f", "f"], "get_tof_digi_id": ["p", "f", "f", "f"], "get_emc_digi_id": ["f", "f", "f"],
    "get_muc_digi_id": ["f", "f", "f", "f"], "get_cgem_digi_id": ["f", "f", "f", "f"], "get_cgem_digi_id_b": ["f", "f", "f", "b"],
}
BOOL_RET = {"check_mdc_id", "check_tof_id", "check_emc_id", "check_muc_id", "check_cgem_id", "mdc_id_to_is_stereo",
            "cgem_id_to_is_x_strip"}


def gen_cases(rng, n):
    cases = []
    names = sorted(FUNCS)
    for i in range(n):
        f = names[i % len(names)]
        args = []
        for k in FUNCS[f]:
            r = rng.random()
            if k == "w":
                tag = rng.choice([0x10, 0x20, 0x30, 0x40, 0x60, 0x50, 0x70, rng.randrange(256)])
                low = rng.choice([rng.randrange(1 << 24), 0, (1 << 24) - 1, 0xC000 | rng.randrange(1 << 14)])
                args.append((tag << 24) | low)
            elif k == "p":
                args.append(rng.choice([0, 1, 2, 3, 4, 5, 7, rng.randrange(0, 300)]))
            elif k == "b":
                args.append(rng.randrange(2))
            else:
                if r < 0.5:
                    args.append(rng.randrange(0, 1 << rng.choice([1, 3, 4, 6, 7, 8, 9, 12])))
                elif r < 0.8:
                    args.append(rng.randrange(0, 1 << rng.choice([13, 16, 31, 40])))
                else:
                    args.append(-rng.randrange(0, 1 << rng.choice([1, 7, 15, 40])))
        cases.append({"f": f, "args": args})
    return cases


def coq_term(c):
    f = c["f"]
    args = []
    for k, a in zip(FUNCS[f], c["args"]):
        if k == "b":
            args.append("true" if a else "false")
        else:
            args.append(f"({a})" if a < 0 else str(a))
    t = f"{f} {' '.join(args)}"
    return f"(b2z ({t}))" if f in BOOL_RET else f"({t})"


def parse_zlist(out):
    m = re.search(r"=\s*\[(.*?)\]\s*:\s*list Z", out, flags=re.S)
    if not m:
        return None
    body = m.group(1).strip()
    if not body:
        return []
    return [int(x.strip().strip("()").replace("%Z", "")) for x in body.split(";")]


def run(ck: vlib.Check):
    ck.cov["rule"] = ("cases = (kernel, argument tuple) drawn from one PRNG: words with every detector tag / foreign tags, "
                      "field values in-range, over-wide and negative; non-trivial = distinct (kernel,args) whose model value "
                      "was compared with the numba kernels under every integer dtype able to hold the arguments, Python int "
                      "and NumPy scalars. Separately the implementation is swept over the complete field spaces (search).")
    ck.trusted += [
        "translator tools/py2coq_bits.py (Python ast -> Gallina over Z; rules: & | << >> ~ + - on unbounded Z, "
        "np.uintN(e) = e mod 2^N, ~bool = negb, bool operand = b2z); fail-closed grammar",
        "numba evaluates integer kernels in >=64-bit two's complement; agreement with Z after the final mask/cast is "
        "validated by the dtype sweep, not proved",
    ]
    ck.assumptions += ["inputs are integers representable in 64 bits (numba's widest integer type)"]
    # 1 regenerate
    try:
        text, log = py2coq_bits.translate_digi_id(str(vlib.SRC / "detectors" / "digi_id.py"))
    except Exception as e:
        ck.tie_broken("translator", "digi_id.py", str(e))
        text = None
    ok = False
    if text is not None:
        ck.write_gen("DigiId.v", text)
        ck.cov["regenerated"] = {"DigiId.v": log}
        ok = ck.compile_gen(["DigiId.v"])
    # 2 prove
    if ok:
        ck.prove(["C05Proofs.v", "C05Inj.v"], "C05.v")
    # 3 correspondence (model in vm_compute vs implementation)
    n = 1320 if ck.tier == "quick" else 6600
    cases = gen_cases(ck.rng, n)
    cpath = ck.bdir / "cases.json"
    cpath.write_text(json.dumps(cases))
    rc, so, se = vlib.run_impl_script("c05_impl.py", ["eval", cpath], timeout=600)
    impl = None
    if rc != 0:
        ck.tie_broken("correspondence", "implementation-eval", se[-1500:])
    else:
        impl = json.loads(so)
    if ok and impl is not None:
        model = []
        chunks = [cases[i:i + 440] for i in range(0, len(cases), 440)]
        for j, ch in enumerate(chunks):
            v = ck.props / f"Cases{j}.v"
            v.write_text("From Coq Require Import ZArith List. Import ListNotations.\nFrom PV.Lib Require Import Bits.\n"
                         "From PV.Gen Require Import DigiId.\nLocal Open Scope Z_scope.\n"
                         "Eval vm_compute in [" + ";\n ".join(coq_term(c) for c in ch) + "].\n")
            rc, so, se = ck.coqc(v, 300)
            vals = parse_zlist(so) if rc == 0 else None
            if vals is None or len(vals) != len(ch):
                ck.tie_broken("correspondence", f"model-eval chunk {j}", (se or so)[-800:])
                model = None
                break
            model += vals
        if model is not None:
            nbad = 0
            for c, mv, iv in zip(cases, model, impl["results"]):
                ck.case([c["f"], c["args"]])
                if mv != iv:
                    nbad += 1
                    if nbad <= 5:
                        ck.tie_broken("correspondence", f"{c['f']}{tuple(c['args'])}", f"model={mv} implementation={iv}")
            for k in ("dtype_disagreement", "scalar_disagreement", "npscalar_disagreement"):
                for dis in impl["variants"].get(k, [])[:5]:
                    ck.violation(f"C05:repr:{dis['f']}", f"{k}: {dis}", dis)
            ck.cov["dtypes_tried"] = impl["variants"].get("dtypes_tried", {})
            for c, mv in list(zip(cases, model))[:6]:
                ck.sample({"kernel": c["f"], "args": c["args"], "model": mv})
    # 4 direct sweep of the implementation over the complete field spaces (failing-input search; runs always: cheap)
    rc, so, se = vlib.run_impl_script("c05_impl.py", ["sweep", ck.tier, ck.seed], timeout=3000)
    if rc != 0:
        ck.tie_broken("search", "implementation-sweep", se[-1500:])
    else:
        sw = json.loads(so)
        ck.cov["implementation_sweep"] = {"evaluations": sw["evaluations"], "spaces": sw["spaces"],
                                          "exhaustive_over_field_spaces": True}
        for f in sw["fails"]:
            ck.violation(f"C05:{f['what']}", f"{f['what']}: args={f['args']} got={f['got']} want={f['want']} "
                         f"({f['n_bad']} failing inputs)", f)


def replay(path):
    data = json.load(open(path))
    print(json.dumps(data, indent=1)[:3000])
    rc, so, se = vlib.run_impl_script("c05_impl.py", ["sweep", "quick", 1], timeout=900)
    sw = json.loads(so)
    print("current sweep failures:", json.dumps(sw["fails"][:5]))
    return 1 if sw["fails"] else 0
