"""C08 — global IDs: regenerate tables + gid kernels, prove C08.v, exhaustive correspondence on all elements."""
import json
import vlib, gen_geom, py2coq_bits
from props.c05 import parse_zlist

WIRES = [40, 44, 48, 56, 64, 72, 80, 80, 76, 76, 88, 88, 100, 100, 112, 112, 128, 128, 140, 140, 160, 160, 160, 160,
         176, 176, 176, 176, 208, 208, 208, 208, 240, 240, 240, 240, 256, 256, 256, 256, 288, 288, 288]


def documented_orders():
    ring = lambda th: 64 if th < 2 else 80 if th < 4 else 96
    emc = [[0, th, f] for th in range(6) for f in range(ring(th))]
    emc += [[1, th, f] for th in range(44) for f in range(120)]
    emc += [[2, th, f] for th in (5, 4, 3, 2, 1, 0) for f in range(ring(th))]
    mdc = [[l, w] for l in range(43) for w in range(WIRES[l])]
    return mdc, emc


def regenerate(ck, with_digi=True):
    """shared by C08/C09/C10/C14: regenerate DigiId.v + integer geometry model; returns True when it compiled"""
    try:
        files, log = gen_geom.generate_int(vlib.SRC)
        if with_digi:
            text, dlog = py2coq_bits.translate_digi_id(str(vlib.SRC / "detectors" / "digi_id.py"))
            files["DigiId.v"] = text
            log["digi_kernels"] = dlog
    except Exception as e:
        ck.tie_broken("translator", "geometry/digi_id", f"{type(e).__name__}: {e}")
        return False
    for n, t in files.items():
        ck.write_gen(n, t)
    ck.cov["regenerated"] = log
    if not ck.compile_gen(["TabMdcInt.v", "TabEmcInt.v"] + (["DigiId.v"] if with_digi else []), parallel=True):
        return False
    return ck.compile_gen(["GidMdc.v", "GidEmc.v"], parallel=True)


def run(ck: vlib.Check):
    ck.cov["rule"] = ("exhaustive: every public gid / inverse / parse function of the working tree evaluated on all 6796 wires and "
                      "6240 crystals (NumPy and Awkward inputs) and compared with the model's value (table column / enumeration "
                      "theorem); plus sampled kernel calls evaluated inside Coq; distinct = distinct (function, element) pairs")
    ck.trusted += [
        "translators tools/py2coq_bits.py + tools/gen_geom.py (kernels ast->Gallina; _ensure_loaded by statement dictionary; "
        "npz columns emitted completely as Coq lists via numpy.load)",
        "hand model of the Python glue parse_*_digi_id / parse_*_gid (composition of kernels), tied by the exhaustive correspondence",
    ]
    ck.assumptions += ["table indices within [0, rows) (numba kernels do not bounds-check; outside is undefined behaviour)"]
    ok = regenerate(ck)
    if ok:
        ck.prove(["C05Proofs.v", "C08Proofs.v"], "C08.v")
    mdc, emc = documented_orders()
    sample = []
    for _ in range(120):
        l = ck.rng.randrange(43); w = ck.rng.randrange(WIRES[l])
        sample.append({"f": "get_mdc_gid", "args": [l, w]})
        g = ck.rng.randrange(6796)
        sample.append({"f": ck.rng.choice(["mdc_gid_to_layer", "mdc_gid_to_wire", "mdc_gid_to_superlayer"]), "args": [g]})
        c = ck.rng.choice(emc)
        sample.append({"f": "get_emc_gid", "args": c})
        g = ck.rng.randrange(6240)
        sample.append({"f": ck.rng.choice(["emc_gid_to_part", "emc_gid_to_theta", "emc_gid_to_phi"]), "args": [g]})
    cpath = ck.bdir / "cases.json"
    cpath.write_text(json.dumps({"mdc_order": mdc, "emc_order": emc, "sample": sample}))
    rc, so, se = vlib.run_impl_script("c08_impl.py", [cpath], timeout=600)
    if rc != 0:
        ck.tie_broken("correspondence", "implementation-eval", se[-1500:])
        return
    impl = json.loads(so)
    ck.cov["exhaustive"] = True
    ck.cov["evaluations"] += impl["evaluations"]
    ck.distinct.update(range(impl["evaluations"]))  # each comparison is a distinct (function, element) pair by construction
    for m in impl["mismatches"]:
        ck.violation(f"C08:{m['what']}", f"implementation differs from model/table: {m}", m)
    if ok:
        v = ck.props / "Cases.v"
        terms = ["(%s %s)" % (c["f"], " ".join(map(str, c["args"]))) for c in sample]
        v.write_text("From Coq Require Import ZArith List. Import ListNotations.\nFrom PV.Gen Require Import GidMdc GidEmc.\n"
                     "Local Open Scope Z_scope.\nEval vm_compute in [" + ";\n".join(terms) + "].\n")
        rc, so, se = ck.coqc(v, 300)
        vals = parse_zlist(so) if rc == 0 else None
        if vals is None or len(vals) != len(sample):
            ck.tie_broken("correspondence", "model-eval", (se or so)[-800:])
        else:
            for c, mv, iv in zip(sample, vals, impl["sample"]):
                ck.case([c["f"], c["args"]])
                if mv != iv:
                    ck.tie_broken("correspondence", f"{c['f']}{c['args']}", f"model={mv} implementation={iv}")
            for c, mv in list(zip(sample, vals))[:6]:
                ck.sample({"kernel": c["f"], "args": c["args"], "model": mv})


def replay(path):
    print(open(path).read()[:3000])
    return 0
