"""C08 — global IDs: regenerate tables + gid kernels, prove C08.v, exhaustive correspondence on all elements."""
import json
import vlib, gen_geom, py2coq_bits
from props.c05 import parse_zlist

WIRES = [40, 44, 48, 56, 64, 72, 80, 80, 76, 76, 88, 88, 100, 100, 112, 112, 128, 128, 140, 140, 160, 160, 160, 160,
         176, 176, 176, 176, 208, 208, 208, 208, 240, 240, 240, 240, 256, 256, 256, 256, 288, 288, 288]


def documented_orders():
    ring = lambda th: 64 if th < 2 else 80 if th < 4 else 96
    emc = [[0, th, f] for th in range(6) for f in range(ring(th))]
    emc += [[1, th, f] for th in range(44) for f in range(120)]
    emc += [[2, th, f] for th in (5, 4, 3, 2, 1, 0) for f in range(ring(th))]
    mdc = [[l, w] for l in range(43) for w in range(WIRES[l])]
    return mdc, emc


def documented_from_page(text):
    """what docs/user-manual/detector/global-id.md itself says: MDC range and order, the three EMC ranges with their increasing order
    (theta ascending or `-theta`), the ring tables of the two endcaps.  Returns (facts, emc_order built from the page)"""
    import re
    rows = [[c.strip() for c in l.strip().strip("|").split("|")] for l in text.splitlines() if l.strip().startswith("|")]
    facts = {"mdc": None, "emc_parts": {}, "rings": {}}
    for r in rows:
        if len(r) == 2 and re.fullmatch(r"\d+~\d+", r[0]) and "layer" in r[1]:
            facts["mdc"] = [int(x) for x in r[0].split("~")] + [r[1].replace(" ", "")]
        if len(r) == 3 and re.fullmatch(r"\d+~\d+", r[0]) and "theta" in r[1] and r[2] in ("Endcap 0", "Barrel", "Endcap 1"):
            facts["emc_parts"][r[2]] = [int(x) for x in r[0].split("~")] + [r[1].replace(" ", "")]
        if len(r) == 4 and re.fullmatch(r"\d+~\d+", r[0]) and r[1].isdigit() and r[2].isdigit():
            lo, hi = [int(x) for x in r[0].split("~")]
            facts["rings"].setdefault("Endcap 0" if lo < 480 else "Endcap 1", []).append([lo, hi, int(r[1]), int(r[2])])
    order = []
    try:
        for part, name in ((0, "Endcap 0"), (1, "Barrel"), (2, "Endcap 1")):
            lo, hi, inc = facts["emc_parts"][name]
            if len(order) != lo:
                return facts, None
            if name == "Barrel":
                if inc != "(theta,phi)" or (hi - lo + 1) != 44 * 120:
                    return facts, None
                order += [[1, th, f] for th in range(44) for f in range(120)]
            else:
                for rlo, rhi, cnt, th in facts["rings"][name]:
                    if len(order) != rlo or rhi - rlo + 1 != cnt:
                        return facts, None
                    order += [[part, th, f] for f in range(cnt)]
                ths = [r[3] for r in facts["rings"][name]]
                if (inc == "(theta,phi)" and ths != sorted(ths)) or (inc == "(-theta,phi)" and ths != sorted(ths, reverse=True)) or inc not in ("(theta,phi)", "(-theta,phi)"):
                    return facts, None
            if len(order) != hi + 1:
                return facts, None
    except (KeyError, ValueError):
        return facts, None
    return facts, order


def regenerate(ck, with_digi=True):
    """shared by C08/C09/C10/C14: regenerate DigiId.v + integer geometry model; returns True when it compiled"""
    try:
        files, log = gen_geom.generate_int(vlib.SRC)
        if with_digi:
            text, dlog = py2coq_bits.translate_digi_id(str(vlib.SRC / "detectors" / "digi_id.py"))
            files["DigiId.v"] = text
            log["digi_kernels"] = dlog
    except Exception as e:
        ck.tie_broken("translator", "geometry/digi_id", f"{type(e).__name__}: {e}")
        return False
    for n, t in files.items():
        ck.write_gen(n, t)
    ck.cov["regenerated"] = log
    if not ck.compile_gen(["TabMdcInt.v", "TabEmcInt.v"] + (["DigiId.v"] if with_digi else []), parallel=True):
        return False
    return ck.compile_gen(["GidMdc.v", "GidEmc.v"], parallel=True)


def run(ck: vlib.Check):
    ck.cov["rule"] = ("exhaustive: every public gid / inverse / parse function of the working tree evaluated on all 6796 wires and "
                      "6240 crystals (NumPy and Awkward inputs) and compared with the model's value (table column / enumeration "
                      "theorem); plus sampled kernel calls evaluated inside Coq; distinct = distinct (function, element) pairs")
    ck.trusted += [
        "translators tools/py2coq_bits.py + tools/gen_geom.py (kernels ast->Gallina; _ensure_loaded by statement dictionary; "
        "npz columns emitted completely as Coq lists via numpy.load)",
        "hand model of the Python glue parse_*_digi_id / parse_*_gid (composition of kernels), tied by the exhaustive correspondence",
    ]
    ck.assumptions += ["table indices within [0, rows) (numba kernels do not bounds-check; outside is undefined behaviour)"]
    ok = regenerate(ck)
    if ok:
        ck.prove(["C05Proofs.v", "C08Proofs.v"], "C08.v")
    mdc, emc = documented_orders()
    # the specification IS the documentation page: re-read it on every run and compare with the enumeration the theorems are stated on
    try:
        facts, page_emc = documented_from_page((vlib.REPO / "docs" / "user-manual" / "detector" / "global-id.md").read_text())
    except Exception as e:  # noqa
        facts, page_emc = {"error": str(e)}, None
    ck.cov["documentation_page"] = {"mdc": facts.get("mdc"), "emc_parts": facts.get("emc_parts"), "rings_rows": {k: len(v) for k, v in (facts.get("rings") or {}).items()}}
    if facts.get("mdc") != [0, 6795, "(layer,wire)"]:
        ck.tie_broken("specification", "global-id.md:MDC", f"the page documents {facts.get('mdc')}, the theorems are stated for gid 0~6795 in (layer, wire) order")
    if page_emc is None:
        ck.tie_broken("specification", "global-id.md:EMC", f"the EMC tables of the page could not be read as a dense numbering: {json.dumps(facts)[:400]}")
    elif page_emc != emc:
        k = next(i for i, (a, b) in enumerate(zip(page_emc, emc)) if a != b) if len(page_emc) == len(emc) else min(len(page_emc), len(emc))
        ck.tie_broken("specification", "global-id.md:EMC", f"the page's numbering differs from the enumeration the theorems are stated on, first at gid {k}")
        emc = page_emc      # the implementation is judged against what the page says
    sample = []
    for _ in range(120):
        l = ck.rng.randrange(43); w = ck.rng.randrange(WIRES[l])
        sample.append({"f": "get_mdc_gid", "args": [l, w]})
        g = ck.rng.randrange(6796)
        sample.append({"f": ck.rng.choice(["mdc_gid_to_layer", "mdc_gid_to_wire", "mdc_gid_to_superlayer"]), "args": [g]})
        c = ck.rng.choice(emc)
        sample.append({"f": "get_emc_gid", "args": c})
        g = ck.rng.randrange(6240)
        sample.append({"f": ck.rng.choice(["emc_gid_to_part", "emc_gid_to_theta", "emc_gid_to_phi"]), "args": [g]})
    cpath = ck.bdir / "cases.json"
    cpath.write_text(json.dumps({"mdc_order": mdc, "emc_order": emc, "sample": sample}))
    rc, so, se = vlib.run_impl_script("c08_impl.py", [cpath], timeout=600)
    if rc != 0:
        ck.tie_broken("correspondence", "implementation-eval", se[-1500:])
        return
    impl = json.loads(so)
    ck.cov["exhaustive"] = True
    ck.cov["evaluations"] += impl["evaluations"]
    ck.distinct.update(range(impl["evaluations"]))  # each comparison is a distinct (function, element) pair by construction
    for m in impl["mismatches"]:
        ck.violation(f"C08:{m['what']}", f"implementation differs from model/table: {m}", m)
    if ok:
        v = ck.props / "Cases.v"
        terms = ["(%s %s)" % (c["f"], " ".join(map(str, c["args"]))) for c in sample]
        v.write_text("From Coq Require Import ZArith List. Import ListNotations.\nFrom PV.Gen Require Import GidMdc GidEmc.\n"
                     "Local Open Scope Z_scope.\nEval vm_compute in [" + ";\n".join(terms) + "].\n")
        rc, so, se = ck.coqc(v, 300)
        vals = parse_zlist(so) if rc == 0 else None
        if vals is None or len(vals) != len(sample):
            ck.tie_broken("correspondence", "model-eval", (se or so)[-800:])
        else:
            for c, mv, iv in zip(sample, vals, impl["sample"]):
                ck.case([c["f"], c["args"]])
                if mv != iv:
                    ck.tie_broken("correspondence", f"{c['f']}{c['args']}", f"model={mv} implementation={iv}")
            for c, mv in list(zip(sample, vals))[:6]:
                ck.sample({"kernel": c["f"], "args": c["args"], "model": mv})


def replay(path):
    print(open(path).read()[:3000])
    return 0
