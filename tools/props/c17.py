"""C17 — numba cache invalidation: prove C17.v over the hand model PV.Model.Cache, then tie the model to the working tree:
(1) structure of __init__.py / src_cache_list / geometry modules, (2) generated op sequences replayed on the REAL
cache_auto_clear / check_numba_cache / clear_numba_cache / import-time check (scratch copy of the source text, synthetic
cache files) vs the model evaluated by vm_compute, (3) end-to-end with real numba in fresh interpreters,
(4) direct statement of the property on the real functions as failing-input search (runs always; shrunk op lists)."""
import ast, json, re
import vlib

TN = ["Mdc", "Emc"]
tn = ["mdc", "emc"]


def fid(t, kind, fn):
    return (fn * 3 + kind) * 2 + t


# ------------------------------------------------------------------------------------------------ structure
def check_structure(ck):
    """fail-closed reading of the facts the model takes from the source layout"""
    info = {}
    # (a) import-time check comes before any sub-module import
    try:
        tree = ast.parse((vlib.SRC / "__init__.py").read_text())
    except Exception as e:
        ck.tie_broken("structure", "__init__.py", f"cannot parse: {e}")
        return info
    seen_import, called = False, False
    for st in tree.body:
        if isinstance(st, ast.Expr) and isinstance(st.value, ast.Constant):
            continue
        if isinstance(st, ast.ImportFrom) and st.module == "__future__":
            continue
        if isinstance(st, ast.ImportFrom) and st.level == 1 and st.module == "_cache_numba" and \
                [a.name for a in st.names] == ["check_numba_cache"] and st.names[0].asname is None:
            seen_import = True
            continue
        if isinstance(st, ast.Expr) and isinstance(st.value, ast.Call) and isinstance(st.value.func, ast.Name) and \
                st.value.func.id == "check_numba_cache" and not st.value.args and not st.value.keywords and seen_import:
            called = True
            break
        ck.tie_broken("structure", "__init__.py:import-time-check",
                      f"line {st.lineno}: `{ast.unparse(st)[:80]}` precedes the unconditional top-level check_numba_cache() call "
                      "(model: Import = check runs before any sub-module is imported, exceptions propagate)")
        return info
    if not called:
        ck.tie_broken("structure", "__init__.py:import-time-check", "no top-level `check_numba_cache()` call found")
    info["init_check_first"] = called
    # (b) each geometry module loads exactly its own table and holds cached kernels; no other cached module reads tables
    gd = vlib.SRC / "detectors" / "geometry"
    for t in tn:
        try:
            txt = (gd / f"{t}.py").read_text()
        except Exception as e:
            ck.tie_broken("structure", f"{t}.py", str(e))
            continue
        loads = set(re.findall(r"np\.load\(\s*_cur_dir\s*/\s*\"([^\"]+)\"", txt))
        nload = len(re.findall(r"\bnp\.load\(", txt))
        ncache = len(re.findall(r"cache\s*=\s*True", txt))
        info[f"{t}.py"] = {"tables_loaded": sorted(loads), "cached_kernels": ncache}
        if loads != {f"{t}_geom.npz"} or nload != len(re.findall(r"np\.load\(\s*_cur_dir\s*/\s*\"", txt)):
            ck.tie_broken("structure", f"{t}.py:tables", f"module loads {sorted(loads)} ({nload} np.load calls); the model pairs "
                          f"{t}.* caches with {t}_geom.npz only")
        if ncache == 0:
            ck.tie_broken("structure", f"{t}.py:kernels", "no cache=True kernel found")
        # the table is read at first use, not at import (model: FirstUse loads the CURRENT table, Import only checks freshness)
        try:
            mod = ast.parse(txt)
        except Exception as e:
            ck.tie_broken("structure", f"{t}.py", f"cannot parse: {e}")
            continue
        def direct_calls(body):
            """names called by statements of `body` without entering nested function definitions"""
            out = []
            stack = list(body)
            while stack:
                n = stack.pop()
                if isinstance(n, (ast.FunctionDef, ast.AsyncFunctionDef, ast.Lambda)):
                    continue
                if isinstance(n, ast.Call) and isinstance(n.func, ast.Name):
                    out.append(n.func.id)
                stack.extend(ast.iter_child_nodes(n))
            return out
        top_fns = {f.name: f for f in mod.body if isinstance(f, ast.FunctionDef)}
        at_import = direct_calls([st for st in mod.body if not isinstance(st, ast.FunctionDef)])
        # decorators of top-level functions run at import too
        for f in top_fns.values():
            at_import += direct_calls(f.decorator_list)
        seen = set()
        frontier = list(at_import)
        while frontier:
            nm = frontier.pop()
            if nm in seen or nm not in top_fns:
                seen.add(nm); continue
            seen.add(nm)
            frontier += direct_calls(top_fns[nm].body)
        info[f"{t}.py"]["runs_at_import"] = sorted(n for n in seen if n in top_fns)
        if "_ensure_loaded" in seen or "load" in direct_calls([st for st in mod.body if not isinstance(st, ast.FunctionDef)]):
            ck.tie_broken("structure", f"{t}.py:lazy-load", f"{t}.py reads its table while the module is imported (`_ensure_loaded` is reachable "
                          "from module-level code); the model loads the current table at first use in a process")
    others = []
    for p in sorted(vlib.SRC.rglob("*.py")):
        if p.parent == gd and p.stem in tn:
            continue
        txt = p.read_text()
        if re.search(r"cache\s*=\s*True", txt):
            others.append(str(p.relative_to(vlib.SRC)))
            # any way of reaching the geometry modules' private arrays: importing the geometry package / modules, or reading the tables
            if re.search(r"np\.load\(|_geom\b|\bgeometry\b", txt):
                ck.tie_broken("structure", str(p.relative_to(vlib.SRC)),
                              "a module outside geometry/{mdc,emc}.py defines cache=True kernels and refers to the geometry modules / tables: kernels that freeze "
                              "table data there write caches that src_cache_list does not cover")
    info["other_cached_modules"] = others
    return info


# ------------------------------------------------------------------------------------------------ generation
def rand_env(rng, faults=0.0, msg=True):
    e = {"k": None, "denied": [], "vanished": [], "msg": int(rng.random() < 0.5) if msg else 0}
    if rng.random() < faults:
        ids = [fid(t, k, fn) for t in (0, 1) for k in (1, 2) for fn in (1, 2, 3)]
        if rng.random() < 0.6:
            e["denied"] = sorted(rng.sample(ids, rng.choice([1, 1, 2, 3])))
        if rng.random() < 0.5:
            e["vanished"] = sorted(rng.sample(ids, rng.choice([1, 1, 2])))
    return e


def gen_history(rng, valid, long_lived=False):
    ops = []
    nproc = rng.choice([1, 2, 2, 3, 3, 4, 5])
    for p in range(nproc):
        if p > 0 or rng.random() < 0.2:
            for t in (0, 1):
                if rng.random() < (0.45 if p > 0 else 0.3):
                    ops.append(["U", t, 0 if (not valid and rng.random() < 0.35) else rng.choice([1, 1, 2, 5])])
        if not valid and rng.random() < 0.15:
            ops.append(["D", rng.randrange(2)])
        env = rand_env(rng, faults=0.12 if valid else 0.35)
        if rng.random() < 0.25:
            env["k"] = rng.randrange(0, 9)
        ops.append(["I", env])
        if env["k"] is not None and rng.random() < 0.7:      # retry after an interrupted clean-up (maybe interrupted again)
            if rng.random() < 0.3:
                ops.append(["I", dict(rand_env(rng), k=rng.randrange(0, 5))])
            ops.append(["I", rand_env(rng)])
        held, dirty = set(), set()       # tables this process holds in memory / re-written since it loaded them (cf. `disciplined`)
        for _ in range(rng.choice([0, 1, 2, 3, 3, 4, 6])):
            r = rng.random()
            if r < 0.6:
                t = rng.randrange(2)
                if valid and t in dirty and not long_lived:
                    continue
                held.add(t)
                ops.append(["F", t, rng.choice([1, 1, 2, 3]), 0 if (not valid and rng.random() < 0.3) else rng.choice([1, 1, 2, 4])])
            elif r < 0.76:
                t = rng.randrange(2)
                if t in held:
                    dirty.add(t)
                ops.append(["U", t, 0 if (not valid and rng.random() < 0.35) else rng.choice([1, 2])])
            elif r < 0.86:
                e = rand_env(rng, faults=0.1 if valid else 0.3)
                if rng.random() < 0.2:
                    e["k"] = rng.randrange(0, 6)
                ops.append(["C", e])
            else:
                e = rand_env(rng, faults=0.1 if valid else 0.3)
                if rng.random() < 0.15:
                    e["k"] = rng.randrange(0, 4)
                ops.append(["A", rng.randrange(2), int(rng.random() < 0.4), e, rng.randrange(4)])
    return ops


def gen_crash_family(rng):
    """one base history, then the clean-up interrupted after EVERY k (0 .. number of cache files + 1), then a retry"""
    kernels = rng.sample([(t, fn) for t in (0, 1) for fn in (1, 2, 3)], rng.choice([1, 2, 3, 4]))
    base = [["I", rand_env(rng, msg=False)]] + [["F", t, fn, rng.choice([1, 2])] for t, fn in kernels]
    ups = rng.choice([[0], [1], [0, 1]])
    base += [["U", t, rng.choice([1, 3])] for t in ups]
    fam = []
    for k in range(0, 2 * len(kernels) + 2):
        ops = list(base) + [["I", dict(rand_env(rng), k=k)]]
        if rng.random() < 0.3:
            ops.append(["I", dict(rand_env(rng), k=rng.randrange(0, 3))])
        ops += [["I", rand_env(rng)]] + [["F", t, fn, 1] for t, fn in kernels[:2]]
        fam.append(ops)
    return fam


def gen_cases(rng, n):
    cases = []
    fixed = [  # corner cases always present
        [["I", rand_env(rng)]],                                                                      # no caches at all
        [["I", rand_env(rng)], ["F", 0, 1, 1], ["F", 1, 1, 1], ["I", rand_env(rng)], ["I", rand_env(rng)]],       # all fresh: nothing removed
        [["I", rand_env(rng)], ["F", 0, 1, 1], ["F", 1, 1, 1], ["U", 1, 1], ["I", dict(rand_env(rng), msg=1)], ["F", 1, 1, 1], ["F", 0, 1, 1]],
        [["I", rand_env(rng)], ["F", 0, 1, 1], ["F", 0, 2, 1], ["F", 1, 2, 1], ["C", dict(rand_env(rng), msg=1)], ["F", 0, 1, 1]],
    ]
    fixed.append([["I", rand_env(rng)], ["F", 0, 1, 1], ["I", rand_env(rng)], ["U", 0, 1], ["F", 0, 2, 1], ["I", rand_env(rng)], ["F", 0, 1, 1]])
    # a process that holds the old table creates a cache AFTER the update, beside an older cache: remove-all-on-stale takes both
    fixed.append([["I", rand_env(rng)], ["F", 0, 1, 1], ["U", 0, 1], ["F", 0, 2, 1], ["I", rand_env(rng)], ["F", 0, 2, 1]])
    fixed.append([["I", rand_env(rng)], ["F", 1, 2, 1], ["F", 0, 1, 1], ["U", 1, 2], ["F", 1, 1, 1], ["F", 1, 3, 2], ["I", rand_env(rng)], ["F", 1, 3, 1]])
    for ops in fixed:
        cases.append({"ops": ops, "valid": True, "stream": "fixed"})
    # ... and the same without a surviving older cache (forced clear in between): the mtime criterion cannot see it
    cases.append({"ops": [["I", rand_env(rng)], ["F", 0, 1, 1], ["U", 0, 1], ["C", rand_env(rng)], ["F", 0, 2, 1], ["I", rand_env(rng)], ["F", 0, 2, 1]],
                  "valid": True, "stream": "long-lived"})
    fixed_bad = [
        [["I", rand_env(rng)], ["F", 0, 1, 1], ["U", 0, 0], ["I", rand_env(rng)], ["F", 0, 1, 1]],             # equal mtimes
        [["D", 0], ["I", rand_env(rng)], ["F", 1, 1, 1]],                                              # missing source
        [["I", rand_env(rng)], ["F", 1, 1, 1], ["D", 0], ["C", rand_env(rng)], ["A", 1, 1, rand_env(rng), 2]],
        [["I", rand_env(rng)], ["F", 0, 1, 1], ["U", 0, 1], ["C", rand_env(rng)], ["F", 0, 2, 1], ["I", rand_env(rng)], ["F", 0, 2, 1]],
    ]
    for ops in fixed_bad:
        cases.append({"ops": ops, "valid": False, "stream": "fixed-malformed"})
    while len(cases) < n:
        r = rng.random()
        if r < 0.05:
            for ops in gen_crash_family(rng):
                cases.append({"ops": ops, "valid": True, "stream": "crash-every-k"})
        elif r < 0.62:
            cases.append({"ops": gen_history(rng, True), "valid": True, "stream": "valid"})
        elif r < 0.75:
            # processes that outlive a table update and create caches afterwards (clock assumption kept, process assumption not)
            cases.append({"ops": gen_history(rng, True, long_lived=True), "valid": True, "stream": "long-lived"})
        else:
            cases.append({"ops": gen_history(rng, False), "valid": False, "stream": "malformed"})
    for i, c in enumerate(cases):
        c["id"] = i
    return cases


# ------------------------------------------------------------------------------------------------ Coq rendering
def zl(xs):
    return "[" + "; ".join(str(x) for x in xs) + "]"


def coq_env(e, order):
    b = "None" if e.get("k") is None else f"(Some {e['k']}%nat)"
    return f"(mkEnv {zl(order)} {b} {zl(e.get('denied', []))} {zl(e.get('vanished', []))})"


def coq_op(op, order):
    k = op[0]
    if k == "U":
        return f"UpdateTable {TN[op[1]]} {op[2]}"
    if k == "D":
        return f"DropTable {TN[op[1]]}"
    if k == "F":
        return f"FirstUse {TN[op[1]]} {op[2]} {op[3]}"
    if k == "I":
        return f"Import {coq_env(op[1], order)}"
    if k == "C":
        return f"ForcedClear {coq_env(op[1], order)}"
    if k == "A":
        return f"AutoClear {TN[op[1]]} {'true' if op[2] else 'false'} {coq_env(op[3], order)}"
    raise ValueError(op)


def parse_nested(out):
    m = re.search(r"=\s*(\[.*\])\s*:\s*list \(list \(list Z\)\)", out, flags=re.S)
    if not m:
        return None
    try:
        return json.loads(m.group(1).replace(";", ","))
    except Exception:
        return None


def model_eval(ck, cases, impl_cases):
    """evaluate trace init ops for every case in coqc (vm_compute); the environment's directory order is the one the real
    glob returned during the replay"""
    res = []
    chunks = [list(range(i, min(i + 400, len(cases)))) for i in range(0, len(cases), 400)]
    for j, ch in enumerate(chunks):
        terms = []
        for i in ch:
            ops = cases[i]["ops"]
            steps = impl_cases[i]["steps"]
            terms.append("trace init [" + "; ".join(coq_op(o, s.get("order", [])) for o, s in zip(ops, steps)) + "]")
        v = ck.props / f"Cases{j}.v"
        v.write_text("From Coq Require Import ZArith List. Import ListNotations.\nFrom PV.Model Require Import Cache.\n"
                     "Local Open Scope Z_scope.\nEval vm_compute in [" + ";\n ".join(terms) + "].\n")
        rc, so, se = ck.coqc(v, 600)
        vals = parse_nested(so) if rc == 0 else None
        if vals is None or len(vals) != len(ch):
            ck.tie_broken("correspondence", f"model-eval chunk {j}", (se or so)[-800:])
            return None
        res += vals
    return res


def compare(ck, cases, impl_cases, model):
    nbad = 0
    stats = {"steps": 0, "removing_steps": 0, "error_steps": {"ValueError": 0, "ImportError": 0, "KeyboardInterrupt": 0},
             "interrupted_partial": 0, "streams": {}}
    for c, ic, mc in zip(cases, impl_cases, model):
        nontrivial = False
        stats["streams"][c["stream"]] = stats["streams"].get(c["stream"], 0) + 1
        for idx, (op, s, m) in enumerate(zip(c["ops"], ic["steps"], mc)):
            stats["steps"] += 1
            m_err, m_val, n = m[0], m[1], m[2]
            m_rem = m[3:3 + n]
            rest = m[3 + n:]
            m_files = sorted([rest[i], rest[i + 1], rest[i + 2]] for i in range(0, len(rest), 3))
            i_val = 0 if s["value"] is None else s["value"] + 1
            diffs = []
            if m_err != s["err"]:
                diffs.append(f"error class model={m_err} implementation={s['err']}")
            if m_val != i_val:
                diffs.append(f"value model={m_val} harness={i_val}")
            if m_rem != s["removed"]:
                diffs.append(f"removed (in order) model={m_rem} implementation={s['removed']}")
            if s.get("reported") is not None and s["err"] == 0 and s["reported"] != m_rem:
                diffs.append(f"returned/printed list {s['reported']} != model removed {m_rem}")
            if m_files != s["files"]:
                diffs.append(f"surviving files model={m_files} implementation={s['files']}")
            if s.get("printed_when_silent"):
                diffs.append("printed although PYBES3_NUMBA_CACHE_MSG is unset")
            if s.get("globbed_unrelated"):
                diffs.append(f"globs matched unrelated files {s['globbed_unrelated']}")
            if op[0] == "I" and s["err"] == 0:
                mod_caches = sorted(f[0] for f in m_files if (f[0] // 2) % 3 != 0)
                if s.get("submodule_snapshot") != mod_caches:
                    diffs.append(f"caches visible at first sub-module import {s.get('submodule_snapshot')} != model after check {mod_caches}")
            if s["removed"]:
                stats["removing_steps"] += 1
                nontrivial = True
            if s["err"]:
                nm = {1: "ValueError", 2: "ImportError", 3: "KeyboardInterrupt"}.get(s["err"], "other")
                stats["error_steps"][nm] = stats["error_steps"].get(nm, 0) + 1
                nontrivial = True
                if s["err"] == 3 and s["removed"]:
                    stats["interrupted_partial"] += 1
            if diffs:
                nbad += 1
                if nbad <= 5:
                    ck.tie_broken("correspondence", f"case {c['id']} ({c['stream']}) step {idx} {json.dumps(op)}",
                                  "; ".join(diffs)[:900] + " | ops=" + json.dumps(c["ops"][:idx + 1])[:600])
                break
        ck.case(c["ops"], nontrivial=nontrivial)
    stats["disagreeing_cases"] = nbad
    return stats


# ------------------------------------------------------------------------------------------------ run
def run(ck: vlib.Check):
    ck.cov["rule"] = ("cases = operation sequences (table update / first use / import / forced clear / direct cache_auto_clear, "
                      "each clean-up with a crash point k, failing and vanished removals) drawn from one PRNG: corner cases, "
                      "families interrupting the clean-up after EVERY k, valid histories (clock and process assumptions hold; the "
                      "property is also evaluated directly on the real code), and a malformed stream (equal mtimes, missing table "
                      "file, stale in-memory table). Each sequence is executed on the working tree's __init__.py/_cache_numba.py "
                      "(scratch copy, synthetic cache files) and on the Gallina model in vm_compute; error class, removed files "
                      "(in order), reported list, surviving files with mtimes and ghost versions are compared per step. "
                      "distinct_nontrivial = distinct sequences in which at least one step removed a file or raised.")
    ck.trusted += [
        "hand model coq/Model/Cache.v (mirror of cache_auto_clear/check_numba_cache/clear_numba_cache + numba compile-or-load), "
        "tied by the per-step correspondence and the end-to-end runs, not by translation",
        "harness tools/impl/c17_impl.py: fault injection by replacing os.remove / recording glob.glob while the unmodified source "
        "text runs; numba's behaviour for FirstUse is simulated in the replay (index+data present -> load, else compile and write "
        "both) and observed for real only in the end-to-end runs",
        "numba: cache files of module m live in <dir of m.py>/__pycache__/m.<fn>-<line>.py3xx.{nbi,<n>.nbc} when NUMBA_CACHE_DIR "
        "is unset and the directory is writable; a kernel's index is keyed by the .py file stamp, not by global arrays",
        "OS: st_mtime ordering reflects the order of writes (granularity: one timestamp tick)",
    ]
    ck.assumptions += [
        "clock: every file-writing event is stamped in a later timestamp tick than all earlier ones (0 < dt); a table re-written "
        "in the same tick as a cache, or installed with a preserved older mtime (rsync -t, tar, cp -p), is outside the theorems "
        "(witness: C17_import_discards_stale_needs_clock)",
        "process: when a process compiles a kernel the table it holds in memory is the current one (cache creation = first use in a "
        "process, as in the property's quantifier); witness of necessity: C17_import_discards_stale_needs_fresh_load",
        "one process at a time (an Import ends the previous process); concurrent processes are not modelled",
        "every path matched by the globs is a regular file that exists during the mtime scan",
        "numba writes its caches next to the modules (NUMBA_CACHE_DIR unset, package directory writable)",
    ]
    info = check_structure(ck)
    ck.cov["structure"] = info
    # 1 prove
    ck.prove(["C17Proofs.v"], "C17.v")
    # 2 replay on the real code (+ direct property checks, shrunk)
    n = 560 if ck.tier == "quick" else 2800
    cases = gen_cases(ck.rng, n)
    cpath = ck.bdir / "cases.json"
    cpath.write_text(json.dumps(cases))
    rc, so, se = vlib.run_impl_script("c17_impl.py", ["replay", cpath, vlib.SRC], timeout=1500)
    impl = None
    model = None
    by_key = {}
    if rc != 0:
        ck.tie_broken("correspondence", "implementation-replay", (se or so)[-1500:])
    else:
        try:
            impl = json.loads(so)
        except Exception as e:
            ck.tie_broken("correspondence", "implementation-replay-output", f"{e}: {so[-500:]}")
    if impl is not None:
        want = [["detectors/geometry/mdc_geom.npz", "detectors/geometry/__pycache__/mdc.*.nb[ci]"],
                ["detectors/geometry/emc_geom.npz", "detectors/geometry/__pycache__/emc.*.nb[ci]"]]
        got = impl["structure"].get("src_cache_list")
        ck.cov["structure"]["src_cache_list"] = got
        ck.cov["structure"]["cache_globs_outside_package"] = impl["structure"].get("cache_globs_outside_package")
        if got != want:
            ck.tie_broken("structure", "_cache_numba.py:src_cache_list", f"pairs {got} differ from the model's {want}")
        by_key = {}
        for v in impl["violations"]:
            by_key.setdefault((v["kind"], v["short"]), []).append(v)
        per_kind = {}
        for (kind, sh), vs in sorted(by_key.items(), key=lambda kv: (kv[0][0], len(kv[0][1]), kv[0][1])):
            per_kind[kind] = per_kind.get(kind, 0) + 1
            if per_kind[kind] > 3:          # shortest three distinct minimal histories per kind; the rest is counted below
                continue
            v = vs[0]
            if kind == "stale-cache-after-import:process-held-old-table":
                if per_kind[kind] > 1:
                    continue
                ck.violation(f"C17:{kind}",
                             f"{v['detail']} — a process that loaded a table before the file was re-written created a cache afterwards and no "
                             f"older cache of that table survived until the next import, so the mtime comparison keeps a cache compiled from the "
                             f"old table; shortest history found: {sh} ({len(by_key)} distinct minimal histories of all kinds in this run)",
                             {"mode": "replay", "kind": kind, "ops": v["ops"]})
                continue
            ck.violation(f"C17:{kind}:{sh}",
                         f"{kind}: {v['detail']} — minimal operation list {sh} (reached from {len(vs)} generated case(s), e.g. {v['from_case']})",
                         {"mode": "replay", "kind": kind, "ops": v["ops"]})
        ck.cov["direct_property_search"] = {"failing_cases": len(impl["violations"]),
                                            "distinct_minimal_histories_per_kind": per_kind}
        model = model_eval(ck, cases, impl["cases"])
        if model is not None:
            stats = compare(ck, cases, impl["cases"], model)
            ck.cov["correspondence"] = stats
            for c in cases[:3] + cases[8:11]:
                ck.sample({"stream": c["stream"], "ops": c["ops"]})
    # 2b the same histories once more with the file times spread around the end of daylight saving time of the process' time zone (POSIX TZ
    #    string, no zone database needed; tick 3 is 2020-10-25 01:00:00 UTC = 03:00 CEST -> 02:00 CET): file times are instants, the zone of
    #    the machine must not matter
    if impl is not None and model is not None:
        nz = 140 if ck.tier == "quick" else 700
        zc = ck.bdir / "cases_tz.json"
        zc.write_text(json.dumps(cases[:nz]))
        rcz, soz, sez = vlib.run_impl_script("c17_impl.py", ["replay", zc, vlib.SRC], timeout=900,
                                             env_extra={"TZ": "CET-1CEST,M3.5.0,M10.5.0/3", "C17_BASE": str(1603587600 - 3 * 600), "C17_TICK_NS": str(600 * 10 ** 9)})
        if rcz != 0:
            ck.tie_broken("correspondence", "implementation-replay (time zone with daylight saving)", (sez or soz)[-1200:])
        else:
            iz = json.loads(soz)
            seen = set()
            for v in iz["violations"]:
                if v["kind"] == "stale-cache-after-import:process-held-old-table" or (v["kind"], v["short"]) in by_key or (v["kind"], v["short"]) in seen:
                    continue
                seen.add((v["kind"], v["short"]))
                if len(seen) <= 3:
                    ck.violation(f"C17:{v['kind']}:time-zone-with-dst:{v['short']}",
                                 f"{v['kind']}: {v['detail']} - only when the file times fall around the end of daylight saving time of the process' time zone "
                                 f"(TZ=CET-1CEST, ten-minute ticks around 2020-10-25 01:00 UTC); minimal operation list {v['short']}",
                                 {"mode": "replay", "kind": v["kind"], "ops": v["ops"], "env": {"TZ": "CET-1CEST,M3.5.0,M10.5.0/3", "C17_BASE": str(1603587600 - 3 * 600), "C17_TICK_NS": str(600 * 10 ** 9)}})
            model_z = model_eval(ck, cases[:nz], iz["cases"])
            if model_z is not None:
                ck.cov["correspondence_time_zone_with_dst"] = compare(ck, cases[:nz], iz["cases"], model_z)
    # 3 end-to-end with real numba (quick: create / negative control / table update; thorough: + interrupted clean-up,
    #   forced clear, relocated cache)
    level = "full" if ck.tier == "thorough" else "basic"
    rc, so, se = vlib.run_impl_script("c17_impl.py", ["e2e", vlib.SRC, level], timeout=1500)
    if rc != 0:
        ck.tie_broken("end-to-end", "real-numba-run", (se or so)[-1500:])
    else:
        e = json.loads(so)
        ck.cov["end_to_end"] = {"level": level, "interpreter_runs": len(e["runs"]), "runs": e["runs"], "notes": e["notes"]}
        ck.cov["evaluations"] += len(e["runs"])
        for f in e["fails"]:
            ck.violation("C17:" + f["key"], f["what"], {"mode": "e2e", "level": level, "key": f["key"]})
        for f in e["findings"]:
            ck.violation("C17:" + f["key"], f["what"], {"mode": "e2e", "level": level, "key": f["key"]})


def replay(path):
    data = json.load(open(path))
    print(json.dumps(data, indent=1)[:3000])
    rp = data.get("replay") or {}
    if rp.get("mode") == "replay":
        tmp = vlib.BUILD / "C17_replay_case.json"
        tmp.parent.mkdir(parents=True, exist_ok=True)
        tmp.write_text(json.dumps([{"ops": rp["ops"], "valid": True, "id": 0}]))
        rc, so, se = vlib.run_impl_script("c17_impl.py", ["replay", tmp, vlib.SRC], timeout=600, env_extra=rp.get("env"))
        if rc != 0:
            print(se[-1500:])
            return 1
        res = json.loads(so)
        print("current failures on this operation list:", json.dumps(res["violations"])[:2000])
        return 1 if any(v["kind"] == rp.get("kind") for v in res["violations"]) else 0
    if rp.get("mode") == "e2e":
        rc, so, se = vlib.run_impl_script("c17_impl.py", ["e2e", vlib.SRC, rp.get("level", "full")], timeout=1500)
        if rc != 0:
            print(se[-1500:])
            return 1
        res = json.loads(so)
        bad = [f for f in res["fails"] + res["findings"] if f["key"] == rp.get("key")]
        print("current end-to-end result for this key:", json.dumps(bad)[:2000])
        return 1 if bad else 0
    return 0
