"""C10 — electronics ids -> detector identifiers.
regenerate (REID tables by running the builders of the working tree, id-field extractions of raw_io.cc, digi-ID kernels,
geometry) -> prove C10.v -> correspond (real convert_reid_to_teid / arrays(decode_reid) vs the model, every representable
id; the Gallina model itself run inside coqc on sampled dicts) -> direct scan of the real tables for a failing id."""
import json, sys, os
from concurrent.futures import ThreadPoolExecutor
from pathlib import Path

if __name__ == "__main__":
    sys.path.insert(0, os.path.dirname(os.path.dirname(os.path.abspath(__file__))))
import vlib, reid2coq
from props import c08

DETS = reid2coq.DETS
INVALID = reid2coq.INVALID
TAG = {"mdc": 0x10, "tof": 0x20, "emc": 0x30, "muc": 0x40}
WIDTH = {"mdc": 14, "tof": 10, "emc": 13, "muc": 11}
CORPUS = vlib.VERIF / "corpus"


# ------------------------------------------------------------------------------------------------------------------
# direct executable statement of the property on the real tables (failing-input search); independent of the Coq model:
# identifier fields are taken with plain shifts from the documented layout, the stereo class from mdc_geom.npz.
def layer_stereo_from_npz():
    import numpy as np
    g = np.load(vlib.SRC / "detectors" / "geometry" / "mdc_geom.npz")
    lay, st = g["layer"].astype(int), g["is_stereo"].astype(int)
    return {int(l): int(st[list(lay).index(l)] != 0) for l in sorted(set(lay.tolist()))}


def scan_tables(tabs, idspec, ref, structural_only=False):
    """returns list of {key, what, detail}: first offending electronics id per (kind, detector)"""
    fails = []

    def add(key, what, **detail):
        fails.append({"key": key, "what": what, "detail": detail})

    mdc_o, emc_o = c08.documented_orders()
    # (a) index range: largest id the extraction can produce (all-ones word; masks are monotone) vs table length
    for d in DETS:
        if idspec is not None:
            top = max(reid2coq.eval_id_field(idspec[d], w) for w in (0xFFFFFFFF, 0x7FFFFFFF, idspec[d][1], (idspec[d][1] << idspec[d][2]) & 0xFFFFFFFF))
            if top >= len(tabs[d]):
                add(f"C10:index:{d}:id={top}", f"{d}: fill_digi can produce electronics id {top} but the table convert_reid_to_teid indexes "
                    f"has only {len(tabs[d])} entries (numpy raises IndexError)", word=hex(0xFFFFFFFF), table_len=len(tabs[d]))
        if len(tabs[d]) < (1 << WIDTH[d]):
            add(f"C10:index:{d}:id={len(tabs[d])}", f"{d}: table has {len(tabs[d])} entries, fewer than the {1 << WIDTH[d]} ids "
                f"representable in a raw word", table_len=len(tabs[d]))
    # (b) injectivity, (c) tags
    for d in DETS:
        seen = {}
        col = tg = None
        for i, v in enumerate(tabs[d]):
            if v == INVALID:
                continue
            if v in seen and col is None:
                col = (seen[v], i, v)
            seen.setdefault(v, i)
            if tg is None and (v >> 24) != TAG[d]:
                tg = (i, v)
        if col:
            add(f"C10:collision:{d}:id={col[0]},{col[1]}", f"{d}: electronics ids {col[0]} and {col[1]} both map to {col[2]:#010x}",
                ids=[col[0], col[1]], teid=col[2])
        if tg:
            add(f"C10:tag:{d}:id={tg[0]}", f"{d}: electronics id {tg[0]} maps to {tg[1]:#010x}, whose tag byte {tg[1] >> 24:#x} is not "
                f"the detector's {TAG[d]:#x}", id=tg[0], teid=tg[1])
    # (d) fields
    try:
        stereo = layer_stereo_from_npz()
    except Exception as e:
        stereo = None
        add("C10:geometry:unreadable", f"mdc_geom.npz unreadable: {e}")
    first = {}
    for i, v in enumerate(tabs["mdc"]):
        if v == INVALID or (v >> 24) != TAG["mdc"]:
            continue
        wire, layer, wt = v & 0x1FF, (v >> 9) & 0x3F, (v >> 15) & 1
        if layer >= 43:
            first.setdefault("layer", (i, v, f"layer {layer} does not exist (43 layers)"))
        elif stereo is not None and wt != stereo.get(layer):
            first.setdefault("wiretype", (i, v, f"wire-type bit {wt} but layer {layer} has stereo class {stereo.get(layer)} in the geometry"))
        if v & ~0xFF00FFFF & 0xFFFFFFFF:
            first.setdefault("stray", (i, v, "bits outside tag/wiretype/layer/wire are set"))
    for k, (i, v, why) in first.items():
        add(f"C10:fields:mdc:id={i}", f"mdc: electronics id {i} maps to {v:#010x}: {why}", id=i, teid=v)
    first = {}
    for i, v in enumerate(tabs["tof"]):
        if v == INVALID or (v >> 24) != TAG["tof"]:
            continue
        part, layer, phi, end = (v >> 14) & 3, (v >> 8) & 1, (v >> 1) & 0x7F, v & 1
        okr = (part == 1 and phi < 88) or (part in (0, 2) and layer == 0 and phi < 49 and end == 0)
        if not okr or v & ~0xFF00C1FF & 0xFFFFFFFF:
            first.setdefault("f", (i, v, f"part={part} layer={layer} phi={phi} end={end} outside the scintillator ranges or stray bits"))
    for k, (i, v, why) in first.items():
        add(f"C10:fields:tof:id={i}", f"tof: electronics id {i} maps to {v:#010x}: {why}", id=i, teid=v)
    crystals = {(0x30 << 24) | (p << 16) | (t << 8) | f: (p, t, f) for p, t, f in emc_o}
    for i, v in enumerate(tabs["emc"]):
        if v != INVALID and (v >> 24) == TAG["emc"] and v not in crystals:
            add(f"C10:fields:emc:id={i}", f"emc: electronics id {i} maps to {v:#010x}, which is not a crystal of the documented numbering",
                id=i, teid=v)
            break
    for i, v in enumerate(tabs["muc"]):
        if v == INVALID or (v >> 24) != TAG["muc"]:
            continue
        part, seg, layer, ch = (v >> 16) & 15, (v >> 12) & 15, (v >> 8) & 15, v & 255
        okr = ch % 16 == 0 and ((part == 1 and seg < 8 and layer < 9 and ch < 112) or (part in (0, 2) and seg < 4 and layer < 8 and ch < 64))
        if not okr or v & ~0xFF0FFFFF & 0xFFFFFFFF:
            add(f"C10:fields:muc:id={i}", f"muc: electronics id {i} maps to {v:#010x}: part={part} seg={seg} layer={layer} strip={ch} "
                f"outside the detector ranges", id=i, teid=v)
            break
    # cover
    if stereo is not None:
        have = {}
        for i, v in enumerate(tabs["mdc"]):
            have.setdefault(v, []).append(i)
        for l, w in mdc_o:
            want = (0x10 << 24) | (stereo[l] << 15) | (l << 9) | w
            n = len(have.get(want, []))
            if n != 1:
                add(f"C10:cover:mdc:layer={l},wire={w}", f"mdc: wire (layer {l}, wire {w}), identifier {want:#010x}, is the image of {n} "
                    f"electronics ids {have.get(want, [])[:3]} instead of exactly one", layer=l, wire=w, ids=have.get(want, [])[:3])
                break
    have = {}
    for i, v in enumerate(tabs["emc"]):
        have.setdefault(v, []).append(i)
    for want, (p, t, f) in crystals.items():
        n = len(have.get(want, []))
        if n != 1:
            add(f"C10:cover:emc:part={p},theta={t},phi={f}", f"emc: crystal (part {p}, theta {t}, phi {f}), identifier {want:#010x}, is the "
                f"image of {n} electronics ids {have.get(want, [])[:3]} instead of exactly one", ids=have.get(want, [])[:3])
            break
    # (e) pinned reference
    if not structural_only:
        for d in DETS:
            if ref is None or d not in ref:
                continue
            if len(ref[d]) != len(tabs[d]):
                add(f"C10:reference:{d}:length", f"{d}: table length {len(tabs[d])} differs from the pinned reference {len(ref[d])}")
                continue
            for i, (a, b) in enumerate(zip(tabs[d], ref[d])):
                if a != b:
                    n = sum(1 for x, y in zip(tabs[d], ref[d]) if x != y)
                    add(f"C10:reference:{d}:id={i}", f"{d}: electronics id {i} maps to {a:#010x} but the pinned reference (ported BOSS map) "
                        f"says {b:#010x} ({n} entries differ)", id=i, got=a, want=b, n_diff=n)
                    break
    return fails


# ------------------------------------------------------------------------------------------------------------------
def coq_dict(ser):
    def zl(xs):
        return "[" + "; ".join(str(int(x)) for x in xs) + "]"

    def cols(cs):
        return "[" + "; ".join(f'("{n}", {zl(v)})' for n, v in cs) + "]"
    items = []
    for e in ser:
        if e["kind"] == "header":
            items.append(f'("{e["key"]}", Header {cols(e["cols"])})')
        elif e["kind"] == "digi":
            items.append(f'("{e["key"]}", Digi {zl(e["offsets"])} {cols(e["cols"])})')
        else:
            items.append(f'("{e["key"]}", Words {zl(e["offsets"])} {zl(e["data"])})')
    return "[" + ";\n   ".join(items) + "]"


def model_cases_v(cases):
    t = ("From Coq Require Import String ZArith List Bool.\nImport ListNotations.\nFrom PV.Model Require Import ReidGlue.\n"
         "From PV.Gen Require Import Reid.\nLocal Open Scope Z_scope.\nLocal Open Scope string_scope.\n"
         "Definition T : tables := {| t_mdc := reid_mdc; t_tof := reid_tof; t_emc := reid_emc; t_muc := reid_muc |}.\n")
    for i, c in enumerate(cases):
        t += f"Definition in{i} : rawdict :=\n  {coq_dict(c['input'])}.\nDefinition out{i} : rawdict :=\n  {coq_dict(c['output'])}.\n"
    t += ("Eval vm_compute in [" + "; ".join(
        f"wf_b T in{i}; result_eqb (convert_reid_to_teid T in{i}) out{i}; rawdict_eqb (image T in{i}) out{i}" for i in range(len(cases)))
          + "].\n")
    return t


def run(ck: vlib.Check):
    ck.cov["rule"] = (
        "correspondence: synthetic raw dicts of the shape read_bes_raw returns, containing EVERY representable electronics id "
        "(2^14 MDC, 2^10 TOF, 2^13 EMC, 2^11 MUC) at least once plus random other columns, all 16 subsets of the four digi "
        "sub-detectors with/without trg/ef, empty arrays; the real convert_reid_to_teid of the working tree is compared with the "
        "model's prediction (id column = image under the regenerated table, uint32; every other array bit-identical); the same "
        "through open_raw(...).arrays(decode_reid=True/False/default) and concatenate_raw on a synthetic raw file holding every id, "
        "several batch/sub-detector settings; sampled dicts are also run through the Gallina model inside coqc. evaluations = "
        "array elements compared; distinct_nontrivial = distinct (detector, electronics id) pairs whose decoded value was compared "
        "+ distinct (setting) labels. The table theorems are complete finite checks inside Coq over all 43008 table entries.")
    ck.trusted += [
        "tools/reid2coq.py: runs build_*_re2te() of the working-tree _reid.py (loaded by path, numpy only) and emits the complete "
        "tables; regex extraction of the four `uint16_t id = ...` expressions of raw_io.cc fill_digi (two accepted shapes); fail-closed",
        "translators tools/py2coq_bits.py + tools/gen_geom.py (digi-ID kernels, geometry tables, is_layer_stereo)",
        "hand model coq/Model/ReidGlue.v of convert_reid_to_teid / the decode_reid switch, tied by the correspondence on every "
        "representable id; numpy fancy indexing and the shape of read_bes_raw's result are modelled, not verified",
        "prebuilt besio_cpp.so (pinned C++) in the end-to-end read; the id extraction theorem is about the working-tree raw_io.cc text",
        "corpus/reid_ref_*.json: pinned snapshot standing in for the BOSS electronics map (BOSS sources unavailable offline)",
    ]
    ck.assumptions += [
        "raw dicts have the structure read_bes_raw produces: unique keys, mdc/tof/emc/muc = (offsets, columns with an `id` column)",
        "the pinned reference tables are the BOSS map (regression anchor only; the structural theorems are the independent content)",
    ]
    # ---- 1. regenerate
    tabs = ref = idspec = None
    try:
        files, rlog, tabs, ref, idspec = reid2coq.generate(vlib.REPO, CORPUS)
    except Exception as e:
        ck.tie_broken("translator", "_reid.py/raw_io.cc", f"{type(e).__name__}: {e}")
        files = None
    with ThreadPoolExecutor(4) as ex:
        f_impl = None
        if tabs is not None:
            cpath = ck.bdir / "cases.json"
            cpath.write_text(json.dumps({"seed": ck.rng.randrange(1 << 30), "tier": ck.tier, "tables": tabs,
                                         "idspec": {k: list(v) for k, v in idspec.items()}, "repo": str(vlib.REPO),
                                         "workdir": str(ck.bdir)}))
            f_impl = ex.submit(vlib.run_impl_script, "c10_impl.py", [cpath], 1500)
        f_geo = ex.submit(c08.regenerate, ck)
        ok_reid = False
        if files is not None:
            if ref is None:
                ck.tie_broken("pinned-reference", "corpus/reid_ref_*.json", "pinned reference tables are missing")
            else:
                for n, t in files.items():
                    ck.write_gen(n, t)
                ok_reid = ex.submit(ck.compile_gen, ["Reid.v", "ReidRef.v"], 900, True).result()
        ok_geo = f_geo.result()
        if files is not None:
            ck.cov.setdefault("regenerated", {})["reid"] = rlog
        # ---- 2. prove (while the implementation side runs)
        proved = False
        if ok_geo and ok_reid:
            proved = ck.prove(["C05Proofs.v", "C08Proofs.v", "C10Proofs.v"], "C10.v")
        # ---- 3. correspondence
        impl = None
        if f_impl is not None:
            rc, so, se = f_impl.result()
            if rc != 0:
                ck.tie_broken("correspondence", "implementation-run", (se or so)[-1500:])
            else:
                try:
                    impl = json.loads(so)
                except Exception as e:
                    ck.tie_broken("correspondence", "implementation-output", f"{e}: {so[-500:]}")
    if impl is not None:
        if not impl.get("observes_working_tree"):
            ck.tie_broken("correspondence", "implementation-not-from-working-tree",
                          f"pybes3.besio._reid was imported from {impl.get('module_file')}, not from {vlib.REPO}")
        for k in ("glue_error", "e2e_error"):
            if impl.get(k):
                ck.tie_broken("correspondence", k, impl[k])
        g, e2e = impl.get("glue") or {}, impl.get("e2e") or {}
        ck.cov["evaluations"] += int(g.get("evaluations", 0)) + int(e2e.get("evaluations", 0))
        ck.cov["correspondence"] = {"glue": g, "end_to_end": e2e, "module_file": impl.get("module_file")}
        for d in DETS:
            ck.distinct.update((d, i) for i in range(int((g.get("ids_covered_incl_e2e") or {}).get(d, 0))))
        ck.distinct.update(("dict", i) for i in range(int(g.get("dicts", 0))))
        ck.distinct.update(("setting", i) for i in range(int(e2e.get("settings", 0))))
        if g and not all((g.get("all_ids_covered") or {}).values()):
            ck.tie_broken("correspondence", "id-coverage", f"not every representable id was exercised: {g.get('ids_covered')}")
        ck.cov["exhaustive"] = bool(g) and all((g.get("all_ids_covered") or {}).values())
        seen = set()
        import re as _re
        for m in impl.get("mismatches", []):
            cls = _re.sub(r"id=\d+", "id", m["key"])  # one report per (kind, detector): the first offending electronics id
            if cls in seen:
                continue
            seen.add(cls)
            ck.violation(m["key"], m["what"], {"mismatch": m, "how": "tools/impl/c10_impl.py on the working tree"})
        if impl.get("mismatches"):
            ck.tie_broken("correspondence", "convert_reid_to_teid/arrays(decode_reid)",
                          f"{len(impl['mismatches'])} disagreement(s) between the implementation and the model, first: {impl['mismatches'][0]['what']}")
        # the Gallina model itself on the sampled dicts (input + the REAL function's output)
        cases = impl.get("coq_cases") or []
        if ok_reid and cases:
            v = ck.props / "GlueCases.v"
            v.write_text(model_cases_v(cases))
            rc, so, se = ck.coqc(v, 300)
            import re
            m = re.search(r"=\s*\[(.*?)\]\s*:\s*list bool", so, flags=re.S) if rc == 0 else None
            vals = [x.strip() for x in m.group(1).split(";")] if m else None
            if vals is None or len(vals) != 3 * len(cases):
                ck.tie_broken("correspondence", "model-eval", (se or so)[-800:])
            else:
                for i, c in enumerate(cases):
                    wfb, eqc, eqi = vals[3 * i:3 * i + 3]
                    ck.case(["model-dict", c["input"]])
                    if wfb != "true":
                        ck.tie_broken("correspondence", f"model-wf case {i}", "generated dict is not well-formed for the model")
                    elif eqc != "true" or eqi != "true":
                        ck.tie_broken("correspondence", f"model-vs-implementation case {i}",
                                      f"Gallina convert_reid_to_teid = implementation output: {eqc}; image = implementation output: {eqi}")
                        ck.violation(f"C10:convert:model-case", "the real convert_reid_to_teid output differs from the Gallina model on a sampled dict",
                                     {"input": c["input"], "output": c["output"]})
                if cases:
                    ids = next((cc for e in cases[0]["input"] if e["key"] == "mdc" for n, cc in e["cols"] if n == "id"), [])
                    ck.sample({"kind": "dict run through the Gallina model and the real convert_reid_to_teid",
                               "keys": [e["key"] for e in cases[0]["input"]], "mdc_ids_first": ids[:8]})
    # ---- 4. failing-input search: direct scan of the real tables (always; it is cheap)
    if tabs is None:
        try:  # the strict translator refused; look at whatever the builders return
            tabs = lenient_tables()
        except Exception as e:
            ck.notes.append(f"search: tables unobtainable ({e})")
    if tabs is not None:
        fails = scan_tables(tabs, idspec, ref)
        ck.cov["table_scan"] = {"entries": {d: len(tabs[d]) for d in DETS}, "mapped": {d: sum(1 for x in tabs[d] if x != INVALID) for d in DETS},
                                "failures": len(fails)}
        ck.cov["evaluations"] += sum(len(tabs[d]) for d in DETS)
        for f in fails:
            ck.violation(f["key"], f["what"], {"scan": f, "how": "props/c10.py scan_tables on build_*_re2te() of the working tree"})
        for d in DETS:
            i = next((i for i, v in enumerate(tabs[d]) if v != INVALID), None)
            if i is not None:
                ck.sample({"detector": d, "electronics_id": i, "maps_to": hex(tabs[d][i])})
        if fails and not ck.broken:
            ck.tie_broken("search", "table-scan", f"{len(fails)} table defect(s) found by the direct scan although every theorem checked")


def lenient_tables():
    """tables as returned by the builders, without shape/dtype expectations (used only by the search after the translator refused)"""
    import subprocess
    p = subprocess.run([vlib.PY, str(Path(reid2coq.__file__).resolve()), "dump", str(vlib.SRC / "besio" / "_reid.py")],
                       capture_output=True, text=True, timeout=120, cwd="/")
    raw = json.loads(p.stdout)
    return {d: [int(x) & 0xFFFFFFFF for x in raw[d]["values"]] for d in DETS}


def replay(path):
    data = json.load(open(path))
    print(json.dumps(data, indent=1)[:3000])
    try:
        files, rlog, tabs, ref, idspec = reid2coq.generate(vlib.REPO, CORPUS)
    except Exception as e:
        print("translator refuses the current tree:", e)
        tabs, idspec, ref = lenient_tables(), None, None
    fails = scan_tables(tabs, idspec, ref)
    print("table scan on the current tree:", json.dumps([f["key"] for f in fails]))
    cp = vlib.BUILD / "C10" / "replay_cases.json"
    cp.parent.mkdir(parents=True, exist_ok=True)
    rc = 0
    if idspec is not None:
        cp.write_text(json.dumps({"seed": 1, "tier": "quick", "tables": tabs, "idspec": {k: list(v) for k, v in idspec.items()},
                                  "repo": str(vlib.REPO), "workdir": str(cp.parent)}))
        rc, so, se = vlib.run_impl_script("c10_impl.py", [cp], 900)
        mm = json.loads(so).get("mismatches", []) if rc == 0 else [{"key": "run-failed", "what": se[-500:]}]
        print("glue / end-to-end disagreements on the current tree:", json.dumps([m["key"] for m in mm]))
        rc = 1 if mm else 0
    return 1 if (fails or rc) else 0


if __name__ == "__main__":
    # `python tools/props/c10.py pin` : write corpus/reid_ref_*.json from the current tree, only when the structural scan is clean
    if len(sys.argv) == 2 and sys.argv[1] == "pin":
        files, rlog, tabs, ref, idspec = reid2coq.generate(vlib.REPO, CORPUS)
        fails = scan_tables(tabs, idspec, None, structural_only=True)
        if fails:
            raise SystemExit("structural scan not clean, refusing to pin: " + json.dumps([f["key"] for f in fails]))
        import subprocess
        head = subprocess.run(["git", "-C", str(vlib.REPO), "rev-parse", "HEAD"], capture_output=True, text=True).stdout.strip()
        reid2coq.write_reference(tabs, CORPUS, f"pinned from _reid.build_*_re2te() of {vlib.REPO} at {head} after the structural "
                                 "theorems (a)-(d) held; stands in for the BOSS electronics map (not available offline)")
        print("pinned", {d: rlog["tables"][d] for d in DETS})
