"""C12 — error matrices are propagated with the true Jacobian of the pivot change."""
from props import helix_common as hc

def run(ck):
    ok = hc.standard(ck, "C12", "C12.v", ["HelixCommon.v", "HelixLaws.v", "C12Proofs.v", "C11ErrProofs.v"], "c12",
                     "helices of both charges x pivot pairs x error matrices (full, rank-1, diagonal, zero): the returned error matrix "
                     "vs J E J^T with the central finite-difference Jacobian of change_pivot's own parameter map, symmetry, eigenvalues, "
                     "identity move, helices without error matrix, in object and array form (per-track matrices inside arrays). "
                     "distinct = generator cells x cases")
    ck.notes.append("translator-checked glue: new_error = jacobian @ old_error @ jacobian.T (object) / per-track transposes (array) and "
                    "`old_error is None` => new_error None")
replay = hc.replay("c12")
