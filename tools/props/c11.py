"""C11 — pivot changes compose: identity, inverse, path independence."""
from props import helix_common as hc

def run(ck):
    hc.standard(ck, "C11", "C11.v", ["HelixCommon.v", "HelixLaws.v", "C12Proofs.v", "C11ErrProofs.v"], "c11",
                "helices of both charges with/without error matrix x sequences of 1-4 pivots x object / record / array form: chained "
                "result vs direct move (dr, phi0 exactly; dz up to whole pitches, exactly when the accumulated turning angle is within "
                "half a turn), identity and there-and-back on canonical inputs incl. the error matrix, phi0 range, reported pivot, "
                "kappa/tanl carried. distinct = distinct generator cells x cases")
replay = hc.replay("c11")
