"""C16 — packed symmetric matrices.
(1) regenerate PV.Gen.SymMatrixCode from root_io.hh (Bes3SymMatrixArrayReader: index expression, constructor loops and
    check, read loops) and root_io.py (Bes3SymMatrixArrayFactory: flat_size / full_dim arithmetic, reader arguments,
    reshape, target_items) with a fail-closed structural extractor;  (2) prove C16.v against it;
(3) tie: the working-tree header compiled natively (ASan/UBSan, pybind11 stand-in) on a (flat_size, full_dim) grid and on
    synthetic packed streams vs the model in vm_compute; Python end-to-end on every fixture member vs an independent decode
    expanded by the model's index map;  (4) failing-input search = the same runs judged against the property directly."""
import ast, hashlib, json, os, re, struct
from pathlib import Path
import vlib

UC_INC = "/venv/lib/python3.12/site-packages/uproot_custom/include"
SPEC_ITEMS = [
    "/Event:TDstEvent/m_mdcTrackCol.TMdcTrack.m_err", "/Event:TDstEvent/m_emcTrackCol.TEmcTrack.m_err",
    "/Event:TDstEvent/m_extTrackCol.TExtTrack.myTof1ErrorMatrix", "/Event:TDstEvent/m_extTrackCol.TExtTrack.myTof2ErrorMatrix",
    "/Event:TDstEvent/m_extTrackCol.TExtTrack.myEmcErrorMatrix", "/Event:TDstEvent/m_extTrackCol.TExtTrack.myMucErrorMatrix",
    "/Event:TDstEvent/m_mdcKalTrackCol.TMdcKalTrack.m_zerror", "/Event:TDstEvent/m_mdcKalTrackCol.TMdcKalTrack.m_zerror_e",
    "/Event:TDstEvent/m_mdcKalTrackCol.TMdcKalTrack.m_zerror_mu", "/Event:TDstEvent/m_mdcKalTrackCol.TMdcKalTrack.m_zerror_k",
    "/Event:TDstEvent/m_mdcKalTrackCol.TMdcKalTrack.m_zerror_p", "/Event:TDstEvent/m_mdcKalTrackCol.TMdcKalTrack.m_ferror",
    "/Event:TDstEvent/m_mdcKalTrackCol.TMdcKalTrack.m_ferror_e", "/Event:TDstEvent/m_mdcKalTrackCol.TMdcKalTrack.m_ferror_mu",
    "/Event:TDstEvent/m_mdcKalTrackCol.TMdcKalTrack.m_ferror_k", "/Event:TDstEvent/m_mdcKalTrackCol.TMdcKalTrack.m_ferror_p",
    "/Event:TEvtRecObject/m_evtRecVeeVertexCol.TEvtRecVeeVertex.m_Ew",
    "/Event:TRecEvent/m_recMdcTrackCol.TRecMdcTrack.m_err", "/Event:TRecEvent/m_recEmcShowerCol.TRecEmcShower.m_err",
    "/Event:TRecEvent/m_recMdcKalTrackCol.TRecMdcKalTrack.m_terror",
]


class Untranslatable(Exception):
    pass


# ------------------------------------------------------------------------------------------------ C++ side
TOK = re.compile(r"\s*(?:(\d+)|([A-Za-z_]\w*)|(\"(?:[^\"\\]|\\.)*\")|(\+\+|--|->|::|<=|>=|==|!=|&&|\|\||[-+*/%<>=!?:;,.(){}\[\]&|~^]))")


def ctokens(text):
    text = re.sub(r"//[^\n]*", " ", text)
    text = re.sub(r"/\*.*?\*/", " ", text, flags=re.S)
    out, pos = [], 0
    while pos < len(text):
        if text[pos:].strip() == "":
            break
        m = TOK.match(text, pos)
        if not m:
            raise Untranslatable(f"C++ token not understood at: {text[pos:pos + 30]!r}")
        out.append(m.group(m.lastindex))
        pos = m.end()
    return out


def class_body(src, name):
    m = re.search(r"class\s+%s\b[^{;]*\{" % re.escape(name), src)
    if not m:
        raise Untranslatable(f"class {name} not found in root_io.hh")
    depth, i = 1, m.end()
    while depth and i < len(src):
        depth += {"{": 1, "}": -1}.get(src[i], 0)
        i += 1
    if depth:
        raise Untranslatable("unbalanced braces")
    return src[m.end():i - 1]


class CExpr:
    """C++ integer expression (tokens) -> Gallina over Z.  Types: 'int' (32-bit two's complement, every arithmetic result
    wrapped explicitly) and 'u32'; mixed operands are converted to uint32_t (usual arithmetic conversions); `/` on int is
    truncating (Z.quot)."""

    def __init__(self, toks, types):
        self.t, self.p, self.types = toks, 0, types

    def peek(self):
        return self.t[self.p] if self.p < len(self.t) else None

    def eat(self, x=None):
        tok = self.peek()
        if tok is None or (x is not None and tok != x):
            raise Untranslatable(f"expected {x!r}, found {tok!r} in expression {' '.join(self.t)}")
        self.p += 1
        return tok

    def parse(self):
        r = self.ternary()
        if self.p != len(self.t):
            raise Untranslatable(f"trailing tokens in expression {' '.join(self.t)}")
        return r

    def ternary(self):
        c = self.rel()
        if self.peek() == "?":
            if c[1] != "bool":
                raise Untranslatable("non-boolean ternary condition")
            self.eat("?"); a = self.ternary(); self.eat(":"); b = self.ternary()
            a, b, ty = self.unify(a, b)
            return (f"(if {c[0]} then {a} else {b})", ty)
        return c

    def unify(self, a, b):
        if a[1] == b[1]:
            return a[0], b[0], a[1]
        if {a[1], b[1]} == {"int", "u32"}:
            cv = lambda e: e[0] if e[1] == "u32" else f"(u32 {e[0]})"
            return cv(a), cv(b), "u32"
        raise Untranslatable(f"operand types {a[1]} / {b[1]}")

    def rel(self):
        a = self.add()
        if self.peek() in ("<", "<=", ">", ">=", "==", "!="):
            op = self.eat(); b = self.add()
            x, y, _ = self.unify(a, b)
            cop = {"<": "<?", "<=": "<=?", ">": ">?", ">=": ">=?", "==": "=?"}.get(op)
            if cop is None:
                return (f"(negb ({x} =? {y}))", "bool")
            return (f"({x} {cop} {y})", "bool")
        return a

    def arith(self, op, a, b):
        x, y, ty = self.unify(a, b)
        if ty not in ("int", "u32"):
            raise Untranslatable("arithmetic on non-integers")
        if op == "/":
            body = f"(Z.quot {x} {y})" if ty == "int" else f"({x} / {y})"
        elif op == "%":
            body = f"(Z.rem {x} {y})" if ty == "int" else f"({x} mod {y})"
        else:
            body = f"({x} {op} {y})"
        return (f"(wrap32 {body})" if ty == "int" else f"(u32 {body})", ty)

    def add(self):
        a = self.mul()
        while self.peek() in ("+", "-"):
            op = self.eat(); a = self.arith(op, a, self.mul())
        return a

    def mul(self):
        a = self.atom()
        while self.peek() in ("*", "/", "%"):
            op = self.eat(); a = self.arith(op, a, self.atom())
        return a

    def atom(self):
        tok = self.peek()
        if tok == "(":
            self.eat(); r = self.ternary(); self.eat(")"); return r
        if tok == "-":
            self.eat(); a = self.atom(); return self.arith("-", ("0", "int"), a)
        if tok is not None and tok.isdigit():
            self.eat()
            if int(tok) > 2147483647:
                raise Untranslatable("literal beyond int")
            return (tok, "int")
        if tok is not None and re.fullmatch(r"[A-Za-z_]\w*", tok):
            self.eat()
            if tok not in self.types:
                raise Untranslatable(f"unknown name {tok!r} in C++ expression")
            return (tok, self.types[tok])
        raise Untranslatable(f"unexpected token {tok!r} in C++ expression {' '.join(self.t)}")


ID = r"[A-Za-z_]\w*"
FOR = r"for \( (?:auto|int) (?P<%s>" + ID + r") = 0 ; (?P=%s) < (?P<%s>" + ID + r") ; (?:(?P=%s) \+\+|\+\+ (?P=%s)) \)"


def translate_cpp(hh_text):
    log = {}
    body = class_body(hh_text, "Bes3SymMatrixArrayReader")
    s = " ".join(ctokens(body))
    # members
    for mem in ("m_flat_size", "m_full_dim"):
        if not re.search(r"const uint32_t %s ;" % mem, s):
            raise Untranslatable(f"member `const uint32_t {mem}` not found")
    if not re.search(r"SharedVector < T > m_data ;", s):
        raise Untranslatable("member m_data not found")
    # index function
    m = re.search(r"(?:const )?int get_symmetric_matrix_index \( int (?P<a>%s) , int (?P<b>%s) \) const \{ return (?P<e>[^;{}]*) ; \}" % (ID, ID), s)
    if not m:
        raise Untranslatable("get_symmetric_matrix_index( int, int ) { return <expr>; } not found")
    pa, pb = m.group("a"), m.group("b")
    if pa == pb:
        raise Untranslatable("duplicate parameter names")
    idx_expr, ty = CExpr(m.group("e").split(), {pa: "int", pb: "int"}).parse()
    if ty != "int":
        raise Untranslatable("index expression is not int")
    log["index_expr"] = m.group("e")
    # constructor
    m = re.search(r"Bes3SymMatrixArrayReader \( std :: string name , uint32_t (?P<p1>%s) , uint32_t (?P<p2>%s) \) : (?P<init>.*?) \{ (?P<body>.*?) \} (?:const )?int get_symmetric_matrix_index" % (ID, ID), s)
    if not m:
        raise Untranslatable("constructor( std::string, uint32_t, uint32_t ) not found")
    p1, p2, init, cbody = m.group("p1"), m.group("p2"), m.group("init"), m.group("body")
    if p1 == p2:
        raise Untranslatable("duplicate constructor parameter names")
    mi = re.fullmatch(r"IReader \( name \) , m_data \( make_shared_vector < T > \( \) \) , m_flat_size \( (?P<a>%s) \) , m_full_dim \( (?P<b>%s) \)" % (ID, ID), init)
    if not mi or mi.group("a") not in (p1, p2) or mi.group("b") not in (p1, p2):
        raise Untranslatable(f"member initialiser list not understood: {init}")
    log["ctor_params"] = [p1, p2]; log["member_init"] = {"m_flat_size": mi.group("a"), "m_full_dim": mi.group("b")}
    pat = (FOR % ("i", "i", "b1", "i", "i")) + r" \{ " + (FOR % ("j", "j", "b2", "j", "j")) + \
        r" \{ (?:auto|int|const int) (?P<idx>" + ID + r") = get_symmetric_matrix_index \( (?P<a1>" + ID + r") , (?P<a2>" + ID + \
        r") \) ; if \( (?P<cond>[^{};]*) \) \{ throw std :: runtime_error \( [^;{}]* \) ; \} \} \}"
    mc = re.fullmatch(pat, cbody)
    if not mc:
        raise Untranslatable(f"constructor body not of the form for/for/idx/if-throw: {cbody[:200]}")
    g = mc.groupdict()
    names = {g["i"], g["j"], g["idx"], p1, p2}
    if len(names) != 5 or g["b1"] not in (p1, p2) or g["b2"] not in (p1, p2) or {g["a1"], g["a2"]} - {g["i"], g["j"]}:
        raise Untranslatable("constructor loop variables / bounds not understood")
    cond, cty = CExpr(g["cond"].split(), {g["idx"]: "int", p1: "u32", p2: "u32", g["i"]: "int", g["j"]: "int"}).parse()
    if cty != "bool":
        raise Untranslatable("constructor check is not a comparison")
    log["ctor_loops"] = {"outer": [g["i"], g["b1"]], "inner": [g["j"], g["b2"]], "call": [g["a1"], g["a2"]], "throw_if": g["cond"]}
    # read()
    m = re.search(r"void read \( BinaryBuffer & (?P<bp>%s) \) override \{ (?P<body>.*?) \} py :: object data" % ID, s)
    if not m:
        raise Untranslatable("read( BinaryBuffer& ) not found")
    bp, rbody = m.group("bp"), m.group("body")
    pat = (r"std :: vector < T > (?P<fa>" + ID + r") \( (?P<alloc>" + ID + r") \) ; " + (FOR % ("k", "k", "bk", "k", "k")) +
           r" (?:\{ )?(?P=fa) \[ (?P=k) \] = " + re.escape(bp) + r" \. read < T > \( \) ;(?: \})? " +
           (FOR % ("i", "i", "b1", "i", "i")) + r" \{ " + (FOR % ("j", "j", "b2", "j", "j")) +
           r" \{ (?:auto|int|const int) (?P<idx>" + ID + r") = get_symmetric_matrix_index \( (?P<a1>" + ID + r") , (?P<a2>" + ID +
           r") \) ; m_data -> push_back \( (?P=fa) \[ (?P=idx) \] \) ; \} \}")
    mr = re.fullmatch(pat, rbody)
    if not mr:
        raise Untranslatable(f"read() body not of the form alloc/fill-loop/for/for/push_back: {rbody[:240]}")
    r = mr.groupdict()
    mem = ("m_flat_size", "m_full_dim")
    if r["alloc"] not in mem or r["bk"] not in mem or r["b1"] not in mem or r["b2"] not in mem or \
            {r["a1"], r["a2"]} - {r["i"], r["j"]} or len({r["i"], r["j"], r["idx"], r["fa"]}) != 4:
        raise Untranslatable("read() loop variables / bounds not understood")
    log["read"] = {"alloc": r["alloc"], "fill_bound": r["bk"], "outer": [r["i"], r["b1"]], "inner": [r["j"], r["b2"]],
                   "call": [r["a1"], r["a2"]]}
    # data(): returns make_array( m_data )
    if not re.search(r"py :: object data \( \) const override \{ auto (%s) = make_array \( m_data \) ; return \1 ; \}" % ID, s) and \
            not re.search(r"py :: object data \( \) const override \{ return make_array \( m_data \) ; \}", s):
        raise Untranslatable("data() does not return make_array( m_data )")
    out = []
    out.append(f"(* root_io.hh: int get_symmetric_matrix_index( int {pa}, int {pb} ) {{ return {m_strip(log['index_expr'])}; }} *)")
    out.append(f"Definition get_symmetric_matrix_index ({pa} {pb} : Z) : Z :=\n  {idx_expr}.")
    out.append(f"(* constructor( std::string name, uint32_t {p1}, uint32_t {p2} ): member initialisers *)")
    out.append(f"Definition ctor_member_flat_size ({p1} {p2} : Z) : Z := {mi.group('a')}.")
    out.append(f"Definition ctor_member_full_dim ({p1} {p2} : Z) : Z := {mi.group('b')}.")
    out.append(f"(* constructor body: for {g['i']} < {g['b1']}, for {g['j']} < {g['b2']}: {g['idx']} = index({g['a1']},{g['a2']}); if ({m_strip(g['cond'])}) throw *)")
    out.append(f"Definition ctor_throws_at ({p1} {p2} {g['i']} {g['j']} : Z) : bool :=\n"
               f"  let {g['idx']} := get_symmetric_matrix_index {g['a1']} {g['a2']} in {cond}.")
    out.append(f"Definition ctor_accepts ({p1} {p2} : Z) : bool :=\n"
               f"  forallb (fun {g['i']} => forallb (fun {g['j']} => negb (ctor_throws_at {p1} {p2} {g['i']} {g['j']})) "
               f"(zrange 0 {g['b2']})) (zrange 0 {g['b1']}).")
    out.append("(* read(): std::vector<T> flat_array( alloc ); fill loop reads one T per index; nested loops push flat_array[idx] *)")
    out.append(f"Definition read_alloc (m_flat_size m_full_dim : Z) : Z := {r['alloc']}.")
    out.append(f"Definition read_count (m_flat_size m_full_dim : Z) : Z := zlen (zrange 0 {r['bk']}).")
    out.append(f"Definition read_indices (m_flat_size m_full_dim : Z) : list Z :=\n"
               f"  flat_map (fun {r['i']} => map (fun {r['j']} => get_symmetric_matrix_index {r['a1']} {r['a2']}) "
               f"(zrange 0 {r['b2']})) (zrange 0 {r['b1']}).")
    out.append("Definition read_one (m_flat_size m_full_dim : Z) (stream : list Z) : option (list Z * list Z) :=\n"
               "  if negb (read_alloc m_flat_size m_full_dim =? read_count m_flat_size m_full_dim) then None else\n"
               "  read_with (read_count m_flat_size m_full_dim) (read_indices m_flat_size m_full_dim) stream.")
    return "\n".join(out), log


def m_strip(s):
    return s.replace("(*", "( *").replace("*)", "* )")


# ------------------------------------------------------------------------------------------------ Python side
def py_int_expr(node, names):
    """integer-valued Python expression over `names` -> Gallina (unbounded Z)"""
    if isinstance(node, ast.Constant) and isinstance(node.value, int) and not isinstance(node.value, bool):
        return str(node.value) if node.value >= 0 else f"({node.value})"
    if isinstance(node, ast.Name) and node.id in names:
        return node.id
    if isinstance(node, ast.BinOp) and isinstance(node.op, (ast.Add, ast.Sub, ast.Mult)):
        op = {ast.Add: "+", ast.Sub: "-", ast.Mult: "*"}[type(node.op)]
        return f"({py_int_expr(node.left, names)} {op} {py_int_expr(node.right, names)})"
    raise Untranslatable(f"Python integer expression not understood: {ast.unparse(node)}")


def is_call(node, dotted):
    return isinstance(node, ast.Call) and ast.unparse(node.func) == dotted and not node.keywords


def translate_py(py_text):
    log = {}
    mod = ast.parse(py_text)
    cls = [n for n in mod.body if isinstance(n, ast.ClassDef) and n.name == "Bes3SymMatrixArrayFactory"]
    if len(cls) != 1:
        raise Untranslatable("class Bes3SymMatrixArrayFactory not found")
    cls = cls[0]
    fn = {n.name: n for n in cls.body if isinstance(n, ast.FunctionDef)}
    # target_items
    ti = [n for n in cls.body if isinstance(n, ast.Assign) and ast.unparse(n.targets[0]) == "target_items"]
    if len(ti) != 1 or not isinstance(ti[0].value, ast.Set) or \
            not all(isinstance(e, ast.Constant) and isinstance(e.value, str) for e in ti[0].value.elts):
        raise Untranslatable("target_items is not a set of string literals")
    items = sorted({e.value for e in ti[0].value.elts})
    for it in items:
        if not re.fullmatch(r"[\w/:.]+", it):
            raise Untranslatable(f"unexpected characters in target item {it!r}")
    log["target_items"] = items
    # priority
    pr = fn.get("priority")
    if pr is None or len(pr.body) != 1 or not isinstance(pr.body[0], ast.Return) or not isinstance(pr.body[0].value, ast.Constant):
        raise Untranslatable("priority() is not `return <int>`")
    log["priority"] = pr.body[0].value.value
    # build_factory
    bf = fn.get("build_factory")
    if bf is None or [a.arg for a in bf.args.args] != ["cls", "top_type_name", "cur_streamer_info", "all_streamer_info", "item_path"]:
        raise Untranslatable("build_factory signature changed")
    body = [n for n in bf.body if not (isinstance(n, ast.Expr) and isinstance(n.value, ast.Constant))]
    want_prefix = ["if item_path not in Bes3SymMatrixArrayFactory.target_items:\n    return None",
                   "fArrayDim = cur_streamer_info['fArrayDim']", "fMaxIndex = cur_streamer_info['fMaxIndex']",
                   "ctype = PrimitiveFactory.typenames[top_type_name]"]
    got = [ast.unparse(n) for n in body]
    if got[:4] != want_prefix or len(body) != 8:
        raise Untranslatable(f"build_factory prologue not understood: {got[:4]}")
    a_flat, a_assert, a_dim, a_ret = body[4:8]
    # flat_size = np.prod(fMaxIndex[:fArrayDim])
    if not (isinstance(a_flat, ast.Assign) and ast.unparse(a_flat.targets[0]) == "flat_size" and is_call(a_flat.value, "np.prod")
            and len(a_flat.value.args) == 1 and isinstance(a_flat.value.args[0], ast.Subscript)
            and ast.unparse(a_flat.value.args[0].value) == "fMaxIndex" and isinstance(a_flat.value.args[0].slice, ast.Slice)
            and a_flat.value.args[0].slice.lower is None and a_flat.value.args[0].slice.step is None
            and ast.unparse(a_flat.value.args[0].slice.upper) == "fArrayDim"):
        raise Untranslatable(f"flat_size assignment not understood: {ast.unparse(a_flat)}")
    flat_g = "zprod (firstn (Z.to_nat fArrayDim) fMaxIndex)"
    if not (isinstance(a_assert, ast.Assert) and ast.unparse(a_assert.test) == "flat_size > 0"):
        raise Untranslatable("assert flat_size > 0 missing")
    # full_dim = int((np.sqrt(A) - b) / c)   (rule: exact-real semantics, = (Z.sqrt A - b) / c for A >= b*b, c > 0)
    v = a_dim.value if isinstance(a_dim, ast.Assign) and ast.unparse(a_dim.targets[0]) == "full_dim" else None
    ok = (v is not None and is_call(v, "int") and len(v.args) == 1 and isinstance(v.args[0], ast.BinOp)
          and isinstance(v.args[0].op, ast.Div) and isinstance(v.args[0].right, ast.Constant)
          and isinstance(v.args[0].right.value, int) and v.args[0].right.value > 0
          and isinstance(v.args[0].left, ast.BinOp) and isinstance(v.args[0].left.op, ast.Sub)
          and isinstance(v.args[0].left.right, ast.Constant) and isinstance(v.args[0].left.right.value, int)
          and v.args[0].left.right.value >= 0 and is_call(v.args[0].left.left, "np.sqrt") and len(v.args[0].left.left.args) == 1)
    if not ok:
        raise Untranslatable(f"full_dim assignment not of the form int((np.sqrt(A) - b) / c): {ast.unparse(a_dim)}")
    A = py_int_expr(v.args[0].left.left.args[0], {"flat_size"})
    dim_g = f"((Z.sqrt {A} - {v.args[0].left.right.value}) / {v.args[0].right.value})"
    log["flat_size"] = ast.unparse(a_flat.value); log["full_dim"] = ast.unparse(v)
    if ast.unparse(a_ret) != "return cls(name=cur_streamer_info['fName'], ctype=ctype, flat_size=flat_size, full_dim=full_dim)":
        raise Untranslatable(f"build_factory return not understood: {ast.unparse(a_ret)}")
    # __init__
    ini = fn.get("__init__")
    if ini is None or [a.arg for a in ini.args.args] != ["self", "name", "ctype", "flat_size", "full_dim"]:
        raise Untranslatable("__init__ signature changed")
    ibody = [ast.unparse(n) for n in ini.body]
    for need in ("self.flat_size = flat_size", "self.full_dim = full_dim", "super().__init__(name)"):
        if need not in ibody:
            raise Untranslatable(f"__init__ lacks `{need}`")
    if len(ibody) != 5 or not ibody[1].startswith("assert ctype == 'd'") or "self.ctype = ctype" not in ibody:
        raise Untranslatable(f"__init__ body not understood: {ibody}")
    # build_cpp_reader
    bc = fn.get("build_cpp_reader")
    if bc is None or len(bc.body) != 1 or not isinstance(bc.body[0], ast.Return) or \
            not is_call(bc.body[0].value, "bcpp.Bes3SymMatrixArrayReader") or len(bc.body[0].value.args) != 3:
        raise Untranslatable("build_cpp_reader not understood")
    args = [ast.unparse(a) for a in bc.body[0].value.args]
    amap = {"self.flat_size": "flat_size", "self.full_dim": "full_dim"}
    if args[0] != "self.name" or args[1] not in amap or args[2] not in amap:
        raise Untranslatable(f"reader arguments not understood: {args}")
    log["reader_args"] = args
    # make_awkward_content
    mc = fn.get("make_awkward_content")
    if mc is None or [a.arg for a in mc.args.args] != ["self", "raw_data"]:
        raise Untranslatable("make_awkward_content signature changed")
    mbody = [n for n in mc.body if not (isinstance(n, ast.Expr) and isinstance(n.value, ast.Constant))]
    if len(mbody) == 1 and isinstance(mbody[0], ast.Return) and is_call(mbody[0].value, "awkward.contents.NumpyArray") and \
            len(mbody[0].value.args) == 1 and is_call(mbody[0].value.args[0], "raw_data.reshape"):
        # return NumpyArray(raw_data.reshape(-1, d1, d2))
        rs = [ast.unparse(a) for a in mbody[0].value.args[0].args]
        log["content_shape"] = "NumpyArray with inner shape"
    elif (len(mbody) == 3 and ast.unparse(mbody[0]) == "content = awkward.contents.NumpyArray(raw_data.reshape(-1))"
          and isinstance(mbody[1], ast.Assign) and ast.unparse(mbody[1].targets[0]) == "content"
          and is_call(mbody[1].value, "awkward.contents.RegularArray") and len(mbody[1].value.args) == 2 and not mbody[1].value.keywords
          and ast.unparse(mbody[1].value.args[0]) == "content"
          and isinstance(mbody[2], ast.Return) and is_call(mbody[2].value, "awkward.contents.RegularArray")
          and len(mbody[2].value.args) == 2 and not mbody[2].value.keywords and ast.unparse(mbody[2].value.args[0]) == "content"):
        # flat buffer wrapped by RegularArray(size = row length) and then RegularArray(size = rows per matrix):
        # the same list-of-lists as raw_data.reshape(-1, rows, row length)      [rule: RegularArray(c, n) groups n consecutive items of c]
        rs = ["-1", ast.unparse(mbody[2].value.args[1]), ast.unparse(mbody[1].value.args[1])]
        log["content_shape"] = "RegularArray(RegularArray(NumpyArray))"
    else:
        raise Untranslatable("make_awkward_content is neither `return NumpyArray(raw_data.reshape(...))` nor the two-level RegularArray wrapping of the flat buffer")
    if len(rs) != 3 or rs[0] != "-1" or rs[1] not in amap or rs[2] not in amap:
        raise Untranslatable(f"reshape arguments not of the form (-1, d1, d2): {rs}")
    log["reshape"] = rs
    out = []
    out.append(f"(* root_io.py build_factory: flat_size = {log['flat_size']} *)")
    out.append(f"Definition py_flat_size (fMaxIndex : list Z) (fArrayDim : Z) : Z := {flat_g}.")
    out.append(f"(* full_dim = {log['full_dim']}   [rule: int((sqrt A - b)/c) over exact reals = (Z.sqrt A - b) / c] *)")
    out.append(f"Definition py_full_dim (flat_size : Z) : Z := {dim_g}.")
    out.append(f"(* build_cpp_reader: bcpp.Bes3SymMatrixArrayReader({', '.join(args)}) -> C++ (flat_size, full_dim) positional *)")
    out.append(f"Definition py_reader_args (flat_size full_dim : Z) : Z * Z := ({amap[args[1]]}, {amap[args[2]]}).")
    out.append(f"(* make_awkward_content: raw_data.reshape({', '.join(rs)}) *)")
    out.append(f"Definition py_content (flat_size full_dim : Z) (raw_data : list Z) : option (list (list (list Z))) :=\n"
               f"  reshape_m1 ({amap[rs[1]]}) ({amap[rs[2]]}) raw_data.")
    out.append("Definition target_items : list string := [\n  " + ";\n  ".join(f'"{i}"' for i in items) + " ]%string.")
    return "\n".join(out), log


def translate(src_dir: Path):
    cpp, l1 = translate_cpp((src_dir / "besio" / "cpp" / "root_io.hh").read_text())
    py, l2 = translate_py((src_dir / "besio" / "root_io.py").read_text())
    # the C++ constructor parameter order as seen from Python (positional): flat_size, full_dim by NAME
    if l1["ctor_params"] != ["flat_size", "full_dim"]:
        # python passes positionally; emit the permutation explicitly rather than assuming
        raise Untranslatable(f"C++ constructor parameters renamed/reordered: {l1['ctor_params']}")
    head = ("(* GENERATED on every run by tools/props/c16.py from besio/cpp/root_io.hh and besio/root_io.py — do not edit *)\n"
            "From Coq Require Import String.\nFrom Coq Require Import ZArith List Bool.\nImport ListNotations.\n"
            "From PV.Model Require Import SymMatrix.\nLocal Open Scope Z_scope.\n\n")
    return head + cpp + "\n\n" + py + "\n", {"cpp": l1, "py": l2}


# ------------------------------------------------------------------------------------------------ helpers
def tri(n):
    return n * (n + 1) // 2


def pidx(i, j):
    a, b = max(i, j), min(i, j)
    return a * (a + 1) // 2 + b


def parse_nested(out):
    """coqc output of `Eval vm_compute in (... : list (list Z))` blocks -> list of python lists (one per Eval)"""
    res = []
    for m in re.finditer(r"=\s*(\[.*?\])\s*:\s*list", out, flags=re.S):
        res.append(json.loads(m.group(1).replace(";", ",").replace("%Z", "")))
    return res


SPECIAL = [0x0000000000000000, 0x8000000000000000, 0x7FF0000000000000, 0xFFF0000000000000, 0x7FF8000000000000,
           0x7FF0000000000001, 0xFFFFFFFFFFFFFFFF, 0x7FF8DEADBEEF0001, 0x0000000000000001, 0x3FF0000000000000,
           0xBFF0000000000000, 0x000FFFFFFFFFFFFF, 0x7FEFFFFFFFFFFFFF, 0xFFF8000000000123]


def build_native(ck, src_dir):
    """compile native/symdrv.cc against the working tree's root_io.hh; cached by content hash"""
    nat = vlib.VERIF / "native"
    hh = src_dir / "besio" / "cpp" / "root_io.hh"
    h = hashlib.sha1()
    for p in [hh, nat / "symdrv.cc", nat / "rootshim" / "pybind11_extra.h", nat / "shim" / "pybind11" / "pybind11.h",
              Path(UC_INC) / "uproot-custom" / "uproot-custom.hh"]:
        h.update(p.read_bytes())
    outdir = vlib.BUILD / "native"
    outdir.mkdir(parents=True, exist_ok=True)
    exe = outdir / f"symdrv_{h.hexdigest()[:16]}"
    if exe.exists():
        return exe, None
    tmp = outdir / f".symdrv_{os.getpid()}"
    cmd = ["clang++", "-std=c++20", "-g", "-O1", "-fsanitize=address,undefined", "-fno-omit-frame-pointer",
           "-D_GLIBCXX_ASSERTIONS", f"-I{nat / 'shim'}", f"-I{nat / 'rootshim'}", f"-I{UC_INC}", f"-I{hh.parent}",
           str(nat / "symdrv.cc"), "-o", str(tmp)]
    rc, so, se = vlib.sh(cmd, timeout=300)
    if rc != 0:
        return None, (se or so)[-1500:]
    os.replace(tmp, exe)
    return exe, None


def run_native(exe, lines, timeout=600):
    env = dict(os.environ)
    env["ASAN_OPTIONS"] = "detect_leaks=0:abort_on_error=0:exitcode=86"
    env["UBSAN_OPTIONS"] = "print_stacktrace=0"
    rc, so, se = vlib.sh([str(exe)], timeout=timeout, env=env, input="\n".join(lines) + "\n")
    return rc, so, se


def gen_cases(ck, dims_small, flat_max, n_streams):
    rng = ck.rng
    grid = [(f, d) for d in range(0, dims_small + 1) for f in range(0, flat_max + 1)]
    # boundary pairs of every dimension that occurs in BES3 data and a few larger ones
    for d in (3, 5, 6, 7, 12, 20, 31, 40):
        for f in (tri(d) - 1, tri(d), tri(d) + 1, tri(d + 1) - 1):
            grid.append((f, d))
    grid = sorted(set(grid))
    streams = []
    for k in range(n_streams):
        d = rng.choice([0, 1, 2, 3, 3, 5, 5, 6, 6, 7, 7, 4, 8, 9, 11])
        f = tri(d) + rng.choice([0, 0, 0, 0, 1, 2, d + 1])
        if f == 0 and d == 0 and rng.random() < 0.5:
            f = rng.randrange(0, 4)
        nobj = rng.choice([0, 1, 1, 2, 3, 5])
        extra = rng.choice([0, 0, 1, 3])
        vals = []
        for _ in range(f * nobj + extra):
            r = rng.random()
            if r < 0.25:
                vals.append(rng.choice(SPECIAL))
            elif r < 0.5:
                vals.append(struct.unpack(">Q", struct.pack(">d", rng.uniform(-1e3, 1e3)))[0])
            else:
                vals.append(rng.getrandbits(64))
        streams.append({"flat": f, "dim": d, "nobj": nobj, "vals": vals})
    # deterministic larger dimensions with pairwise distinct packed values: packed positions beyond 255 (dim >= 23) exist only there
    for d, nobj in ((16, 2), (22, 1), (23, 1), (23, 2), (24, 1), (33, 1)) + (((46, 1), (64, 1)) if n_streams > 100 else ()):
        f = tri(d) + (1 if d % 2 else 0)
        vals = [(k * 0x9E3779B97F4A7C15 + 1) & 0xFFFFFFFFFFFFFFFF for k in range(f * nobj)]
        streams.append({"flat": f, "dim": d, "nobj": nobj, "vals": vals})
    return grid, streams


def spec_expand(flat, dim, vals, nobj):
    out = []
    for k in range(nobj):
        p = vals[k * flat:(k + 1) * flat]
        out += [p[pidx(i, j)] for i in range(dim) for j in range(dim)]
    return out


# ------------------------------------------------------------------------------------------------ check
def run(ck: vlib.Check):
    ck.cov["rule"] = (
        "native cases = every (flat_size, full_dim) pair of a complete small grid plus boundary pairs tri(d)-1/tri(d)/tri(d)+1 "
        "for larger d (thorough: also the int-overflow boundary 46341/46342), and generated packed streams (0-5 objects, "
        "arbitrary 64-bit patterns incl. NaN payloads, -0, inf, denormals, non-symmetric-looking data, trailing bytes); "
        "python cases = every (fixture, listed matrix member) with every object/entry compared by bit pattern against an "
        "independent decode expanded by the model's index map, plus factory arithmetic on every packed length of a range; "
        "distinct = distinct (kind, parameters/content) cases hashed")
    ck.trusted += [
        "extractor in tools/props/c16.py (regex/structural match of Bes3SymMatrixArrayReader + ast match of "
        "Bes3SymMatrixArrayFactory -> Gallina): C++ int = 32-bit two's complement with explicit wrap32, int/uint32_t "
        "comparison converts to uint32_t, `/` truncates; loops `for (v = 0; v < B; v++)` = zrange 0 B (B < 2^31); "
        "fail-closed on any other shape",
        "rule int((np.sqrt(A) - b) / c) = (Z.sqrt A - b) / c: exact-real semantics; IEEE sqrt is correctly rounded so it is exact "
        "on the perfect squares (2n+1)^2 < 2^53 that the theorems evaluate it on; validated against the implementation on a range",
        "native tie: pybind11 stand-in (native/shim, native/rootshim), clang ASan/UBSan + _GLIBCXX_ASSERTIONS as the oracle for "
        "out-of-range accesses on tested inputs; besio_cpp.cc binding glue not rebuilt (pinned .so used by the Python route)",
        "independent decode of the packed values: tools/proto/refdec.py (schema-driven, written from DESIGN.md rules), uproot for "
        "decompression / TTree framing / streamer info",
    ]
    ck.assumptions += [
        "dimension <= 46341 (largest for which j*(j+1) stays inside int); beyond: undefined behaviour in C++, modelled with "
        "wrap-around only in C16_ctor_rejects_overflowing_dim",
        "packed length < 2^32 (uint32_t parameter) and loop bounds < 2^31 (int loop counters)",
        "float rounding of np.sqrt/-,/ outside perfect squares is not modelled (exact integer sqrt); 1+8*flat < 2^53",
        "big-endian decoding of the doubles themselves belongs to C01's stream model; here values are 64-bit patterns",
    ]
    quick = ck.tier == "quick"
    # ---- 1 regenerate
    text = None
    try:
        text, log = translate(vlib.SRC)
        ck.cov["regenerated"] = {"SymMatrixCode.v": log}
    except Untranslatable as e:
        ck.tie_broken("translator", "root_io.hh/root_io.py (Bes3SymMatrixArray*)", str(e))
    except Exception as e:
        ck.tie_broken("translator", "root_io.hh/root_io.py (Bes3SymMatrixArray*)", f"{type(e).__name__}: {e}")
    ok = False
    if text is not None:
        ck.write_gen("SymMatrixCode.v", text)
        ok = ck.compile_gen(["SymMatrixCode.v"])
    # ---- 2 prove
    proved = ok and ck.prove(["C16Proofs.v"], "C16.v")
    if not ok:  # the theorems exist but could not be checked against this tree
        for nm in re.findall(r"^(?:Theorem|Example)\s+(\w+)", (vlib.COQ / "Props" / "C16.v").read_text(), flags=re.M):
            ck.obligations.append({"name": nm, "status": "not-checked", "assumptions": None})
    # ---- 3a native tie
    grid, streams = gen_cases(ck, 12 if quick else 24, 40 if quick else 330, 60 if quick else 400)
    # dimensions at and beyond the 16-bit / 32-bit boundaries with a packed length that is far too small: the scan rejects them after a
    # few hundred steps (long before any int overflow), so they belong to the quick tier too
    big = [(32768, 65536), (56107, 92682), (100000, 131072), (1, 4294967295), (5, 4294967294), (40, 65535), (0, 65536), (21, 2 ** 31)]
    big += [] if quick else [(tri(46341), 46341), (tri(46341) - 1, 46341), (tri(46342), 46342), (2 ** 31, 50000), (3221250959, 46342)]
    model_grid = model_streams = model_maps = model_dims = None
    dim_inputs = sorted(set(list(range(0, 400)) + [tri(n) for n in range(0, 200)] + [tri(n) - 1 for n in range(1, 200)] +
                            [ck.rng.randrange(0, 2 ** 40) for _ in range(200)] + [tri(46341), tri(2 ** 20), tri(2 ** 25)]))
    if ok:
        v = ck.props / "Cases.v"
        t = ["From Coq Require Import ZArith List. Import ListNotations.", "From PV.Model Require Import SymMatrix.",
             "From PV.Gen Require Import SymMatrixCode.", "Local Open Scope Z_scope.",
             "Definition b2z (b : bool) : Z := if b then 1 else 0.",
             "Definition res (o : option (list Z * list Z)) : list Z := match o with None => [-2] | Some (a, r) => zlen r :: a end.",
             "Eval vm_compute in [map (fun fd => b2z (ctor_accepts (fst fd) (snd fd))) [" +
             "; ".join(f"({f},{d})" for f, d in grid) + "]]."]
        t.append("Eval vm_compute in [" + ";\n ".join(
            f"res (if ctor_accepts {s['flat']} {s['dim']} then iter_read (read_one (ctor_member_flat_size {s['flat']} {s['dim']}) "
            f"(ctor_member_full_dim {s['flat']} {s['dim']})) {s['nobj']} {vlib.coq_zlist(s['vals'])} else None)" for s in streams) + "].")
        t.append("Eval vm_compute in [" + "; ".join(f"read_indices {tri(n)} {n}" for n in range(0, 13)) + "].")
        t.append("Eval vm_compute in [map py_full_dim " + vlib.coq_zlist(dim_inputs) + "].")
        v.write_text("\n".join(t) + "\n")
        rc, so, se = ck.coqc(v, 600)
        blocks = parse_nested(so) if rc == 0 else None
        if not blocks or len(blocks) != 4:
            ck.tie_broken("correspondence", "model-eval", (se or so)[-800:])
        else:
            model_grid, model_streams, model_maps, model_dims = blocks[0][0], blocks[1], blocks[2], blocks[3][0]
    exe, err = build_native(ck, vlib.SRC)
    nat_grid = nat_streams = None
    if exe is None:
        ck.tie_broken("correspondence", "native-build root_io.hh", err)
    else:
        lines = [f"C {f} {d}" for f, d in grid + big]
        for s in streams:
            lines.append(f"R {s['flat']} {s['dim']} {s['nobj']} {len(s['vals'])} " + " ".join("%016x" % x for x in s["vals"]))
        # histories in ONE process (after everything above): a consistent pair of a dimension, used for reading, and THEN pairs of the same
        # dimension whose packed length is too small - every pair is judged on its own, whatever readers existed before
        hist = []
        for d in (2, 3, 5, 6, 7, 11):
            vals = [(0x3FF0000000000000 + k) for k in range(tri(d))]
            hist.append(f"R {tri(d)} {d} 1 {tri(d)} " + " ".join("%016x" % x for x in vals))
            hist += [f"C {tri(d) - 1} {d}", f"C {tri(d - 1)} {d}", f"C 1 {d}", f"C {tri(d)} {d}"]
        n_main = len(lines)
        lines = lines + hist
        rc, so, se = run_native(exe, lines, timeout=3000)
        recs = [l for l in so.splitlines() if l and l[0] in "CR"]
        for l, rec in zip(lines[n_main:], recs[n_main:]):
            a = l.split(); b = rec.split()
            if a[0] == "C":
                ck.case(["ctor-after-readers", int(a[1]), int(a[2])])
                want = "A" if tri(int(a[2])) <= int(a[1]) else "X"
                if b[3] != want:
                    ck.violation(f"C16:ctor-after-valid-reader:flat={a[1]}:dim={a[2]}", f"after a reader ({tri(int(a[2]))},{a[2]}) had been built and used in the same process, "
                                 f"constructor({a[1]},{a[2]}) was {'accepted' if b[3] == 'A' else 'rejected'}; dim(dim+1)/2 = {tri(int(a[2]))} so it must be "
                                 f"{'accepted' if want == 'A' else 'rejected'}", {"flat_size": int(a[1]), "full_dim": int(a[2]), "history": "valid reader of the same dimension first"})
        lines, recs = lines[:n_main], recs[:n_main] if len(recs) >= n_main else recs
        ub = [l for l in se.splitlines() if "runtime error" in l]
        if rc != 0 or len(recs) != len(lines):
            # sanitizer abort / crash: the last BEGIN line names the input
            last = [l for l in so.splitlines() if l.startswith("BEGIN")]
            culprit = lines[len(recs)] if len(recs) < len(lines) else "?"
            ck.tie_broken("correspondence", "native-run", f"rc={rc} after {len(recs)}/{len(lines)} cases; input `{culprit[:120]}`; "
                          + se[-600:])
            ck.violation("C16:native-abort:" + " ".join(culprit.split()[:4]),
                         f"working-tree Bes3SymMatrixArrayReader aborted under ASan/UBSan/_GLIBCXX_ASSERTIONS on input `{culprit[:200]}` "
                         f"(last marker {last[-1] if last else None}): {se[-400:]}", {"input": culprit, "stderr": se[-2000:]})
        nat_grid = {}
        nat_streams = []
        for l, rec in zip(lines, recs):
            a = rec.split()
            if a[0] == "C":
                nat_grid[(int(a[1]), int(a[2]))] = a[3]
            else:
                nat_streams.append(a)
        ck.cov["native"] = {"grid_pairs": len(grid), "big_pairs": len(big), "streams": len(streams), "ubsan_reports": len(ub),
                            "ubsan_first": ub[:3]}
        # direct statement of the property on the native build (failing-input search) + correspondence with the model
        nbad = 0
        for i, (f, d) in enumerate(grid):
            got = nat_grid.get((f, d))
            if got is None:
                continue
            ck.case(["ctor", f, d])
            want = "A" if tri(d) <= f else "X"
            if got != want:
                nbad += 1
                if nbad <= 4:
                    ck.violation(f"C16:ctor:flat={f}:dim={d}", f"constructor({f},{d}) {'accepted' if got == 'A' else 'rejected'}; "
                                 f"dim(dim+1)/2={tri(d)} so it must be {'accepted' if want == 'A' else 'rejected'}",
                                 {"flat_size": f, "full_dim": d, "got": got, "want": want})
            if model_grid is not None and (got == "A") != bool(model_grid[i]):
                ck.tie_broken("correspondence", f"ctor({f},{d})", f"native={got} model={model_grid[i]}")
        for (f, d) in big:
            got = nat_grid.get((f, d))
            if got is None:
                continue
            ck.case(["ctor-big", f, d])
            if d <= 46341:
                want = "A" if tri(d) <= f else "X"
                if got != want:
                    ck.violation(f"C16:ctor:flat={f}:dim={d}", f"constructor({f},{d}) gave {got}, want {want}", {"flat": f, "dim": d})
            elif f < tri(46341):
                # the scan meets an index >= flat_size at i*(i+1)/2 >= flat_size, i <= 46341: defined behaviour, must be rejected
                if got != "X":
                    ck.violation(f"C16:ctor:flat={f}:dim={d}", f"constructor({f},{d}) accepted although dim(dim+1)/2 = {tri(d)} > {f}: a dimension too "
                                 f"large for the packed length must be rejected", {"flat_size": f, "full_dim": d, "got": got, "want": "X"})
            else:
                ck.notes.append(f"residual (dim > 46341, int overflow = UB): constructor({f},{d}) -> {got}; wrap-around model predicts "
                                f"{'X' if f <= 3221250959 else 'unknown'}")
                if f <= 3221250959 and got != "X":
                    ck.tie_broken("correspondence", f"ctor-overflow({f},{d})", f"native={got}, wrap-around model rejects")
        if ub and quick:
            ck.tie_broken("correspondence", "ubsan", "UBSan reports on in-range inputs: " + "; ".join(ub[:3]))
        nbad = 0
        for k, (s, a) in enumerate(zip(streams, nat_streams)):
            ck.case(["stream", s["flat"], s["dim"], s["nobj"], hashlib.sha1(json.dumps(s["vals"]).encode()).hexdigest()])
            f, d, nobj, vals = s["flat"], s["dim"], s["nobj"], s["vals"]
            if a[4] == "X":
                got = None
            else:
                got = [int(a[5])] + [int(x, 16) for x in a[6:]]   # consumed count, then output
            if tri(d) <= f and f * nobj <= len(vals):
                want = [f * nobj] + spec_expand(f, d, vals, nobj)
            else:
                want = None
            if got != want:
                nbad += 1
                if nbad <= 4:
                    first = None
                    if got and want:
                        first = next((i for i, (x, y) in enumerate(zip(got[1:], want[1:])) if x != y), None)
                    ck.violation(f"C16:expand:flat={f}:dim={d}:nobj={nobj}",
                                 f"Bes3SymMatrixArrayReader({f},{d}) on {nobj} packed object(s): output differs from "
                                 f"packed[max(max+1)/2+min] at flat position {first} "
                                 f"(object {None if first is None else first // max(d * d, 1)}, i={None if first is None else (first % (d * d)) // d}, "
                                 f"j={None if first is None else first % d})" if first is not None else
                                 f"Bes3SymMatrixArrayReader({f},{d}) on {nobj} object(s): got {str(got)[:80]} want {str(want)[:80]}",
                                 {"case": s, "got": got, "want": want})
            if model_streams is not None:
                ms = model_streams[k]
                mgot = None if ms == [-2] else [len(vals) - ms[0]] + ms[1:]
                if mgot != got:
                    ck.tie_broken("correspondence", f"stream#{k}({f},{d},{nobj})", f"native={str(got)[:120]} model={str(mgot)[:120]}")
        for s in streams[:3]:
            ck.sample({"kind": "packed-stream", "flat_size": s["flat"], "full_dim": s["dim"], "objects": s["nobj"],
                       "values_hex": ["%016x" % x for x in s["vals"][:8]]})
    # ---- 3b python end-to-end
    # the fixture comparison is judged against the SPECIFICATION's index map (a direct statement of the property on the
    # implementation); the regenerated model's map is compared with it separately (the Python route runs the pinned .so,
    # so a working-tree C++ edit shows up here as model != spec, and in the native runs as a concrete failing input)
    idxmaps = {str(n): [pidx(i, j) for i in range(n) for j in range(n)] for n in range(0, 13)}
    if model_maps is not None:
        for n in range(0, 13):
            if model_maps[n] != idxmaps[str(n)]:
                k = next(i for i, (a, b) in enumerate(zip(model_maps[n], idxmaps[str(n)])) if a != b)
                ck.tie_broken("correspondence", f"index-map n={n}", f"regenerated read_indices gives {model_maps[n][k]} at (i={k // n}, j={k % n}), "
                              f"specification {idxmaps[str(n)][k]}")
                break
    inp = {"spec_items": SPEC_ITEMS, "idxmaps": idxmaps, "idxmaps_from_model": False,
           "dim_inputs": dim_inputs, "dim_model": model_dims, "n_factory": 3000 if quick else 46341,
           "fixtures": str(vlib.REPO / "tests" / "data")}
    ipath = ck.bdir / "py_cases.json"
    ipath.write_text(json.dumps(inp))
    rc, so, se = vlib.run_impl_script("c16_impl.py", [ipath], timeout=1500)
    if rc != 0:
        ck.tie_broken("correspondence", "python-end-to-end", se[-1500:])
    else:
        r = json.loads(so)
        ck.cov["python"] = {k: r[k] for k in ("members_checked", "objects", "entries_compared", "factory_calls", "target_items")}
        ck.cases_bulk(r["entries_compared"] + r["factory_calls"], {bytes.fromhex(h) for h in r["hashes"]})
        for s in r["samples"][:4]:
            ck.sample(s)
        for m in r["mismatches"][:8]:
            ck.violation(m["key"], m["what"], m)
        for m in r["tie"]:
            ck.tie_broken("correspondence", m["name"], m["detail"])
        missing = [i for i in SPEC_ITEMS if i not in r["target_items"]]
        if missing and not any(b["kind"] in ("translator", "proof") for b in ck.broken):
            ck.tie_broken("correspondence", "target_items", f"listed members missing from target_items: {missing}")


def replay(path):
    """re-run the concrete failing input of a replay file on the current working tree; exit status 1 = still fails"""
    data = json.load(open(path))
    key = data.get("key") or ""
    print(f"replay {key}: {str(data.get('what'))[:400]}")
    rp = data.get("replay") or {}
    if key.startswith("C16:ctor:") or key.startswith("C16:expand:") or key.startswith("C16:native-abort"):
        exe, err = build_native(None, vlib.SRC)
        if exe is None:
            print("native build failed:", err); return 1
        if key.startswith("C16:ctor:"):
            f, d = int(rp.get("flat_size", rp.get("flat"))), int(rp.get("full_dim", rp.get("dim")))
            rc, so, se = run_native(exe, [f"C {f} {d}"])
            got = [l.split()[3] for l in so.splitlines() if l.startswith("C ")]
            want = "A" if tri(d) <= f else "X"
            print(f"constructor({f},{d}) -> {got} (required {want}) rc={rc}")
            return 0 if rc == 0 and got == [want] else 1
        if key.startswith("C16:expand:"):
            c = rp["case"]
            line = f"R {c['flat']} {c['dim']} {c['nobj']} {len(c['vals'])} " + " ".join("%016x" % x for x in c["vals"])
        else:
            line = rp["input"]
        rc, so, se = run_native(exe, [line])
        recs = [l.split() for l in so.splitlines() if l.startswith("R ") or l.startswith("C ")]
        if rc != 0 or not recs:
            print(f"aborted rc={rc}: {se[-600:]}"); return 1
        if key.startswith("C16:expand:"):
            a = recs[0]
            got = None if a[4] == "X" else [int(a[5])] + [int(x, 16) for x in a[6:]]
            want = [c["flat"] * c["nobj"]] + spec_expand(c["flat"], c["dim"], c["vals"], c["nobj"]) if tri(c["dim"]) <= c["flat"] else None
            print("output", "equals" if got == want else "DIFFERS from", "packed[max(max+1)/2+min] expansion")
            return 0 if got == want else 1
        return 0
    idxmaps = {str(n): [pidx(i, j) for i in range(n) for j in range(n)] for n in range(0, 13)}
    ipath = vlib.BUILD / "C16_replay_cases.json"
    ipath.write_text(json.dumps({"spec_items": SPEC_ITEMS, "idxmaps": idxmaps, "dim_inputs": [], "dim_model": [], "n_factory": 3000,
                                 "fixtures": str(vlib.REPO / "tests" / "data")}))
    rc, so, se = vlib.run_impl_script("c16_impl.py", [ipath], timeout=1500)
    if rc != 0:
        print(se[-1500:]); return 1
    hits = [m for m in json.loads(so)["mismatches"] if m["key"] == key]
    for m in hits[:3]:
        print("still failing:", m["what"][:400])
    if not hits:
        print("no longer failing on this tree")
    return 1 if hits else 0
