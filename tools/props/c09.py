"""C09 — geometry lookups vs published tables: regenerate int+float tables and kernels, prove C09.v,
exhaustive correspondence (bit patterns), exact-rational interpolation check, histories, direct search."""
import hashlib, json
import vlib, gen_geom
from props import c08


def run(ck: vlib.Check):
    ck.cov["rule"] = ("exhaustive: every accessor x every wire / crystal / corner index compared bit-for-bit with the .npz column "
                      "the model indexes (NumPy and Awkward inputs, table retrieval for np); interpolation at z in {span ends, 0, "
                      "+-200, random inside/outside} vs exact rational evaluation of the regenerated formula; random histories of "
                      "table retrieval (np/ak/pd) + in-place modification + lookups. distinct = distinct (accessor, element) pairs")
    ck.trusted += [
        "translators tools/py2coq_bits.py + tools/gen_geom.py (kernels ast->Gallina over Z/R; _ensure_loaded and get_*_position by "
        "statement dictionary; .npz columns emitted completely as exact dyadics via numpy.load)",
        "R model: IEEE rounding of the interpolation is abstracted (checked numerically to 1e-12 relative against exact rationals)",
        "hand model of table hand-out (copy vs alias) tied by the history correspondence",
    ]
    ck.assumptions += ["gid within [0, rows); float rounding outside the model"]
    ok = c08.regenerate(ck, with_digi=False)
    groups = []
    if ok:
        try:
            files, groups, log = gen_geom.generate_float(vlib.SRC)
            for n, t in files.items():
                ck.write_gen(n, t)
            ck.cov["regenerated"].update(log)
        except Exception as e:
            ck.tie_broken("translator", "geometry float tables/kernels", f"{type(e).__name__}: {e}")
            ok = False
    if ok:
        for grp in groups:
            if not ck.compile_gen(grp, parallel=True):
                ok = False
                break
    if ok:
        ck.prove(["C09Proofs.v"], "C09.v", timeout=1800)
    rc, so, se = vlib.run_impl_script("c09_impl.py", [ck.seed, ck.tier], timeout=1200)
    if rc != 0:
        ck.tie_broken("correspondence", "implementation-eval", se[-1500:])
        return
    impl = json.loads(so)
    ck.cov["exhaustive"] = True
    ck.cov["evaluations"] += impl["evaluations"]
    ck.distinct.update(range(impl["evaluations"]))
    ck.cov["histories_replayed"] = impl["histories"]
    ck.cov["table_libraries"] = impl["libs"]
    ck.sample({"accessor": "mdc_gid_to_west_x", "elements": "0..6795", "compared_with": "mdc_geom.npz[west_x] bit patterns"})
    ck.sample({"history": [["mdc", "np", "west_x", "iadd"], ["emc", "pd", "center_x", "slice"]], "then": "all lookups unchanged"})
    for m in impl["mismatches"]:
        ck.violation(f"C09:lookup:{m['what']}", f"accessor differs from table row: {m}", m)
    for m in impl["interp_bad"]:
        ck.violation(f"C09:interpolation:gid={m['gid']}", f"wire position off the line through its end points: {m}", m)
    for m in impl["hist_bad"]:
        ck.violation("C09:private-copy", f"in-place modification of a handed-out table changed a later lookup: {m}", m)
    # every lookup as the FIRST geometry call of a fresh interpreter with an empty numba cache (quick: the per-layer and gid-building ones + a
    # sample; thorough: all): kernels freeze the arrays they see at compile time, so the order of first uses must not matter
    from concurrent.futures import ThreadPoolExecutor
    names = (["mdc_layer_to_is_stereo", "mdc_layer_to_superlayer", "get_mdc_gid", "get_emc_gid", "mdc_gid_z_to_x", "mdc_gid_z_to_y"]
             + [f"mdc_gid_to_{x}" for x in ("superlayer", "layer", "wire", "stereo", "is_stereo", "west_x", "west_y", "west_z", "east_x", "east_y", "east_z")]
             + [f"emc_gid_to_{x}" for x in ("part", "theta", "phi", "center_x", "center_y", "center_z", "front_center_x", "front_center_y", "front_center_z", "point_x", "point_y", "point_z")])
    if ck.tier == "quick":
        names = names[:6] + ck.rng.sample(names[6:], 4)

    def first_call(nm):
        return nm, vlib.run_impl_script("c09_first_impl.py", [nm], timeout=600, cache_dir=ck.bdir / f"nb_first_{nm}")
    with ThreadPoolExecutor(8) as ex:
        firsts = list(ex.map(first_call, names))
    ck.cov["first_call_of_fresh_interpreter"] = {}
    for nm, (rc1, so1, se1) in firsts:
        ck.case(["first-call", nm])
        if rc1 != 0:
            ck.tie_broken("correspondence", f"fresh-interpreter first call {nm}", (se1 or so1)[-600:])
            continue
        bad = json.loads(so1)["results"].get(nm)
        ck.cov["first_call_of_fresh_interpreter"][nm] = bad or "ok"
        if bad:
            ck.violation(f"C09:first-call-of-fresh-interpreter:{nm}", f"{nm} as the {bad}", {"mode": "first-call", "function": nm})
    for f in impl["findings"]:
        if "gids" in f:
            h = hashlib.sha1(json.dumps(sorted(f["gids"])).encode()).hexdigest()[:10]
            key = f"C09:{f['clause']}:gids-{h}"
        else:
            key = f"C09:{f['clause']}:layers-{'-'.join(map(str, f.get('layers', [])))[:60]}"
        ck.violation(key, f"derived quantity inconsistent with the table: {json.dumps(f)[:600]}", f)


def replay(path):
    print(open(path).read()[:4000])
    rp = (json.load(open(path)).get("replay") or {})
    if rp.get("mode") == "first-call":
        rc, so, se = vlib.run_impl_script("c09_first_impl.py", [rp["function"]], timeout=600)
        bad = json.loads(so)["results"].get(rp["function"]) if rc == 0 else (se or so)[-400:]
        print("current:", bad or "ok")
        return 1 if bad else 0
    rc, so, se = vlib.run_impl_script("c09_impl.py", [1, "quick"], timeout=900)
    r = json.loads(so)
    bad = r["mismatches"] or r["interp_bad"] or r["findings"] or r["hist_bad"]
    print("current:", json.dumps({k: r[k] for k in ("mismatches", "interp_bad", "hist_bad")}), [f["clause"] for f in r["findings"]])
    return 1 if bad else 0
