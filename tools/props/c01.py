"""C01 — ROOT object collections are decoded exactly as stored.
(1) static Gallina models PV.Model.RootStream/RootSchema/RootGlue (encoder, independent schema-driven decoder, mirrors of
    Bes3TObjArrayReader::read / Bes3CgemClusterColReader::read, entry loop, ListOffset, digi flattening, factory selection);
    regenerated from the tree on every run: the registered branch table (ast) and the statement sequences of the two C++
    read() bodies the mirrors were written from (fail-closed comparison);
(2) prove C01.v (round-trip theorems by nested induction);
(3) tie, route (a): working-tree root_io.hh compiled natively (ASan/UBSan, pybind11 stand-in, scaffold blob element reader) on
    ALL real basket bytes of the fixtures and on synthetic streams from the Gallina encoder, vs the extracted model;
    route (b): every registered branch of every fixture: basket bytes + streamer info -> EXTRACTED Gallina decoder -> compared
    value by value with TBranch.array() of the working tree; synthetic streams through the working-tree factories + pinned
    readers; factory selection model vs build_factory on every streamer element;
(4) failing-input search = the same runs judged against the stored bytes (first differing event/object/member)."""
import ast, hashlib, json, os, re, shutil
from pathlib import Path
import vlib
from props import c16

UC_INC = c16.UC_INC
SPEC_BRANCHES = {
    "/Event:TMcEvent/m_mdcMcHitCol": "TMdcMc", "/Event:TMcEvent/m_cgemMcHitCol": "TCgemMc", "/Event:TMcEvent/m_emcMcHitCol": "TEmcMc",
    "/Event:TMcEvent/m_tofMcHitCol": "TTofMc", "/Event:TMcEvent/m_mucMcHitCol": "TMucMc", "/Event:TMcEvent/m_mcParticleCol": "TMcParticle",
    "/Event:TDigiEvent/m_mdcDigiCol": "TMdcDigi", "/Event:TDigiEvent/m_cgemDigiCol": "TCgemDigi", "/Event:TDigiEvent/m_emcDigiCol": "TEmcDigi",
    "/Event:TDigiEvent/m_tofDigiCol": "TTofDigi", "/Event:TDigiEvent/m_mucDigiCol": "TMucDigi", "/Event:TDigiEvent/m_lumiDigiCol": "TLumiDigi",
    "/Event:TDstEvent/m_mdcTrackCol": "TMdcTrack", "/Event:TDstEvent/m_emcTrackCol": "TEmcTrack", "/Event:TDstEvent/m_tofTrackCol": "TTofTrack",
    "/Event:TDstEvent/m_mucTrackCol": "TMucTrack", "/Event:TDstEvent/m_mdcDedxCol": "TMdcDedx", "/Event:TDstEvent/m_extTrackCol": "TExtTrack",
    "/Event:TDstEvent/m_mdcKalTrackCol": "TMdcKalTrack", "/Event:TRecEvent/m_recCgemClusterCol": "TRecCgemCluster",
    "/Event:TRecEvent/m_recMdcTrackCol": "TRecMdcTrack", "/Event:TRecEvent/m_recMdcHitCol": "TRecMdcHit",
    "/Event:TRecEvent/m_recEmcHitCol": "TRecEmcHit", "/Event:TRecEvent/m_recEmcClusterCol": "TRecEmcCluster",
    "/Event:TRecEvent/m_recEmcShowerCol": "TRecEmcShower", "/Event:TRecEvent/m_recTofTrackCol": "TRecTofTrack",
    "/Event:TRecEvent/m_recMucTrackCol": "TRecMucTrack", "/Event:TRecEvent/m_recMdcDedxCol": "TRecMdcDedx",
    "/Event:TRecEvent/m_recMdcDedxHitCol": "TRecMdcDedxHit", "/Event:TRecEvent/m_recExtTrackCol": "TRecExtTrack",
    "/Event:TRecEvent/m_recMdcKalTrackCol": "TRecMdcKalTrack", "/Event:TRecEvent/m_recMdcKalHelixSegCol": "TRecMdcKalHelixSeg",
    "/Event:TRecEvent/m_recEvTimeCol": "TRecEvTime", "/Event:TRecEvent/m_recZddChannelCol": "TRecZddChannel",
    "/Event:TEvtRecObject/m_evtRecTrackCol": "TEvtRecTrack", "/Event:TEvtRecObject/m_evtRecVeeVertexCol": "TEvtRecVeeVertex",
    "/Event:TEvtRecObject/m_evtRecPi0Col": "TEvtRecPi0", "/Event:TEvtRecObject/m_evtRecEtaToGGCol": "TEvtRecEtaToGG",
    "/Event:TEvtRecObject/m_evtRecDTagCol": "TEvtRecDTag", "/Event:THltEvent/m_hltRawCol": "THltRaw",
    "/Event:EventNavigator/m_mcMdcMcHits": "map<int,int>", "/Event:EventNavigator/m_mcMdcTracks": "map<int,int>",
    "/Event:EventNavigator/m_mcEmcMcHits": "map<int,int>", "/Event:EventNavigator/m_mcEmcRecShowers": "map<int,int>",
}
# statement sequences (tokens, debug_printf calls removed) the hand mirrors RootGlue.tobjarray_read / cgem_read were written from
MIRROR_TOBJ = ("bparser . skip_fNBytes ( ) ; bparser . skip_fVersion ( ) ; bparser . skip_fVersion ( ) ; bparser . skip ( 4 ) ; "
               "bparser . skip ( 4 ) ; bparser . skip ( 1 ) ; auto fSize = bparser . read < uint32_t > ( ) ; bparser . skip ( 4 ) ; "
               "m_offsets -> push_back ( m_offsets -> back ( ) + fSize ) ; for ( uint32_t i = 0 ; i < fSize ; i ++ ) { "
               "bparser . skip_obj_header ( ) ; m_element_reader -> read ( bparser ) ; }")
MIRROR_TOBJ_DATA = ("auto offsets_array = make_array ( m_offsets ) ; py :: object element_data = m_element_reader -> data ( ) ; "
                    "return py :: make_tuple ( offsets_array , element_data ) ;")
MIRROR_CGEM = ("bparser . skip_obj_header ( ) ; bparser . skip_fNBytes ( ) ; bparser . skip_fVersion ( ) ; bparser . skip_fVersion ( ) ; "
               "bparser . skip ( 4 ) ; bparser . skip ( 4 ) ; bparser . skip ( 1 ) ; auto fSize = bparser . read < uint32_t > ( ) ; "
               "bparser . skip ( 4 ) ; m_offsets -> push_back ( m_offsets -> back ( ) + fSize ) ; "
               "for ( uint32_t i = 0 ; i < fSize ; i ++ ) { bparser . skip_obj_header ( ) ; auto fNBytes = bparser . read_fNBytes ( ) ; "
               "bparser . skip_fVersion ( ) ; if ( m_version == - 1 ) { switch ( fNBytes ) { case 96 : case 98 : m_version = 0 ; break ; "
               "case 88 : case 90 : m_version = 1 ; break ; default : throw std :: runtime_error ( \"Unknown TCgemCluster version with fNBytes=\" + "
               "std :: to_string ( fNBytes ) ) ; } } bparser . skip_TObject ( ) ; "
               "m_clusterid -> push_back ( bparser . read < int32_t > ( ) ) ; m_trkid -> push_back ( bparser . read < int32_t > ( ) ) ; "
               "m_layerid -> push_back ( bparser . read < int32_t > ( ) ) ; m_sheetid -> push_back ( bparser . read < int32_t > ( ) ) ; "
               "m_flag -> push_back ( bparser . read < int32_t > ( ) ) ; m_energydeposit -> push_back ( bparser . read < double > ( ) ) ; "
               "m_recphi -> push_back ( bparser . read < double > ( ) ) ; "
               "if ( m_version == 0 ) m_recpositiony -> push_back ( bparser . read < double > ( ) ) ; "
               "m_recv -> push_back ( bparser . read < double > ( ) ) ; m_recZ -> push_back ( bparser . read < double > ( ) ) ; "
               "for ( int i = 0 ; i < 2 ; i ++ ) m_clusterflag -> push_back ( bparser . read < int32_t > ( ) ) ; "
               "for ( int i = 0 ; i < 4 ; i ++ ) m_stripid -> push_back ( bparser . read < int32_t > ( ) ) ; }")


class Untranslatable(Exception):
    pass


def method_body(cls_body_tokens, signature_regex):
    m = re.search(signature_regex + r" \{ ", cls_body_tokens)
    if not m:
        raise Untranslatable(f"method {signature_regex} not found")
    depth, toks, i = 1, cls_body_tokens[m.end():].split(" "), 0
    out = []
    while depth and i < len(toks):
        depth += {"{": 1, "}": -1}.get(toks[i], 0)
        if depth:
            out.append(toks[i])
        i += 1
    s = " ".join(out)
    return re.sub(r"debug_printf \( (?:[^();]|\((?: [^()]*)? \))* \) ; ", "", s + " ").strip()


def regenerate(src_dir: Path):
    """(branch table from root_io.py, mirror statement sequences from root_io.hh) — fail-closed"""
    log = {}
    mod = ast.parse((src_dir / "besio" / "root_io.py").read_text())
    tab = [n for n in mod.body if isinstance(n, ast.Assign) and ast.unparse(n.targets[0]) == "bes3_branch2types"]
    if len(tab) != 1 or not isinstance(tab[0].value, ast.Dict):
        raise Untranslatable("bes3_branch2types is not a dict literal")
    try:
        table = ast.literal_eval(tab[0].value)
    except Exception:
        raise Untranslatable("bes3_branch2types is not a literal of strings")
    log["registered_branches"] = len(table)
    hh = (src_dir / "besio" / "cpp" / "root_io.hh").read_text()
    seqs = {}
    for cname, key in (("Bes3TObjArrayReader", "tobj"), ("Bes3CgemClusterColReader", "cgem")):
        body = " ".join(c16.ctokens(c16.class_body(hh, cname)))
        seqs[key] = method_body(body, r"void read \( BinaryBuffer & bparser \) override")
        if key == "tobj":
            seqs["tobj_data"] = method_body(body, r"py :: object data \( \) const override")
            if not re.search(r"m_offsets \( make_shared_vector < uint32_t > \( 1 , 0 \) \)", body):
                raise Untranslatable("Bes3TObjArrayReader: m_offsets is not initialised to [0]")
        else:
            if not re.search(r"int m_version \{ - 1 \} ;", body) or not re.search(r"m_offsets \( make_shared_vector < uint32_t > \( 1 , 0 \) \)", body):
                raise Untranslatable("Bes3CgemClusterColReader: initial state (m_version = -1, m_offsets = [0]) not found")
            seqs["cgem_data"] = method_body(body, r"py :: object data \( \) const override")
    return table, seqs, log


CGEM_DATA = ("py :: dict result ; result [ \"offsets\" ] = make_array ( m_offsets ) ; result [ \"m_clusterID\" ] = make_array ( m_clusterid ) ; "
             "result [ \"m_trkID\" ] = make_array ( m_trkid ) ; result [ \"m_layerID\" ] = make_array ( m_layerid ) ; "
             "result [ \"m_sheetID\" ] = make_array ( m_sheetid ) ; result [ \"m_flag\" ] = make_array ( m_flag ) ; "
             "result [ \"m_energyDeposit\" ] = make_array ( m_energydeposit ) ; result [ \"m_recPhi\" ] = make_array ( m_recphi ) ; "
             "if ( m_version == 0 ) result [ \"m_recPositionY\" ] = make_array ( m_recpositiony ) ; "
             "result [ \"m_recV\" ] = make_array ( m_recv ) ; result [ \"m_recZ\" ] = make_array ( m_recZ ) ; "
             "result [ \"m_clusterFlag\" ] = make_array ( m_clusterflag ) ; result [ \"m_stripID\" ] = make_array ( m_stripid ) ; return result ;")


# ------------------------------------------------------------------------------------------------ builds
def build_rootdec(ck):
    """extract the Gallina model (ExtrOcamlBasic) and link it with ocaml/rootdec_driver.ml; cached by content hash"""
    srcs = [vlib.COQ / "Model" / n for n in ("RootStream.v", "RootSchema.v", "RootGlue.v", "SymMatrix.v")] + \
           [vlib.COQ / "Extract" / "RootExtract.v", vlib.VERIF / "ocaml" / "rootdec_driver.ml"]
    h = hashlib.sha1()
    for p in srcs:
        h.update(p.read_bytes())
    outdir = vlib.BUILD / "native"
    outdir.mkdir(parents=True, exist_ok=True)
    exe = outdir / f"rootdec_{h.hexdigest()[:16]}"
    if exe.exists():
        return exe, None
    work = vlib.BUILD / "C01" / f"extract_{os.getpid()}"
    if work.exists():
        shutil.rmtree(work)
    work.mkdir(parents=True)
    shutil.copy(vlib.COQ / "Extract" / "RootExtract.v", work / "RootExtract.v")
    shutil.copy(vlib.VERIF / "ocaml" / "rootdec_driver.ml", work / "rootdec_driver.ml")
    bad = vlib.scan_forbidden(work / "RootExtract.v")
    if bad:
        return None, f"forbidden constructs in RootExtract.v: {bad}"
    rc, so, se = vlib.sh(["coqc", "-R", str(vlib.COQ / "Model"), "PV.Model", "RootExtract.v"], timeout=600, cwd=str(work))
    if rc != 0:
        return None, "extraction failed: " + (se or so)[-1200:]
    rc, so, se = vlib.sh(["ocamlfind", "ocamlopt", "-package", "str", "rootdec.mli", "rootdec.ml", "rootdec_driver.ml", "-o", "rootdec"],
                         timeout=600, cwd=str(work))
    if rc != 0:
        return None, "ocaml build failed: " + (se or so)[-1200:]
    os.replace(work / "rootdec", exe)
    shutil.rmtree(work, ignore_errors=True)
    return exe, None


def build_native(src_dir):
    nat = vlib.VERIF / "native"
    hh = src_dir / "besio" / "cpp" / "root_io.hh"
    h = hashlib.sha1()
    for p in [hh, nat / "rootdrv.cc", nat / "rootshim" / "pybind11_extra.h", nat / "shim" / "pybind11" / "pybind11.h",
              Path(UC_INC) / "uproot-custom" / "uproot-custom.hh"]:
        h.update(p.read_bytes())
    outdir = vlib.BUILD / "native"
    outdir.mkdir(parents=True, exist_ok=True)
    exe = outdir / f"rootdrv_{h.hexdigest()[:16]}"
    if exe.exists():
        return exe, None
    tmp = outdir / f".rootdrv_{os.getpid()}"
    cmd = ["clang++", "-std=c++20", "-g", "-O1", "-fsanitize=address,undefined", "-fno-omit-frame-pointer", "-D_GLIBCXX_ASSERTIONS",
           f"-I{nat / 'shim'}", f"-I{nat / 'rootshim'}", f"-I{UC_INC}", f"-I{hh.parent}", str(nat / "rootdrv.cc"), "-o", str(tmp)]
    rc, so, se = vlib.sh(cmd, timeout=300)
    if rc != 0:
        return None, (se or so)[-1500:]
    os.replace(tmp, exe)
    return exe, None


def run_rootdec(exe, requests, workdir):
    """requests: (kind tokens, schema tokens, hexdata, offsets) -> list of (offsets, literal) | None"""
    path = Path(workdir) / f"req_{os.getpid()}.txt"
    with open(path, "w") as f:
        for kind, schema, hexdata, offs in requests:
            f.write("kind " + " ".join(kind) + "\nschema " + " ".join(schema) + "\ndata " + hexdata + "\noffs " + " ".join(map(str, offs)) + "\ngo\n")
    rc, so, se = vlib.sh(f"ulimit -s unlimited 2>/dev/null; exec {exe} < {path}", timeout=3000)
    path.unlink()
    lines = so.splitlines()
    if rc != 0 or len(lines) != len(requests):
        raise RuntimeError(f"rootdec rc={rc}, {len(lines)}/{len(requests)} answers: {se[-400:]}")
    out = []
    for l in lines:
        if l.startswith("NONE"):
            out.append(None)
        else:
            head, lit = l[3:].split(" | ", 1)
            out.append(([int(x, 16) for x in head.split()], ast.literal_eval(lit)))
    return out


# ------------------------------------------------------------------------------------------------ synthetic streams
PRIMS = {"i8": ("PI8", 1, True), "i16": ("PI16", 2, True), "i32": ("PI32", 4, True), "i64": ("PI64", 8, True), "u8": ("PU8", 1, False),
         "u16": ("PU16", 2, False), "u32": ("PU32", 4, False), "u64": ("PU64", 8, False), "f32": ("PF32", 4, False),
         "f64": ("PF64", 8, False), "b": ("PBool", 1, False)}
CNAME = {"i8": "char", "i16": "short", "i32": "int", "i64": "long", "u8": "unsigned char", "u16": "unsigned short", "u32": "unsigned int",
         "u64": "unsigned long", "f32": "float", "f64": "double", "b": "bool"}
FTYPE = {"i8": 1, "i16": 2, "i32": 3, "i64": 4, "f32": 5, "f64": 8, "u8": 11, "u16": 12, "u32": 13, "u64": 14, "b": 18}


def zlit(x):
    return f"({x})" if x < 0 else str(x)


def coq_bytes(s):
    return "[" + "; ".join(str(c) for c in s) + "]"


def coq_name(s):
    return coq_bytes(s.encode())


class Syn:
    """random class schema + values, rendered three ways: Gallina terms, uproot-custom streamer-info dicts, expected python"""

    def __init__(self, rng):
        self.rng = rng

    def prim_val(self, p):
        _, size, signed = PRIMS[p]
        r = self.rng.random()
        if p == "b":
            return self.rng.randrange(2)
        bits = 8 * size
        if signed:
            lo, hi = -(1 << (bits - 1)), (1 << (bits - 1)) - 1
        else:
            lo, hi = 0, (1 << bits) - 1
        if r < 0.2:
            return self.rng.choice([lo, hi, 0, 1, hi - 1])
        if p == "f64" and r < 0.4:
            return self.rng.choice(c16.SPECIAL)
        if r < 0.6:
            return self.rng.randrange(max(lo, -1000), min(hi, 1000) + 1)
        return self.rng.randrange(lo, hi + 1)

    def sty(self, depth=0):
        r = self.rng.random()
        if depth >= 2 or r < 0.5:
            p = self.rng.choice(["i32", "f64", "f32", "u32", "i16", "u8", "i64"])
            return ("p", p)
        if r < 0.65:
            return ("s",)
        if r < 0.9:
            return ("v", self.sty(depth + 1))
        return ("m", ("p", self.rng.choice(["i32", "u32"])), ("p", self.rng.choice(["f64", "i32", "f32"])))

    def sty_coq(self, t):
        if t[0] == "p":
            return f"(SPrim {PRIMS[t[1]][0]})"
        if t[0] == "s":
            return "SStr"
        if t[0] == "v":
            return f"(SVec {self.sty_coq(t[1])})"
        return f"(SMap {self.sty_coq(t[1])} {self.sty_coq(t[2])})"

    def sty_name(self, t):
        if t[0] == "p":
            return CNAME[t[1]]
        if t[0] == "s":
            return "TString"
        if t[0] == "v":
            inner = self.sty_name(t[1])
            return f"vector<{inner}{' ' if inner.endswith('>') else ''}>"
        return f"map<{self.sty_name(t[1])},{self.sty_name(t[2])}>"

    def sval(self, t):
        """(coq term, expected python)"""
        if t[0] == "p":
            v = self.prim_val(t[1]); return f"(VNum {zlit(v)})", v
        if t[0] == "s":
            n = self.rng.choice([0, 1, 3, 12, 254, 255, 300] if self.rng.random() < 0.3 else [0, 2, 5])
            s = bytes(self.rng.randrange(32, 127) for _ in range(n))
            return f"(VStr {coq_bytes(s)})", s
        n = self.rng.choice([0, 1, 2, 3, 5])
        if t[0] == "v":
            xs = [self.sval(t[1]) for _ in range(n)]
            return "(VList [" + "; ".join(x[0] for x in xs) + "])", [x[1] for x in xs]
        xs = [(self.sval(t[1]), self.sval(t[2])) for _ in range(n)]
        return ("(VList [" + "; ".join(f"VPair {a[0]} {b[0]}" for a, b in xs) + "])", [{"key": a[1], "val": b[1]} for a, b in xs])

    def shape(self, dims, flat):
        if not dims:
            return flat[0]
        if len(dims) == 1:
            return flat
        step = 1
        for d in dims[1:]:
            step *= d
        return [self.shape(dims[1:], flat[i * step:(i + 1) * step]) for i in range(dims[0])]

    def member(self, idx, scalar_only=False):
        """returns dict(name, coq_ty, streamer element(s), gen() -> (coq value, expected))"""
        r = self.rng.random() * (0.45 if scalar_only else 1.0)
        name = f"m_f{idx}"
        dims = [] if scalar_only else self.rng.choice([[], [], [], [2], [3], [2, 2], [2, 1, 3]])
        dl = "[" + "; ".join(f"{d}%nat" for d in dims) + "]"
        n = 1
        for d in dims:
            n *= d
        fmax = (dims + [0] * 5)[:5]
        if r < 0.45:
            p = self.rng.choice(list(PRIMS))
            el = {"_kind": "TStreamerBasicType", "fName": name, "fTypeName": CNAME[p], "fType": FTYPE[p], "fArrayDim": len(dims), "fMaxIndex": fmax}

            def gen():
                vs = [self.prim_val(p) for _ in range(n)]
                return (f"(VNum {zlit(vs[0])})" if not dims else "(VList [" + "; ".join(f"VNum {zlit(v)}" for v in vs) + "])"), self.shape(dims, vs)
            return {"name": name, "ty": f"(MPrim {dl} {PRIMS[p][0]})", "els": [el], "gen": gen}
        if r < 0.58:
            el = {"_kind": "TStreamerString", "fName": name, "fTypeName": "TString", "fType": 65 if not dims else 85, "fArrayDim": len(dims), "fMaxIndex": fmax}

            def gen():
                xs = [self.sval(("s",)) for _ in range(n)]
                if not dims:
                    return xs[0][0], xs[0][1]
                ver = self.rng.choice([1, 2, 9])
                return f"(VHdr {ver} [] (VList [" + "; ".join(x[0] for x in xs) + "]))", self.shape(dims, [x[1] for x in xs])
            return {"name": name, "ty": f"(MStr {dl})", "els": [el], "gen": gen}
        if r < 0.86:
            t = self.sty()
            while t[0] in ("p", "s"):
                t = self.sty()
            if dims and t[0] == "m":
                dims, dl, n, fmax = [], "[]", 1, [0] * 5
            el = {"_kind": "TStreamerSTL", "fName": name, "fTypeName": self.sty_name(t), "fType": 500, "fArrayDim": len(dims), "fMaxIndex": fmax}

            def gen():
                if t[0] == "m":
                    mw = self.rng.random() < 0.5
                    ver = (1 << 14 | 9) if mw else 9
                    extra = [self.rng.randrange(256) for _ in range(6)]
                    b = self.sval(t)
                    return f"(VHdr {ver} {coq_bytes(extra)} {b[0]})", b[1]
                ver = self.rng.choice([6, 9, 1])
                if not dims:
                    b = self.sval(t)
                    return f"(VHdr {ver} [] {b[0]})", b[1]
                xs = [self.sval(t) for _ in range(n)]
                return f"(VHdr {ver} [] (VList [" + "; ".join(x[0] for x in xs) + "]))", self.shape(dims, [x[1] for x in xs])
            return {"name": name, "ty": f"(MStl {dl} {self.sty_coq(t)})", "els": [el], "gen": gen}
        p = "i32"
        el = {"_kind": "TStreamerObjectAny", "fName": name, "fTypeName": "TArrayI", "fType": 62, "fArrayDim": 0, "fMaxIndex": [0] * 5}

        def gen():
            vs = [self.prim_val(p) for _ in range(self.rng.choice([0, 1, 4]))]
            return "(VList [" + "; ".join(f"VNum {zlit(v)}" for v in vs) + "])", vs
        return {"name": name, "ty": f"(MTArr {PRIMS[p][0]})", "els": [el], "gen": gen}

    def tobject(self):
        ref = self.rng.random() < 0.4
        bits = (self.rng.getrandbits(32) | 16) if ref else (self.rng.getrandbits(32) & ~16)
        pidf = self.rng.randrange(65536) if ref else 0
        return f"(VTObj {{| to_ver := {self.rng.choice([1, 2])}; to_uid := {self.rng.getrandbits(32)}; to_bits := {bits}; to_pidf := {pidf} |}})"

    def make_class(self, cls, digi):
        members = []
        base = None
        if digi or self.rng.random() < 0.4:
            bname = "TRawData" if digi else "TSynBase"
            bm = [self.member(100 + i, scalar_only=digi) for i in range(self.rng.choice([1, 2, 3]))]
            base = {"name": bname, "members": bm}
        k = self.rng.choice([0, 1, 2, 4, 6])
        if k == 0 and (digi or base is None):
            k = 1   # every real class presents at least one member; a record without fields cannot carry an object count
        ms = [self.member(i, scalar_only=digi) for i in range(k)]
        return {"cls": cls, "base": base, "members": ms, "base_has_tobject": bool(base) and self.rng.random() < 0.5}

    def class_coq(self, c):
        names, tys = ["TObject"], ["MTObj"]
        if c["base"]:
            b = c["base"]
            bn = (["TObject"] if c["base_has_tobject"] else []) + [m["name"] for m in b["members"]]
            bt = (["MTObj"] if c["base_has_tobject"] else []) + [m["ty"] for m in b["members"]]
            names.append(b["name"]); tys.append(f"(MBase {coq_name(b['name'])} [{'; '.join(coq_name(x) for x in bn)}] [{'; '.join(bt)}])")
        for m in c["members"]:
            names.append(m["name"]); tys.append(m["ty"])
        return f"(MBase {coq_name(c['cls'])} [{'; '.join(coq_name(x) for x in names)}] [{'; '.join(tys)}])"

    def class_streamers(self, c):
        tobj = {"_kind": "TStreamerBase", "fName": "TObject", "fTypeName": "BASE", "fType": 66, "fArrayDim": 0, "fMaxIndex": [0] * 5}
        info = {}
        els = [tobj]
        if c["base"]:
            b = c["base"]
            els.append({"_kind": "TStreamerBase", "fName": b["name"], "fTypeName": "BASE", "fType": 0, "fArrayDim": 0, "fMaxIndex": [0] * 5})
            info[b["name"]] = ([tobj] if c["base_has_tobject"] else []) + [e for m in b["members"] for e in m["els"]]
        els += [e for m in c["members"] for e in m["els"]]
        info[c["cls"]] = els
        return info

    def object(self, c, digi):
        """(coq VRec, expected python record)"""
        fields, exp = [self.tobject()], {}
        if c["base"]:
            b = c["base"]
            bf, be = ([self.tobject()] if c["base_has_tobject"] else []), {}
            for m in b["members"]:
                v, e = m["gen"]()
                bf.append(v); be[m["name"]] = e
            fields.append(f"(VRec {self.rng.choice([1, 3])} [{'; '.join(bf)}])")
            if digi:
                exp.update(be)
            else:
                exp[b["name"]] = be
        for m in c["members"]:
            v, e = m["gen"]()
            fields.append(v); exp[m["name"]] = e
        return f"(VRec {self.rng.choice([1, 2, 7])} [{'; '.join(fields)}])", exp

    def objhdr(self, cls):
        nb = self.rng.randrange(0, 1 << 20)
        if self.rng.random() < 0.4:
            return f"(HNew {nb} {coq_name(cls)})"
        return f"(HRef {nb} {self.rng.choice([0x80000000 | self.rng.randrange(2, 5000), self.rng.randrange(0, 0xFFFFFFFF)])})"

    def colhdr(self):
        return (f"{{| ch_nbytes := {self.rng.randrange(0, 1 << 24)}; ch_ver := {self.rng.choice([3, 1])}; ch_tver := 1; "
                f"ch_uid := {self.rng.choice([0, self.rng.getrandbits(32)])}; ch_bits := {self.rng.choice([0x02000000, 0x03000000])}; "
                f"ch_name := 0; ch_low := {self.rng.choice([0, 0, 5])} |}}")


SER_PRELUDE = """From Coq Require Import ZArith List. Import ListNotations.
From PV.Model Require Import RootStream RootSchema RootGlue.
Local Open Scope Z_scope.
Fixpoint ser (p : pv) : list Z :=
  match p with
  | PNum z => [0; z]
  | PStr s => 1 :: zlen s :: s
  | PList l => 2 :: zlen l :: flat_map ser l
  | PRec fs => 3 :: zlen fs :: flat_map (fun kv => zlen (fst kv) :: fst kv ++ ser (snd kv)) fs
  end.
Definition ser_res (r : option (list Z * list (list pv))) : list Z :=
  match r with None => [-1] | Some (o, evs) => 1 :: zlen o :: o ++ ser (PList (map PList evs)) end.
"""


def deser(xs):
    """inverse of `ser` -> python value (ints / bytes / lists / dicts)"""
    pos = 0

    def rd():
        nonlocal pos
        tag = xs[pos]; pos += 1
        if tag == 0:
            v = xs[pos]; pos += 1; return v
        if tag == 1:
            n = xs[pos]; pos += 1; s = bytes(xs[pos:pos + n]); pos += n; return s
        if tag == 2:
            n = xs[pos]; pos += 1; return [rd() for _ in range(n)]
        n = xs[pos]; pos += 1
        d = {}
        for _ in range(n):
            k = xs[pos]; pos += 1
            name = bytes(xs[pos:pos + k]).decode(); pos += k
            d[name] = rd()
        return d
    v = rd()
    assert pos == len(xs)
    return v


def deser_res(xs):
    if xs == [-1]:
        return None
    n = xs[1]
    return xs[2:2 + n], deser(xs[2 + n:])


SYN_PATHS = [("/Event:TMcEvent/m_mdcMcHitCol", "TMdcMc", False), ("/Event:TDstEvent/m_tofTrackCol", "TTofTrack", False),
             ("/Event:TDigiEvent/m_mdcDigiCol", "TMdcDigi", True), ("/Event:TDigiEvent/m_emcDigiCol", "TEmcDigi", True),
             ("/Event:TRecEvent/m_recMdcHitCol", "TRecMdcHit", False), ("/Event:THltEvent/m_hltRawCol", "THltRaw", False),
             # every digi collection of TDigiEvent, also those that are empty in all shipped files
             ("/Event:TDigiEvent/m_tofDigiCol", "TTofDigi", True), ("/Event:TDigiEvent/m_mucDigiCol", "TMucDigi", True),
             ("/Event:TDigiEvent/m_cgemDigiCol", "TCgemDigi", True), ("/Event:TDigiEvent/m_lumiDigiCol", "TLumiDigi", True)]


# ... and every other registered object collection (class name from the pinned table above), so that each entry of the working tree's
# branch -> class table is used at least once with a stream of ITS class only (no other class has a streamer in that synthetic file)
SYN_PATHS += [(p_, c_, False) for p_, c_ in sorted(SPEC_BRANCHES.items())
              if c_ not in ("map<int,int>", "TRecCgemCluster") and p_ not in {q for q, _, _ in SYN_PATHS}]


def gen_synthetic(ck, n_cases):
    rng = ck.rng
    g = Syn(rng)
    cases, coq = [], [SER_PRELUDE]
    for k in range(n_cases):
        path, cls, digi = SYN_PATHS[k] if k < len(SYN_PATHS) else rng.choice(SYN_PATHS)      # every registered kind at least once
        c = g.make_class(cls, digi)
        nev = rng.choice([1, 2, 3, 5, 8, 20] if k % 7 else [40])
        evs, expect = [], []
        all_empty = digi and k % 5 == 3          # a digi stream none of whose events holds a digi (skims, empty entry ranges)
        for _ in range(nev):
            cnt = 0 if all_empty else rng.choice([0, 0, 1, 2, 3, 6])
            objs = [g.object(c, digi) for _ in range(cnt)]
            evs.append(f"({g.colhdr()}, [" + "; ".join(f"({g.objhdr(cls)}, {o[0]})" for o in objs) + "])")
            expect.append([o[1] for o in objs])
        coq.append(f"Definition cls{k} : mty := {g.class_coq(c)}.")
        coq.append(f"Definition evs{k} : list (colhdr * list (objhdr * val)) := [\n  " + ";\n  ".join(evs) + "].")
        coq.append(f"Eval vm_compute in let stored := map (event_enc (menc cls{k})) evs{k} in\n"
                   f"  [concat stored; 0 :: prefix_sums 0 (map zlen stored); "
                   f"ser_res (present_branch {'true' if digi else 'false'} cls{k} (concat stored) (0 :: prefix_sums 0 (map zlen stored)))].")
        cases.append({"name": f"syn{k}", "kind": "obj", "path": path, "cls": cls, "digi": digi, "streamer": g.class_streamers(c),
                      "expect_py": expect, "events": nev, "objects": sum(len(e) for e in expect)})
    return cases, "\n".join(coq) + "\n"


def gen_cgem(ck, n_cases):
    """CGEM cluster streams from the Gallina encoder: both class versions, referenced bits, empty events; plus the
    streams whose FIRST object of the basket carries kIsReferenced (fNBytes 98 / 90; cf. C01_cgem_first_object_any_bits)"""
    rng = ck.rng
    coq, cases = [], []

    def cluster(ver, ref):
        ints = [rng.randrange(-2 ** 31, 2 ** 31) for _ in range(5)]
        d = [rng.choice(c16.SPECIAL + [rng.getrandbits(64)]) for _ in range(5)]
        bits = (rng.getrandbits(32) | 16) if ref else (rng.getrandbits(32) & ~16)
        posy = f"Some {d[2]}" if ver == 0 else "None"
        fl = [rng.randrange(-5, 5) for _ in range(2)]; st = [rng.randrange(-1, 2000) for _ in range(4)]
        hdr = f"HNew {rng.randrange(0, 4000)} {coq_name('TRecCgemCluster')}" if rng.random() < 0.3 else f"HRef {rng.randrange(0, 4000)} {0x80000000 | rng.randrange(2, 900)}"
        term = (f"({hdr}, ({rng.choice([1, 2])}, {{| to_ver := 1; to_uid := {rng.getrandbits(32)}; to_bits := {bits}; to_pidf := {rng.randrange(65536) if ref else 0} |}}, "
                f"{{| cg_ints := {coq_bytes(ints).replace('-', '-')}; cg_d1 := [{d[0]}; {d[1]}]; cg_posy := {posy}; cg_d2 := [{d[3]}; {d[4]}]; "
                f"cg_flag := [{'; '.join(zlit(x) for x in fl)}]; cg_strip := [{'; '.join(zlit(x) for x in st)}] |}}))")
        term = term.replace("cg_ints := [" + "; ".join(str(x) for x in ints) + "]", "cg_ints := [" + "; ".join(zlit(x) for x in ints) + "]")
        return term
    g = Syn(rng)
    for k in range(n_cases):
        ver = k % 2
        # the first object of the basket is referenced in the last two cases (one per class version) and in half of the others
        # ... and never in the first four (two per class version): those are the streams the prebuilt extension can decode, i.e. the
        # ones that exercise the working tree's Python content assembly for BOTH layouts (with / without m_recPositionY)
        first_ref = (k >= n_cases - 2) or (k >= 4 and rng.random() < 0.5)
        evs, first = [], True
        for _ in range(rng.choice([1, 2, 4, 9])):
            cnt = rng.choice([0, 0, 1, 2, 5])
            objs = []
            for _ in range(cnt):
                ref = first_ref if first else rng.random() < 0.4
                first = False
                objs.append(cluster(ver, ref))
            evs.append(f"(HRef {rng.randrange(0, 9000)} {0x80000000 | rng.randrange(2, 900)}, {g.colhdr()}, [" + "; ".join(objs) + "])")
        if not first_ref and first:     # no object at all so far: the stream would say nothing about the layout
            evs.append(f"(HRef 1 2147483650, {g.colhdr()}, [{cluster(ver, False)}; {cluster(ver, True)}])"); first = False
        if first_ref and first:
            evs.append(f"(HRef 1 2147483650, {g.colhdr()}, [{cluster(ver, True)}])"); first = False
        first_ref = first_ref and not first
        coq.append(f"Definition cgevs{k} : list (objhdr * colhdr * list (objhdr * (Z * tobject * cgem))) := [\n  " + ";\n  ".join(evs) + "].")
        coq.append(f"Eval vm_compute in let stored := map cgem_event_enc cgevs{k} in\n"
                   f"  [concat stored; 0 :: prefix_sums 0 (map zlen stored); "
                   f"ser_res (present_cgem_branch (concat stored) (0 :: prefix_sums 0 (map zlen stored)))].")
        cases.append({"name": f"cgem{k}", "kind": "cgem", "path": "/Event:TRecEvent/m_recCgemClusterCol", "cls": "TRecCgemCluster", "digi": False,
                      "streamer": {}, "first_referenced": first_ref, "version": ver})
    return cases, "\n".join(coq) + "\n"


def canon_json(x):
    """JSON round trip of the impl script turns bytes into latin-1 strings; normalise model values the same way"""
    if isinstance(x, bytes):
        return x.decode("latin1")
    if isinstance(x, list):
        return [canon_json(v) for v in x]
    if isinstance(x, dict):
        return {k: canon_json(v) for k, v in x.items()}
    return x


def first_diff(a, b, path=()):
    if type(a) is not type(b) and not (isinstance(a, int) and isinstance(b, int)):
        return path, f"{str(a)[:60]} vs {str(b)[:60]}"
    if isinstance(a, dict):
        if list(a) != list(b):
            return path, f"member names/order {list(a)} vs {list(b)}"
        for k in a:
            d = first_diff(a[k], b[k], path + (k,))
            if d:
                return d
        return None
    if isinstance(a, list):
        if len(a) != len(b):
            return path, f"length {len(a)} vs {len(b)}"
        for i, (x, y) in enumerate(zip(a, b)):
            d = first_diff(x, y, path + (i,))
            if d:
                return d
        return None
    return None if a == b else (path, f"{a!r} vs {b!r}")


# ------------------------------------------------------------------------------------------------ check
def run(ck: vlib.Check):
    quick = ck.tier == "quick"
    ck.cov["rule"] = (
        "fixture cases = every registered collection branch of every fixture file (178 branch instances): all basket bytes decoded "
        "by the extracted Gallina decoder and compared value by value with TBranch.array(); the same bytes through the natively "
        "compiled working-tree readers; synthetic cases = random class schemas (bases, arrays, TString, vectors, nested vectors, "
        "member-wise/object-wise maps, TArray), random values incl. extreme ones, random object-header variants, referenced bits, "
        "empty collections, 1-40 events, encoded by the Gallina encoder and read by the working-tree factories + readers and by the "
        "native build; CGEM streams of both class versions; distinct = distinct (branch instance | synthetic stream) by content hash")
    ck.trusted += [
        "hand models PV.Model.RootStream/RootSchema/RootGlue (mirrors of root_io.hh readers and of the Python glue), tied by the "
        "correspondence below; statement sequences of the two C++ read() bodies are compared fail-closed with the sequences the "
        "mirrors were written from",
        "extraction: ExtrOcamlBasic only; OCaml driver ocaml/rootdec_driver.ml (conversions, schema token reader, printing)",
        "uproot for decompression, TTree framing, basket byte offsets and streamer info; awkward for array layout access",
        "schema builder in tools/impl/c01_impl.py (streamer element -> schema token, rules of DESIGN.md §4) and canonicalisation of "
        "awkward layouts; pybind11 stand-in + scaffold BlobReader + clang ASan/UBSan for the native route; besio_cpp.cc glue and "
        "uproot-custom's compiled element readers are not rebuilt (Python route runs the pinned .so)",
    ]
    ck.assumptions += [
        "the stored TObjArray's own header is the fixed 25-byte layout the reader skips (empty fName, TObject without kIsReferenced)",
        "total object count of a basket < 2^32 (uint32_t offsets); byte counts < 2^30 (kByteCountMask)",
        "the Python route executes the PREBUILT besio_cpp.so (no pybind11 here): behaviour that depends on root_io.hh edits is decided on "
        "the native route (working-tree header + stand-in); a pinned-.so disagreement is only excused for CGEM streams whose first object "
        "is referenced, when it raises exactly 'Unknown TCgemCluster version' and the native build decodes the stream as the model does",
        "streams for which the element class has no streamer info in the file hold only empty collections (EmptyReader)",
    ]
    # ---- 1 regenerate the parts of the model that come from the tree
    table, seqs = None, None
    try:
        table, seqs, log = regenerate(vlib.SRC)
        ck.cov["regenerated"] = log
    except (Untranslatable, c16.Untranslatable) as e:
        ck.tie_broken("translator", "root_io.hh / root_io.py", str(e))
    if seqs is not None:
        for key, want in (("tobj", MIRROR_TOBJ), ("tobj_data", MIRROR_TOBJ_DATA), ("cgem", MIRROR_CGEM), ("cgem_data", CGEM_DATA)):
            if seqs[key] != want:
                a, b = seqs[key].split(" "), want.split(" ")
                i = next((i for i, (x, y) in enumerate(zip(a, b)) if x != y), min(len(a), len(b)))
                ck.tie_broken("mirror-out-of-date", f"root_io.hh {key}",
                              f"statement sequence differs from the one the Gallina mirror was written from at token {i}: "
                              f"tree `{' '.join(a[max(0, i - 6):i + 8])}` vs mirror `{' '.join(b[max(0, i - 6):i + 8])}`")
    if table is not None and table != SPEC_BRANCHES:
        miss = sorted(set(SPEC_BRANCHES) - set(table)); extra = sorted(set(table) - set(SPEC_BRANCHES))
        chg = sorted(k for k in table if k in SPEC_BRANCHES and table[k] != SPEC_BRANCHES[k])
        ck.tie_broken("registered-branch-table", "bes3_branch2types", f"missing {miss} extra {extra} changed {chg}")
    # ---- 2 prove
    ck.prove(["C01Codec.v", "C01Proofs.v"], "C01.v")
    # ---- 3 builds
    rootdec, err = build_rootdec(ck)
    if rootdec is None:
        ck.tie_broken("correspondence", "extraction/ocaml build", err)
        return
    rootdrv, err = build_native(vlib.SRC)
    if rootdrv is None:
        ck.tie_broken("correspondence", "native-build root_io.hh", err)
    # ---- synthetic streams: Gallina encoder in vm_compute
    n_syn = (len(SYN_PATHS) + 8) if quick else 150
    syn_cases, syn_coq = gen_synthetic(ck, n_syn)
    cg_cases, cg_coq = gen_cgem(ck, 6 if quick else 30)
    v = ck.props / "Cases.v"
    v.write_text(syn_coq + cg_coq.replace(SER_PRELUDE, ""))
    rc, so, se = ck.coqc(v, 1200)
    blocks = c16.parse_nested(so) if rc == 0 else None
    all_syn = syn_cases + cg_cases
    if not blocks or len(blocks) != len(all_syn):
        ck.tie_broken("correspondence", "synthetic-encoder (vm_compute)", (se or so)[-1200:])
        all_syn = []
    else:
        for c, b in zip(all_syn, blocks):
            c["data"] = bytes(b[0]).hex(); c["offs"] = b[1]
            c["model"] = deser_res(b[2])
            if c["kind"] == "obj":
                if c["model"] is None:
                    ck.tie_broken("correspondence", f"model rejects its own encoding ({c['name']})", json.dumps(c["streamer"])[:600])
                elif first_diff(c["model"][1], c["expect_py"]):
                    ck.tie_broken("correspondence", f"model presentation differs from the generator's values ({c['name']})",
                                  str(first_diff(c["model"][1], c["expect_py"])))
    # ---- 3a' the hard-coded TRecCgemCluster layout against what the fixtures' bytes look like (no streamer for the class in the files)
    rc_l, so_l, se_l = vlib.run_impl_script("c01_cgem_layout_impl.py", [vlib.REPO / "tests" / "data"], timeout=600)
    if rc_l != 0:
        ck.tie_broken("correspondence", "cgem-cluster layout plausibility", (se_l or so_l)[-600:])
    else:
        lay = json.loads(so_l)["files"]
        ck.cov["cgem_cluster_hard_coded_layout"] = lay
        for fn, evd in sorted(lay.items()):
            ck.case(["cgem-layout", fn])
            if evd.get("length_words_decoded_as_values"):
                ck.violation(f"C01:cgem-cluster-hard-coded-layout:{fn}:length-words-decoded-as-values",
                             f"{fn} TRecEvent/m_recCgemClusterCol ({evd['clusters']} clusters, no streamer for the class in the file): every m_recZ is a subnormal double whose "
                             f"high word is {evd['m_recZ_high_words']} = the number of m_clusterFlag ints, and the last m_clusterFlag entry is always "
                             f"{evd['m_clusterFlag_last_column']} = the number of m_stripID ints: the two int members are stored as <count><elements> (std::vector<int>) after "
                             f"FOUR doubles, the reader takes five doubles + 2 + 4 ints (same byte count); so m_recZ / m_clusterFlag hold framing words and the doubles after "
                             f"m_recPhi sit one member too early (samples: m_recZ {evd['sample_m_recZ']}, m_clusterFlag {evd['sample_m_clusterFlag']})",
                             {"mode": "cgem-layout", "file": fn, "evidence": evd})
    # ---- 3b python route (fixtures + synthetic)
    outdir = ck.bdir / "py"
    inp = {"fixtures": str(vlib.REPO / "tests" / "data"), "rootdec": str(rootdec), "branches": SPEC_BRANCHES, "sym_items": c16.SPEC_ITEMS,
           "sample": None, "outdir": str(outdir), "dump_native": True,
           "synthetic": [{k: c[k] for k in ("name", "path", "cls", "digi", "streamer", "data", "offs")} for c in all_syn]}
    ipath = ck.bdir / "py_cases.json"
    ipath.write_text(json.dumps(inp))
    def impl(sub, name):
        pth = ck.bdir / f"py_cases_{name}.json"
        pth.write_text(json.dumps(sub))
        return vlib.run_impl_script("c01_impl.py", [pth], timeout=3000)
    # run A: fixtures; run B: synthetic streams (separate processes: a native reader that crashes on misparsed bytes must not
    # take the other half down, and the crashing input has to be localised)
    r = None
    rc, so, se = impl(dict(inp, synthetic=[]), "fixtures")
    if rc == 0:
        r = json.loads(so)
    else:
        ck.tie_broken("correspondence", "python-route (fixtures)", f"rc={rc} " + se[-1200:])
        import glob as _g
        files = sorted(os.path.basename(p) for p in _g.glob(str(vlib.REPO / "tests" / "data" / "*")) if p.rsplit(".", 1)[-1] in ("rtraw", "dst", "rec"))
        found = 0
        for fn in files:
            if found >= 2:
                break
            rc1, so1, se1 = impl(dict(inp, synthetic=[], dump_native=False, sample=[[fn, b] for b in SPEC_BRANCHES]), "sub")
            if rc1 == 0:
                continue
            for b in SPEC_BRANCHES:
                rc2, so2, se2 = impl(dict(inp, synthetic=[], dump_native=False, sample=[[fn, b]]), "sub")
                if rc2 != 0:
                    found += 1
                    ck.violation(f"C01:fixture:{fn}:{b}", f"{fn} {b}: reading the branch kills the interpreter (exit status {rc2}) "
                                 f"{se2[-300:]}", {"file": fn, "branch": b, "rc": rc2})
                    break
    syn_res = []
    if all_syn:
        rc, so, se = impl(dict(inp, sample=[], dump_native=False), "synthetic")
        if rc == 0:
            syn_res = json.loads(so).get("synthetic", [])
        else:
            ck.tie_broken("correspondence", "python-route (synthetic)", f"rc={rc} " + se[-800:])
            found = 0
            for c in inp["synthetic"]:
                rc1, so1, se1 = impl(dict(inp, sample=[], dump_native=False, synthetic=[c]), "sub")
                if rc1 == 0:
                    syn_res += json.loads(so1).get("synthetic", [])
                else:
                    found += 1
                    if found <= 2:
                        ck.violation(f"C01:synthetic:{c['name']}:{hashlib.sha1(c['data'].encode()).hexdigest()[:10]}",
                                     f"well-formed synthetic stream ({c['path']}) kills the interpreter when read through the working-tree "
                                     f"factories (exit status {rc1})", c)
    if r is not None:
        r["synthetic"] = syn_res
    elif syn_res:
        r = {"branches": [], "mismatches": [], "tie": [], "selection": [], "samples": [], "hashes": [], "dumps": [], "objects": 0, "values": 0,
             "registered_in_tree": SPEC_BRANCHES, "synthetic": syn_res}
    dumps = []
    pinned_raises = {}      # CGEM synthetic streams on which the Python route (pinned besio_cpp.so) raised
    native_ok = {}          # synthetic stream name -> the natively built working-tree reader reproduced the model
    if r is not None:
        dumps = r.pop("dumps")
        ck.cov["python"] = {"branch_instances": len(r["branches"]), "objects": r["objects"], "values_compared": r["values"],
                            "kinds": {k: sum(1 for b in r["branches"] if b["kind"] == k) for k in ("obj", "empty", "map", "cgem")},
                            "bytes": sum(b["bytes"] for b in r["branches"])}
        ck.cases_bulk(r["values"], {bytes.fromhex(h)[:8] for h in r["hashes"]})
        for s in r["samples"][:3]:
            ck.sample(s)
        for m in r["mismatches"][:8]:
            ck.violation(m["key"], m["what"], m)
        for m in r["tie"][:8]:
            ck.tie_broken("correspondence", m["name"], m["detail"])
        if r["registered_in_tree"] != SPEC_BRANCHES and table == SPEC_BRANCHES:
            ck.tie_broken("registered-branch-table", "runtime bes3_branch2types", "differs from the literal in root_io.py")
        # selection: model (vm_compute) vs build_factory
        sel = r["selection"]
        if sel:
            b2c = lambda b: "true" if b else "false"
            terms = [f"{{| r_top := {s['feat']['top']}; r_ftype := {zlit(s['feat']['ftype'])}; r_is_array := {b2c(s['feat']['is_array'])}; "
                     f"r_registered := {b2c(s['feat']['registered'])}; r_cgem_path := {b2c(s['feat']['cgem_path'])}; "
                     f"r_has_tcgemcluster := {b2c(s['feat']['has_cg'])}; r_target_item := {b2c(s['feat']['target'])}; r_in_bes3 := {b2c(s['feat']['in_bes3'])} |}}"
                     for s in sel]
            facs = ["FCgem", "FTObjArray", "FSym", "FBes3Base", "FCStyle", "FPrimitive", "FStlSeq", "FStlMap", "FStlString", "FTArray",
                    "FTString", "FTObject", "FBaseObject", "FAnyClass"]
            sv = ck.props / "Select.v"
            sv.write_text("From Coq Require Import ZArith List Bool. Import ListNotations.\nFrom PV.Model Require Import RootGlue.\nLocal Open Scope Z_scope.\n"
                          "Definition fnum (f : option fac) : Z := match f with None => -1 | Some f => match f with " +
                          " | ".join(f"{f} => {i}" for i, f in enumerate(facs)) + " end end.\n"
                          "Definition consistent (r : req) : Z := if (implb (prim_ftype (r_ftype r)) (top_eqb (r_top r) TPrimName)) && "
                          "(implb (r_target_item r) (top_eqb (r_top r) TPrimName)) then 1 else 0.\n"
                          "Eval vm_compute in [map (fun r => fnum (select r)) [" + ";\n ".join(terms) + "];\n map consistent [" + ";\n ".join(terms) + "]].\n")
            rc2, so2, se2 = ck.coqc(sv, 300)
            bl = c16.parse_nested(so2) if rc2 == 0 else None
            if not bl:
                ck.tie_broken("correspondence", "selection model-eval", (se2 or so2)[-600:])
            else:
                for s, m, cons in zip(sel, bl[0][0], bl[0][1]):
                    ck.case(["select", s["feat"]])
                    if not cons:
                        ck.tie_broken("correspondence", "selection side condition req_consistent", f"violated by {s['example']}: {s['feat']}")
                    if m < 0 or facs[m] != s["got"]:
                        ck.tie_broken("correspondence", f"factory selection {s['example']}", f"working tree selects {s['got']}, model {facs[m] if m >= 0 else None}")
                ck.cov["selection_requests"] = len(sel)
        # synthetic through the working-tree factories + pinned readers
        got = {x["name"]: x for x in r.get("synthetic", [])}
        nbad = 0
        for c in all_syn:
            g = got.get(c["name"])
            if g is None:
                continue
            ck.case(["synthetic", c["name"], hashlib.sha1(c["data"].encode()).hexdigest()])
            model = c["model"]
            if c["kind"] == "cgem" and "raised" in g:
                # decided after the native route (the prebuilt extension cannot follow edits of root_io.hh)
                pinned_raises[c["name"]] = (c, g["raised"]); continue
            if "raised" in g:
                nbad += 1
                if nbad <= 4:
                    ck.violation(f"C01:synthetic:{c['name']}:{hashlib.sha1(c['data'].encode()).hexdigest()[:10]}",
                                 f"well-formed synthetic stream ({c['path']}, {c.get('events')} events, {c.get('objects')} objects) makes the "
                                 f"working-tree reader raise {g['raised']}", {k: c[k] for k in ("name", "path", "cls", "digi", "streamer", "data", "offs")})
                continue
            if model is None:
                ck.tie_broken("correspondence", c["name"], "model rejects, implementation accepts"); continue
            if "model" in g and g["model"] != canon_json(model[1]):
                ck.tie_broken("correspondence", f"schema builder ({c['name']})", "the schema built from the streamer-info dicts decodes the stream "
                              f"differently from the Gallina term it was generated from: {first_diff(canon_json(model[1]), g['model'])}")
            if "want_fields" in g and g.get("fields") != g["want_fields"]:
                ck.violation(f"C01:synthetic:digi-fields:{c['name']}:{hashlib.sha1(c['data'].encode()).hexdigest()[:10]}",
                             f"synthetic digi stream ({c['path']}, {c.get('events')} events, {c.get('objects')} objects): presented fields {g.get('fields')}, "
                             f"expected the raw-data members at top level: {g['want_fields']}", {k: c[k] for k in ("name", "path", "cls", "digi", "streamer", "data", "offs")})
            d = first_diff(canon_json(model[1]), g["got"])
            if d:
                nbad += 1
                if nbad <= 4:
                    p, what = d
                    where = " ".join(f"{lab} {x}" for lab, x in zip(("event", "object", "member"), p)) + ("" if len(p) <= 3 else " " + str(list(p[3:])))
                    ck.violation(f"C01:synthetic:{c['name']}:{hashlib.sha1(c['data'].encode()).hexdigest()[:10]}",
                                 f"synthetic stream ({c['path']}): first difference at {where}: stored {what.split(' vs ')[0]} returned {what.split(' vs ')[-1]}",
                                 {k: c[k] for k in ("name", "path", "cls", "digi", "streamer", "data", "offs")})
        ck.cov["synthetic"] = {"object_streams": len(syn_cases), "cgem_streams": len(cg_cases),
                               "events": sum(c.get("events", 0) for c in syn_cases), "objects": sum(c.get("objects", 0) for c in syn_cases)}
        if syn_cases:
            ck.sample({"kind": "synthetic", "path": syn_cases[0]["path"], "streamer": json.dumps(syn_cases[0]["streamer"])[:500],
                       "events": syn_cases[0].get("events"), "data_hex_head": syn_cases[0].get("data", "")[:96]})
    # ---- 3a native route: working-tree C++ on all real basket bytes + synthetic streams vs the extracted model
    if rootdrv is not None:
        jobs = []   # (label, op, hexdata, offs, model request)
        for d in dumps:
            if d["kind"] in ("obj", "empty"):
                jobs.append((f"{d['file']}:{d['branch']}", "T", d["data"], d["offs"], (["blob"], [], d["data"], d["offs"])))
            elif d["kind"] == "cgem":
                jobs.append((f"{d['file']}:{d['branch']}", "G", d["data"], d["offs"], (["cgem"], [], d["data"], d["offs"])))
        for c in all_syn:
            if c["kind"] == "obj":
                jobs.append((c["name"], "T", c["data"], c["offs"], (["blob"], [], c["data"], c["offs"])))
            else:
                jobs.append((c["name"], "G", c["data"], c["offs"], (["cgem"], [], c["data"], c["offs"])))
        if jobs:
            lines = [f"{op} {hx or '-'} {len(of)} " + " ".join(map(str, of)) for _, op, hx, of, _ in jobs]
            env = dict(os.environ); env["ASAN_OPTIONS"] = "detect_leaks=0:exitcode=86"; env["UBSAN_OPTIONS"] = "print_stacktrace=0"
            rc, so, se = vlib.sh([str(rootdrv)], timeout=3000, env=env, input="\n".join(lines) + "\n")
            recs = [l for l in so.splitlines() if l[:2] in ("T ", "G ")]
            ub_all = [l for l in se.splitlines() if "runtime error" in l]
            ub = [l for l in ub_all if "root_io.hh" in l]      # third-party BinaryBuffer::read does unaligned loads (x86: harmless)
            if len(ub_all) > len(ub):
                ck.notes.append(f"UBSan: {len(ub_all) - len(ub)} report kinds in third-party uproot-custom.hh (misaligned loads in BinaryBuffer::read), e.g. "
                                + next(l for l in ub_all if "root_io.hh" not in l)[-160:])
            if rc != 0 or len(recs) != len(jobs):
                culprit = jobs[len(recs)][0] if len(recs) < len(jobs) else "?"
                ck.tie_broken("correspondence", "native-run", f"rc={rc} after {len(recs)}/{len(jobs)}; input {culprit}; {se[-500:]}")
                ck.violation(f"C01:native-abort:{culprit}", f"working-tree reader aborted under ASan/UBSan on {culprit}: {se[-300:]}",
                             {"input": culprit, "stderr": se[-1500:]})
            if ub:
                ck.tie_broken("correspondence", "ubsan", "; ".join(ub[:3]))
            try:
                models = run_rootdec(rootdec, [j[4] for j in jobs[:len(recs)]], ck.bdir)
            except Exception as e:
                ck.tie_broken("correspondence", "rootdec (native route)", str(e)[:500]); models = []
            nbad = 0
            cg_by_name = {c["name"]: c for c in all_syn if c["kind"] == "cgem"}
            first_ref_reported = []
            for (label, op, hx, of, _), rec, mod in zip(jobs, recs, models):
                ck.case(["native", label, hashlib.sha1(hx.encode()).hexdigest()])
                if op == "T":
                    if " EXC " in rec:
                        got = None
                    else:
                        a, b = rec[5:].split("|")
                        got = ([int(x) for x in a.split()], [[int(y) for y in x.split(":")] for x in b.split()])
                    want = None if mod is None else (mod[0], mod[1])
                else:
                    if " EXC " in rec:
                        got = None
                    else:
                        cols = dict(kv.split("=", 1) for kv in rec[5:].strip().strip(";").split(";"))
                        cols = {k: [int(x) for x in v[v.index("[") + 1:-1].split(",") if x] for k, v in cols.items()}
                        offs = cols.pop("offsets")
                        n = offs[-1]
                        rows = []
                        for i in range(n):
                            row = {}
                            for k2, v2 in cols.items():
                                if k2 == "m_clusterFlag":
                                    row[k2] = v2[2 * i:2 * i + 2]
                                elif k2 == "m_stripID":
                                    row[k2] = [v2[4 * i:4 * i + 2], v2[4 * i + 2:4 * i + 4]]
                                else:
                                    row[k2] = v2[i]
                            rows.append(row)
                        got = (offs, [rows[a:b] for a, b in zip(offs[:-1], offs[1:])])
                    want = None if mod is None else (mod[0], mod[1])
                native_ok[label] = (got == want and want is not None)
                cg = cg_by_name.get(label)
                if got != want and cg is not None and cg.get("first_referenced") and got is None and want is not None:
                    ck.tie_broken("correspondence", f"native G {label}", "working-tree Bes3CgemClusterColReader throws, model decodes")
                    if not first_ref_reported:
                        first_ref_reported.append(label)
                        ck.violation("C01:cgem-first-object-referenced",
                                     f"well-formed CGEM cluster stream (class version {cg['version']}) whose FIRST object of the basket carries "
                                     f"kIsReferenced (2-byte pidf, fNBytes {98 if cg['version'] == 0 else 90}): the natively compiled working-tree "
                                     f"Bes3CgemClusterColReader throws `{rec[6:].strip()[:100]}` instead of returning the stored clusters",
                                     {"data": hx, "offs": of, "path": cg["path"], "version": cg["version"]})
                    continue
                if got != want:
                    nbad += 1
                    if nbad <= 4:
                        d = None if (got is None or want is None) else (first_diff(want[0], got[0]) or first_diff(want[1], got[1]))
                        ck.tie_broken("correspondence", f"native {op} {label}", f"working-tree C++ vs model: {d if d else (str(got)[:100], str(want)[:100])}")
                        # direct statement on the implementation: for real fixture bytes the stored collections are known from the
                        # python route's oracle; a native disagreement with the model on bytes the model decodes is a failing input
                        ck.violation(f"C01:native:{label}", f"natively compiled working-tree {'Bes3TObjArrayReader' if op == 'T' else 'Bes3CgemClusterColReader'} "
                                     f"on {label}: {'raises/aborts' if got is None else 'offsets/element ranges differ from the stored stream'}"
                                     f" ({d})", {"label": label, "data": hx[:20000], "offs": of})
            ck.cov["native"] = {"streams": len(jobs), "real_baskets": sum(1 for j in jobs if ":" in j[0]), "ubsan_reports": len(ub)}
    # ---- CGEM streams on which the Python route raised: the property is decided on the WORKING TREE (native route)
    n_stale = 0
    for name, (c, raised) in pinned_raises.items():
        if c.get("first_referenced") and "Unknown TCgemCluster version" in raised and native_ok.get(name):
            n_stale += 1
            if n_stale == 1:
                ck.notes.append(f"prebuilt extension predates the source fix: the pinned besio_cpp.so raises `{raised[:90]}` on CGEM stream {name} "
                                f"(first object of the basket referenced, fNBytes {98 if c['version'] == 0 else 90}); the working-tree root_io.hh, "
                                "compiled natively, decodes the same bytes exactly as stored (compared with the model). Not a violation: the "
                                "extension cannot be rebuilt in this sandbox (no pybind11).")
            continue
        if any(v["key"] == "C01:cgem-first-object-referenced" for v in ck.viol) and c.get("first_referenced") and "Unknown TCgemCluster version" in raised:
            continue     # already reported on the native route with the stream attached
        ck.violation(f"C01:synthetic:{name}:{hashlib.sha1(c['data'].encode()).hexdigest()[:10]}",
                     f"well-formed synthetic CGEM stream (class version {c['version']}, first object referenced: {bool(c.get('first_referenced'))}) makes "
                     f"the Python route raise {raised[:160]}" + ("" if name in native_ok else " (native route not available to decide on the working tree)"),
                     {k: c[k] for k in ("name", "path", "cls", "digi", "streamer", "data", "offs")})
    if pinned_raises or cg_cases:
        ck.cov["cgem_first_referenced"] = {"streams": sum(1 for c in cg_cases if c.get("first_referenced")),
                                          "pinned_so_raises": len(pinned_raises), "judged_on_native_route_ok": n_stale}


def replay(path):
    """re-run the concrete input of a replay file on the current working tree; exit status 1 = still fails"""
    data = json.load(open(path))
    key = data.get("key") or ""
    rp = data.get("replay") or {}
    print(f"replay {key}: {str(data.get('what'))[:500]}")
    vlib.ensure_static()
    (vlib.BUILD / "C01").mkdir(parents=True, exist_ok=True)
    rootdec, err = build_rootdec(None)
    if rootdec is None:
        print(err); return 1
    base = {"fixtures": str(vlib.REPO / "tests" / "data"), "rootdec": str(rootdec), "branches": SPEC_BRANCHES, "sym_items": c16.SPEC_ITEMS,
            "outdir": str(vlib.BUILD / "C01" / "py"), "dump_native": False, "synthetic": [], "sample": []}
    ipath = vlib.BUILD / "C01" / "replay_cases.json"
    if key.startswith("C01:fixture:"):
        _, _, fn, br = key.split(":", 3)
        base["sample"] = [[fn, br]]
        ipath.write_text(json.dumps(base))
        rc, so, se = vlib.run_impl_script("c01_impl.py", [ipath], timeout=1500)
        if rc != 0:
            print(f"interpreter died / raised: rc={rc} {se[-400:]}"); return 1
        hits = [m for m in json.loads(so)["mismatches"] if m["key"] == key]
        for m in hits:
            print("still failing:", m["what"][:500])
        if not hits:
            print("no longer failing: the branch now agrees with the member-by-member decode of its bytes")
        return 1 if hits else 0
    if key == "C01:cgem-first-object-referenced":
        # decided on the working tree: root_io.hh compiled natively (the prebuilt extension cannot follow source edits)
        exe, err = build_native(vlib.SRC)
        if exe is None:
            print(err); return 1
        env = dict(os.environ); env["ASAN_OPTIONS"] = "detect_leaks=0:exitcode=86"
        rc, so, se = vlib.sh([str(exe)], timeout=600, env=env, input=f"G {rp['data']} {len(rp['offs'])} " + " ".join(map(str, rp["offs"])) + "\n")
        rec = [l for l in so.splitlines() if l[:2] == "G "]
        mod = run_rootdec(rootdec, [(["cgem"], [], rp["data"], rp["offs"])], vlib.BUILD / "C01")[0]
        print(f"native working-tree reader rc={rc}: {rec[0][:160] if rec else se[-300:]}")
        print(f"model (mirror of the fixed reader) decodes {None if mod is None else sum(len(e) for e in mod[1])} cluster(s), offsets {None if mod is None else mod[0]}")
        if rc != 0 or not rec or " EXC " in rec[0]:
            print("still failing: the working-tree reader throws on a stream whose first object is referenced"); return 1
        cols = dict(kv.split("=", 1) for kv in rec[0][5:].strip().strip(";").split(";"))
        offs = [int(x) for x in cols["offsets"][cols["offsets"].index("[") + 1:-1].split(",") if x]
        ok = mod is not None and offs == mod[0]
        print("offsets agree with the stored stream" if ok else "offsets differ from the stored stream")
        return 0 if ok else 1
    if key.startswith("C01:synthetic:"):
        case = dict(rp)
        case.setdefault("name", "replay"); case.setdefault("cls", SPEC_BRANCHES.get(case.get("path"), "")); case.setdefault("digi", False)
        case.setdefault("streamer", {})
        base["synthetic"] = [case]
        ipath.write_text(json.dumps(base))
        rc, so, se = vlib.run_impl_script("c01_impl.py", [ipath], timeout=1500)
        if rc != 0:
            print(f"interpreter died: rc={rc}"); return 1
        g = json.loads(so)["synthetic"][0]
        if "raised" in g:
            print("still failing: reading raises", g["raised"]); return 1
        if "model" in g and g["model"] is not None:
            d = first_diff(g["model"], g["got"])
            print("stored vs returned:", "equal" if d is None else f"first difference {d}")
            return 0 if d is None else 1
        print("read without error:", str(g.get("got"))[:300]); return 0
    if key.startswith("C01:native"):
        exe, err = build_native(vlib.SRC)
        if exe is None:
            print(err); return 1
        if "data" not in rp:
            print("replay file carries no stream bytes; re-run the check"); return 1
        op = "G" if "Cgem" in str(data.get("what")) else "T"
        env = dict(os.environ); env["ASAN_OPTIONS"] = "detect_leaks=0:exitcode=86"
        rc, so, se = vlib.sh([str(exe)], timeout=600, env=env, input=f"{op} {rp['data'] or '-'} {len(rp['offs'])} " + " ".join(map(str, rp["offs"])) + "\n")
        mod = run_rootdec(rootdec, [(["blob"] if op == "T" else ["cgem"], [], rp["data"], rp["offs"])], vlib.BUILD / "C01")[0]
        rec = [l for l in so.splitlines() if l[:2] in ("T ", "G ")]
        print(f"native rc={rc}: {rec[0][:200] if rec else se[-300:]}; model accepts: {mod is not None}")
        return 1 if (rc != 0 or not rec or (" EXC " in rec[0]) != (mod is None)) else 0
    print("nothing to replay for this key; re-run the check")
    return 1
