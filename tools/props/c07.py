"""C07 — helix arrays = independent single tracks: numeric part (regenerated array branch = scalar branch) and the
layout model (extract_index / flatten / rebuild) tied to the real _extract_index + ak.unflatten loop."""
import json
import vlib
from props import helix_common as hc
from props.c05 import parse_zlist


def gen_nested(rng, depth, top=None):
    n = rng.choice([0, 1, 2, 3]) if top is None else top
    if depth == 0:
        return [rng.randrange(100) for _ in range(n)]
    return [gen_nested(rng, depth - 1) for _ in range(n)]


def coq_nest(x):
    if isinstance(x, list):
        return "Node [" + "; ".join(coq_nest(i) for i in x) + "]"
    return f"Leaf {x}%Z"


def run(ck):
    hc.standard(ck, "C07", "C07.v", ["HelixCommon.v", "HelixLaws.v", "C07Proofs.v"], "c07",
                "track lists of 1-8 helices (both charges, with/without error matrices) in every layout (flat, ragged, ragged with "
                "empty events, regular, depth 3, depth 3 with empty lists, sliced view, indexed view) x pivot form (tuple, vector "
                "object, per-track array): change_pivot / momentum / position / charge / radius / isclose per track vs the "
                "single-track object, nesting preserved, permutations, a track alone vs inside an array; layout model vs the real "
                "_extract_index + unflatten loop on generated nestings of depth 0-4. distinct = generator cells x cases")
    ck.trusted.append("hand model of Awkward nesting (uniform-depth nested lists; _extract_index = per-level counts; "
                      "ak.unflatten = grouping) tied by the layout correspondence")
    # layout correspondence
    cases = []
    n = 150 if ck.tier == "quick" else 900
    for i in range(n):
        d = ck.rng.choice([0, 1, 1, 2, 2, 3, 4])
        view = ck.rng.choice(["plain", "plain", "sliced", "indexed", "regular", "numpy"]) if d >= 1 else "plain"
        nested = gen_nested(ck.rng, d, top=ck.rng.choice([1, 2, 3, 4]))
        if view == "regular":   # every top-level list has the same length w (then converted with ak.to_regular)
            w = ck.rng.choice([1, 2, 3])
            nested = [gen_nested(ck.rng, d - 1, top=w) if d > 1 else [ck.rng.randrange(100) for _ in range(w)] for _ in range(len(nested))]
        if view == "numpy":     # uniform at every level: one n-dimensional NumPy buffer (ak.Array(np.ndarray))
            shape = [ck.rng.choice([1, 2, 3]) for _ in range(d + 1)]
            def uni(k):
                return [uni(k + 1) for _ in range(shape[k])] if k < d else [ck.rng.randrange(100) for _ in range(shape[k])]
            nested = uni(0)
        c = {"nested": nested, "depth": d, "view": view}
        if view == "sliced":
            c["prefix"] = gen_nested(ck.rng, d, top=2)
        cases.append(c)
    rc, so, se = vlib.run_impl_script("c07_layout_impl.py", [], timeout=600, input=json.dumps(cases))
    if rc != 0:
        ck.tie_broken("correspondence", "layout implementation-eval", se[-1200:])
        return
    impl = json.loads(so)
    used = [(c, r) for c, r in zip(cases, impl) if "skip" not in r]
    v = ck.props / "LayoutCases.v"
    terms = []
    for c, r in used:
        d = c["depth"]
        xs = "[" + "; ".join(coq_nest(i) for i in c["nested"]) + "]"
        # encode: levels as flattened list with -1 separators, then -2, then flat tracks, then -3, then rebuild success flag
        terms.append(f"(let xs := {xs} in concat (map (fun l => (-1) :: map Z.of_nat l) (extract_index {d} xs)) ++ [-2] ++ flat {d} xs ++ "
                     f"[-3; match rebuild (rev (extract_index {d} xs)) (map (@Leaf Z) (map (fun t => 10 * t) (flat {d} xs))) with "
                     f"Some ys => if list_eq_dec nestZ_eq_dec ys (map (nest_map (fun t => 10 * t)) xs) then 1 else 0 | None => 0 end])")
    v.write_text("From Coq Require Import ZArith List. Import ListNotations.\nFrom PV.Model Require Import Nest.\nLocal Open Scope Z_scope.\n"
                 "Fixpoint nestZ_eqb (a b : nest Z) {struct a} : bool := match a, b with Leaf x, Leaf y => Z.eqb x y | Node l, Node m => "
                 "(fix go (l m : list (nest Z)) : bool := match l, m with [], [] => true | x :: l', y :: m' => andb (nestZ_eqb x y) (go l' m') | _, _ => false end) l m | _, _ => false end.\n"
                 "Definition nestZ_eq_dec (a b : nest Z) : {nestZ_eqb a b = true} + {nestZ_eqb a b <> true} := Bool.bool_dec _ _.\n"
                 "Definition list_eq_dec (dec : forall a b : nest Z, {nestZ_eqb a b = true} + {nestZ_eqb a b <> true}) (l m : list (nest Z)) : bool :=\n"
                 "  (fix go (l m : list (nest Z)) : bool := match l, m with [], [] => true | x :: l', y :: m' => andb (nestZ_eqb x y) (go l' m') | _, _ => false end) l m.\n"
                 "Eval vm_compute in concat [" + ";\n".join(terms) + "].\n")
    rc, so, se = ck.coqc(v, 600)
    vals = parse_zlist(so) if rc == 0 else None
    if vals is None:
        ck.tie_broken("correspondence", "layout model-eval", (se or so)[-800:])
        return
    # split per case at the -3 marker (each case ends with -3, flag)
    pos = 0
    nbad = 0
    for c, r in used:
        end = vals.index(-3, pos)
        seg, flag = vals[pos:end], vals[end + 1]
        pos = end + 2
        i2 = seg.index(-2)
        lv_flat, flat = seg[:i2], seg[i2 + 1:]
        levels = []
        for x in lv_flat:
            if x == -1: levels.append([])
            else: levels[-1].append(x)
        ck.case(["layout", c["nested"], c["view"]])
        if "error" in r:
            # the implementation raised on a layout the model handles
            ck.violation(f"C07:layout-raises:{c['view']}:depth{c['depth']}", f"real _extract_index/unflatten raised {r['error']}", c)
            continue
        want_rebuilt = json.loads(json.dumps(c["nested"]))
        def times10(x): return [times10(i) for i in x] if isinstance(x, list) else 10 * x
        if levels != r["levels"] or flat != r["flat"] or flag != 1 or r["rebuilt"] != times10(want_rebuilt):
            nbad += 1
            if nbad <= 3:
                ck.tie_broken("correspondence", f"layout {c['view']} depth {c['depth']}",
                              f"model levels={levels} flat={flat} ok={flag}; implementation {json.dumps(r)[:300]}; input {json.dumps(c)[:300]}")
    ck.cov["layout_cases"] = len(used)


replay = hc.replay("c07")
