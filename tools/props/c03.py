"""C03 — raw DAQ files are decoded event-by-event exactly as encoded.

prove (C03Proofs / C03Digi / C03Wf / C03Reader / C03.v) -> build native working-tree raw_io.cc + extracted model ->
(a) well-formed event streams: native parser vs extracted parser model, and every native answer re-checked INSIDE Coq
    against the specification [columnar] of the Gallina structure (which also certifies wf and ties the Python encoder
    mirror to the Gallina encoder);
(b) whole files written from generated structures: pybes3.open_raw(path).arrays(decode_reid=False) from the working tree
    vs the extracted reader model (with the completion order actually observed) and vs [columnar (file_events f)] in Coq;
search: direct round-trip statement on the implementation (decode(encode s) = meaning of s), shrunk."""
import json
from collections import Counter
from pathlib import Path

import rawgen as G
import vlib

NATIVE_DIR = vlib.BUILD / "native"
PROOFS = ["C03Proofs.v", "C03Digi.v", "C03Wf.v", "C03Reader.v"]
COL_T = {"mdc": "{id: uint16, adc: uint16, tdc: uint16, overflow: uint8}", "tof": "{id: uint16, adc: uint16, tdc: uint16, overflow: uint8}",
         "emc": "{id: uint16, adc: uint16, tdc: uint16, measure: uint8}", "muc": "{id: uint16, fec: uint16}",
         "trg": "uint32", "ef": "uint32"}


def expected_type(n, dets):
    h = "{" + ", ".join(k + ": uint32" for k in G.HDR_KEYS) + "}"
    return "%d * {evt_header: %s%s}" % (n, h, "".join(", %s: var * %s" % (d, COL_T[d]) for d in dets))


def first_diff(a, b):
    """location of the first difference between two canonical results"""
    if a["hdr"] != b["hdr"]:
        return "evt_header"
    da, db = {d[0]: d for d in a["dets"]}, {d[0]: d for d in b["dets"]}
    if [d[0] for d in a["dets"]] != [d[0] for d in b["dets"]]:
        return "fields"
    for k in da:
        if da[k][1] != db[k][1]:
            return k + ".offsets"
        if da[k][2] != db[k][2]:
            ra, rb = da[k][2], db[k][2]
            if len(ra) != len(rb):
                return k + ".count"
            for x, y in zip(ra, rb):
                if x != y:
                    col = next(i for i, (p, q) in enumerate(zip(x, y)) if p != q) if len(x) == len(y) else -1
                    names = (G.ROW_ORDER.get(k) or ["word"])
                    return k + "." + (names[col] if 0 <= col < len(names) else "row")
    return None


def stream_coq_file(cases):
    """cases: (mask, items, words, native canonical answer)"""
    items = []
    for mask, its, w, ans in cases:
        items.append("(%s, %s,\n %s,\n %s)" % (G.coq_sel_list(mask), G.coq_items(its), G.zl(w), G.coq_answer(("ok", ans))))
    return ("From Coq Require Import ZArith List Bool. Import ListNotations.\n"
            "From PV.Model Require Import RawFormat RawParser RawReader.\nFrom PV.Props Require Import C03Proofs.\n"
            "Local Open Scope Z_scope.\n"
            "Definition cases : list (list det * list item * list Z * res result) := [\n" + ";\n".join(items) + "].\n"
            "Eval vm_compute in map (fun c => match c with (sel, its, ws, ans) =>\n"
            "  forallb (fun it => wf_eventb (snd it)) its && list_eqb Z.eqb (flat_map enc_item its) ws &&\n"
            "  res_eqb ans (Ok (columnar (sel_of sel) (map snd its))) end) cases.\n")


def file_coq_file(cases):
    """cases: (mask, file structure, words, implementation canonical answer | None for the zero-block file)"""
    items = []
    for mask, f, w, ans in cases:
        items.append("(%s, %s,\n %s,\n %s)" % (G.coq_sel_list(mask), G.coq_file(f), G.zl(w), G.coq_answer(("ok", ans))))
    return ("From Coq Require Import ZArith List Bool. Import ListNotations.\n"
            "From PV.Model Require Import RawFormat RawParser RawReader.\n"
            "Local Open Scope Z_scope.\n"
            "Definition cases : list (list det * rawfile * list Z * res result) := [\n" + ";\n".join(items) + "].\n"
            "Eval vm_compute in map (fun c => match c with (sel, f, ws, ans) =>\n"
            "  wf_fileb f && list_eqb Z.eqb (enc_file f) ws &&\n"
            "  res_eqb ans (Ok (columnar (sel_of sel) (file_events f))) end) cases.\n")


def model_arrays_lines(calls, lfix=0):
    """A-lines for the extracted reader model: (chk, n_blocks, pb, mask, order, words); lfix = batch-loop variant"""
    return ["A %d %d %d %d %d %d %s %d %s" % (chk, lfix, nb, pb, mask, len(order), " ".join(map(str, order)), len(w), " ".join(map(str, w)))
            for chk, nb, pb, mask, order, w in calls]


def parse_rmodel(a):
    if a is None:
        return ("harness", "no answer")
    if a.startswith("OK "):
        return ("ok", json.loads(a[3:]))
    if a.startswith("RTHROW "):
        return ("rthrow",) + tuple(a.split()[1:])
    if a == "FUEL":
        return ("fuel",)
    return ("harness", a)


def agree_reader(model, impl_outcome, impl_value, impl_exc):
    """model: parse_rmodel answer; returns None or a description"""
    if model[0] == "ok":
        if impl_outcome != "ok":
            return "model Ok, implementation %s %s" % (impl_outcome, impl_exc)
        return None if model[1] == impl_value else "arrays differ at " + str(first_diff(model[1], impl_value))
    if model[0] == "fuel":
        return None if impl_outcome == "timeout" else "model OutOfFuel (never terminates), implementation %s" % impl_outcome
    if model[0] == "rthrow":
        if impl_outcome != "exc":
            return "model raises %s, implementation %s" % (model[1:], impl_outcome)
        want = {"RAssert": "AssertionError", "ROsError": "OSError", "RConcatEmpty": ("TypeError", "ValueError"),
                "RParser": "RuntimeError"}.get(model[1])
        if want is None:
            return "model %s has no Python-level meaning" % (model[1:],)
        ok = impl_exc.split(":")[0] in (want if isinstance(want, tuple) else (want,))
        if ok and model[1] == "RParser":
            ok = G.err_text(model[2], model[3] if len(model) > 3 else None) in impl_exc
        return None if ok else "model raises %s, implementation raises %s" % (model[1:], impl_exc)
    return "model answer unusable: %s" % (model,)


def write_file(path, words):
    Path(path).write_bytes(G.words_to_bytes(words))


def shrink_stream(exe, mask, items):
    """greedy structural shrink of a stream whose native answer differs from its meaning"""
    def bad(its):
        w = G.enc_items(its).w
        r = G.run_native(exe, [(mask, w)])[0]
        want = G.py_columnar(G.mask_dets(mask), [e for _, e in its])
        return not (r[0] == "ok" and len(r) == 2 and r[1] == want)
    cur = items
    changed = True
    while changed:
        changed = False
        for i in range(len(cur)):
            cand = cur[:i] + cur[i + 1:]
            if cand and bad(cand):
                cur, changed = cand, True
                break
        if changed:
            continue
        for i, (sep, e) in enumerate(cur):
            for j in range(len(e["subs"])):
                e2 = dict(e); e2["subs"] = e["subs"][:j] + e["subs"][j + 1:]
                cand = cur[:i] + [(sep, e2)] + cur[i + 1:]
                if bad(cand):
                    cur, changed = cand, True
                    break
            if changed:
                break
    return cur


def run(ck: vlib.Check):
    quick = ck.tier == "quick"
    rng = ck.rng
    for f in (vlib.BUILD / "replays").glob("C03_*.json"):
        f.unlink()
    ck.cov["rule"] = (
        "cases from one PRNG: (a) well-formed event streams (1-3 events, with/without block separators incl. arbitrary separator "
        "words, 0-6 sub-detector fragments incl. unknown ids with opaque bodies and empty ones, 0-3 ROS, 0-4 ROB, status words "
        "before or after the data (status_pos 0 / != 0), duplicate T/Q words per channel, full-width values) x selection masks, "
        "decoded by the native working-tree parser and by the extracted model; (b) whole files (1-7 blocks of 1-3 events, name/tag "
        "lengths 0..65, any pad byte) read by pybes3.open_raw(...).arrays(decode_reid=False) for several selections / batch sizes. "
        "Every implementation answer is compared with the model's and a sample re-checked inside Coq against columnar(structure). "
        "distinct_nontrivial = distinct (selection, word list) / (call parameters, file) cases, hashed.")
    ck.trusted += [
        "hand models coq/Model/RawFormat.v, RawParser.v, RawReader.v — tied by this run's correspondences",
        "pybind11 stand-in + native/rawdrv.cc (C++ from the working tree under ASan/UBSan); prebuilt besio_cpp.so for the Python-level route",
        "extraction (ExtrOcamlBasic) + ocaml/rawmodel_drv.ml; implementation answers are additionally checked inside coqc (vm_compute)",
        "tools/rawgen.py encoder mirror (checked equal to the Gallina encoder on the in-Coq sample) and struct.pack('<I') for the byte image",
        "awkward (ak.Array construction, ak.concatenate, to_numpy) and numpy are modelled, not verified; file name/tag decoding is not modelled",
    ]
    ck.assumptions += ["file size is a multiple of 4 bytes and name/tag bytes are ASCII (the reader decodes them as UTF-8)",
                       "every block holds at least one event (a separator followed by no event is rejected by the parser)",
                       "decode_reid=False (the electronics-id conversion is property C10)"]
    ok = ck.prove(PROOFS, "C03.v")
    exe, log = G.build_native(NATIVE_DIR)
    ck.cov["native_build"] = log if exe else "FAILED"
    if exe is None:
        ck.tie_broken("native-build", "raw_io.cc", log)
    mexe, mlog = G.build_model(NATIVE_DIR)
    if mexe is None:
        ck.tie_broken("model-build", "RawExtract.v", mlog)
    if exe is None or mexe is None:
        return
    # ------------------------------------------------------------------ (a) streams
    n_streams = 1500 if quick else 8000
    streams = []
    for i in range(n_streams):
        small = i % 3 == 0
        its = G.gen_items(rng, small=small)
        mask = rng.choice([0, 63, 63, rng.randrange(64), rng.randrange(1, 64), 15])
        streams.append((mask, its, G.enc_items(its).w))
    cw = [(m, w) for m, _, w in streams]
    nat = G.run_native(exe, cw)
    mdl = G.run_model(mexe, cw, False)
    mdl1 = G.run_model(mexe, cw, True)
    nbad = 0
    outcomes = Counter()
    for (mask, its, w), n, m, m1 in zip(streams, nat, mdl, mdl1):
        ck.case(["stream", mask, w])
        outcomes["stream:" + n[0]] += 1
        d = G.agree(m, n) or (None if m == m1 else "the two model variants differ on a well-formed stream")
        if d:
            nbad += 1
            if nbad <= 3:
                ck.tie_broken("correspondence", "native parser vs model on a well-formed stream", f"mask={mask} words={w[:60]}...: {d}")
        # direct statement of the property on the implementation
        want = G.py_columnar(G.mask_dets(mask), [e for _, e in its])
        if not (n[0] == "ok" and len(n) == 2 and n[1] == want):
            where = first_diff(want, n[1]) if n[0] == "ok" else n[0]
            key = f"C03:stream:{where}"
            if not any(v["key"] == key for v in ck.viol):
                sh = shrink_stream(exe, mask, its)
                sw = G.enc_items(sh).w
                ck.violation(key, f"decoding a well-formed stream does not give back its content ({where}); shrunk to {len(sh)} event(s), "
                                  f"{len(sw)} words, selection mask {mask}: got {G.run_native(exe, [(mask, sw)])[0][:2]} want "
                                  f"{json.dumps(G.py_columnar(G.mask_dets(mask), [e for _, e in sh]))[:300]}",
                             {"kind": "stream", "mask": mask, "words": sw, "items": sh})
    for (mask, its, w), n in list(zip(streams, nat))[:3]:
        ck.sample({"kind": "stream", "mask": mask, "n_events": len(its), "n_words": len(w), "words_head": w[:20],
                   "native": n[0], "mdc_rows_head": next((d[2][:3] for d in n[1]["dets"] if d[0] == "mdc"), None) if n[0] == "ok" else None})
    # in-Coq re-check of a sample: wf, Gallina encoder = mirror, native answer = columnar(structure)
    if ok:
        small = [i for i, (m, its, w) in enumerate(streams) if len(w) <= 260 and nat[i][0] == "ok" and len(nat[i]) == 2]
        pick = rng.sample(small, min(len(small), 90 if quick else 600))
        nchk = 0
        for j in range(0, len(pick), 45):
            sub = pick[j:j + 45]
            v = ck.props / f"StreamCases{j // 45}.v"
            v.write_text(stream_coq_file([(streams[i][0], streams[i][1], streams[i][2], nat[i][1]) for i in sub]))
            rc, so, se = ck.coqc(v, 900)
            bools = G.parse_bools(so) if rc == 0 else None
            if bools is None or len(bools) != len(sub):
                ck.tie_broken("correspondence", f"in-Coq check {v.name}", (se or so)[-800:])
            else:
                nchk += len(sub)
                for i, b in zip(sub, bools):
                    if not b:
                        ck.tie_broken("correspondence", "native answer / encoder mirror / wf differs from the Gallina specification",
                                      f"mask={streams[i][0]} words={streams[i][2][:60]}")
                        break
        ck.cov["streams_checked_inside_coq"] = nchk
    # ------------------------------------------------------------------ (b) files
    fdir = ck.bdir / "files"
    fdir.mkdir(exist_ok=True)
    n_files = 24 if quick else 200
    files = []
    for i in range(n_files):
        f = G.gen_file(rng, nblocks=rng.choice([1, 1, 2, 3, 4, 7]) if i % 2 else rng.choice([1, 2, 3]), small=(i % 2 == 0))
        w = G.enc_file(f)
        p = fdir / f"f{i}.raw"
        write_file(p, w)
        files.append((f, w, str(p)))
    # a file of many blocks, read one or two blocks per batch: more batches than any bounded queue or cache inside arrays() may hold
    fm = G.gen_file(rng, nblocks=140 if quick else 500, small=True)
    wm = G.enc_file(fm); pm = fdir / "many_blocks.raw"; write_file(pm, wm)
    files.append((fm, wm, str(pm)))
    fz = G.gen_file(rng, nblocks=0)
    wz = G.enc_file(fz)
    pz = fdir / "zero_events.raw"
    write_file(pz, wz)
    abi, alog = G.build_abi(NATIVE_DIR)          # route (b'): working-tree Python reader driving the working-tree C++ parser
    if abi is None:
        ck.tie_broken("native-build", "rawabi.cc", alog)
    calls, meta = [], []
    n_native = 0
    for i, (f, w, p) in enumerate(files):
        variants = [(0, None, None, False)]
        variants.append((63, rng.choice([1, 2, 3, 1000]), rng.choice([None, 1, 3]), False))
        if i == len(files) - 1:
            variants += [(63, 1, 2, False), (63, 2, None, False), (rng.randrange(1, 64), 1, 4, False)]
        if abi is not None:
            variants.append((rng.choice([63, 63, rng.randrange(1, 64)]), rng.choice([1, 2, 1000]), rng.choice([None, 2]), True))
        if i % 3 == 0:
            variants.append((rng.randrange(1, 64), rng.choice([1, 2, 5]), rng.choice([None, 2]), False))
        # the same file through the public multi-file entry point (a list of one file), with fewer blocks per batch than the file has;
        # and as the read that follows a rejected request (invalid sub-detector name) on the same reader
        if i % 2 == 0 or i == len(files) - 1:
            variants.append((63, rng.choice([1, 2]), None, "concat"))
        if i % 4 == 1 or i == len(files) - 1:
            variants.append((63, rng.choice([1, 1000]), None, "after-rejected"))
        for mask, pb, mw, native in variants:
            subs = None if mask == 0 else [d for k, d in enumerate(G.DETS) if mask >> k & 1]
            how = native if isinstance(native, str) else None
            native = native is True
            calls.append({"id": len(calls), "paths": [p], "n_blocks": -1, "pb": pb, "subs": subs, "max_workers": mw,
                          "delay_seed": rng.randrange(1 << 30) if mw != 1 and pb in (1, 2) else None,
                          "native_so": str(abi) if native else None})
            if how == "concat":
                calls[-1]["concat"] = True
            elif how == "after-rejected":
                calls[-1]["seq"] = ["bad", -1]
            n_native += native
            meta.append((i, mask, pb))
    ck.cov["file_calls_through_working_tree_cpp_via_ctypes"] = n_native
    calls.append({"id": len(calls), "paths": [str(pz)], "n_blocks": -1, "pb": None, "subs": None, "max_workers": None, "guard": True})
    meta.append(("zero", 0, None))
    jp = ck.bdir / "jobs.json"
    jp.write_text(json.dumps({"calls": calls, "guard_s": 60}))
    rc, so, se = vlib.run_impl_script("c03_impl.py", [jp], timeout=1500)
    if rc != 0:
        ck.tie_broken("correspondence", "implementation run (c03_impl.py)", (se or so)[-1500:])
        return
    impl = json.loads(so)["results"]
    mcalls = []
    for c, (fi, mask, pb), r in zip(calls, meta, impl):
        w = wz if fi == "zero" else files[fi][1]
        order = (r.get("orders") or [[]])[0] if r.get("orders") else []
        mcalls.append((0, -1, pb if pb is not None else 1000, mask, order, w))
    mans0 = [parse_rmodel(a) for a in G.run_batch([str(mexe)], model_arrays_lines(mcalls, 0))]
    mans1 = [parse_rmodel(a) for a in G.run_batch([str(mexe)], model_arrays_lines(mcalls, 1))]

    def ndis(ms):
        return sum(1 for r, m in zip(impl, ms)
                   if agree_reader(m, r["outcome"], r["values"][0] if r.get("values") else None, r.get("exc", "")))
    variant = "pinned-loop" if ndis(mans0) <= ndis(mans1) else "repaired-loop"
    mans = mans0 if variant == "pinned-loop" else mans1
    ck.cov["reader_loop_variant_of_working_tree"] = variant
    ck.cov["applicable_zero_event_theorem"] = ("C03_zero_event_file_raises (round trip refuted for the zero-event file)"
                                               if variant == "pinned-loop" else "C03_zero_event_file_repaired")
    # the same reads under `python -O` (PYTHONOPTIMIZE=1): an interpreter option must not change what is read
    ocalls = [dict(c, id=k, native_so=None, guard=False, delay_seed=None) for k, c in enumerate(calls[:6])]
    ojp = ck.bdir / "jobs_O.json"
    ojp.write_text(json.dumps({"calls": ocalls, "guard_s": 60}))
    rc_o, so_o, se_o = vlib.run_impl_script("c03_impl.py", [ojp], timeout=600, env_extra={"PYTHONOPTIMIZE": "1"})
    if rc_o != 0:
        ck.tie_broken("correspondence", "implementation run under python -O", (se_o or so_o)[-800:])
    else:
        for c, r, ro in zip(calls[:6], impl[:6], json.loads(so_o)["results"]):
            ck.case(["file-O", c["id"]])
            if (r["outcome"], r.get("values")) != (ro["outcome"], ro.get("values")):
                ck.violation("C03:python-O", f"open_raw(file).arrays(...) under `python -O` / PYTHONOPTIMIZE=1: {ro['outcome']} {ro.get('exc', '')} - the same call "
                             f"in a normal interpreter: {r['outcome']} (reads that sit inside `assert` statements are skipped when asserts are stripped)",
                             {"kind": "file", "words": files[meta[c['id']][0]][1] if meta[c['id']][0] != "zero" else wz, "call": c, "python": "-O"})
                break
    coq_cases = []
    permuted = 0
    for c, (fi, mask, pb), r, m in zip(calls, meta, impl, mans):
        w = wz if fi == "zero" else files[fi][1]
        ck.case(["file", mask, pb, c["max_workers"], bool(c.get("native_so")), w])
        outcomes["file:" + r["outcome"]] += 1
        val = r["values"][0] if r.get("values") else None
        order = (r.get("orders") or [[]])[0] if r.get("orders") else []
        if order != sorted(order):
            permuted += 1
        d = agree_reader(m, r["outcome"], val, r.get("exc", ""))
        if val is not None and "problems" in val:
            d = (d or "") + " shape: " + "; ".join(val["problems"])
        if fi == "zero":
            if r["outcome"] != "ok":
                ck.violation("C03:zero-events:arrays-raises",
                             f"a well-formed file with 0 blocks / 0 events ({len(wz)} words): open_raw(path).arrays() -> {r['outcome']} "
                             f"{r.get('exc')}; the model raises {m[1:] if m[0] == 'rthrow' else m[0]} (theorem C03_zero_event_file_raises)",
                             {"kind": "file", "words": wz, "call": c})
            if d:
                ck.tie_broken("correspondence", "reader model vs implementation on the zero-event file", d)
            continue
        f, w, p = files[fi]
        dets = [x for x in G.SET_ORDER if x in G.mask_dets(mask)]
        nev = sum(len(b["events"]) for b in f["blocks"])
        if r["outcome"] == "ok" and r["types"][0] != expected_type(nev, dets):
            d = (d or "") + f" type {r['types'][0]} != {expected_type(nev, dets)}"
        a = r.get("attrs") or {}
        want_attrs = {"file_version": f["version"], "file_number": f["number"], "file_date": f["date"], "file_time": f["time"],
                      "run_number": f["run_params"][0], "max_events": f["run_params"][1], "rec_enable": f["run_params"][2],
                      "trigger_type": f["run_params"][3], "detector_mask": f["run_params"][4], "beam_type": f["run_params"][5],
                      "beam_energy": f["run_params"][6], "entries": f["entries"], "file_size": 4 * len(w),
                      "data_end": 4 * len(w) - 40, "data_start": 4 * len(G.enc_file_header(f))}
        if r["outcome"] == "ok" and not c.get("concat"):       # concatenate_raw exposes no reader
            wrong = {k: (a.get(k), v) for k, v in want_attrs.items() if a.get(k) != v}
            if wrong:
                d = (d or "") + f" reader attributes differ from the file header: {wrong}"
        if d:
            ck.tie_broken("correspondence", f"reader model vs implementation, file {fi} mask={mask} pb={pb}", d)
        # direct statement on the implementation
        want = G.py_columnar(G.mask_dets(mask), [e for b in f["blocks"] for e in b["events"]])
        if not (r["outcome"] == "ok" and val is not None and {k: val[k] for k in ("hdr", "dets")} == want):
            where = first_diff(want, val) if val is not None else r["outcome"]
            key = f"C03:file:{where}"
            if not any(v["key"] == key for v in ck.viol):
                ck.violation(key, f"open_raw(...).arrays({c}) does not return the content of the file ({where}): {r.get('exc', '')}",
                             {"kind": "file", "words": w, "call": c})
        elif len(w) <= 1500 and len(coq_cases) < (14 if quick else 100) and mask != 0:
            coq_cases.append((mask, f, w, {k: val[k] for k in ("hdr", "dets")}))
    ck.cov["outcomes"] = dict(sorted(outcomes.items()))
    ck.cov["file_calls_with_permuted_completion_order"] = permuted
    if impl and impl[0].get("values"):
        ck.sample({"kind": "file", "call": calls[0], "n_words": len(files[0][1]), "type": impl[0]["types"][0],
                   "attrs": impl[0].get("attrs")})
    if ok and coq_cases:
        nchk = 0
        for j in range(0, len(coq_cases), 7):
            v = ck.props / f"FileCases{j // 7}.v"
            v.write_text(file_coq_file(coq_cases[j:j + 7]))
            rc, so, se = ck.coqc(v, 900)
            bools = G.parse_bools(so) if rc == 0 else None
            if bools is None or len(bools) != len(coq_cases[j:j + 7]):
                ck.tie_broken("correspondence", f"in-Coq check {v.name}", (se or so)[-800:])
            elif not all(bools):
                ck.tie_broken("correspondence", "implementation answer / encoder mirror / wf differs from the Gallina specification (file)",
                              f"file case {j + bools.index(False)}")
            else:
                nchk += len(bools)
        ck.cov["files_checked_inside_coq"] = nchk


def replay(path):
    data = json.load(open(path))
    print(json.dumps({k: data[k] for k in data if k != "replay"}, indent=1)[:1500])
    rp = data.get("replay") or {}
    if rp.get("kind") == "stream":
        exe, log = G.build_native(NATIVE_DIR)
        r = G.run_native(exe, [(rp["mask"], rp["words"])])[0]
        want = G.py_columnar(G.mask_dets(rp["mask"]), [e for _, e in rp["items"]])
        print("native:", json.dumps(r)[:600]); print("meaning:", json.dumps(want)[:600])
        return 0 if (r[0] == "ok" and len(r) == 2 and r[1] == want) else 1
    if rp.get("kind") == "file":
        d = vlib.BUILD / "C03_replay"
        d.mkdir(exist_ok=True)
        p = d / "replay.raw"
        write_file(p, rp["words"])
        c = dict(rp["call"]); c["paths"] = [str(p)]; c["guard"] = True
        jp = d / "jobs.json"
        jp.write_text(json.dumps({"calls": [c], "guard_s": 60}))
        rc, so, se = vlib.run_impl_script("c03_impl.py", [jp], timeout=300)
        print(so[:1500], se[-500:])
        r = json.loads(so)["results"][0]
        return 0 if r["outcome"] == "ok" else 1
    return 0
