"""C13 — documented position/momentum/charge/radius formulas and the physics round trip."""
from props import helix_common as hc

def run(ck):
    hc.standard(ck, "C13", "C13.v", ["HelixCommon.v", "HelixLaws.v"], "c13",
                "helices of both charges x pivots incl. non-zero ones, phi0 at the wrap, dr of either sign and zero: every reported "
                "quantity vs the documented formula in object / record / array form; positional / keyword / tuple constructors; "
                "construct-from-(position, momentum, charge, pivot) round trip for objects and arrays. distinct = generator cells x cases")
replay = hc.replay("c13")
