"""C02 — ROOT reads are invariant under entry ranges, chunking and basket layout.

prove   coq/Props/C02Proofs.v + C02.v over the hand models PV.Model.AwkList / PV.Model.BasketRead (tie H)
tie     for every registered branch of every fixture: the model's final_array arithmetic / reader offsets / CGEM version flag
        evaluated by vm_compute on the same (counts, partition, a, b) cases that drive the real
        Bes3Interpretation.basket_array/final_array with re-partitioned real basket bytes and synthetic empty events
search  direct statement of the property on the implementation: all intervals, all step sizes, file lists, branch subsets,
        re-partitioned baskets — every difference is a violation with its own key"""
import json
import re
from concurrent.futures import ThreadPoolExecutor

import vlib

KNOWN_CGEM = "C02:cgem-empty-basket-version"


def compositions(n):
    """all 2^(n-1) compositions of n, as lists of positive parts"""
    out = []
    for mask in range(1 << (n - 1)):
        parts, cur = [], 1
        for i in range(n - 1):
            if mask >> i & 1:
                parts.append(cur)
                cur = 1
            else:
                cur += 1
        parts.append(cur)
        out.append(parts)
    return out


def rand_comp(rng, n):
    parts, left = [], n
    while left:
        p = rng.randint(1, min(left, rng.choice([1, 2, 3, n])))
        parts.append(p)
        left -= p
    return parts


def rand_interval(rng, n):
    a = rng.randrange(n)
    return a, rng.randint(a + 1, n)


def gen_cases(ck, survey):
    """per file: {branches: {key: {kind, counts, repart: [...], synth: [...]}}, subsets: [...], steps: [...]}"""
    rng = ck.rng
    thorough = ck.tier == "thorough"
    per_file = {}
    for fname in sorted(survey):
        brs = survey[fname]
        fc = {"branches": {}, "subsets": [], "steps": list(range(1, 11))}
        keys = [b["key"] for b in brs]
        for _ in range(40 if thorough else 6):
            k = rng.randint(1, max(1, min(len(keys), 6)))
            fc["subsets"].append(sorted(rng.sample(keys, k)))
        fc["subsets"].append(sorted(keys))
        for b in brs:
            n = b["n"]
            rep = []
            if thorough:
                for parts in compositions(n):
                    rep.append({"parts": parts, "a": 0, "b": n})
                    for _ in range(2):
                        a, bb = rand_interval(rng, n)
                        rep.append({"parts": parts, "a": a, "b": bb})
            else:
                fixed = [[n], [1] * n, [n // 2, n - n // 2] if n >= 2 else [n]]
                comps = fixed + [rand_comp(rng, n) for _ in range(5)]
                for parts in comps:
                    rep.append({"parts": parts, "a": 0, "b": n})
                    for _ in range(2):
                        a, bb = rand_interval(rng, n)
                        rep.append({"parts": parts, "a": a, "b": bb})
            synth = []
            nonempty = [i for i, c in enumerate(b["counts"]) if c > 0]
            kind = b["kind"]
            n_s = (24 if thorough else 6) if kind != "cgem" else (60 if thorough else 16)
            for j in range(n_s):
                # a stream of real events (in file order) with empty-collection events spliced in
                m_real = rng.randint(1, 4)
                start = rng.randrange(n)
                real = [(start + t) % n for t in range(m_real)]
                if nonempty and rng.random() < 0.7:
                    real[0] = rng.choice(nonempty)
                layout = list(real)
                for _ in range(rng.randint(1, 4)):
                    layout.insert(rng.choice([0, 0, rng.randint(0, len(layout)), len(layout)]), -1)
                if j == 0 and nonempty:  # the witness shape of the Coq refutation: 2 empty + 3 real, split 2+3
                    layout = [-1, -1] + [nonempty[t % len(nonempty)] for t in range(3)]
                    parts, a, bb = [2, 3], 0, 5
                elif j == 1 and nonempty:
                    layout = [-1, -1] + [nonempty[t % len(nonempty)] for t in range(3)]
                    parts, a, bb = [2, 3], 0, 2
                else:
                    m = len(layout)
                    parts = rand_comp(rng, m)
                    a, bb = (0, m) if rng.random() < 0.5 else rand_interval(rng, m)
                synth.append({"layout": layout, "parts": parts, "a": a, "b": bb})
            # the cases whose baskets are also run through the natively compiled working-tree root_io.hh
            if kind in ("toa", "cgem"):
                if thorough:
                    for c in rep:
                        if c["a"] == 0 and c["b"] == n and c["parts"] in ([n], [1] * n, [n // 2, n - n // 2], [1, n - 1], [n - 1, 1]):
                            c["native"] = True
                else:
                    rep[0]["native"] = True      # [n], full interval
                    if len(rep) > 6:
                        rep[6]["native"] = True  # [n//2, n-n//2], full interval
                for c in synth[:(len(synth) if thorough else 4)]:
                    c["native"] = True
            fc["branches"][b["key"]] = {"kind": kind, "counts": b["counts"], "repart": rep, "synth": synth}
        # "many events" baskets: the real events repeated until one basket holds more than 2^16 elements
        big = sorted((b for b in brs if sum(b["counts"]) >= 600), key=lambda b: -sum(b["counts"]))
        for b in big[:(len(big) if thorough else 2)]:
            n, tot = b["n"], sum(b["counts"])
            reps = -(-70000 // tot) + 1
            if reps * n > 1200:
                continue
            layout = list(range(n)) * reps
            acc, cut = 0, len(layout)
            for i, j in enumerate(layout):
                acc += b["counts"][j]
                if acc > 65536 + 50:
                    cut = i + 1
                    break
            m = len(layout)
            cut = min(cut, m - 1)
            a, bb = rand_interval(rng, m)
            fc["branches"][b["key"]]["synth"] += [
                {"layout": layout, "parts": [cut, m - cut], "a": 0, "b": m},
                {"layout": layout, "parts": [cut, m - cut], "a": max(0, cut - 2), "b": min(m, cut + 2)},
                {"layout": layout, "parts": [m // 3, m // 3, m - 2 * (m // 3)], "a": a, "b": bb}]
        per_file[fname] = fc
    return per_file


COQ_HDR = """From Coq Require Import ZArith List. Import ListNotations.
From PV.Model Require Import AwkList BasketRead.
Local Open Scope Z_scope.
Fixpoint split_by {A} (parts : list nat) (l : list A) : list (list A) :=
  match parts with [] => [] | p :: r => firstn p l :: split_by r (skipn p l) end.
Definition dec (c : Z) : list unit := repeat tt (Z.to_nat c).
Definition zl (l : list nat) : list Z := map Z.of_nat l.
(* [si; ei] ++ -2 :: i :: offsets of loaded basket i ... ++ -3 :: lengths of the result's lists;  [-9] = the model raises *)
Definition run_case (counts : list Z) (parts : list nat) (a b : nat) : list Z :=
  let bs := split_by parts counts in
  let offsets := entry_offsets (map (@length Z) bs) in
  match basket_range (Z.of_nat a) (Z.of_nat b) offsets, read_range dec bs a b with
  | Some (si, ei), Some x =>
      [Z.of_nat si; Z.of_nat ei]
      ++ flat_map (fun i => if loaded offsets (Z.of_nat a) (Z.of_nat b) i
                            then (-2) :: Z.of_nat i :: offs (read_basket dec (nth i bs [])) else [])
                  (seq 0 (length bs))
      ++ (-3) :: map (fun l => Z.of_nat (length l)) (to_lists x)
  | _, _ => [-9]
  end.
Definition cl (k : Z) : cluster := mkCluster 96 [k] k.
Definition cg_events (counts : list Z) : list (list cluster) := map (fun c => map cl (map Z.of_nat (seq 0 (Z.to_nat c)))) counts.
(* type code: 0 = record without m_recPositionY, 1 = with, 2 :: flags = union;  then -3 :: lengths *)
Definition cg_case (counts : list Z) (parts : list nat) (a b : nat) : list Z :=
  match cg_read_range (split_by parts (cg_events counts)) a b with
  | Some (CgRec hy, x) => [if hy then 1 else 0] ++ (-3) :: map (fun l => Z.of_nat (length l)) (to_lists x)
  | Some (CgUnion l, x) => (2 :: map (fun b : bool => if b then 1 else 0) l) ++ (-3) :: map (fun l => Z.of_nat (length l)) (to_lists x)
  | None => [-9]
  end.
"""


def coq_nat_list(xs):
    return "[" + "; ".join(f"{x}%nat" for x in xs) + "]"


def parse_nested(out):
    m = re.search(r"=\s*\[(.*)\]\s*:\s*list \(list Z\)", out, flags=re.S)
    if not m:
        return None
    body = m.group(1)
    res = []
    for inner in re.findall(r"\[([^\[\]]*)\]", body):
        inner = inner.strip()
        res.append([int(x.strip().strip("()").replace("%Z", "")) for x in inner.split(";")] if inner else [])
    return res


def model_eval(ck, items):
    """items: list of (fn, counts, parts, a, b) with fn in {run_case, cg_case}; returns list of Z lists (or None)"""
    results = []
    chunk = 400
    chunks = [items[i:i + chunk] for i in range(0, len(items), chunk)]

    def one(j_ch):
        j, ch = j_ch
        v = ck.props / f"C02Cases{j}.v"
        terms = [f"{fn} {vlib.coq_zlist(counts)} {coq_nat_list(parts)} {a}%nat {b}%nat" for fn, counts, parts, a, b in ch]
        v.write_text(COQ_HDR + "Eval vm_compute in [" + ";\n ".join(terms) + "].\n")
        rc, so, se = ck.coqc(v, 900)
        vals = parse_nested(so) if rc == 0 else None
        if vals is None or len(vals) != len(ch):
            return j, None, (se or so)[-800:]
        return j, vals, ""

    with ThreadPoolExecutor(8) as ex:
        outs = list(ex.map(one, enumerate(chunks)))
    for j, vals, err in outs:
        if vals is None:
            ck.tie_broken("correspondence", f"model-eval chunk {j}", err)
            return None
        results += vals
    return results


def expected_from_model(vals):
    """decode run_case output -> (asked keys, {basket: offsets}, counts)"""
    if vals == [-9]:
        return None
    si, ei = vals[0], vals[1]
    rest = vals[2:]
    k3 = rest.index(-3)
    boffs, cur = {}, None
    for x in rest[:k3]:
        if x == -2:
            cur = []
            boffs[len(boffs)] = cur
        else:
            cur.append(x)
    boffs = {str(v[0]): v[1:] for v in boffs.values()}
    return list(range(si, ei + 1)), boffs, rest[k3 + 1:]


def cg_code(vals):
    if vals == [-9]:
        return None, None
    k3 = vals.index(-3)
    head, counts = vals[:k3], vals[k3 + 1:]
    if head[0] == 2:
        return "union[" + ",".join("y" if x else "n" for x in head[1:]) + "]", counts
    return ("rec-y" if head[0] == 1 else "rec-n"), counts


def viol_key(m):
    return f"C02:{m['kind']}:{m['file']}:{m['branch']}:{json.dumps(m.get('detail'), separators=(',', ':'))}"


def coqchk_audit(ck, module):
    """thorough tier: independent checker over the statement file's whole .vo closure"""
    cmd = ["coqchk", "-silent", "-o", *ck.coq_flags(), module]
    rc, so, se = vlib.sh(cmd, timeout=3000)
    ck.checker_cmds.append("coqchk -silent -o <same -R flags> " + module)
    out = (so + se)
    summary = [l.strip() for l in out.splitlines() if l.strip().startswith("*")]
    ck.cov["coqchk"] = {"rc": rc, "summary": summary}
    if rc != 0 or not any("Axioms: <none>" in l for l in summary):
        ck.tie_broken("axiom-audit", "coqchk " + module, out[-800:])


def native_route(ck, outs_json, per_file):
    """C++ from the WORKING TREE: the baskets of the marked cases, decoded by the natively compiled root_io.hh readers
    (pybind11 stand-in, ASan/UBSan; driver native/rootdrv.cc shared with C01), must give the offsets / record keys that the
    prebuilt extension gave (which the Coq model was compared with)"""
    try:
        from props import c01 as _c01
        exe, err = _c01.build_native(vlib.SRC)
    except Exception as e:  # noqa: BLE001  (driver not available in this tree: the route is skipped, and said so)
        ck.cov["native_route"] = f"unavailable ({type(e).__name__}: {str(e)[:120]})"
        ck.notes.append("native C++ route unavailable: edits to root_io.hh are not observable in this run")
        return
    if exe is None:
        ck.tie_broken("correspondence", "native-build root_io.hh", str(err)[-1200:])
        return
    n_cmp = 0

    def one(fname):
        req = ck.bdir / f"native_{fname}.req"
        if not req.exists() or req.stat().st_size == 0:
            return fname, 0, "", ""
        rc, so, se = vlib.sh(f"{exe} < {req}", timeout=3000,
                             env={**__import__("os").environ, "ASAN_OPTIONS": "detect_leaks=0"})
        return fname, rc, so, se
    with ThreadPoolExecutor(9) as ex:
        res = list(ex.map(one, sorted(outs_json)))
    for fname, rc, so, se in res:
        index = outs_json[fname].get("native_index", [])
        if not index:
            continue
        lines = [l for l in so.splitlines() if l and not l.startswith("BEGIN")]
        if rc != 0 or len(lines) != len(index):
            ck.tie_broken("correspondence", f"native-run {fname}", f"rc={rc}, {len(lines)}/{len(index)} answers; {se[-600:]}")
            continue
        native_offs = {}   # (branch, kind, case index) -> {basket: offsets} as decoded by the working-tree C++
        for ent, line in zip(index, lines):
            n_cmp += 1
            if line.startswith("T OK"):
                native_offs.setdefault((ent["branch"], ent["kind"], ent["i"]), {})[ent["basket"]] = \
                    [int(x) for x in line[4:].split("|")[0].split()]
            tag = f"{fname}:{ent['branch']}:{ent['kind']}#{ent['i']}:basket{ent['basket']}"
            if line.startswith("T OK"):
                got = [int(x) for x in line[4:].split("|")[0].split()]
                if got != ent["offsets"]:
                    ck.tie_broken("correspondence", "native-offsets " + tag, f"working-tree C++ offsets {got[:12]} != prebuilt/model {ent['offsets'][:12]}")
            elif line.startswith("G OK"):
                fields = dict(kv.split("=", 1) for kv in line[5:].strip().strip(";").split(";") if "=" in kv)
                offs = [int(x) for x in fields.get("offsets", "[]").split("[")[1].rstrip("]").split(",") if x]
                has_y = "m_recPositionY" in fields
                if offs != ent["offsets"] or has_y != ent["has_y"]:
                    ck.tie_broken("correspondence", "native-cgem " + tag,
                                  f"working-tree C++ offsets {offs[:12]} has_y={has_y} != prebuilt/model {ent['offsets'][:12]} has_y={ent['has_y']}")
            else:
                ck.tie_broken("correspondence", "native-exception " + tag, line[:300])
        # the property itself on the working-tree C++: per-basket offsets, re-based and concatenated, = the one-basket offsets
        for (branch, kind, i), bk in native_offs.items():
            if kind != "repart" or i == 0 or (branch, "repart", 0) not in native_offs:
                continue
            one = native_offs[(branch, "repart", 0)].get(0)
            case = per_file[fname]["branches"][branch]["repart"][i]
            if one is None or sorted(bk) != list(range(len(case["parts"]))):
                continue
            cat = [0]
            for b in sorted(bk):
                base = cat[-1]
                cat += [base + o for o in bk[b][1:]]
            if cat != one:
                ck.violation(f"C02:native-decode-concat:{fname}:{branch}:{case['parts']}",
                             f"working-tree root_io.hh: offsets of baskets {case['parts']} re-based and concatenated {cat[:12]} != "
                             f"offsets of the one-basket read {one[:12]} ({fname} {branch})",
                             {"file": fname, "branch": branch, "kind": "native-decode-concat", "detail": [case["parts"]]})
    ck.cov["native_route"] = {"baskets_compared": n_cmp, "driver": str(exe.name)}


def run(ck: vlib.Check):
    ck.cov["rule"] = (
        "cases per registered branch of every fixture (178 branches, 9 files): every interval 0<=a<b<=n of TBranch.array; every "
        "chunk of TTree.iterate for step sizes 1..10; TTree.arrays over branch subsets (filter_branch and filter_name); "
        "uproot.concatenate over ordered same-kind file lists; Bes3Interpretation.basket_array/final_array driven with "
        "re-partitioned real basket bytes (quick: 8 compositions x 3 intervals per branch from the run's PRNG, thorough: all 512 "
        "compositions x 3 intervals) and with synthetic streams containing empty-collection events; distinct = distinct "
        "(file, branch, operation, parameters) tuples, hashed; every re-partition/synthetic case is also evaluated on the Coq model "
        "by vm_compute and compared (basket numbers asked for, per-basket offsets, result lengths, CGEM type class)")
    ck.trusted += [
        "hand models PV.Model.AwkList / PV.Model.BasketRead (mirror of uproot_custom AsCustom.final_array, uproot's basket selection, "
        "Bes3TObjArrayReader / Bes3CgemClusterColReader offset+version state) — tied by the correspondence below, not regenerated",
        "uproot (decompression, TTree/TBasket framing, iterate/concatenate drivers), awkward (ak.concatenate, slicing, to_packed, "
        "to_buffers used for canonical comparison), the prebuilt besio_cpp.so (C++ edits to root_io.hh are not observable here)",
        "tools/impl/c02_impl.py harness (re-partitioning of basket bytes, synthetic empty-collection events)",
    ]
    ck.assumptions += [
        "fewer than 2^32 collection elements per basket (the readers' offsets are uint32)",
        "per-event decoding is stateless (holds for every reader except the CGEM cluster reader's version flag, modelled separately)",
        "ak.concatenate / slicing behave as the list operations of PV.Model.AwkList",
    ]
    # 1 prove
    proved = ck.prove(["C02Proofs.v"], "C02.v")
    if proved and ck.tier == "thorough":
        coqchk_audit(ck, "PV.Props.C02")
    # 2 survey + cases
    datadir = str(vlib.REPO / "tests" / "data")
    rc, so, se = vlib.run_impl_script("c02_impl.py", ["survey", datadir], timeout=600, cache_dir=ck.bdir / "nb_survey")
    if rc != 0:
        ck.tie_broken("correspondence", "survey", se[-1500:])
        return
    survey = json.loads(so)
    nbr = sum(len(v) for v in survey.values())
    ck.cov["fixtures"] = {f: len(v) for f, v in survey.items()}
    if nbr == 0:
        ck.tie_broken("correspondence", "survey", "no registered branch found in the fixtures")
        return
    per_file = gen_cases(ck, survey)
    # 3 model evaluation (vm_compute) of every re-partition / synthetic case
    items, index = [], []
    for fname, fc in per_file.items():
        for key, bc in fc["branches"].items():
            for i, c in enumerate(bc["repart"]):
                items.append(("run_case", bc["counts"], c["parts"], c["a"], c["b"]))
                index.append((fname, key, "repart", i))
                if bc["kind"] == "cgem":
                    items.append(("cg_case", bc["counts"], c["parts"], c["a"], c["b"]))
                    index.append((fname, key, "repart-cg", i))
            for i, c in enumerate(bc["synth"]):
                counts = [0 if j < 0 else bc["counts"][j] for j in c["layout"]]
                items.append(("run_case", counts, c["parts"], c["a"], c["b"]))
                index.append((fname, key, "synth", i))
                if bc["kind"] == "cgem":
                    items.append(("cg_case", counts, c["parts"], c["a"], c["b"]))
                    index.append((fname, key, "synth-cg", i))
    model = model_eval(ck, items)
    model_by = dict(zip(index, model)) if model is not None else {}
    # 4 implementation runs (one process per fixture, in parallel) + concatenate
    def run_one(fname):
        cp = ck.bdir / f"cases_{fname}.json"
        per_file[fname]["native_requests"] = str(ck.bdir / f"native_{fname}.req")
        cp.write_text(json.dumps(per_file[fname]))
        return fname, vlib.run_impl_script("c02_impl.py", ["file", datadir, fname, cp], timeout=3000,
                                           cache_dir=ck.bdir / f"nb_{fname}")
    with ThreadPoolExecutor(9) as ex:
        outs = list(ex.map(run_one, sorted(per_file)))
    # concatenate lists: files with identical branch sets and types are "same kind"
    lists = []
    groups = {}
    for fname, brs in survey.items():
        sig = (fname.rsplit(".", 1)[1], tuple(sorted((b["key"], b["type"]) for b in brs)))
        groups.setdefault(sig, []).append(fname)
    byext = {}
    for fname in survey:
        byext.setdefault(fname.rsplit(".", 1)[1], []).append(fname)
    cand = []
    for fs in list(groups.values()) + list(byext.values()):
        fs = sorted(fs)
        if len(fs) < 2:
            continue
        for i in fs:
            for j in fs:
                if i != j:
                    cand.append([i, j])
        cand.append([fs[0], fs[1], fs[0]])
        if len(fs) >= 3:
            cand.append(fs[:3])
            cand.append(fs[:3][::-1])
    seen, uniq = set(), []
    for c in cand:
        if tuple(c) not in seen:
            seen.add(tuple(c))
            uniq.append(c)
    if ck.tier != "thorough" and len(uniq) > 12:
        uniq = uniq[:4] + ck.rng.sample(uniq[4:], 8)
    for files in uniq:
        common = set.intersection(*[{b["key"] for b in survey[f]} for f in files])
        for key in sorted(common):
            lists.append({"files": files, "branch": key})
    # pairs of fixtures of one kind whose class layouts differ, read one after the other under ONE path string
    same_path = []
    for ext in (".rec", ".rtraw", ".dst"):
        fs = [f for f in sorted(survey) if f.endswith(ext)]
        cg = [f for f in fs if "cgem" in f]; other = [f for f in fs if "cgem" not in f]
        if cg and other:
            common = sorted(set.intersection({b["key"] for b in survey[cg[0]]}, {b["key"] for b in survey[other[0]]}))
            keys = [k for k in common if "Digi" in k or "Mc" in k or "Trk" in k or "Track" in k][: (6 if ck.tier != "thorough" else 40)] or common[:6]
            same_path += [[cg[0], other[0], keys], [other[0], cg[0], keys]]
    ck.cov["same_path_pairs"] = [[a, b, len(k)] for a, b, k in same_path]
    prepass = [[f, sorted(b["key"] for b in survey[f])] for f in sorted(survey)]
    if ck.seed % 2:
        prepass = prepass[::-1]
    ck.cov["prepass_order"] = [f for f, _ in prepass]
    cpath = ck.bdir / "concat.json"
    cpath.write_text(json.dumps({"lists": lists, "same_path_pairs": same_path, "prepass": prepass}))
    rc, so, se = vlib.run_impl_script("c02_impl.py", ["concat", datadir, cpath], timeout=3000, cache_dir=ck.bdir / "nb_concat")
    allm = []
    if rc != 0:
        ck.tie_broken("correspondence", "implementation-concat", se[-1500:])
    else:
        r = json.loads(so)
        ck.cases_bulk(r["evaluations"], {bytes.fromhex(h) for h in r["hashes"]})
        allm += r["mismatches"]
        ck.cov["concat_lists"] = len(lists)
        concat_refs = r.get("reference_reads", {})
        if ck.tier == "thorough":        # the opposite file order in a process of its own
            cp2 = ck.bdir / "concat_rev.json"
            cp2.write_text(json.dumps({"lists": [], "same_path_pairs": [], "prepass": prepass[::-1]}))
            rc2, so2, se2 = vlib.run_impl_script("c02_impl.py", ["concat", datadir, cp2], timeout=3000, cache_dir=ck.bdir / "nb_concat2")
            if rc2 != 0:
                ck.tie_broken("correspondence", "implementation-concat (reversed file order)", se2[-1200:])
            else:
                r2 = json.loads(so2)
                ck.cases_bulk(r2["evaluations"], {bytes.fromhex(h) + b"r" for h in r2["hashes"]})
                allm += r2["mismatches"]
                for k2, v2 in r2.get("reference_reads", {}).items():
                    concat_refs["rev:" + k2] = v2
    n_model_cmp = 0
    outs_json = {}
    concat_refs = locals().get("concat_refs", {})
    for fname, (rc, so, se) in outs:
        if rc != 0:
            ck.tie_broken("correspondence", f"implementation-run {fname}", se[-1500:])
            continue
        r = json.loads(so)
        outs_json[fname] = r
        ck.cases_bulk(r["evaluations"], {bytes.fromhex(h) for h in r["hashes"]})
        allm += r["mismatches"]
        # iterate chunk lengths vs the model's iterate_ranges (n=10): ceil(n/step) chunks of `step`, last one shorter
        for step, lens in r["chunk_lens"].items():
            s, n = int(step), r["n"]
            want = [min(s, n - k) for k in range(0, n, s)]
            if lens != want:
                ck.violation(f"C02:iterate-chunks:{fname}:{step}", f"iterate(step_size={step}) chunk lengths {lens} != {want}", {"file": fname, "step": step})
        # model vs implementation on every driven case
        for rec in r["repart"]:
            kind = "synth" if "synth" in rec else "repart"
            i = rec.get("synth", rec.get("i"))
            if "skipped" in rec:
                continue
            mv = model_by.get((fname, rec["branch"], kind, i))
            if mv is None:
                continue
            n_model_cmp += 1
            exp = expected_from_model(mv)
            bc = per_file[fname]["branches"][rec["branch"]]
            case = (bc["synth"] if kind == "synth" else bc["repart"])[i]
            if len(case.get("layout", [])) > 40:
                case = {**case, "layout": case["layout"][:12] + ["... %d events" % len(case["layout"])]}
            if "error" in rec:
                if exp is not None:
                    ck.tie_broken("correspondence", f"{fname}:{rec['branch']}:{kind}:{case}", f"implementation raised {rec['error']}, model returns a value")
                continue
            if exp is None:
                ck.tie_broken("correspondence", f"{fname}:{rec['branch']}:{kind}:{case}", "model raises, implementation returns a value")
                continue
            asked, boffs, counts = exp
            got_boffs = {k: v for k, v in rec["boffs"].items() if v is not None}
            if rec["asked"] != asked or rec["counts"] != counts or any(got_boffs.get(k) != v for k, v in boffs.items() if k in got_boffs):
                ck.tie_broken("correspondence", f"{fname}:{rec['branch']}:{kind}:{case}",
                              f"model asked={asked} counts={counts} boffs={str(boffs)[:200]} | implementation asked={rec['asked']} "
                              f"counts={rec['counts']} boffs={str(got_boffs)[:200]}")
            if "cg_type" in rec:
                cgv = model_by.get((fname, rec["branch"], kind + "-cg", i))
                if cgv is not None:
                    code, ccounts = cg_code(cgv)
                    if code != rec["cg_type"] or ccounts != rec["counts"]:
                        ck.tie_broken("correspondence", f"cgem-model:{fname}:{rec['branch']}:{case}",
                                      f"model type={code} counts={ccounts} | implementation type={rec['cg_type']} counts={rec['counts']}")
            if len(ck.cov["samples"]) < 8 and kind == "synth":
                ck.sample({"file": fname, "branch": rec["branch"], "case": case, "model": {"asked": asked, "counts": counts},
                           "implementation": {"asked": rec["asked"], "counts": rec["counts"], "cg_type": rec.get("cg_type")}})
    # a file read in a process that read OTHER files before (the multi-file process) equals the same file read in a process of its own
    n_hist = 0
    for key, (t_multi, d_multi) in sorted(concat_refs.items()):
        f_, path_ = key[4:].split("|", 1) if key.startswith("rev:") else key.split("|", 1)
        own = (outs_json.get(f_) or {}).get("full_digests", {}).get(path_)
        if own is None:
            continue
        n_hist += 1
        if own != [t_multi, d_multi]:
            allm.append({"kind": "read-after-other-files", "file": f_, "branch": path_, "detail": [], "type_equal": own[0] == t_multi, "values_equal": False,
                         "got_type": t_multi[:300], "want_type": own[0][:300]})
    ck.cov["reads_compared_across_processes"] = n_hist
    ck.cov["model_vs_implementation_cases"] = n_model_cmp
    native_route(ck, outs_json, per_file)
    ck.cov["exhaustive"] = False
    ck.cov["exhaustive_parts"] = ("all 55 intervals, all 10 step sizes for every branch"
                                  + ("; all 512 basket compositions of 10 events for every branch" if ck.tier == "thorough" else ""))
    # 5 violations: every mismatch of the direct property statement
    n_known = 0
    per_kind = {}
    for m in allm:
        cg = (m["kind"] == "synth" and m["branch"].endswith("m_recCgemClusterCol") and m.get("values_equal")
              and not m.get("type_equal") and m.get("all_empty_basket_selected")
              and ("m_recPositionY" in (m.get("got_type", "") + m.get("want_type", ""))))
        if cg:
            n_known += 1
            ck.violation(KNOWN_CGEM, f"CGEM cluster branch: basket of only empty events has no m_recPositionY -> type differs from the "
                                     f"one-basket read (values equal): {m['file']} {m['detail']} got {m.get('got_type','')[:120]}", m)
        else:
            # every difference is a violation with its own key; at most 30 per (kind, file) are written out, the rest is counted
            pk = (m["kind"], m["file"])
            per_kind[pk] = per_kind.get(pk, 0) + 1
            if per_kind[pk] <= 30:
                ck.violation(viol_key(m), f"{m['kind']} differs from the full read: {json.dumps(m)[:600]}", m)
    ck.cov["cgem_empty_basket_cases"] = n_known
    ck.cov["differences_by_kind_and_file"] = {f"{k[0]}:{k[1]}": v for k, v in per_kind.items()}


def replay(path):
    """re-run the recorded failing case on the current tree; exit 1 while it still fails"""
    data = json.load(open(path))
    m = data.get("replay") or {}
    print(json.dumps({k: data.get(k) for k in ("property", "key", "what")}, indent=1)[:3000])
    if not m or "file" not in m or "," in m["file"]:
        print("no single-file replay recorded (broken tie / concatenate case): re-run the check")
        return 1
    datadir = str(vlib.REPO / "tests" / "data")
    rc, so, se = vlib.run_impl_script("c02_impl.py", ["survey", datadir], timeout=600)
    if rc != 0:
        print(se[-2000:])
        return 1
    b = next((x for x in json.loads(so)[m["file"]] if x["key"] == m["branch"]), None)
    cases = {"branches": {}, "subsets": [], "steps": list(range(1, 11))}
    if b is not None:
        bc = {"kind": b["kind"], "counts": b["counts"], "repart": [], "synth": []}
        d = m.get("detail") or []
        if m["kind"].startswith("repart") and len(d) == 3:
            bc["repart"].append({"parts": d[0], "a": d[1], "b": d[2]})
        if m["kind"].startswith("synth") and len(d) == 4:
            bc["synth"].append({"layout": d[0], "parts": d[1], "a": d[2], "b": d[3]})
        cases["branches"][m["branch"]] = bc
    if m["kind"].startswith("subset"):
        cases["subsets"].append(m["detail"])
    cp = vlib.BUILD / "replays" / "c02_replay_cases.json"
    cp.write_text(json.dumps(cases))
    rc, so, se = vlib.run_impl_script("c02_impl.py", ["file", datadir, m["file"], cp], timeout=3000)
    if rc != 0:
        print(se[-2000:])
        return 1
    r = json.loads(so)
    same = [x for x in r["mismatches"] if x["kind"] == m["kind"] and x["branch"] == m["branch"] and x.get("detail") == m.get("detail")]
    print("still failing:" if same else "no longer failing", json.dumps(same[:2])[:1500])
    return 1 if same else 0
