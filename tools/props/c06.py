"""C06 — pivot change never changes the physical track (both charges)."""
from props import helix_common as hc

def run(ck):
    hc.standard(ck, "C06", "C06.v", ["HelixCommon.v", "HelixLaws.v", "C06Proofs.v"], "c06",
                "helices of both charges (typical / low-pt / high-pt / phi0 at the wrap / dr = 0, < 0, large) x old and new pivots "
                "(origin, near, far, on an axis) x object / record / array form, all from one PRNG; for each: trajectory points before "
                "and after the move compared in the BESIII field (signed radius alpha/kappa), closest-approach distance; plus every "
                "hit of every reconstructed track of the two .rec fixtures (helix moved to the hit's wire point by the implementation). "
                "distinct = distinct (helix kind, charge, pivot kind) cells x cases")
replay = hc.replay("c06")
