"""C14 — independence of input representation: lifting laws proved on the nesting model; scalar semantics = regenerated integer
model (sample evaluated inside Coq); configuration matrix enumerated on the implementation."""
import json
import vlib
from props import c08
from props.c05 import parse_zlist

BOOLRET = {"check_mdc_id", "check_tof_id", "check_emc_id", "check_muc_id", "check_cgem_id", "mdc_id_to_is_stereo", "cgem_id_to_is_x_strip"}
RENAME = {"tof_id_to_layer_or_module": "tof_id_to_layer_or_module_none", "tof_id_to_phi_or_strip": "tof_id_to_phi_or_strip_none"}


def run(ck):
    ck.cov["rule"] = ("configuration matrix: every public function of pybes3.detectors (and digi_id) x {Python int, NumPy scalar and array of "
                      "each of the 8 integer dtypes able to hold the values, Awkward flat per dtype, ragged with empty lists, depth 3, "
                      "regular, sliced view, indexed view, option type, typed empty} compared element by element (floats as bit patterns, "
                      "missing stays missing, structure preserved) with the Python-int result; parsers x options (flat, library, with_pos) x "
                      "containers: fields vs field functions, flat option vs flattening first (incl. its errors), np vs ak. "
                      "distinct = distinct (function, container kind, options) configurations")
    ck.trusted += ["layout model PV.Model.Nest (uniformly nested lists) for the lifting laws",
                   "numba dtype dispatch and Awkward's ufunc protocol are runtime behaviour: enumerated, not proved",
                   "scalar semantics: regenerated Z model of the kernels (translators of C05/C08)"]
    ck.assumptions += ["integer dtypes only (an untyped all-empty Awkward array has no integer dtype and is rejected by numba's typing; "
                       "float inputs to index kernels likewise)"]
    ok = c08.regenerate(ck)
    proved = ck.prove(["C14Proofs.v"], "C14.v")
    rc, so, se = vlib.run_impl_script("c14_impl.py", [ck.seed, ck.tier], timeout=1500)
    if rc != 0:
        last = [l for l in (se or "").splitlines() if l.startswith("BEGIN ")]
        if rc in (139, -11, 134, -6) and last:
            fnname, kind = last[-1][6:].split("|", 1)
            ck.violation(f"C14:crash:{fnname}:{kind}", f"the interpreter died (exit {rc}) while {fnname} was evaluated on a {kind} input of valid elements "
                         f"(the kernels index the geometry tables without bounds checks: a mis-read input becomes a wild index)", {"function": fnname, "kind": kind, "exit": rc})
        ck.tie_broken("correspondence", "configuration matrix", (se or so)[-1500:])
        return
    res = json.loads(so)
    ck.cov["evaluations"] += res["evaluations"]
    ck.cov["configurations"] = res["configurations"]
    ck.cov["container_kinds"] = res["container_kinds"]
    ck.cov["functions"] = res["functions"]
    ck.cov["parsers"] = res["parsers"]
    ck.cov["not_ok_configurations"] = res["not_ok"]
    ck.distinct.update(("cfg", i) for i in range(res["configurations"]))
    ck.sample({"function": "mdc_id_to_wire", "containers": res["container_kinds"][:8]})
    for v in res["violations"]:
        ck.violation(v["key"], v["what"], v["input"])
    # scalar reference vs the regenerated model, inside Coq
    if ok:
        smp = [s for s in res["sample"] if not s["f"].startswith("emc_gid_to_c") and not s["f"].startswith("emc_gid_to_f")
               and not s["f"].startswith("emc_gid_to_point") and "west" not in s["f"] and "east" not in s["f"]]
        terms = []
        for s in smp:
            f = RENAME.get(s["f"], s["f"])
            t = f"{f} " + " ".join(f"({a})" if a < 0 else str(a) for a in s["args"])
            terms.append(f"(b2z ({t}))" if s["f"] in BOOLRET else f"({t})")
        v = ck.props / "Cases14.v"
        v.write_text("From Coq Require Import ZArith List. Import ListNotations.\nFrom PV.Lib Require Import Bits.\n"
                     "From PV.Gen Require Import DigiId GidMdc GidEmc.\nLocal Open Scope Z_scope.\nEval vm_compute in [" + ";\n".join(terms) + "].\n")
        rc, so, se = ck.coqc(v, 300)
        vals = parse_zlist(so) if rc == 0 else None
        if vals is None or len(vals) != len(smp):
            ck.tie_broken("correspondence", "model-eval", (se or so)[-800:])
        else:
            for s, mv in zip(smp, vals):
                ck.case([s["f"], s["args"]])
                want = s["value"] % (1 << 32) if s["f"].startswith("get_") and "gid" not in s["f"] else s["value"]
                if mv != want:
                    ck.tie_broken("correspondence", f"{s['f']}{s['args']}", f"model={mv} implementation(Python int)={s['value']}")


def replay(path):
    print(open(path).read()[:3000])
    rc, so, se = vlib.run_impl_script("c14_impl.py", [1, "quick"], timeout=1500)
    r = json.loads(so)
    print("current:", [v["key"] for v in r["violations"]])
    return 1 if r["violations"] else 0
