#!/usr/bin/env python3
"""Fail-closed translator: integer kernels of pybes3 (numba @vectorize bodies) -> Gallina over Z.

Grammar accepted (anything else raises Untranslatable => the model cannot be regenerated):
  module level : docstring, imports, NAME = np.uintN(int) | int | float (floats are skipped on request),
                 @nb.vectorize(...) def f(args): body, plain def matching one of the wrapper patterns,
                 other statements only if their (unparsed) text is whitelisted by the caller.
  body         : docstring; x = e; x op= e; if c: S [else: S]; return e
  expressions  : names, int literals, & | ^ << >> + - * //, ~, == != < <= > >=, and/or/not,
                 np.uint8/16/32/int8(...), calls of other translated kernels, table[e] / table[e, e]

Semantic rules (trusted, validated by the correspondence sweeps):
  integers are unbounded Z (numba evaluates in >= 64 bits; all results are masked/cast to <= 32 bits);
  np.uintN(e) = e mod 2^N; `~e` = Z.lnot e on integers, negb on booleans; a boolean used as an
  integer operand is b2z; table[e] = zlookup table e (default 0 outside — side conditions in theorems).
"""
from __future__ import annotations

import ast
import sys


class Untranslatable(Exception):
    pass


CASTS = {"uint8": "u8", "uint16": "u16", "uint32": "u32"}
BINOPS = {
    ast.BitAnd: "Z.land", ast.BitOr: "Z.lor", ast.BitXor: "Z.lxor", ast.LShift: "Z.shiftl",
    ast.RShift: "Z.shiftr", ast.Add: "Z.add", ast.Sub: "Z.sub", ast.Mult: "Z.mul", ast.FloorDiv: "Z.div",
}
CMPOPS = {ast.Eq: "Z.eqb", ast.Lt: "Z.ltb", ast.LtE: "Z.leb", ast.Gt: "Z.gtb", ast.GtE: "Z.geb"}


COQ_RESERVED = {"end", "at", "as", "in", "if", "then", "else", "match", "with", "fun", "forall", "exists", "let",
                "fix", "cofix", "return", "Type", "Prop", "Set", "where", "using", "for", "mod", "IF", "by"}


def mangle(name: str) -> str:
    return name + "_" if name in COQ_RESERVED else name


def zlit(n: int) -> str:
    return f"({n})" if n < 0 else str(n)


class FuncTranslator:
    def __init__(self, mod: "ModuleTranslator", fn: ast.FunctionDef, bool_params=()):
        self.mod = mod
        self.fn = fn
        self.env = {}  # local name -> type
        for a in fn.args.args:
            ann = ast.unparse(a.annotation) if a.annotation is not None else ""
            self.env[a.arg] = "bool" if a.arg in bool_params else ("R" if ann == "FloatLike" else "Z")
        self.ret_type = None

    def fail(self, node, why):
        raise Untranslatable(f"{self.mod.fname}:{getattr(node, 'lineno', '?')}: {self.fn.name}: {why}: "
                             f"{ast.unparse(node) if isinstance(node, ast.AST) else node}")

    # expression -> (coq text, type)
    def expr(self, e, env):
        if isinstance(e, ast.Constant):
            if isinstance(e.value, bool):
                return ("true" if e.value else "false"), "bool"
            if isinstance(e.value, int):
                return zlit(e.value), "Z"
            self.fail(e, "unsupported constant")
        if isinstance(e, ast.Name):
            if e.id in env:
                return mangle(e.id), env[e.id]
            if e.id in self.mod.consts:
                return mangle(e.id), "Z"
            self.fail(e, "unknown name")
        if isinstance(e, ast.BinOp):
            ta, tya = self.expr(e.left, env)
            tb, tyb = self.expr(e.right, env)
            if "R" in (tya, tyb):
                rop = {ast.Add: "Rplus", ast.Sub: "Rminus", ast.Mult: "Rmult", ast.Div: "Rdiv"}.get(type(e.op))
                if rop is None:
                    self.fail(e, "unsupported real operator")
                return f"({rop} {self.as_r(e.left, env)} {self.as_r(e.right, env)})", "R"
            op = BINOPS.get(type(e.op))
            if op is None:
                self.fail(e, "unsupported binary operator")
            a = self.as_z(e.left, env)
            b = self.as_z(e.right, env)
            return f"({op} {a} {b})", "Z"
        if isinstance(e, ast.UnaryOp):
            if isinstance(e.op, ast.Invert):
                t, ty = self.expr(e.operand, env)
                return (f"(negb {t})", "bool") if ty == "bool" else (f"(Z.lnot {t})", "Z")
            if isinstance(e.op, ast.Not):
                return f"(negb {self.as_bool(e.operand, env)})", "bool"
            if isinstance(e.op, ast.USub):
                return f"(Z.opp {self.as_z(e.operand, env)})", "Z"
            self.fail(e, "unsupported unary operator")
        if isinstance(e, ast.Compare):
            if len(e.ops) != 1:
                self.fail(e, "chained comparison")
            a = self.as_z(e.left, env)
            b = self.as_z(e.comparators[0], env)
            if isinstance(e.ops[0], ast.NotEq):
                return f"(negb (Z.eqb {a} {b}))", "bool"
            op = CMPOPS.get(type(e.ops[0]))
            if op is None:
                self.fail(e, "unsupported comparison")
            return f"({op} {a} {b})", "bool"
        if isinstance(e, ast.BoolOp):
            op = "orb" if isinstance(e.op, ast.Or) else "andb"
            parts = [self.as_bool(v, env) for v in e.values]
            t = parts[0]
            for p in parts[1:]:
                t = f"({op} {t} {p})"
            return t, "bool"
        if isinstance(e, ast.Call):
            f = e.func
            if (ast.unparse(f) == "np.digitize" and len(e.args) == 2 and isinstance(e.args[1], ast.Name)
                    and e.args[1].id in getattr(self.mod, "digitize_tables", {})
                    and [(k.arg, ast.unparse(k.value)) for k in e.keywords] == [("right", "False")]):
                return f"(digitize {self.mod.digitize_tables[e.args[1].id]} {self.as_z(e.args[0], env)})", "Z"
            if e.keywords:
                self.fail(e, "keyword arguments")
            if isinstance(f, ast.Attribute) and isinstance(f.value, ast.Name) and f.value.id == "np":
                if f.attr in CASTS and len(e.args) == 1:
                    return f"({CASTS[f.attr]} {self.as_z(e.args[0], env)})", "Z"
                self.fail(e, "unsupported numpy call")
            if isinstance(f, ast.Name) and f.id in self.mod.funcs:
                sig = self.mod.funcs[f.id]
                if len(sig["params"]) != len(e.args):
                    self.fail(e, "arity mismatch")
                args = []
                for (pn, pt), a in zip(sig["params"], e.args):
                    args.append(self.as_bool(a, env) if pt == "bool" else self.as_z(a, env))
                return f"({f.id} {' '.join(args)})", sig["ret"]
            self.fail(e, "unsupported call")
        if isinstance(e, ast.Subscript):
            if not (isinstance(e.value, ast.Name) and e.value.id in self.mod.tables):
                self.fail(e, "subscript of something that is not a known table")
            tname, tkind = self.mod.tables[e.value.id]
            idx = e.slice
            if isinstance(idx, ast.Tuple):
                if len(idx.elts) != 2:
                    self.fail(e, "table index arity")
                i = self.as_z(idx.elts[0], env)
                j = self.as_z(idx.elts[1], env)
                if tkind == "R":
                    return f"(rlookup2 {tname} {i} {j})", "R"
                return f"(tlookup2 {tname} {i} {j})", tkind
            if tkind == "RF":
                return f"({tname} {self.as_z(idx, env)})", "R"
            if tkind == "R":
                return f"(rlookup {tname} {self.as_z(idx, env)})", "R"
            return f"(tlookup {tname} {self.as_z(idx, env)})", tkind
        self.fail(e, "unsupported expression")

    def as_z(self, e, env):
        t, ty = self.expr(e, env)
        if ty == "bool":
            return f"(b2z {t})"
        if ty == "R":
            self.fail(e, "real value used as integer")
        return t

    def as_r(self, e, env):
        t, ty = self.expr(e, env)
        if ty == "R":
            return t
        if ty == "bool":
            return f"(IZR (b2z {t}))"
        return f"(IZR {t})"

    def as_bool(self, e, env):
        t, ty = self.expr(e, env)
        if ty != "bool":
            self.fail(e, "integer used as condition")
        return t

    def note_ret(self, ty, node):
        if self.ret_type is None:
            self.ret_type = ty
        elif self.ret_type != ty:
            self.fail(node, f"return types differ ({self.ret_type} vs {ty})")

    # statement list -> coq expression
    def stmts(self, body, env, fallthrough=None):
        if not body:
            if fallthrough is None:
                raise Untranslatable(f"{self.mod.fname}: {self.fn.name}: control reaches end without return")
            return fallthrough(env)
        s, rest = body[0], body[1:]
        if isinstance(s, ast.Expr) and isinstance(s.value, ast.Constant) and isinstance(s.value.value, str):
            return self.stmts(rest, env, fallthrough)
        if isinstance(s, ast.Return):
            if s.value is None:
                self.fail(s, "bare return")
            t, ty = self.expr(s.value, env)
            self.note_ret(ty, s)
            return t
        if isinstance(s, ast.Assign):
            if len(s.targets) != 1 or not isinstance(s.targets[0], ast.Name):
                self.fail(s, "unsupported assignment target")
            t, ty = self.expr(s.value, env)
            env2 = dict(env)
            env2[s.targets[0].id] = ty
            return f"(let {mangle(s.targets[0].id)} := {t} in {self.stmts(rest, env2, fallthrough)})"
        if isinstance(s, ast.AugAssign):
            if not isinstance(s.target, ast.Name) or s.target.id not in env:
                self.fail(s, "unsupported augmented assignment")
            op = BINOPS.get(type(s.op))
            if op is None:
                self.fail(s, "unsupported augmented operator")
            cur = mangle(s.target.id) if env[s.target.id] == "Z" else f"(b2z {mangle(s.target.id)})"
            t = f"({op} {cur} {self.as_z(s.value, env)})"
            env2 = dict(env)
            env2[s.target.id] = "Z"
            return f"(let {mangle(s.target.id)} := {t} in {self.stmts(rest, env2, fallthrough)})"
        if isinstance(s, ast.If):
            c = self.as_bool(s.test, env)
            cont = lambda env_: self.stmts(rest, env_, fallthrough)
            # Locals assigned inside a branch are visible after it only through the duplicated continuation.
            a = self.stmts(s.body, env, cont)
            b = self.stmts(s.orelse, env, cont) if s.orelse else cont(env)
            return f"(if {c} then {a} else {b})"
        self.fail(s, "unsupported statement")

    def translate(self):
        body = self.stmts(self.fn.body, dict(self.env))
        return body


class ModuleTranslator:
    def __init__(self, fname, tables=None, skip_stmt_ok=None, bool_variants=None, float_consts_ok=True):
        self.fname = fname
        self.src = open(fname).read()
        self.tree = ast.parse(self.src, fname)
        self.consts = {}  # name -> int
        self.funcs = {}  # name -> {"params": [(n,t)], "ret": t}
        self.tables = tables or {}  # python global name -> coq table name
        self.skip_ok = skip_stmt_ok or (lambda node, text: False)
        self.bool_variants = bool_variants or {}  # fn name -> tuple of param names to treat as bool (extra variant)
        self.out = []
        self.log = []  # what was translated (goes into evidence)
        self.float_consts_ok = float_consts_ok

    def is_vectorize(self, fn):
        for d in fn.decorator_list:
            t = ast.unparse(d)
            if t.startswith("nb.vectorize") or t.startswith("numba.vectorize"):
                return True
        return False

    def const_value(self, v):
        # np.uintN(int) | int | -int
        if isinstance(v, ast.Constant) and isinstance(v.value, int) and not isinstance(v.value, bool):
            return v.value
        if (isinstance(v, ast.Call) and isinstance(v.func, ast.Attribute) and isinstance(v.func.value, ast.Name)
                and v.func.value.id == "np" and v.func.attr in ("uint8", "uint16", "uint32", "uint64")
                and len(v.args) == 1 and isinstance(v.args[0], ast.Constant) and isinstance(v.args[0].value, int)):
            bits = int(v.func.attr[4:])
            return v.args[0].value % (1 << bits)
        return None

    def emit_func(self, fn, coqname=None, bool_params=()):
        ft = FuncTranslator(self, fn, bool_params)
        body = ft.translate()
        params = [(a.arg, ft.env[a.arg]) for a in fn.args.args]
        ret = ft.ret_type
        cret = {"Z": "Z", "bool": "bool", "R": "R"}[ret]
        name = coqname or fn.name
        ps = " ".join(f"({mangle(n)} : {t})" for n, t in params)
        self.out.append(f"Definition {name} {ps} : {cret} :=\n  {body}.\n")
        self.funcs[name] = {"params": params, "ret": ret}
        self.log.append(f"{name}/{len(params)}:{ret}")

    def wrapper(self, fn):
        """plain-def patterns: alias `return g(x)`; dispatch `if p is None: return f1(x) else: return f2(x, p)`."""
        body = [s for s in fn.body if not (isinstance(s, ast.Expr) and isinstance(s.value, ast.Constant))]
        args = [a.arg for a in fn.args.args]
        if len(body) == 1 and isinstance(body[0], ast.Return) and isinstance(body[0].value, ast.Call):
            c = body[0].value
            if (isinstance(c.func, ast.Name) and c.func.id in self.funcs and not c.keywords
                    and [ast.unparse(a) for a in c.args] == args):
                sig = self.funcs[c.func.id]
                ps = " ".join(f"({n} : Z)" for n in args)
                self.out.append(f"Definition {fn.name} {ps} := {c.func.id} {' '.join(args)}.\n")
                self.funcs[fn.name] = {"params": [(n, "Z") for n in args], "ret": sig["ret"]}
                self.log.append(f"{fn.name}=alias({c.func.id})")
                return True
        if (len(body) == 1 and isinstance(body[0], ast.If) and len(args) == 2
                and ast.unparse(body[0].test) == f"{args[1]} is None"
                and len(body[0].body) == 1 and len(body[0].orelse) == 1
                and isinstance(body[0].body[0], ast.Return) and isinstance(body[0].orelse[0], ast.Return)):
            c1, c2 = body[0].body[0].value, body[0].orelse[0].value
            if (isinstance(c1, ast.Call) and isinstance(c2, ast.Call) and isinstance(c1.func, ast.Name)
                    and isinstance(c2.func, ast.Name) and c1.func.id in self.funcs and c2.func.id in self.funcs
                    and [ast.unparse(a) for a in c1.args] == args[:1]
                    and [ast.unparse(a) for a in c2.args] == args and not c1.keywords and not c2.keywords):
                self.out.append(f"Definition {fn.name}_none ({args[0]} : Z) := {c1.func.id} {args[0]}.\n")
                self.out.append(f"Definition {fn.name}_some ({args[0]} : Z) ({args[1]} : Z) := "
                                f"{c2.func.id} {args[0]} {args[1]}.\n")
                self.funcs[fn.name + "_none"] = {"params": [(args[0], "Z")], "ret": self.funcs[c1.func.id]["ret"]}
                self.funcs[fn.name + "_some"] = {"params": [(a, "Z") for a in args], "ret": self.funcs[c2.func.id]["ret"]}
                self.log.append(f"{fn.name}=dispatch({c1.func.id},{c2.func.id})")
                return True
        return False

    def run(self, only=None):
        for node in self.tree.body:
            text = ast.unparse(node)
            if isinstance(node, ast.Expr) and isinstance(node.value, ast.Constant) and isinstance(node.value.value, str):
                continue
            if isinstance(node, (ast.Import, ast.ImportFrom)):
                continue
            if isinstance(node, ast.Assign) and len(node.targets) == 1 and isinstance(node.targets[0], ast.Name):
                v = self.const_value(node.value)
                if v is not None:
                    name = node.targets[0].id
                    self.consts[name] = v
                    self.out.append(f"Definition {name} : Z := {zlit(v)}.")
                    continue
            if isinstance(node, ast.FunctionDef):
                if only is not None and node.name not in only:
                    if self.skip_ok(node, text):
                        continue
                    raise Untranslatable(f"{self.fname}:{node.lineno}: unexpected function {node.name}")
                if self.is_vectorize(node):
                    self.emit_func(node)
                    if node.name in self.bool_variants:
                        self.emit_func(node, coqname=node.name + "_b", bool_params=self.bool_variants[node.name])
                    continue
                if self.wrapper(node):
                    continue
                if self.skip_ok(node, text):
                    continue
                raise Untranslatable(f"{self.fname}:{node.lineno}: function {node.name} matches no known pattern")
            if self.skip_ok(node, text):
                continue
            raise Untranslatable(f"{self.fname}:{node.lineno}: unrecognised module-level statement: {text[:80]}")
        return "\n".join(self.out)


HEADER = """(* GENERATED on every run by tools/py2coq_bits.py from {src} — do not edit *)
From Coq Require Import ZArith Bool List.
From PV.Lib Require Import Bits.
Local Open Scope Z_scope.
"""


def translate_digi_id(src_path: str) -> tuple[str, list[str]]:
    mt = ModuleTranslator(src_path, bool_variants={"get_cgem_digi_id": ("is_x_strip",)})
    body = mt.run()
    tac = "Ltac digi_consts := unfold " + ", ".join(mangle(c) for c in mt.consts) + " in *.\n"
    return HEADER.format(src=src_path) + "\n" + body + "\n" + tac, mt.log


if __name__ == "__main__":
    text, log = translate_digi_id(sys.argv[1])
    open(sys.argv[2], "w").write(text)
    print("translated:", len(log), "definitions")
