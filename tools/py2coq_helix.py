#!/usr/bin/env python3
"""Fail-closed translator for the numeric core of pybes3/tracks/helix.py -> Gallina over R (and back to Python for
numeric validation of the translation rules).

It symbolically executes the straight-line/branching code of `_change_pivot`, the HelixObject properties, the numba
kernels and the physics branch of `helix_obj` over an expression IR.  Rules (trusted, validated numerically each run):
  vector.obj(rho=a, phi=b) / vector.arr({"rho":a,"phi":b}) -> cartesian (a cos b, a sin b);  v.to_2D(), +, - componentwise;
  .rho -> sqrt(x^2+y^2);  .phi -> atan2 y x;  float % -> pymod x m = x - m*floor(x/m);  np.sign -> Rsign;
  np.where(c, a, b) / `if c: v op= e` -> if-then-else;  np.isclose(a, b) -> |a-b| <= 1e-8 + 1e-5*|b|;
  isinstance(..., np.ndarray / VectorNumpy3D) selects the array-mode definition in which every NumPy operation acts
  element-wise EXCEPT the coupling operations {np.unwrap, cumsum, diff, roll, sort, reductions}, which are reported.
Anything outside the grammar raises Untranslatable.
"""
from __future__ import annotations

import ast
from fractions import Fraction


class Untranslatable(Exception):
    pass


# ------------------------------------------------------------------------------------------------ IR
class E:
    pass


class Sym(E):
    def __init__(self, n): self.n = n
class Num(E):
    def __init__(self, text): self.text = text; self.q = Fraction(text)
class Pi(E):
    pass
class Bin(E):
    def __init__(self, op, a, b): self.op, self.a, self.b = op, a, b
class Neg(E):
    def __init__(self, a): self.a = a
class Fn(E):
    def __init__(self, f, *args): self.f, self.args = f, args
class Ite(E):  # if a > b then t else e     (kind: 'gt' | 'lt')
    def __init__(self, kind, a, b, t, e): self.kind, self.a, self.b, self.t, self.e = kind, a, b, t, e
class NotClose(E):  # used only as condition: not np.isclose(a, b)
    def __init__(self, a, b): self.a, self.b = a, b
class IteNC(E):  # if not isclose(a,b) then t else e
    def __init__(self, a, b, t, e): self.a, self.b, self.t, self.e = a, b, t, e
class Coupling(E):
    def __init__(self, f, a): self.f, self.a = f, a
class Ref(E):  # reference to a named intermediate definition
    def __init__(self, name): self.name = name


COUPLING = {"unwrap", "cumsum", "diff", "roll", "sort", "sum", "mean", "max", "min", "cumprod", "argsort"}


REF_PREFIX = [""]
REF_ARGS = [""]


def coq(e: E) -> str:
    if isinstance(e, Sym): return e.n
    if isinstance(e, Ref): return f"({REF_PREFIX[0]}{e.name} {REF_ARGS[0]})"
    if isinstance(e, Num):
        q = e.q
        if q.denominator == 1:
            return str(q.numerator) if q >= 0 else f"(- {-q.numerator})"
        s = f"({abs(q.numerator)} / {q.denominator})"
        return s if q >= 0 else f"(- {s})"
    if isinstance(e, Pi): return "PI"
    if isinstance(e, Bin): return f"({coq(e.a)} {e.op} {coq(e.b)})"
    if isinstance(e, Neg): return f"(- {coq(e.a)})"
    if isinstance(e, Fn):
        name = {"abs": "Rabs", "sign": "Rsign", "atan2": "atan2", "pymod": "pymod"}.get(e.f, e.f)
        return "(" + name + " " + " ".join(coq(a) for a in e.args) + ")"
    if isinstance(e, Ite):
        c = f"Rlt_dec {coq(e.b)} {coq(e.a)}" if e.kind == "gt" else f"Rlt_dec {coq(e.a)} {coq(e.b)}"
        return f"(if {c} then {coq(e.t)} else {coq(e.e)})"
    if isinstance(e, IteNC):
        return f"(if isclose_dec {coq(e.a)} {coq(e.b)} then {coq(e.e)} else {coq(e.t)})"
    if isinstance(e, Coupling):
        raise Untranslatable(f"coupling operation np.{e.f} cannot be rendered as a per-track real expression")
    raise Untranslatable(f"cannot render {e!r}")


def py(e: E) -> str:
    if isinstance(e, Sym): return e.n
    if isinstance(e, Ref): return "v_" + e.name
    if isinstance(e, Num): return f"({e.text})"
    if isinstance(e, Pi): return "math.pi"
    if isinstance(e, Bin): return f"({py(e.a)} {e.op} {py(e.b)})"
    if isinstance(e, Neg): return f"(-{py(e.a)})"
    if isinstance(e, Fn):
        name = {"abs": "abs", "sign": "_sign", "atan2": "math.atan2", "pymod": "_pymod", "cos": "math.cos",
                "sin": "math.sin", "sqrt": "math.sqrt"}[e.f]
        return name + "(" + ", ".join(py(a) for a in e.args) + ")"
    if isinstance(e, Ite):
        op = ">" if e.kind == "gt" else "<"
        return f"({py(e.t)} if {py(e.a)} {op} {py(e.b)} else {py(e.e)})"
    if isinstance(e, IteNC):
        return f"({py(e.t)} if not _isclose({py(e.a)}, {py(e.b)}) else {py(e.e)})"
    raise Untranslatable(f"cannot render {e!r}")


def has_coupling(e) -> list:
    out = []
    def walk(x):
        if isinstance(x, Coupling): out.append(x.f); walk(x.a)
        elif isinstance(x, Bin): walk(x.a); walk(x.b)
        elif isinstance(x, Neg): walk(x.a)
        elif isinstance(x, Fn):
            for a in x.args: walk(a)
        elif isinstance(x, (Ite,)):
            for a in (x.a, x.b, x.t, x.e): walk(a)
        elif isinstance(x, IteNC):
            for a in (x.a, x.b, x.t, x.e): walk(a)
    walk(e)
    return out


# ------------------------------------------------------------------------------------------------ values
class V2:
    def __init__(self, x, y, polar=None): self.x, self.y, self.polar = x, y, polar
class V3:
    def __init__(self, x, y, z): self.x, self.y, self.z = x, y, z
class Mom:  # momentum given in (pt, phi, pz) or (px, py, pz)
    def __init__(self, pt, phi, pz): self.pt, self.phi, self.pz = pt, phi, pz
class Mat:
    def __init__(self): self.ent = {}
class NoneV:
    pass
class ErrSym:
    pass


def sq(e): return Bin("*", e, e)


class Exec:
    """symbolic execution of one function body"""
    def __init__(self, fname, src_name, array_mode: bool, with_error: bool):
        self.fname, self.src_name, self.array, self.with_error = fname, src_name, array_mode, with_error
        self.jeJt = None
        self.transposes = []
        self.ret = None
        self.defs = []      # (name, expr) in order, when naming is on
        self.naming = False
        self.versions = {}

    def define(self, var, val):
        """name scalar / vector intermediates so that the emitted model keeps the code's structure"""
        if not self.naming:
            return val
        def nm(base):
            n = self.versions.get(base, 0) + 1
            self.versions[base] = n
            return base if n == 1 else f"{base}_{n}"
        if isinstance(val, E) and not isinstance(val, (Sym, Num, Pi, Ref)):
            name = nm(var)
            self.defs.append((name, val))
            return Ref(name)
        if isinstance(val, V2):
            nx, ny = nm(var + "_x"), nm(var + "_y")
            self.defs.append((nx, val.x)); self.defs.append((ny, val.y))
            return V2(Ref(nx), Ref(ny), polar=val.polar)
        return val

    def fail(self, node, why):
        raise Untranslatable(f"{self.src_name}:{getattr(node, 'lineno', '?')}: {self.fname}: {why}: {ast.unparse(node)[:120]}")

    # ---- expressions
    def ev(self, e, env):
        if isinstance(e, ast.Constant):
            if e.value is None: return NoneV()
            if isinstance(e.value, bool): self.fail(e, "boolean constant")
            if isinstance(e.value, (int, float)): return Num(repr(e.value) if isinstance(e.value, float) else str(e.value))
            self.fail(e, "constant")
        if isinstance(e, ast.Name):
            if e.id in env: return env[e.id]
            self.fail(e, "unknown name")
        if isinstance(e, ast.Attribute):
            t = ast.unparse(e)
            if t == "np.pi": return Pi()
            v = self.ev(e.value, env)
            if isinstance(v, V3) and e.attr in ("x", "y", "z"): return getattr(v, e.attr)
            if isinstance(v, V2):
                if e.attr in ("x", "y"): return getattr(v, e.attr)
                if e.attr == "rho": return v.polar[0] if v.polar else Fn("sqrt", Bin("+", sq(v.x), sq(v.y)))
                if e.attr == "phi": return v.polar[1] if v.polar else Fn("atan2", v.y, v.x)
            if isinstance(v, Mom) and e.attr in ("pt", "phi", "pz"): return getattr(v, e.attr)
            if isinstance(v, Mat) and e.attr == "T": return ("T", v)
            self.fail(e, "attribute")
        if isinstance(e, ast.UnaryOp) and isinstance(e.op, ast.USub):
            return Neg(self.sc(e.operand, env))
        if isinstance(e, ast.BinOp):
            if isinstance(e.op, ast.MatMult): self.fail(e, "matmul outside the J E J^T pattern")
            a = self.ev(e.left, env); b = self.ev(e.right, env)
            op = {ast.Add: "+", ast.Sub: "-", ast.Mult: "*", ast.Div: "/"}.get(type(e.op))
            if isinstance(e.op, ast.Mod):
                return Fn("pymod", self.as_sc(a, e), self.as_sc(b, e))
            if op is None: self.fail(e, "operator")
            if isinstance(a, V2) and isinstance(b, V2) and op in "+-":
                return V2(Bin(op, a.x, b.x), Bin(op, a.y, b.y))
            if isinstance(a, V3) and isinstance(b, V3) and op in "+-":
                return V3(Bin(op, a.x, b.x), Bin(op, a.y, b.y), Bin(op, a.z, b.z))
            return Bin(op, self.as_sc(a, e), self.as_sc(b, e))
        if isinstance(e, ast.Call):
            f = ast.unparse(e.func)
            if f in ("np.cos", "np.sin", "math.cos", "math.sin", "np.sqrt", "math.sqrt") and len(e.args) == 1:
                return Fn(f.split(".")[1], self.sc(e.args[0], env))
            if f in ("np.abs", "abs") and len(e.args) == 1: return Fn("abs", self.sc(e.args[0], env))
            if f == "np.sign" and len(e.args) == 1: return Fn("sign", self.sc(e.args[0], env))
            if f.startswith("np.") and f[3:] in COUPLING and len(e.args) >= 1:
                return Coupling(f[3:], self.sc(e.args[0], env))
            if f == "np.where" and len(e.args) == 3 and isinstance(e.args[0], ast.Compare):
                k, a, b = self.cmp(e.args[0], env)
                return Ite(k, a, b, self.sc(e.args[1], env), self.sc(e.args[2], env))
            if f in ("vector.obj", "vector.VectorObject3D", "vector.VectorObject2D") and not e.args:
                kw = {k.arg: self.sc(k.value, env) for k in e.keywords}
                if set(kw) == {"rho", "phi"}:
                    return V2(Bin("*", kw["rho"], Fn("cos", kw["phi"])), Bin("*", kw["rho"], Fn("sin", kw["phi"])), polar=(kw["rho"], kw["phi"]))
                if set(kw) == {"x", "y", "z"}: return V3(kw["x"], kw["y"], kw["z"])
                if set(kw) == {"pt", "phi", "pz"}: return Mom(kw["pt"], kw["phi"], kw["pz"])
                self.fail(e, "vector constructor")
            if f == "vector.arr" and len(e.args) == 1 and isinstance(e.args[0], ast.Dict):
                d = {k.value: self.sc(v, env) for k, v in zip(e.args[0].keys, e.args[0].values)}
                if set(d) == {"rho", "phi"}:
                    return V2(Bin("*", d["rho"], Fn("cos", d["phi"])), Bin("*", d["rho"], Fn("sin", d["phi"])), polar=(d["rho"], d["phi"]))
                self.fail(e, "vector.arr constructor")
            if isinstance(e.func, ast.Attribute) and e.func.attr == "to_2D" and not e.args:
                v = self.ev(e.func.value, env)
                if isinstance(v, V3): return V2(v.x, v.y)
            # np.zeros_like(x) / np.zeros_like(x, dtype=np.float64): the zero matrix over R (an element type is outside the R model; the
            # integer-typed case is covered by the numeric search, where it matters)
            if f == "np.zeros_like" and len(e.args) == 1 and all(k.arg == "dtype" and ast.unparse(k.value) in ("np.float64", "float") for k in e.keywords): return Mat()
            if f in env and callable(env[f]):
                return env[f](*[self.ev(a, env) for a in e.args])
            self.fail(e, "call")
        if isinstance(e, ast.IfExp):
            if isinstance(e.test, ast.Compare):
                k, a, b = self.cmp(e.test, env)
                return Ite(k, a, b, self.sc(e.body, env), self.sc(e.orelse, env))
        self.fail(e, "expression")

    def as_sc(self, v, node):
        if isinstance(v, E): return v
        self.fail(node, "scalar expected")

    def sc(self, e, env): return self.as_sc(self.ev(e, env), e)

    def cmp(self, c, env):
        if len(c.ops) != 1: self.fail(c, "comparison")
        a = self.sc(c.left, env); b = self.sc(c.comparators[0], env)
        if isinstance(c.ops[0], ast.Gt): return "gt", a, b
        if isinstance(c.ops[0], ast.Lt): return "lt", a, b
        self.fail(c, "comparison operator")

    # ---- static tests
    def static_test(self, t, env):
        s = ast.unparse(t)
        if s.startswith("isinstance("):
            args = t.args
            target = ast.unparse(args[1])
            if "VectorObject3D" in target: return not self.array
            if "VectorNumpy3D" in target or "np.ndarray" in target: return self.array
            self.fail(t, "isinstance target")
        if s == "old_error is not None": return self.with_error
        if s == "jacobian.ndim == 3": return self.array
        return None

    # ---- statements
    def run(self, body, env):
        for s in body:
            if self.ret is not None: return
            if isinstance(s, ast.Expr) and isinstance(s.value, ast.Constant): continue
            if isinstance(s, ast.Raise): self.fail(s, "reachable raise")
            if isinstance(s, ast.Return):
                self.ret = s.value
                self.ret_env = dict(env)
                return
            if isinstance(s, (ast.Assign, ast.AnnAssign)):
                tgt = s.targets[0] if isinstance(s, ast.Assign) else s.target
                txt = ast.unparse(s.value)
                if isinstance(tgt, ast.Subscript) and ast.unparse(tgt.value) == "jacobian":
                    idx = tgt.slice
                    if not (isinstance(idx, ast.Tuple) and len(idx.elts) == 2 and all(isinstance(i, ast.Constant) for i in idx.elts)):
                        self.fail(s, "jacobian index")
                    env["jacobian"].ent[(idx.elts[0].value, idx.elts[1].value)] = self.sc(s.value, env)
                    continue
                if not isinstance(tgt, ast.Name): self.fail(s, "assignment target")
                if tgt.id == "jacobian" and txt.startswith("jacobian.transpose("):
                    self.transposes.append(txt)
                    continue
                if tgt.id == "new_error":
                    if txt in ("jacobian @ old_error @ jacobian.T", "jacobian @ old_error @ jacobian.transpose(0, 2, 1)"):
                        self.jeJt = dict(env["jacobian"].ent)
                        env["new_error"] = ErrSym()
                        continue
                    if txt == "None":
                        env["new_error"] = NoneV(); continue
                    self.fail(s, "error propagation is not J E J^T")
                env[tgt.id] = self.define(tgt.id, self.ev(s.value, env))
                continue
            if isinstance(s, ast.AugAssign) and isinstance(s.target, ast.Name):
                op = {ast.Add: "+", ast.Sub: "-", ast.Mult: "*", ast.Div: "/"}.get(type(s.op))
                if op is None: self.fail(s, "augmented operator")
                env[s.target.id] = Bin(op, self.as_sc(env[s.target.id], s), self.sc(s.value, env))
                continue
            if isinstance(s, ast.If):
                st = self.static_test(s.test, env)
                if st is True: self.run(s.body, env); continue
                if st is False: self.run(s.orelse, env); continue
                # runtime condition: merge assigned scalars
                if isinstance(s.test, ast.Compare):
                    k, a, b = self.cmp(s.test, env)
                    mk = lambda t, e: Ite(k, a, b, t, e)
                elif (isinstance(s.test, ast.UnaryOp) and isinstance(s.test.op, ast.Not) and isinstance(s.test.operand, ast.Call)
                      and ast.unparse(s.test.operand.func) == "np.isclose" and len(s.test.operand.args) == 2 and not s.test.operand.keywords):
                    a = self.sc(s.test.operand.args[0], env); b = self.sc(s.test.operand.args[1], env)
                    mk = lambda t, e: IteNC(a, b, t, e)
                else:
                    self.fail(s, "condition")
                was = self.naming; self.naming = False
                e1 = dict(env); self.run(s.body, e1)
                e2 = dict(env); self.run(s.orelse, e2)
                self.naming = was
                if self.ret is not None: self.fail(s, "return inside runtime branch")
                for k2 in set(e1) | set(e2):
                    v1, v2 = e1.get(k2), e2.get(k2)
                    if v1 is v2: env[k2] = v1
                    elif isinstance(v1, E) and isinstance(v2, E): env[k2] = self.define(k2, mk(v1, v2))
                    else: self.fail(s, f"branch assigns non-scalar {k2}")
                continue
            self.fail(s, "statement")


def find_func(tree, name, cls=None):
    body = tree.body
    if cls:
        c = next((n for n in body if isinstance(n, ast.ClassDef) and n.name == cls), None)
        if c is None: raise Untranslatable(f"class {cls} not found")
        body = c.body
    fs = [n for n in body if isinstance(n, ast.FunctionDef) and n.name == name
          and not any(ast.unparse(d) == "overload" for d in n.decorator_list)]
    f = fs[-1] if fs else None
    if f is None: raise Untranslatable(f"function {cls + '.' if cls else ''}{name} not found")
    return f


def translate(path: str):
    """returns dict with IR for every translated quantity"""
    src = open(path).read()
    tree = ast.parse(src, path)
    out = {"coupling": {}}
    cp = find_func(tree, "_change_pivot")
    argn = [a.arg for a in cp.args.args]
    if argn != ["r", "old_dr", "old_phi0", "old_dz", "kappa", "tanl", "old_error", "old_pivot", "new_pivot"]:
        raise Untranslatable(f"_change_pivot signature changed: {argn}")
    for mode in ("obj", "arr"):
        ex = Exec("_change_pivot", path, array_mode=(mode == "arr"), with_error=True)
        ex.naming = True
        env = {"r": Sym("r_in"), "old_dr": Sym("dr"), "old_phi0": Sym("phi0"), "old_dz": Sym("dz"), "kappa": Sym("kappa"),
               "tanl": Sym("tanl"), "old_error": ErrSym(), "old_pivot": V3(Sym("x0"), Sym("y0"), Sym("z0")),
               "new_pivot": V3(Sym("x1"), Sym("y1"), Sym("z1"))}
        ex.run(cp.body, env)
        if ex.ret is None or ast.unparse(ex.ret) != "(new_dr, new_phi0, new_dz, new_error)":
            raise Untranslatable("_change_pivot: unexpected return")
        e = ex.ret_env
        if ex.jeJt is None:
            raise Untranslatable("_change_pivot: error propagation J E J^T not found")
        if mode == "arr" and ex.transposes != ["jacobian.transpose(1, 2, 0)", "jacobian.transpose(2, 0, 1)"]:
            raise Untranslatable(f"_change_pivot: batch transposition bookkeeping changed: {ex.transposes}")
        res = {"new_dr": e["new_dr"], "new_phi0": e["new_phi0"], "new_dz": e["new_dz"], "dphi": e["dphi"], "J": ex.jeJt,
               "defs": ex.defs}
        cpl = sorted(set(sum([has_coupling(v) for _, v in ex.defs] + [has_coupling(v) for v in ex.jeJt.values()], [])))
        out["coupling"][mode] = cpl
        out["cp_" + mode] = res
        # no-error variant must return None for the error
        ex2 = Exec("_change_pivot", path, array_mode=(mode == "arr"), with_error=False)
        env2 = dict(env); env2["old_error"] = NoneV()
        ex2.run(cp.body, env2)
        if not isinstance(ex2.ret_env.get("new_error"), NoneV):
            raise Untranslatable("_change_pivot: helix without error matrix does not stay without one")
    # ---- HelixObject properties
    def method(cls, name, env, props=True):
        f = find_func(tree, name, cls)
        ex = Exec(f"{cls}.{name}", path, False, False)
        ex.run(f.body, env)
        if ex.ret is None: raise Untranslatable(f"{cls}.{name}: no return")
        return ex, ex.ev(ex.ret, ex.ret_env)
    class SelfObj:
        pass
    def self_env():
        s = {"self.dr": Sym("dr"), "self.phi0": Sym("phi0"), "self.kappa": Sym("kappa"), "self.dz": Sym("dz"), "self.tanl": Sym("tanl")}
        return s
    # attribute access self.x is handled by pre-binding a V-like object: implement through a tiny shim
    class SelfV:
        pass
    def run_prop(name):
        f = find_func(tree, name, "HelixObject")
        ex = Exec(f"HelixObject.{name}", path, False, False)
        selfv = SelfFields()
        ex_ev = ex.ev
        def ev(e, env):
            if isinstance(e, ast.Attribute) and isinstance(e.value, ast.Name) and e.value.id == "self":
                if e.attr in SelfFields.F: return SelfFields.F[e.attr]
                ex.fail(e, "self attribute")
            return ex_ev(e, env)
        ex.ev = ev
        ex.run(f.body, {})
        if ex.ret is None: raise Untranslatable(f"HelixObject.{name}: no return")
        return ex.ev(ex.ret, ex.ret_env)
    out["obj_radius"] = run_prop("radius")
    out["obj_momentum"] = run_prop("momentum")
    out["obj_position"] = run_prop("position")
    out["obj_charge"] = run_prop("charge")
    # ---- numba kernels
    for kname, params in (("dr_phi0_to_x", ["dr", "phi0"]), ("dr_phi0_to_y", ["dr", "phi0"]), ("phi0_to_phi", ["phi0"]),
                          ("kappa_to_pt", ["kappa"]), ("kappa_to_radius", ["kappa"]), ("kappa_to_charge", ["kappa"]),
                          ("_fix_dr_sign", ["dr", "phi0", "dist_phi"])):
        f = find_func(tree, kname)
        if [a.arg for a in f.args.args] != params: raise Untranslatable(f"{kname}: signature changed")
        ex = Exec(kname, path, False, False)
        ex_ev = ex.ev
        def ev(e, env, ex=ex, ex_ev=ex_ev):
            if isinstance(e, ast.Call) and ast.unparse(e.func) == "np.int8" and len(e.args) == 1:
                return ex_ev(e.args[0], env)
            return ex_ev(e, env)
        ex.ev = ev
        env = {p: Sym(p) for p in params}
        # _fix_dr_sign has `if cond: return -dr` then `return dr`
        if kname == "_fix_dr_sign":
            b = [s for s in f.body if not (isinstance(s, ast.Expr) and isinstance(s.value, ast.Constant))]
            if not (len(b) == 2 and isinstance(b[0], ast.If) and isinstance(b[1], ast.Return) and len(b[0].body) == 1
                    and isinstance(b[0].body[0], ast.Return) and not b[0].orelse):
                raise Untranslatable("_fix_dr_sign: shape changed")
            t = b[0].test
            if not (isinstance(t, ast.UnaryOp) and isinstance(t.op, ast.Not) and ast.unparse(t.operand.func) == "np.isclose"
                    and len(t.operand.args) == 2 and not t.operand.keywords):
                raise Untranslatable("_fix_dr_sign: condition changed")
            out[kname] = IteNC(ex.sc(t.operand.args[0], env), ex.sc(t.operand.args[1], env), ex.sc(b[0].body[0].value, env), ex.sc(b[1].value, env))
            continue
        ex.run(f.body, env)
        out[kname] = ex.ev(ex.ret, ex.ret_env)
    # _compute_momentum / _compute_position glue (record and array front-ends)
    def glue(name, params, expect_tuple, alt=None):
        f = find_func(tree, name)
        got = [a.arg for a in f.args.args]
        if got != params and got != alt: raise Untranslatable(f"{name}: signature changed")
        ex = Exec(name, path, False, False)
        env = {p: Sym(p) for p in got}
        if "pivot" in env: env["pivot"] = V3(Sym("x0"), Sym("y0"), Sym("z0"))
        import copy
        def mk(k):
            kf = find_func(tree, k)
            pn = [a.arg for a in kf.args.args]
            def call(*args):
                exk = Exec(k, path, False, False)
                exk.run(kf.body, dict(zip(pn, args)))
                return exk.ev(exk.ret, exk.ret_env)
            return call
        for k in ("kappa_to_pt", "phi0_to_phi", "dr_phi0_to_x", "dr_phi0_to_y"):
            env[k] = mk(k)
        ex.run(f.body, env)
        if not (isinstance(ex.ret, ast.Tuple) and [ast.unparse(x) for x in ex.ret.elts] == expect_tuple):
            raise Untranslatable(f"{name}: return changed")
        return [ex.ev(x, ex.ret_env) for x in ex.ret.elts]
    out["compute_momentum"] = glue("_compute_momentum", ["kappa", "tanl", "phi0"], ["pt", "phi", "pz"])
    out["compute_position"] = glue("_compute_position", ["dr", "phi0", "dz"], ["x", "y", "z"], alt=["dr", "phi0", "dz", "pivot"])
    # ---- physics branch of helix_obj: pattern on the normalised statements after the momentum/position regularisation
    ho = find_func(tree, "helix_obj")
    stm = [ast.unparse(s) for s in ho.body]
    try:
        i0 = stm.index("kappa = charge / momentum.pt")
    except ValueError:
        raise Untranslatable("helix_obj: physics branch not found")
    phys = ho.body[i0:]
    ex = Exec("helix_obj", path, False, False)
    env = {"charge": Sym("charge"), "momentum": Mom(Sym("m_pt"), Sym("m_phi"), Sym("m_pz")),
           "position": V3(Sym("px"), Sym("py"), Sym("pz")), "pivot": V3(Sym("x0"), Sym("y0"), Sym("z0"))}
    keep = []
    for s in phys:
        t = ast.unparse(s)
        if t.startswith("_check_kwargs_used_up"): continue
        keep.append(s)
    if not (isinstance(keep[-1], ast.Return) and ast.unparse(keep[-1].value).replace(" ", "") ==
            "HelixObject(dr=dr,phi0=phi0,kappa=kappa,dz=dz,tanl=tanl,pivot=pivot,error=error)"):
        raise Untranslatable("helix_obj: final constructor call changed")
    ex.run(keep[:-1], env)
    out["from_physics"] = {k: env[k] for k in ("dr", "phi0", "kappa", "dz", "tanl")}
    # ---- glue of HelixObject.change_pivot: kappa / tanl / pivot passed through, r = self.radius
    ch = find_func(tree, "change_pivot", "HelixObject")
    txt = [ast.unparse(s).replace(" ", "").replace("\n", "") for s in ch.body if not (isinstance(s, ast.Expr) and isinstance(s.value, ast.Constant))]
    need = ["r=self.radius", "old_dr=self.dr", "old_phi0=self.phi0", "old_dz=self.dz", "tanl=self.tanl", "kappa=self.kappa",
            "old_pivot=self.pivot", "new_pivot=_regularize_obj_position(args)",
            "new_dr,new_phi0,new_dz,new_error=_change_pivot(r=r,old_dr=old_dr,old_phi0=old_phi0,old_dz=old_dz,kappa=kappa,tanl=tanl,old_error=self.error,old_pivot=old_pivot,new_pivot=new_pivot)",
            "returnHelixObject(dr=new_dr,phi0=new_phi0,kappa=kappa,dz=new_dz,tanl=tanl,error=new_error,pivot=new_pivot)"]
    if txt != need:
        raise Untranslatable("HelixObject.change_pivot glue changed: " + " | ".join(t for t in txt if t not in need)[:300])
    # ---- glue of the record / array front-end (_awk_change_pivot): the SAME core is called with r = radius, the per-track columns,
    # and kappa / tanl / the new pivot are carried into the result unchanged; the error matrix is reshaped per track
    ac = find_func(tree, "_awk_change_pivot")
    atxt = [ast.unparse(s).replace(" ", "").replace("\n", "") for s in ac.body if not (isinstance(s, ast.Expr) and isinstance(s.value, ast.Constant))]
    need_a = ["r=_flat_to_numpy(helix_self.radius)", "old_dr=_flat_to_numpy(helix_self.dr)", "old_phi0=_flat_to_numpy(helix_self.phi0)",
              "old_dz=_flat_to_numpy(helix_self.dz)", "tanl=_flat_to_numpy(helix_self.tanl)", "kappa=_flat_to_numpy(helix_self.kappa)",
              "new_dr,new_phi0,new_dz,new_error=_change_pivot(r=r,old_dr=old_dr,old_phi0=old_phi0,old_dz=old_dz,kappa=kappa,tanl=tanl,old_error=old_error,old_pivot=old_pivot,new_pivot=new_pivot)",
              "ifnew_errorisnotNone:res_dict['error']=new_error",
              "raw_shape=_extract_index(helix_self.dr.layout)ifis_multi_trkelse[]", "return(res_dict,raw_shape)"]
    missing = [t for t in need_a if t not in atxt]
    if missing:
        raise Untranslatable("_awk_change_pivot glue changed: missing " + " | ".join(missing)[:300])
    rd = next((t for t in atxt if t.startswith("res_dict={")), "")
    for frag in ("'dr':new_dr", "'phi0':new_phi0", "'kappa':kappa", "'dz':new_dz", "'tanl':tanl",
                 "{'x':new_pivot.x,'y':new_pivot.y,'z':new_pivot.z}"):
        if frag not in rd:
            raise Untranslatable(f"_awk_change_pivot result record changed: {frag} not found")
    for cls in ("HelixAwkwardRecord", "HelixAwkwardArray"):
        for prop, callee in (("radius", "returnkappa_to_radius(self.kappa)"), ("charge", "returnkappa_to_charge(self.kappa)")):
            f = find_func(tree, prop, cls)
            t = [ast.unparse(s).replace(" ", "") for s in f.body if not (isinstance(s, ast.Expr) and isinstance(s.value, ast.Constant))]
            if t != [callee]:
                raise Untranslatable(f"{cls}.{prop} glue changed: {t}")
        for prop, first in (("momentum", "pt,phi,pz=_compute_momentum(self.kappa,self.tanl,self.phi0)"),):
            f = find_func(tree, prop, cls)
            t = [ast.unparse(s).replace(" ", "") for s in f.body if not (isinstance(s, ast.Expr) and isinstance(s.value, ast.Constant))]
            if not t or t[0] != first or "ak.zip({'pt':pt,'phi':phi,'pz':pz},with_name='Momentum3D')" not in t[-1]:
                raise Untranslatable(f"{cls}.{prop} glue changed: {t}")
        f = find_func(tree, "position", cls)
        t = [ast.unparse(s).replace(" ", "") for s in f.body if not (isinstance(s, ast.Expr) and isinstance(s.value, ast.Constant))]
        if not t or not t[0].startswith("x,y,z=_compute_position(self.dr,self.phi0,self.dz") or "ak.zip({'x':x,'y':y,'z':z},with_name='Vector3D')" not in t[-1]:
            raise Untranslatable(f"{cls}.position glue changed: {t}")
    return out


class SelfFields:
    F = {"dr": Sym("dr"), "phi0": Sym("phi0"), "kappa": Sym("kappa"), "dz": Sym("dz"), "tanl": Sym("tanl"),
         "pivot": V3(Sym("x0"), Sym("y0"), Sym("z0"))}


# ------------------------------------------------------------------------------------------------ emitters
COQ_HDR = """(* GENERATED on every run by tools/py2coq_helix.py from {src} — do not edit *)
From Coq Require Import Reals.
From PV.Lib Require Import RealAux.
Local Open Scope R_scope.
Section HelixCode.
Variable atan2 : R -> R -> R.
"""


def emit_coq(ir, src):
    o = [COQ_HDR.format(src=src)]
    P = "(r_in dr phi0 dz kappa tanl x0 y0 z0 x1 y1 z1 : R)"
    for mode in ("obj", "arr"):
        cp = ir["cp_" + mode]
        if ir["coupling"][mode]:
            o.append(f"(* array mode uses coupling operation(s) {ir['coupling'][mode]}: no per-track definition exists *)")
            o.append(f"Definition cp_{mode}_elementwise : bool := false.")
            continue
        o.append(f"Definition cp_{mode}_elementwise : bool := true.")
        REF_PREFIX[0] = f"cp_{mode}_"; REF_ARGS[0] = "r_in dr phi0 dz kappa tanl x0 y0 z0 x1 y1 z1"
        for name, ex in cp["defs"]:
            o.append(f"Definition cp_{mode}_{name} {P} : R :=\n  {coq(ex)}.")
        for k in ("new_dr", "new_phi0", "dphi", "new_dz"):
            o.append(f"Definition cp_{mode}_out_{k} {P} : R := {coq(cp[k])}.")
        for i in range(5):
            for j in range(5):
                ent = cp["J"].get((i, j))
                o.append(f"Definition cp_{mode}_J{i}{j} {P} : R := {coq(ent) if ent is not None else '0'}.")
    Q = "(dr phi0 kappa dz tanl x0 y0 z0 : R)"
    o.append(f"Definition obj_radius {Q} : R := {coq(ir['obj_radius'])}.")
    m = ir["obj_momentum"]
    o.append(f"Definition obj_momentum_pt {Q} : R := {coq(m.pt)}.")
    o.append(f"Definition obj_momentum_phi {Q} : R := {coq(m.phi)}.")
    o.append(f"Definition obj_momentum_pz {Q} : R := {coq(m.pz)}.")
    p = ir["obj_position"]
    for c in "xyz":
        o.append(f"Definition obj_position_{c} {Q} : R := {coq(getattr(p, c))}.")
    o.append(f"Definition obj_charge {Q} : R := {coq(ir['obj_charge'])}.")
    o.append(f"Definition k_dr_phi0_to_x (dr phi0 : R) : R := {coq(ir['dr_phi0_to_x'])}.")
    o.append(f"Definition k_dr_phi0_to_y (dr phi0 : R) : R := {coq(ir['dr_phi0_to_y'])}.")
    o.append(f"Definition k_phi0_to_phi (phi0 : R) : R := {coq(ir['phi0_to_phi'])}.")
    o.append(f"Definition k_kappa_to_pt (kappa : R) : R := {coq(ir['kappa_to_pt'])}.")
    o.append(f"Definition k_kappa_to_radius (kappa : R) : R := {coq(ir['kappa_to_radius'])}.")
    o.append(f"Definition k_kappa_to_charge (kappa : R) : R := {coq(ir['kappa_to_charge'])}.")
    o.append(f"Definition k_fix_dr_sign (dr phi0 dist_phi : R) : R := {coq(ir['_fix_dr_sign'])}.")
    cm = ir["compute_momentum"]; cpn = ir["compute_position"]
    o.append(f"Definition awk_momentum_pt (kappa tanl phi0 : R) : R := {coq(cm[0])}.")
    o.append(f"Definition awk_momentum_phi (kappa tanl phi0 : R) : R := {coq(cm[1])}.")
    o.append(f"Definition awk_momentum_pz (kappa tanl phi0 : R) : R := {coq(cm[2])}.")
    o.append(f"Definition awk_position_x (dr phi0 dz x0 y0 z0 : R) : R := {coq(cpn[0])}.")
    o.append(f"Definition awk_position_y (dr phi0 dz x0 y0 z0 : R) : R := {coq(cpn[1])}.")
    o.append(f"Definition awk_position_z (dr phi0 dz x0 y0 z0 : R) : R := {coq(cpn[2])}.")
    F = "(charge m_pt m_phi m_pz px py pz x0 y0 z0 : R)"
    for k in ("dr", "phi0", "kappa", "dz", "tanl"):
        o.append(f"Definition phys_{k} {F} : R := {coq(ir['from_physics'][k])}.")
    o.append("End HelixCode.")
    return "\n".join(o) + "\n"


PY_HDR = """# GENERATED by tools/py2coq_helix.py: the same IR rendered as Python (numeric validation of the translation rules)
import math
def _pymod(x, m): return x - m * math.floor(x / m)
def _sign(x): return 1.0 if x > 0 else (-1.0 if x < 0 else 0.0)
def _isclose(a, b): return abs(a - b) <= 1e-8 + 1e-5 * abs(b)
"""


def emit_py(ir):
    o = [PY_HDR]
    P = "r_in, dr, phi0, dz, kappa, tanl, x0, y0, z0, x1, y1, z1"
    for mode in ("obj", "arr"):
        if ir["coupling"][mode]:
            continue
        cp = ir["cp_" + mode]
        o.append(f"def cp_{mode}({P}):\n    J = [[0.0]*5 for _ in range(5)]")
        for name, ex in cp["defs"]:
            o.append(f"    v_{name} = {py(ex)}")
        for (i, j), e in cp["J"].items():
            o.append(f"    J[{i}][{j}] = {py(e)}")
        o.append(f"    return ({py(cp['new_dr'])}, {py(cp['new_phi0'])}, {py(cp['new_dz'])}, {py(cp['dphi'])}, J)")
    Q = "dr, phi0, kappa, dz, tanl, x0, y0, z0"
    m = ir["obj_momentum"]; p = ir["obj_position"]
    o.append(f"def obj_props({Q}):\n    return dict(radius={py(ir['obj_radius'])}, pt={py(m.pt)}, phi={py(m.phi)}, pz={py(m.pz)}, "
             f"x={py(p.x)}, y={py(p.y)}, z={py(p.z)}, charge={py(ir['obj_charge'])})")
    F = "charge, m_pt, m_phi, m_pz, px, py, pz, x0, y0, z0"
    fp = ir["from_physics"]
    o.append(f"def from_physics({F}):\n    return ({py(fp['dr'])}, {py(fp['phi0'])}, {py(fp['kappa'])}, {py(fp['dz'])}, {py(fp['tanl'])})")
    return "\n".join(o) + "\n"


if __name__ == "__main__":
    import sys
    ir = translate(sys.argv[1])
    print(emit_coq(ir, sys.argv[1]))
