#!/usr/bin/env python3
"""Prints the markdown table of seeded changes (seeded/*/meta.json + first line of the author's notes)."""
import glob, json, os, re
HERE = os.path.dirname(os.path.dirname(os.path.abspath(__file__)))
rows = []
for d in sorted(glob.glob(os.path.join(HERE, "seeded", "*"))):
    m = json.load(open(os.path.join(d, "meta.json")))
    notes = ""
    p = os.path.join(d, "author_notes.txt")
    if os.path.exists(p):
        t = open(p).read()
        diff = open(os.path.join(d, "patch.diff")).read()
        files = sorted(set(re.findall(r"^\+\+\+ b/(\S+)", diff, flags=re.M)))
        notes = ", ".join(os.path.basename(f) for f in files)
    keys = []
    for c, r in m["checks"].items():
        if r["rc"] == 1:
            k = r["keys"][0] if r["keys"] else "(broken proof/tie, no concrete input)"
            keys.append(f"{c}: `{k[:90]}`")
    rows.append(f"| {m['property']}/{m['name']} | {notes} | {'yes' if m['confirmed'] else 'NO'} | {', '.join(m['caught_by']) or '**missed**'} | {'; '.join(keys)} |")
print("| change | files touched | confirmed (suite passes, demo fails only with it) | caught by | first reported key |\n|---|---|---|---|---|")
print("\n".join(rows))
