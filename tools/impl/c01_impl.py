"""Implementation side of the C01 tie (Python route; runs under /venv/bin/python with PYTHONPATH=<repo>/src).
argv: <cases.json>  {"fixtures", "rootdec" (extracted decoder binary), "branches": {path: class} (the registered table the
property speaks about), "sym_items": [...], "sample": null | [[file, branch], ...], "outdir", "synthetic": null | [...]}
For every fixture x registered branch: dump basket bytes + byte offsets + streamer info through uproot (trusted for
decompression and TTree framing), build the schema from the streamer info with rules written independently of pybes3,
run the EXTRACTED Gallina decoder on the bytes, and compare its presentation value-by-value (floats as bit patterns) with
TBranch.array() of the working tree.  Also: factory selection of the working tree for every streamer element met,
digi field-name clash check on every schema, synthetic streams through the working-tree factories + pinned readers."""
import glob, hashlib, json, os, re, subprocess, sys, ast as pyast, resource

_repo = os.environ.get("PYBES3_REPO", "/repo").rstrip("/")
for _f in sys.meta_path:  # editable-install finder: re-point to the tree under test (see c16_impl.py)
    _m = getattr(_f, "known_source_files", None)
    if isinstance(_m, dict):
        for _k, _v in list(_m.items()):
            if _v.startswith("/repo/src/") and os.path.exists(_repo + _v[len("/repo"):]):
                _m[_k] = _repo + _v[len("/repo"):]

import numpy as np, awkward as ak, uproot
import pybes3  # noqa: F401
from pybes3.besio import root_io
import uproot_custom, uproot_custom.factories as ucf

inp = json.load(open(sys.argv[1]))
assert os.path.realpath(root_io.__file__).startswith(os.path.realpath(_repo) + os.sep), root_io.__file__
OUT = inp["outdir"]
os.makedirs(OUT, exist_ok=True)
SYM = set(inp["sym_items"])
BRANCHES = inp["branches"]

PRIM_BY_FTYPE = {1: "i8", 2: "i16", 3: "i32", 4: "i64", 5: "f32", 8: "f64", 11: "u8", 12: "u16", 13: "u32", 14: "u64", 18: "b", 6: "i32", 15: "u32"}
PRIM_BY_NAME = {"bool": "b", "char": "i8", "short": "i16", "int": "i32", "long": "i64", "float": "f32", "double": "f64",
                "unsigned char": "u8", "unsigned short": "u16", "unsigned int": "u32", "unsigned long": "u64",
                "Int_t": "i32", "Double_t": "f64", "Float_t": "f32", "UInt_t": "u32", "Bool_t": "b"}
TARR = {"TArrayI": "i32", "TArrayD": "f64", "TArrayF": "f32", "TArrayC": "i8", "TArrayS": "i16", "TArrayL": "i64"}


class SchemaError(Exception):
    pass


def streamers_of(f):
    res = {}
    for name, versions in f.file.streamers.items():
        info = versions[max(versions)]
        els = []
        for e in info.member("fElements"):
            d = dict(e.all_members)
            d["_kind"] = e.classname.split("Model_")[-1].split("_v")[0]
            els.append(d)
        res[name] = els
    return res


def sty_tokens(tn):
    tn = tn.replace("std::", "").strip()
    if tn in PRIM_BY_NAME:
        return ["p", PRIM_BY_NAME[tn]]
    if tn == "TString":
        return ["s"]
    if tn.startswith("vector<") and tn.endswith(">"):
        return ["v"] + sty_tokens(tn[7:-1].strip())
    if (tn.startswith("map<") or tn.startswith("multimap<")) and tn.endswith(">"):
        inner = tn[tn.index("<") + 1:-1]
        depth = 0
        for i, c in enumerate(inner):
            depth += c == "<"; depth -= c == ">"
            if c == "," and depth == 0:
                return ["m"] + sty_tokens(inner[:i].strip()) + sty_tokens(inner[i + 1:].strip())
    raise SchemaError(f"STL type {tn!r}")


def class_tokens(cls, streamers, item_prefix, names_out):
    """prefix-notation schema of class `cls` (see ocaml/rootdec_driver.ml); names_out collects (depth path, member names)"""
    els = streamers[cls]
    toks = ["B", cls, str(len(els))]
    for el in els:
        kind, name, ft = el["_kind"], el["fName"], el["fType"]
        dims = [int(x) for x in el["fMaxIndex"][:el["fArrayDim"]]]
        dt = [str(len(dims))] + [str(d) for d in dims]
        item = f"{item_prefix}.{name}"
        toks.append(name)
        if kind == "TStreamerBase":
            if ft == 66 and name == "TObject":
                toks.append("O")
            elif ft == 0:
                toks += class_tokens(name, streamers, item, names_out)
            else:
                raise SchemaError(f"base {name} fType {ft}")
        elif kind == "TStreamerBasicType":
            p = PRIM_BY_FTYPE.get(ft if ft < 20 else ft - 20)
            if p is None:
                raise SchemaError(f"basic type fType {ft}")
            if item in SYM:
                n = next((c for c in range(1, 40) if c * (c + 1) // 2 == int(np.prod(dims))), None) if dims else None
                if n is None or p != "f64":
                    raise SchemaError(f"{item}: listed matrix member is not a packed triangular double array ({dims}, {p})")
                toks += ["Y", str(n)]
            else:
                toks += ["P"] + dt + [p]
        elif kind == "TStreamerString":
            toks += ["S"] + dt
        elif kind == "TStreamerSTL":
            toks += ["L"] + dt + sty_tokens(el["fTypeName"])
        elif kind == "TStreamerObjectAny" and el["fTypeName"] in TARR and not dims:
            toks += ["A", TARR[el["fTypeName"]]]
        else:
            raise SchemaError(f"element kind {kind} {el['fTypeName']} fType {ft}")
    return toks


def flat_field_names(cls, streamers):
    """presented top-level field names of a digi class after flattening, per the property: raw-data members in place of the base"""
    out = []
    for el in streamers[cls]:
        if el["_kind"] == "TStreamerBase":
            if el["fType"] == 66:
                continue
            if el["fName"] == "TRawData":
                out += [e["fName"] for e in streamers["TRawData"] if not (e["_kind"] == "TStreamerBase" and e["fType"] == 66)]
            else:
                out.append(el["fName"])
        else:
            out.append(el["fName"])
    return out


# ------------------------------------------------------------------------------------------------ awkward -> canonical
def canon(layout):
    """awkward layout -> list of canonical python values (ints / bytes / lists / dicts); floats as bit patterns"""
    import awkward.contents as C
    if isinstance(layout, C.NumpyArray):
        a = np.asarray(layout.data)
        if a.dtype == np.float64:
            a = np.ascontiguousarray(a).view(np.uint64)
        elif a.dtype == np.float32:
            a = np.ascontiguousarray(a).view(np.uint32)
        elif a.dtype == np.bool_:
            a = a.astype(np.uint8)
        elif a.dtype.kind not in "iu":
            raise TypeError(f"dtype {a.dtype}")
        return a.tolist()
    if isinstance(layout, C.EmptyArray):
        return []
    if isinstance(layout, (C.ListOffsetArray, C.ListArray)):
        starts, stops = np.asarray(layout.starts), np.asarray(layout.stops)
        if layout.parameter("__array__") in ("string", "bytestring"):
            raw = np.asarray(layout.content.data).astype(np.uint8).tobytes()
            return [raw[a:b] for a, b in zip(starts.tolist(), stops.tolist())]
        c = canon(layout.content)
        return [c[a:b] for a, b in zip(starts.tolist(), stops.tolist())]
    if isinstance(layout, C.RegularArray):
        c = canon(layout.content)
        n = layout.size
        if layout.parameter("__array__") in ("string", "bytestring"):
            raise TypeError("regular string")
        return [c[i * n:(i + 1) * n] for i in range(len(layout))]
    if isinstance(layout, C.RecordArray):
        cols = [canon(layout.content(i))[:len(layout)] for i in range(len(layout.fields))]
        if layout.is_tuple:
            raise TypeError("tuple record")
        fields = layout.fields
        return [dict(zip(fields, vals)) for vals in zip(*cols)] if cols else [{} for _ in range(len(layout))]
    if isinstance(layout, (C.IndexedArray, C.IndexedOptionArray)):
        return canon(layout.project())
    raise TypeError(f"layout {type(layout).__name__}")


def first_diff(a, b, path):
    """first difference between the model's presentation a and the implementation's canonical value b"""
    if isinstance(a, dict) or isinstance(b, dict):
        if not (isinstance(a, dict) and isinstance(b, dict)):
            return path, f"model {str(a)[:80]} vs implementation {str(b)[:80]}"
        if list(a.keys()) != list(b.keys()):
            return path, f"member names/order: stored {list(a.keys())} vs returned {list(b.keys())}"
        for k in a:
            d = first_diff(a[k], b[k], path + [k])
            if d:
                return d
        return None
    if isinstance(a, list) or isinstance(b, list):
        if not (isinstance(a, list) and isinstance(b, list)):
            return path, f"model {str(a)[:80]} vs implementation {str(b)[:80]}"
        if len(a) != len(b):
            return path, f"length: stored {len(a)} vs returned {len(b)}"
        for i, (x, y) in enumerate(zip(a, b)):
            d = first_diff(x, y, path + [i])
            if d:
                return d
        return None
    if a != b:
        return path, f"stored {a!r} vs returned {b!r}"
    return None


def describe(path):
    lab = ["event", "object"]
    out = []
    for i, p in enumerate(path):
        out.append(f"{lab[i]} {p}" if i < 2 and isinstance(p, int) else (f"member {p}" if isinstance(p, str) else f"[{p}]"))
    return " ".join(out)


# ------------------------------------------------------------------------------------------------ decoder process
def run_rootdec(requests):
    """requests: list of (kind tokens, schema tokens, data bytes, offsets) -> list of (offsets, value) | None"""
    path = os.path.join(OUT, f"req_{os.getpid()}.txt")
    with open(path, "w") as f:
        for kind, schema, data, offs in requests:
            f.write("kind " + " ".join(kind) + "\nschema " + " ".join(schema) + "\ndata " + bytes(data).hex() + "\noffs " +
                    " ".join(str(int(o)) for o in offs) + "\ngo\n")

    def big_stack():
        try:
            resource.setrlimit(resource.RLIMIT_STACK, (resource.RLIM_INFINITY, resource.RLIM_INFINITY))
        except Exception:
            pass
    p = subprocess.run([inp["rootdec"]], stdin=open(path), capture_output=True, text=True, preexec_fn=big_stack, timeout=3000)
    os.remove(path)
    lines = p.stdout.splitlines()
    if p.returncode != 0 or len(lines) != len(requests):
        raise RuntimeError(f"rootdec rc={p.returncode} produced {len(lines)}/{len(requests)} answers: {p.stderr[-500:]}")
    res = []
    for l in lines:
        if l.startswith("NONE"):
            res.append(None); continue
        head, lit = l[3:].split(" | ", 1)
        res.append(([int(x, 16) for x in head.split()], pyast.literal_eval(lit)))
    return res


# ------------------------------------------------------------------------------------------------ main loop over fixtures
results = {"branches": [], "mismatches": [], "tie": [], "selection": [], "samples": [], "hashes": [], "dumps": []}
files = sorted(p for p in glob.glob(os.path.join(inp["fixtures"], "*")) if p.rsplit(".", 1)[-1] in ("rtraw", "dst", "rec"))
sample = None if inp.get("sample") is None else {tuple(x) for x in inp["sample"]}
FAC = {"Bes3TObjArrayFactory": "FTObjArray", "Bes3CgemClusterColFactory": "FCgem", "Bes3SymMatrixArrayFactory": "FSym",
       "Bes3BaseObjectFactory": "FBes3Base", "CStyleArrayFactory": "FCStyle", "PrimitiveFactory": "FPrimitive", "STLSeqFactory": "FStlSeq",
       "STLMapFactory": "FStlMap", "STLStringFactory": "FStlString", "TArrayFactory": "FTArray", "TStringFactory": "FTString",
       "TObjectFactory": "FTObject", "BaseObjectFactory": "FBaseObject", "AnyClassFactory": "FAnyClass"}
sel_seen = {}
REG = sorted(BRANCHES)   # the registered table of the property
CGEM_PATH = "/Event:TRecEvent/m_recCgemClusterCol"
TARGET = set(root_io.Bes3SymMatrixArrayFactory.target_items)


def top_category(tn):
    t = ucf.get_top_type_name(tn) if tn is not None else None
    if t == "TObjArray":
        return "TTObjArray"
    if t == "BASE":
        return "TBASE"
    if t in ucf.PrimitiveFactory.typenames:
        return "TPrimName"
    if t in ("vector", "array", "list", "set", "multiset", "unordered_set", "unordered_multiset"):
        return "TVector"
    if t in ("map", "unordered_map", "multimap", "unordered_multimap"):
        return "TMap"
    if t == "string":
        return "TStdString"
    if t == "TString":
        return "TTString"
    if t in ucf.TArrayFactory.typenames:
        return "TTArray"
    return "TOther"


def selection_probe(el, all_info, parent_path, has_cg, top=False, branch=None):
    """features of one build_factory request (computed here, independently of the factories' own predicates) + the factory the
    working tree actually selects"""
    tn = el.get("fTypeName")
    item_path = parent_path if top else f"{parent_path}.{el['fName']}"
    stripped = item_path.replace(".TObjArray*", "")
    feat = {"top": top_category(tn), "ftype": int(el.get("fType", -1)),
            "is_array": bool((el.get("fArrayDim", 0) or 0) > 0 or (tn or "").endswith("[]")),
            "registered": stripped in root_io.bes3_branch2types, "cgem_path": stripped == CGEM_PATH, "has_cg": bool(has_cg),
            "target": item_path in TARGET, "in_bes3": any(k in item_path for k in root_io.bes3_branch2types)}
    key = json.dumps(feat, sort_keys=True)
    try:
        kw = {"called_from_top": True, "branch": branch} if top else {}
        fac = ucf.build_factory(el, all_info, parent_path, **kw)
        got = FAC.get(type(fac).__name__, type(fac).__name__)
    except Exception as e:
        got = f"raised {type(e).__name__}"
    prev = sel_seen.get(key)
    if prev is None:
        sel_seen[key] = {"feat": feat, "got": got, "example": item_path}
    elif prev["got"] != got:
        results["tie"].append({"name": "selection-not-a-function-of-features", "detail": f"{item_path}: {got} vs {prev['example']}: {prev['got']}"})


def probe_class(cls, all_info, path, has_cg, depth=0):
    for el in all_info.get(cls, []):
        selection_probe(el, all_info, path, has_cg)
        if el.get("fTypeName") == "BASE" and el.get("fType") == 0 and depth < 4:
            probe_class(el["fName"], all_info, f"{path}.{el['fName']}", has_cg, depth + 1)


n_objects = n_values = 0


def count_leaves(x):
    if isinstance(x, dict):
        return sum(count_leaves(v) for v in x.values())
    if isinstance(x, list):
        return sum(count_leaves(v) for v in x)
    return 1


for path in files:
    fname = os.path.basename(path)
    f = uproot.open(path)
    t = f["Event"]
    streamers = streamers_of(f)
    has_cg = "TCgemCluster" in streamers
    reqs, meta = [], []
    for bpath in REG:
        cls = BRANCHES[bpath]
        tp = bpath.replace("/Event:", "")
        if tp not in t:
            continue
        if sample is not None and (fname, bpath) not in sample:
            continue
        br = t[tp]
        # ---- dump
        nb = br.num_baskets
        datas, offss = [], []
        for i in range(nb):
            bk = br.basket(i)
            d = np.asarray(bk.data); o = bk.byte_offsets
            if o is None:
                results["tie"].append({"name": f"{fname}:{bpath}", "detail": "basket without byte offsets"}); datas = None; break
            datas.append(d.tobytes()); offss.append([int(x) for x in np.asarray(o)])
        if datas is None:
            continue
        # ---- schema (independent rules)
        try:
            if cls == "map<int,int>":
                kind, schema = ["map"], ["p", "i32", "p", "i32"]
            elif bpath == CGEM_PATH and not has_cg:
                kind, schema = ["cgem"], []
            elif cls not in streamers:
                kind, schema = ["empty"], []
            else:
                ev = tp.split("/")[0]
                digi = ev == "TDigiEvent" and tp.split("/")[1] != "m_fromMc"
                kind = ["obj", "1" if digi else "0"]
                schema = class_tokens(cls, streamers, f"{bpath}.{cls}", None)
                if digi:
                    names = flat_field_names(cls, streamers)
                    if len(set(names)) != len(names):
                        results["tie"].append({"name": f"digi-name-clash:{cls}", "detail": f"{fname}: flattened field names clash: {names}"})
        except SchemaError as e:
            results["tie"].append({"name": f"schema:{fname}:{bpath}", "detail": str(e)}); continue
        for d, o in zip(datas, offss):
            reqs.append((kind, schema, d, o))
        meta.append({"bpath": bpath, "cls": cls, "kind": kind, "nb": nb, "br": br, "nbytes": sum(map(len, datas))})
        if inp.get("dump_native"):
            for i, (d, o) in enumerate(zip(datas, offss)):
                results["dumps"].append({"file": fname, "branch": bpath, "kind": kind[0], "basket": i, "data": d.hex(), "offs": o})
        # ---- factory selection probes (top-level + every element of the class tree)
        all_info = {k: [i.all_members for i in next(iter(v.values())).member("fElements")] for k, v in f.file.streamers.items()}
        if br.streamer is not None:
            selection_probe(br.streamer.all_members, all_info, bpath, has_cg, top=True, branch=br)
        if cls in all_info:
            probe_class(cls, all_info, f"{bpath}.{cls}", has_cg)
    if not reqs:
        continue
    try:
        answers = run_rootdec(reqs)
    except Exception as e:
        results["tie"].append({"name": f"rootdec:{fname}", "detail": str(e)[:600]}); continue
    k = 0
    for m in meta:
        bpath, br = m["bpath"], m["br"]
        key = f"C01:fixture:{fname}:{bpath}"
        model = []
        ok = True
        for _ in range(m["nb"]):
            a = answers[k]; k += 1
            if a is None:
                ok = False
            elif ok:
                model += a[1]
        rec = {"file": fname, "branch": bpath, "class": m["cls"], "kind": m["kind"][0], "bytes": m["nbytes"]}
        if not ok:
            results["tie"].append({"name": f"oracle-rejects:{fname}:{bpath}", "detail": "the extracted decoder does not accept the stored bytes "
                                   "(schema rule or byte-count mismatch)"})
            results["branches"].append(rec); continue
        try:
            arr = br.array()
            impl = canon(ak.to_layout(arr))
        except Exception as e:
            results["mismatches"].append({"key": key, "what": f"{fname} {bpath}: TBranch.array() / canonicalisation raised {type(e).__name__}: {str(e)[:300]}"})
            results["branches"].append(rec); continue
        if m["kind"] == ["obj", "1"]:
            # digi collections present the raw-data members at top level - for EVERY read of the branch, also one that covers only
            # events without digis (the presentation must not depend on the values that happen to be in the range)
            want_fields = flat_field_names(m["cls"], streamers)
            reads = [("full read", arr)]
            empties = [i for i, e in enumerate(model) if not e]
            for i in empties[:3]:
                reads.append((f"entries [{i}, {i + 1}) (an event without digis)", br.array(entry_start=i, entry_stop=i + 1)))
            for label, a in reads:
                if list(a.fields) != want_fields:
                    results["mismatches"].append({"key": key + ":digi-fields", "what": f"{fname} {bpath} ({m['cls']}), {label}: presented fields {list(a.fields)}, "
                                                  f"expected the raw-data members at top level: {want_fields}"}); break
        # partial reads: every event keeps ITS objects (no member shifted between events), also when the read does not start at
        # the first event of the basket and when the post-processing (digi flattening) sees a trimmed view
        nev = len(model)
        if nev >= 3 and m["kind"][0] in ("obj", "cgem"):
            for a, b in ((1, nev), (nev // 2, nev - 1), (nev - 1, nev)):
                try:
                    part = canon(ak.to_layout(br.array(entry_start=a, entry_stop=b)))
                except Exception as e:
                    results["mismatches"].append({"key": key + ":partial-read", "what": f"{fname} {bpath}: array(entry_start={a}, entry_stop={b}) raised {type(e).__name__}: {str(e)[:200]}"}); break
                dd = first_diff(model[a:b], part, [])
                n_values += count_leaves(model[a:b])
                if dd:
                    pp, what = dd
                    results["mismatches"].append({"key": key + ":partial-read", "what": f"{fname} {bpath} ({m['cls']}): array(entry_start={a}, entry_stop={b}) differs from the stored "
                                                  f"events {a}..{b - 1}: first difference at {describe(pp)}: {what}"}); break
        nobj = sum(len(e) for e in model) if m["kind"][0] != "map" else sum(len(e) for e in model)
        rec.update({"events": len(model), "objects": nobj, "values": count_leaves(model)})
        n_objects += nobj; n_values += rec["values"]
        results["hashes"].append(hashlib.sha1((fname + bpath).encode() + repr(model).encode()).hexdigest()[:16])
        d = first_diff(model, impl, [])
        if d:
            p, what = d
            results["mismatches"].append({"key": key, "what": f"{fname} {bpath} ({m['cls']}): first difference at {describe(p)}: {what}",
                                          "path": [str(x) for x in p]})
        if len(results["samples"]) < 5 and nobj:
            ev = next(i for i, e in enumerate(model) if e)
            results["samples"].append({"file": fname, "branch": bpath, "class": m["cls"], "event": ev, "object0": str(model[ev][0])[:400]})
        results["branches"].append(rec)

results["selection"] = list(sel_seen.values())
results["objects"] = n_objects
results["values"] = n_values
results["registered_in_tree"] = dict(root_io.bes3_branch2types)

# ------------------------------------------------------------------------------------------------ synthetic streams
# each case: {"name", "path" (a registered branch path), "cls", "streamer": {cls: [element dicts]}, "data": hex, "offs": [...],
#             "expect": python-literal of the model's presentation or null (model rejects)}
syn_out = []
for case in inp.get("synthetic") or []:
    r = {"name": case["name"]}
    try:
        all_info = {k: [dict(e, fMaxIndex=np.array(e["fMaxIndex"], dtype=np.int32)) for e in v] for k, v in case["streamer"].items()}
        data = np.frombuffer(bytes.fromhex(case["data"]), dtype=np.uint8)
        offs = np.array(case["offs"], dtype=np.uint32)
        top = {"fName": case["path"].split("/")[-1], "fTypeName": "TObjArray*", "fType": 64, "fArrayDim": 0, "fMaxIndex": np.zeros(5, dtype=np.int32)}

        class _B:  # minimal stand-in for the TBranch handed to CStyleArrayFactory (called_from_top) via get_dims_from_branch
            def member(self, k):
                class _L:
                    def member(self, kk):
                        return {"fTitle": top["fName"], "fLen": 1}[kk]
                return [_L()]
        fac = ucf.build_factory(top, all_info, case["path"], called_from_top=True, branch=_B())
        rd = fac.build_cpp_reader()
        raw = uproot_custom.cpp.read_data(data, offs, rd)
        arr = ak.Array(fac.make_awkward_content(raw))
        if case.get("digi"):
            arr = root_io.preprocess_subbranch(case["path"], arr)
            r["fields"] = list(arr.fields)
            if case.get("cls") in case.get("streamer", {}) and all("_kind" in e for v in case["streamer"].values() for e in v):
                r["want_fields"] = flat_field_names(case["cls"], case["streamer"])
        r["factory"] = type(fac).__name__
        r["got"] = canon(ak.to_layout(arr))
    except Exception as e:
        r["raised"] = f"{type(e).__name__}: {str(e)[:200]}"
    # the same stream through the schema builder + extracted decoder (second, independent path to the model's presentation)
    try:
        if case.get("cls") in case.get("streamer", {}) and all("_kind" in e for v in case["streamer"].values() for e in v):
            toks = class_tokens(case["cls"], case["streamer"], f"{case['path']}.{case['cls']}", None)
            a = run_rootdec([(["obj", "1" if case.get("digi") else "0"], toks, bytes.fromhex(case["data"]), case["offs"])])[0]
            r["model"] = None if a is None else a[1]
    except Exception as e:
        r["model_error"] = f"{type(e).__name__}: {str(e)[:200]}"
    syn_out.append(r)
results["synthetic"] = syn_out
for m in results["mismatches"]:
    m.pop("path", None)
print(json.dumps(results, default=lambda o: o.decode("latin1") if isinstance(o, bytes) else str(o)))
