"""C15, binding glue: a NON-contiguous uint32 view handed to read_bes_raw (prebuilt extension; its signature is the working tree's).
Prints {"contiguous": [...], "reversed_view": [...] | "EXC ...", "stride2_view": ...}"""
import json
import numpy as np
from pybes3.besio.besio_cpp import read_bes_raw


def stream(evno):   # block separator + one event holding one MUC sub-detector / ROS / ROB / ROD with one hit
    rob = [0xDD1234DD, 20, 7, 0x3000000, 0xA4 << 16, 0, 0, 0xEE1234EE, 9, 0, 0, 0, 0, 0, 0, 0, (300 << 16) | 0xBEEF, 0, 1, 0]
    ros = [0xCC1234CC, 10 + len(rob), 10, 0x3000000, 0xA4 << 16, 0, 3, 1, 2, 3] + rob
    sub = [0xBB1234BB, 7 + len(ros), 7, 0x3000000, 0xA4 << 16, 0, 0] + ros
    ev = [0xAA1234AA, 17 + len(sub), 17, 0x3000000, 0, 0, 10, 10, evno, 100, 0, 0, 0, 1, 2, 3, 4] + sub
    return np.array([0x1234CCCC, 4, 0, 4 * len(ev)] + ev, dtype=np.uint32)


def run(a):
    try:
        return [int(x) for x in read_bes_raw(a, ["muc"])["evt_header"]["evt_no"]]
    except Exception as e:  # noqa
        return "EXC %s: %s" % (type(e).__name__, str(e)[:80])


w, other = stream(7), stream(4242)
n = len(w)
out = {"contiguous": run(w)}
big = np.concatenate([w[::-1], other[1:]]).astype(np.uint32)
view = big[:n][::-1]
assert np.array_equal(view, w) and not view.flags["C_CONTIGUOUS"]
out["reversed_view"] = run(view)              # the same 32-bit words, negative stride
big2 = np.zeros(2 * n, dtype=np.uint32)
big2[::2] = w
out["stride2_view"] = run(big2[::2])          # the same words, stride 2
print(json.dumps(out))
