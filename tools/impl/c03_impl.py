"""Implementation side of the raw-reader ties of C03 / C04 (run through vlib.run_impl_script: working-tree pybes3 Python
sources, prebuilt besio_cpp).

argv: <jobs.json>                 {"calls": [call, ...], "guard_s": seconds}
call: {"id": .., "paths": [file, ...]  (one path: open_raw(path).arrays(...); several: concatenate_raw),
       "n_blocks": int, "pb": int | null, "subs": [names] | null, "max_workers": int | null,
       "delay_seed": int | null (random delays around every submitted task -> permuted completion order),
       "repeat": k (k successive arrays() calls on ONE reader, optionally with different n_blocks: "seq": [..]),
       "guard": bool (run in a sacrificial subprocess with a wall-clock limit)}
prints one JSON document {"results": [{"id", "outcome": ok|exc|timeout|crash, "values": [canon, ...], "types": [...],
                                      "orders": [[completion order], ...], "exc": "Type: msg", "attrs": {...}}]}
canon = {"hdr": rows, "dets": [[name, offsets, rows], ...]} (field order as returned).
"""
import json
import os
import random
import subprocess
import sys
import threading
import time

ROW_ORDER = {"mdc": ["id", "tdc", "adc", "overflow"], "tof": ["id", "tdc", "adc", "overflow"],
             "emc": ["id", "tdc", "adc", "measure"], "muc": ["id", "fec"]}
HDR_KEYS = ["evt_time", "evt_no", "run_no", "l1_id", "evt_tag1", "evt_tag2", "evt_tag3", "evt_tag4"]


def canon(arr):
    import awkward as ak
    import numpy as np
    fields = list(arr.fields)
    problems = []
    if not fields or fields[0] != "evt_header":
        problems.append("first field is not evt_header: %s" % fields)
    h = arr["evt_header"]
    if list(h.fields) != HDR_KEYS:
        problems.append("evt_header fields %s" % list(h.fields))
    keys = HDR_KEYS if set(HDR_KEYS) <= set(h.fields) else list(h.fields)     # values are taken BY NAME
    cols = [ak.to_numpy(h[k]).astype(np.int64).tolist() for k in keys]
    hdr = [list(r) for r in zip(*cols)] if cols else []
    dets = []
    for name in fields[1:]:
        a = arr[name]
        counts = ak.to_numpy(ak.num(a, axis=1)).astype(np.int64)
        offs = [0] + np.cumsum(counts).tolist()
        if name in ROW_ORDER:
            if sorted(a.fields) != sorted(ROW_ORDER[name]):
                problems.append("%s fields %s" % (name, list(a.fields)))
            cs = [ak.to_numpy(ak.flatten(a[k])).astype(np.int64).tolist() for k in ROW_ORDER[name] if k in a.fields]
            rows = [list(r) for r in zip(*cs)]
        else:
            rows = [[int(x)] for x in ak.to_numpy(ak.flatten(a)).astype(np.int64).tolist()]
        dets.append([name, offs, rows])
    c = {"hdr": hdr, "dets": dets}
    if problems:
        c["problems"] = problems
    return c


_ABI = {}


def native_adapter(so_path):
    """read_bes_raw replacement: the working tree's raw_io.cc behind a C ABI (native/rawabi.cc), same dict-of-NumPy result"""
    import ctypes
    import numpy as np
    if so_path not in _ABI:
        lib = ctypes.CDLL(so_path)
        lib.raw_abi_parse.argtypes = [ctypes.c_void_p, ctypes.c_size_t, ctypes.c_uint, ctypes.POINTER(ctypes.c_char_p)]
        lib.raw_abi_parse.restype = ctypes.c_int
        lib.raw_abi_free.argtypes = [ctypes.c_void_p]
        _ABI[so_path] = lib
    lib = _ABI[so_path]
    DT = {"u1": np.uint8, "u2": np.uint16, "u4": np.uint32, "u8": np.uint64}
    names = ["mdc", "tof", "emc", "muc", "trg", "ef"]

    def conv(o):
        if isinstance(o, dict) and set(o.keys()) == {"d", "a"}:
            return np.array(o["a"], dtype=DT[o["d"]])
        if isinstance(o, dict):
            return {k: conv(v) for k, v in o.items()}
        if isinstance(o, list):
            return tuple(conv(v) for v in o)
        return o

    def read_bes_raw(data, sub_detectors=()):
        data = np.ascontiguousarray(data, dtype=np.uint32)
        mask = 0
        for s in sub_detectors:
            mask |= (1 << names.index(s)) if s in names else 64
        out = ctypes.c_char_p()
        ptr = ctypes.c_void_p()
        rc = lib.raw_abi_parse(data.ctypes.data, data.size, mask, ctypes.cast(ctypes.byref(ptr), ctypes.POINTER(ctypes.c_char_p)))
        txt = ctypes.string_at(ptr.value).decode()
        lib.raw_abi_free(ptr)
        if rc != 0:
            raise RuntimeError(txt)
        return conv(json.loads(txt))
    return read_bes_raw


def run_call(call):
    import pybes3
    import pybes3.besio.raw_io as rio
    from concurrent.futures import ThreadPoolExecutor
    if call.get("native_so"):
        rio.read_bes_raw = native_adapter(call["native_so"])
    orders = []
    rng = random.Random(call.get("delay_seed") or 0)
    delayed = call.get("delay_seed") is not None

    class Recorder(ThreadPoolExecutor):
        def __init__(self, *a, **k):
            super().__init__(*a, **k)
            self._n = 0
            self._order = []
            self._lock = threading.Lock()
            orders.append(self._order)

        def submit(self, fn, *args, **kwargs):
            idx = self._n
            self._n += 1
            delay = rng.random() * 0.03 if delayed else 0.0

            def task():
                if delay:
                    time.sleep(delay)
                r = fn(*args, **kwargs)
                with self._lock:
                    self._order.append(idx)
                return r
            return super().submit(task)

    rio.ThreadPoolExecutor = Recorder          # harness-side patch of the name looked up by RawBinaryReader.arrays
    res = {"id": call["id"], "values": [], "types": [], "orders": orders}
    kw = {}
    if call.get("pb") is not None:
        kw["n_block_per_batch"] = call["pb"]
    if call.get("subs") is not None:
        kw["sub_detectors"] = call["subs"]
    if call.get("max_workers") is not None:
        kw["max_workers"] = call["max_workers"]
    kw["decode_reid"] = bool(call.get("decode", False))
    try:
        if call.get("rewrite"):
            # the file at ONE path is replaced by other well-formed contents between reads (new reader each time, same interpreter)
            import numpy as np
            for k, words in enumerate(call["rewrite"]):
                np.array(words, dtype="<u4").tofile(call["paths"][0])
                if call.get("concat") and k % 2 == 1:
                    arr = pybes3.concatenate_raw([call["paths"][0]], **kw)
                else:
                    with pybes3.open_raw(call["paths"][0]) as reader:
                        arr = reader.arrays(n_blocks=-1, **kw)
                res["values"].append(canon(arr)); res["types"].append(str(arr.type))
        elif call.get("glob"):
            arr = pybes3.concatenate_raw(call["glob"], **kw)        # a pattern: the package lists the files itself
            res["values"].append(canon(arr)); res["types"].append(str(arr.type))
        elif len(call["paths"]) > 1 or call.get("concat"):
            arr = pybes3.concatenate_raw(call["paths"], **kw)
            res["values"].append(canon(arr)); res["types"].append(str(arr.type))
        else:
            reader = pybes3.open_raw(call["paths"][0])
            res["attrs"] = {k: getattr(reader, k) for k in ("file_version", "file_number", "file_date", "file_time", "run_number",
                                                           "max_events", "rec_enable", "trigger_type", "detector_mask", "beam_type",
                                                           "beam_energy", "entries", "data_start", "data_end", "file_size")}
            res["attrs"] = {k: int(v) for k, v in res["attrs"].items()}
            res["attrs"]["file_name"] = reader.file_name
            res["attrs"]["file_tag"] = reader.file_tag
            seq = call.get("seq") or [call.get("n_blocks", -1)] * int(call.get("repeat", 1))
            for nb in seq:
                if nb == "bad":
                    # a call that raises (invalid sub-detector name) in the middle of a history: the next call must be unaffected
                    n_orders = len(orders)
                    try:
                        reader.arrays(sub_detectors=["MDC"])
                        res.setdefault("notes", []).append("bad-call-did-not-raise")
                    except Exception:  # noqa
                        pass
                    del orders[n_orders:]      # completion orders are recorded for the successful calls only
                    continue
                kw1 = dict(kw)
                if isinstance(nb, dict):       # {"nb": n, "decode": bool}: per-call options inside a history on one reader
                    kw1["decode_reid"] = bool(nb.get("decode", False)); nb = nb["nb"]
                arr = reader.arrays(n_blocks=nb, **kw1)
                res["values"].append(canon(arr)); res["types"].append(str(arr.type))
            reader.close()
        res["outcome"] = "ok"
    except BaseException as e:  # noqa
        res["outcome"] = "exc"
        res["exc"] = "%s: %s" % (type(e).__name__, str(e)[:200])
    return res


def main():
    """parent: every call runs in a sacrificial child (guarded calls alone, the others in chunks), children run
    concurrently, print one JSON line per finished call and are killed at their deadline; a call without an answer is a
    time-out.  An address-space limit keeps a runaway loop from exhausting the machine."""
    if sys.argv[1] == "--chunk":
        try:
            import resource
            resource.setrlimit(resource.RLIMIT_AS, (24 << 30, 24 << 30))
        except Exception:  # noqa
            pass
        jobs = json.load(open(sys.argv[2]))
        with open(sys.argv[5], "w") as fo:          # a file, not a pipe: answers can be large and must survive a kill
            for i in range(int(sys.argv[3]), int(sys.argv[4])):
                r = run_call(jobs["calls"][i])
                r["_i"] = i
                fo.write(json.dumps(r) + "\n")
                fo.flush()
        return
    jobs = json.load(open(sys.argv[1]))
    calls = jobs["calls"]
    guard_s = jobs.get("guard_s", 20)
    chunk_s = jobs.get("chunk_s", 120)
    chunks = []
    plain = [i for i, c in enumerate(calls) if not c.get("guard")]
    nproc = max(1, min(8, len(plain) // 10 or 1))
    size = (len(plain) + nproc - 1) // nproc if plain else 0
    # chunks are contiguous index ranges of the non-guarded calls (they are submitted in order)
    ranges = []
    run = []
    for i, c in enumerate(calls):
        if c.get("guard"):
            if run:
                ranges.append((run[0], run[-1] + 1, chunk_s)); run = []
            ranges.append((i, i + 1, guard_s))
        else:
            run.append(i)
            if len(run) >= max(size, 1):
                ranges.append((run[0], run[-1] + 1, chunk_s)); run = []
    if run:
        ranges.append((run[0], run[-1] + 1, chunk_s))
    procs = []
    pending = list(ranges)
    out = {}
    running = []
    while pending or running:
        while pending and len(running) < 10:
            a, b, lim = pending.pop(0)
            op = "%s.out.%d" % (sys.argv[1], a)
            if os.path.exists(op):
                os.remove(op)
            p = subprocess.Popen([sys.executable, os.path.abspath(__file__), "--chunk", sys.argv[1], str(a), str(b), op],
                                 stdout=subprocess.DEVNULL, stderr=subprocess.PIPE, text=True)
            running.append((p, a, b, time.time() + lim))
        time.sleep(0.1)
        for item in list(running):
            p, a, b, deadline = item
            if p.poll() is None and time.time() < deadline:
                continue
            timed_out = p.poll() is None
            if timed_out:
                p.kill()
            _, se = p.communicate()
            op = "%s.out.%d" % (sys.argv[1], a)
            so = open(op).read() if os.path.exists(op) else ""
            if os.path.exists(op):
                os.remove(op)
            for line in so.split("\n"):
                if line.strip():
                    try:
                        r = json.loads(line)
                        out[r.pop("_i")] = r
                    except Exception:  # noqa
                        pass
            first_missing = True
            for i in range(a, b):
                if i not in out:
                    if timed_out and first_missing:
                        out[i] = {"id": calls[i]["id"], "outcome": "timeout", "exc": "no result within the wall-clock guard"}
                    elif timed_out:
                        out[i] = {"id": calls[i]["id"], "outcome": "skipped", "exc": "an earlier call of the same chunk never returned"}
                    else:
                        out[i] = {"id": calls[i]["id"], "outcome": "crash", "exc": "rc=%s %s" % (p.returncode, se[-300:])}
                    first_missing = False
            running.remove(item)
    print(json.dumps({"results": [out[i] for i in range(len(calls))]}))


if __name__ == "__main__":
    main()
