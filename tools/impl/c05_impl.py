"""Implementation side of the C05 tie: evaluates pybes3.detectors.digi_id kernels from /repo's working tree.
 mode eval  <cases.json> : evaluate listed cases under several input representations, print JSON
 mode sweep <tier> <seed>: direct statement of the property on the implementation over the complete field
                           spaces (failing-input search / translator-rule validation), print JSON
"""
import json, sys, itertools
import numpy as np
import pybes3.detectors.digi_id as d
import pybes3.detectors as det

def as_py(x):
    if isinstance(x, (np.ndarray,)): return [as_py(v) for v in x.tolist()]
    if isinstance(x, (bool, np.bool_)): return int(bool(x))
    return int(x)

def resolve(name):
    if name.endswith("_none") or name.endswith("_some"):
        return getattr(d, name[:-5])
    if name == "get_cgem_digi_id_b":
        return d.get_cgem_digi_id
    return getattr(d, name)

def eval_cases(path):
    cases = json.load(open(path))
    by_f = {}
    for i, c in enumerate(cases):
        by_f.setdefault(c["f"], []).append(i)
    out = [None] * len(cases)
    variants = {}
    for f, idxs in by_f.items():
        fn = resolve(f)
        cols = list(zip(*[cases[i]["args"] for i in idxs]))
        isb = f == "get_cgem_digi_id_b"
        def mk(dt):
            arrs = []
            for k, col in enumerate(cols):
                if isb and k == 3:
                    arrs.append(np.array(col, dtype=bool))
                else:
                    arrs.append(np.array(col, dtype=dt))
            return arrs
        ref = as_py(fn(*mk(np.int64)))
        for j, i in enumerate(idxs): out[i] = ref[j]
        tried = ["int64"]
        lo = min(min(c) for c in cols); hi = max(max(c) for c in cols)
        for dt in (np.uint8, np.int8, np.uint16, np.int16, np.uint32, np.int32, np.uint64):
            info = np.iinfo(dt)
            if lo >= info.min and hi <= info.max:
                r = as_py(fn(*mk(dt)))
                tried.append(np.dtype(dt).name)
                if r != ref:
                    bad = next(j for j in range(len(ref)) if r[j] != ref[j])
                    variants.setdefault("dtype_disagreement", []).append(
                        {"f": f, "dtype": np.dtype(dt).name, "args": cases[idxs[bad]]["args"], "int64": ref[bad], "got": r[bad]})
        # scalar python ints / numpy scalars on a few cases
        for j in range(min(len(idxs), 8)):
            args = list(cases[idxs[j]]["args"])
            if isb: args[3] = bool(args[3])
            r = as_py(fn(*args))
            if r != ref[j]:
                variants.setdefault("scalar_disagreement", []).append({"f": f, "args": args, "array": ref[j], "scalar": r})
            nargs = [np.int64(a) if not isinstance(a, bool) else np.bool_(a) for a in args]
            r = as_py(fn(*nargs))
            if r != ref[j]:
                variants.setdefault("npscalar_disagreement", []).append({"f": f, "args": args, "array": ref[j], "scalar": r})
        variants.setdefault("dtypes_tried", {})[f] = tried
    print(json.dumps({"results": out, "variants": variants}))

GRID_DTYPE = [np.int64]


def grid(*ns):
    """complete grid; every column in the current sweep dtype when it can hold the column's values (else int64)"""
    dt = GRID_DTYPE[0]
    g = np.meshgrid(*[np.arange(n, dtype=np.int64) for n in ns], indexing="ij")
    return [x.ravel().astype(dt) if n - 1 <= np.iinfo(dt).max - 3 else x.ravel() for x, n in zip(g, ns)]

def sweep(tier, seed):
    rng = np.random.default_rng(seed)
    fails = []
    n_eval = 0
    def expect(name, got, want, args):
        nonlocal n_eval
        got = np.asarray(got); want = np.asarray(want)
        n_eval += got.size
        bad = np.nonzero(got.astype(np.int64) != want.astype(np.int64))[0]
        if bad.size and len(fails) < 40:
            i = int(bad[0])
            fails.append({"what": name, "args": [int(a[i]) for a in args], "got": int(got[i]), "want": int(want[i]), "n_bad": int(bad.size)})
    checks = {"mdc": d.check_mdc_id, "tof": d.check_tof_id, "emc": d.check_emc_id, "muc": d.check_muc_id, "cgem": d.check_cgem_id}
    def tags(det_name, w, args):
        for k, fn in checks.items():
            expect(f"check_{k}_id(get_{det_name})", fn(w), np.full(w.shape, k == det_name), args)
    # complete in-range field spaces, repeated under EVERY integer dtype able to hold the field values: validates the translator's
    # rule that numba's typed (>= 64-bit) evaluation equals the unbounded Z model after the final mask / cast
    def field_spaces():
        wire, layer, wt = grid(512, 64, 2)
        w = d.get_mdc_digi_id(wire, layer, wt); a = [wire, layer, wt]
        expect("mdc wire rt", d.mdc_id_to_wire(w), wire, a); expect("mdc layer rt", d.mdc_id_to_layer(w), layer, a)
        expect("mdc stereo rt", d.mdc_id_to_is_stereo(w), wt == 1, a); tags("mdc", w, a)
        part, l, p, e = grid(3, 2, 128, 2)
        w = d.get_tof_digi_id(part, l, p, e); a = [part, l, p, e]
        expect("tof part rt", d.tof_id_to_part(w), part, a)
        expect("tof layer rt", d.tof_id_to_layer_or_module(w), l, a); expect("tof layer rt(part)", d.tof_id_to_layer_or_module(w, part), l, a)
        expect("tof phi rt", d.tof_id_to_phi_or_strip(w), p, a); expect("tof phi rt(part)", d.tof_id_to_phi_or_strip(w, part), p, a)
        expect("tof end rt", d.tof_id_to_end(w), e, a); tags("tof", w, a)
        part, l, p, e = grid(2, 64, 16, 2); part = part + 3
        w = d.get_tof_digi_id(part, l, p, e); a = [part, l, p, e]
        expect("mrpc part rt", d.tof_id_to_part(w), part, a)
        expect("mrpc module rt", d.tof_id_to_layer_or_module(w), l, a); expect("mrpc module rt(part)", d.tof_id_to_layer_or_module(w, part), l, a)
        expect("mrpc strip rt", d.tof_id_to_phi_or_strip(w), p, a); expect("mrpc strip rt(part)", d.tof_id_to_phi_or_strip(w, part), p, a)
        expect("mrpc end rt", d.tof_id_to_end(w), e, a); tags("tof", w, a)
        m, t, p = grid(16, 64, 256)
        w = d.get_emc_digi_id(m, t, p); a = [m, t, p]
        expect("emc module rt", d.emc_id_to_module(w), m, a); expect("emc theta rt", d.emc_id_to_theta(w), t, a)
        expect("emc phi rt", d.emc_id_to_phi(w), p, a); tags("emc", w, a)
        pa, s, l, c = grid(16, 16, 16, 256)
        w = d.get_muc_digi_id(pa, s, l, c); a = [pa, s, l, c]
        expect("muc part rt", d.muc_id_to_part(w), pa, a); expect("muc seg rt", d.muc_id_to_segment(w), s, a)
        expect("muc layer rt", d.muc_id_to_layer(w), l, a); expect("muc chan rt", d.muc_id_to_channel(w), c, a)
        expect("muc gap rt", d.muc_id_to_gap(w), l, a); expect("muc strip rt", d.muc_id_to_strip(w), c, a); tags("muc", w, a)
        l, sh, st, f = grid(8, 8, 4096, 2)
        for flag in (f, f.astype(bool)):
            w = d.get_cgem_digi_id(l, sh, st, flag); a = [l, sh, st, f]
            expect("cgem layer rt", d.cgem_id_to_layer(w), l, a); expect("cgem sheet rt", d.cgem_id_to_sheet(w), sh, a)
            expect("cgem strip rt", d.cgem_id_to_strip(w), st, a); expect("cgem isx rt", d.cgem_id_to_is_x_strip(w), f == 1, a); tags("cgem", w, a)
    for _dt in (np.int64, np.uint8, np.int8, np.uint16, np.int16, np.uint32, np.int32, np.uint64):
        GRID_DTYPE[0] = _dt
        field_spaces()
    GRID_DTYPE[0] = np.int64

    # truncation / no leak: over-wide and negative values
    n = 200000 if tier == "quick" else 2000000
    big = lambda: rng.integers(-2**40, 2**40, n)
    x, y, z, u = big(), big(), big(), big()
    w = d.get_mdc_digi_id(x, y, z); a = [x, y, z]
    expect("mdc trunc wire", d.mdc_id_to_wire(w), x % 512, a); expect("mdc trunc layer", d.mdc_id_to_layer(w), y % 64, a)
    expect("mdc trunc wt", d.mdc_id_to_is_stereo(w), z % 2 == 1, a); tags("mdc", w, a)
    w = d.get_emc_digi_id(x, y, z)
    expect("emc trunc module", d.emc_id_to_module(w), x % 16, a); expect("emc trunc theta", d.emc_id_to_theta(w), y % 64, a)
    expect("emc trunc phi", d.emc_id_to_phi(w), z % 256, a); tags("emc", w, a)
    w = d.get_muc_digi_id(x, y, z, u); a = [x, y, z, u]
    expect("muc trunc part", d.muc_id_to_part(w), x % 16, a); expect("muc trunc seg", d.muc_id_to_segment(w), y % 16, a)
    expect("muc trunc layer", d.muc_id_to_layer(w), z % 16, a); expect("muc trunc chan", d.muc_id_to_channel(w), u % 256, a); tags("muc", w, a)
    w = d.get_cgem_digi_id(x, y, z, u)
    expect("cgem trunc layer", d.cgem_id_to_layer(w), x % 8, a); expect("cgem trunc sheet", d.cgem_id_to_sheet(w), y % 8, a)
    expect("cgem trunc strip", d.cgem_id_to_strip(w), z % 4096, a); expect("cgem trunc flag", d.cgem_id_to_is_x_strip(w), u % 2 == 1, a); tags("cgem", w, a)
    ps = rng.integers(0, 3, n); w = d.get_tof_digi_id(ps, y, z, u); a = [ps, y, z, u]
    expect("tof trunc part", d.tof_id_to_part(w), ps, a); expect("tof trunc layer", d.tof_id_to_layer_or_module(w), y % 2, a)
    expect("tof trunc phi", d.tof_id_to_phi_or_strip(w), z % 128, a); expect("tof trunc end", d.tof_id_to_end(w), u % 2, a); tags("tof", w, a)
    pm = rng.integers(3, 2**20, n); w = d.get_tof_digi_id(pm, y, z, u); a = [pm, y, z, u]
    expect("mrpc trunc part", d.tof_id_to_part(w), 3 + (pm - 3) % 2, a); expect("mrpc trunc module", d.tof_id_to_layer_or_module(w), y % 64, a)
    expect("mrpc trunc strip", d.tof_id_to_phi_or_strip(w), z % 16, a); expect("mrpc trunc end", d.tof_id_to_end(w), u % 2, a); tags("tof", w, a)
    # recomposition of tagged 32-bit words
    def recompose(words):
        words = words.astype(np.uint32)
        low = words & np.uint32(0x00FFFFFF)
        for tag, name in ((0x10, "mdc"), (0x20, "tof"), (0x30, "emc"), (0x40, "muc"), (0x60, "cgem")):
            w = (low | np.uint32(tag << 24)).astype(np.uint32); a = [w]
            if name == "mdc":
                r = d.get_mdc_digi_id(d.mdc_id_to_wire(w), d.mdc_id_to_layer(w), d.mdc_id_to_is_stereo(w)); m = 0xFF00FFFF
                expect("mdc recompose", r, w & np.uint32(m), a)
            elif name == "emc":
                r = d.get_emc_digi_id(d.emc_id_to_module(w), d.emc_id_to_theta(w), d.emc_id_to_phi(w))
                expect("emc recompose", r, w & np.uint32(0xFF0F3FFF), a)
            elif name == "muc":
                r = d.get_muc_digi_id(d.muc_id_to_part(w), d.muc_id_to_segment(w), d.muc_id_to_layer(w), d.muc_id_to_channel(w))
                expect("muc recompose", r, w & np.uint32(0xFF0FFFFF), a)
            elif name == "cgem":
                r = d.get_cgem_digi_id(d.cgem_id_to_layer(w), d.cgem_id_to_sheet(w), d.cgem_id_to_strip(w), d.cgem_id_to_is_x_strip(w))
                expect("cgem recompose", r, w & np.uint32(0xFF07FFFF), a)
            else:
                part = d.tof_id_to_part(w)
                r = d.get_tof_digi_id(part, d.tof_id_to_layer_or_module(w), d.tof_id_to_phi_or_strip(w), d.tof_id_to_end(w))
                m = np.where(part < 3, np.uint32(0xFF00C1FF), np.uint32(0xFF00CFFF))
                expect("tof recompose", r, w & m, a)
            for k, fn in checks.items():
                expect(f"check_{k}_id(tag {name})", fn(w), np.full(w.shape, k == name), a)
    if tier == "quick":
        recompose(np.arange(0, 2**24, dtype=np.uint32))           # all 2^24 low-bit patterns x 5 tags
    else:
        recompose(np.arange(0, 2**24, dtype=np.uint32))
        # all 2^32 words through every check_* (tag decision) in 2^24 chunks
        for hi in range(256):
            w = (np.arange(0, 2**24, dtype=np.uint32) | np.uint32(hi << 24)).astype(np.uint32)
            for k, fn in checks.items():
                tagv = {"mdc": 0x10, "tof": 0x20, "emc": 0x30, "muc": 0x40, "cgem": 0x60}[k]
                expect(f"check_{k}_id(all words)", fn(w), np.full(w.shape, hi == tagv), [w])
    print(json.dumps({"evaluations": int(n_eval), "fails": fails,
                      "spaces": {"mdc": 2**16, "tof_scint": 1536, "tof_mrpc": 4096, "emc": 2**18, "muc": 2**20, "cgem": 2**19,
                                 "words_low24_x5tags": 5 * 2**24}}))

if __name__ == "__main__":
    if sys.argv[1] == "eval": eval_cases(sys.argv[2])
    else: sweep(sys.argv[2], int(sys.argv[3]))
