"""Implementation side of the helix ties (C06 C07 C11 C12 C13).  argv: <mode> <seed> <tier> [ir.py]
 modes: validate (IR rendered as Python vs implementation: translator-rule validation, object / record / array front-ends)
        c06 c07 c11 c12 c13 (direct numeric statements of each property on the implementation = failing-input search)
Prints one JSON document {evaluations, violations:[{key, what, input}], samples, distribution}."""
import importlib.util, json, math, sys, random, itertools, warnings
import numpy as np, awkward as ak, vector
import pybes3 as p3

mode, seed, tier = sys.argv[1], int(sys.argv[2]), sys.argv[3]
rng = random.Random(seed)
ALPHA = -1000 / 2.99792458
TWO_PI = 2 * math.pi
viol, samples = [], []
n_eval = 0
dist = {}

def bump(k): dist[k] = dist.get(k, 0) + 1
def report(key, what, inp):
    if len(viol) < 25 and not any(v["key"] == key for v in viol):
        viol.append({"key": key, "what": what, "input": inp})

def gen_helix(kind=None):
    kind = kind or rng.choice(["typ", "typ", "typ", "low_pt", "high_pt", "wrap", "dr0", "drneg", "bigdr", "farside"])
    q = rng.choice([-1, 1])
    pt = {"low_pt": rng.uniform(0.05, 0.2), "high_pt": rng.uniform(2, 10)}.get(kind, rng.uniform(0.2, 2.0))
    kappa = q / pt
    if kind == "farside":
        # the pivot lies beyond the circle centre: dr has the opposite sign of the signed radius and |dr| > |r| (low-pt curlers)
        pt = rng.uniform(0.05, 0.2); kappa = q / pt
    dr = {"dr0": 0.0, "drneg": -rng.uniform(0.01, 3), "bigdr": rng.uniform(-30, 30),
          "farside": -(ALPHA / kappa) * rng.uniform(1.05, 2.5)}.get(kind, rng.uniform(-1.5, 1.5))
    # "wrap": directions at and next to the 0 / 2*pi seam (the largest doubles below 2*pi included) and the quadrant boundaries
    phi0 = rng.choice([0.0, 1e-9, 5e-324, TWO_PI - 1e-9, TWO_PI - 1e-12, float(np.nextafter(TWO_PI, 0)), float(np.nextafter(np.nextafter(TWO_PI, 0), 0)),
                       TWO_PI - 3e-5, TWO_PI - 6e-5, TWO_PI - 1e-6, 3e-5, math.pi, math.pi / 2, float(np.nextafter(math.pi, 4))]) if kind == "wrap" else rng.uniform(0, TWO_PI)
    bump(f"helix:{kind}:q{q:+d}")
    return [dr, phi0, kappa, rng.uniform(-10, 10), rng.uniform(-2.5, 2.5)]

def gen_pivot(kind=None):
    kind = kind or rng.choice(["zero", "near", "far", "far", "axis"])
    bump(f"pivot:{kind}")
    if kind == "zero": return [0.0, 0.0, 0.0]
    if kind == "near": return [rng.uniform(-2, 2), rng.uniform(-2, 2), rng.uniform(-5, 5)]
    if kind == "axis": return [rng.choice([0.0, rng.uniform(-80, 80)]), 0.0, rng.uniform(-100, 100)]
    return [rng.uniform(-80, 80), rng.uniform(-80, 80), rng.uniform(-120, 120)]

# deterministic corner cases that run first in every mode: angles that make atan2 return exactly 0 / +-pi / pi/2, turning angles
# of exactly +-pi, phi0 exactly 0, moves to the same pivot, pivots level with the circle centre
CORNERS = []
for _k in (1.3, -1.3, 0.4, -0.4):
    for _dr in (0.5, -0.5, 0.0):
        for _p1 in ([0.0, 0.0, 0.0], [5.0, 0.0, 1.0], [-500.0, 0.0, 2.0], [500.0, 0.0, 0.0], [0.0, 5.0, 0.0], [3.0, -4.0, 5.0]):
            CORNERS.append(([_dr, 0.0, _k, 0.3, 0.7], [0.0, 0.0, 0.0], _p1))
        CORNERS.append(([_dr, math.pi / 2, _k, -0.2, -1.1], [0.0, 0.0, 0.0], [7.0, -(ALPHA / _k) - _dr, 0.0]))
        CORNERS.append(([_dr, math.pi, _k, 0.0, 0.0], [1.0, 2.0, 3.0], [1.0, 2.0, 3.0]))
def corner(i):
    """i-th corner case or None"""
    if i < len(CORNERS):
        bump("corner"); c = CORNERS[i]; return list(c[0]), list(c[1]), list(c[2])
    return None

def gen_error():
    a = np.array([[rng.gauss(0, 1) for _ in range(5)] for _ in range(5)]) * np.array([0.05, 0.002, 0.01, 0.1, 0.005])[:, None]
    kind = rng.choice(["full", "full", "rank1", "zero", "diag"])
    bump(f"error:{kind}")
    if kind == "rank1": v = a[:, :1]; return v @ v.T
    if kind == "zero": return np.zeros((5, 5))
    if kind == "diag": return np.diag(np.diag(a @ a.T))
    return a @ a.T

def traj(par, piv, s):
    dr, phi0, kappa, dz, tanl = par
    r = ALPHA / kappa
    return np.array([piv[0] + dr * math.cos(phi0) + r * (math.cos(phi0) - math.cos(phi0 + s)),
                     piv[1] + dr * math.sin(phi0) + r * (math.sin(phi0) - math.sin(phi0 + s)),
                     piv[2] + dz - r * tanl * s])

def centre(par, piv):
    dr, phi0, kappa, dz, tanl = par
    r = ALPHA / kappa
    return np.array([piv[0] + (dr + r) * math.cos(phi0), piv[1] + (dr + r) * math.sin(phi0)])

def obj(par, piv, err=None): return p3.helix_obj(params=tuple(par), pivot=tuple(piv), error=err)
def pars(h): return [h.dr, h.phi0, h.kappa, h.dz, h.tanl]
def piv_of(h): return [float(h.pivot.x), float(h.pivot.y), float(h.pivot.z)]
def wrap(d):
    d = d % TWO_PI
    return d - TWO_PI if d > math.pi else d
def scale(par, piv, piv2): return 1.0 + abs(ALPHA / par[2]) + abs(par[0]) + max(map(abs, piv + piv2))

def awk(pars_list, pivs=None, errs=None, layout="flat"):
    a = np.array(pars_list, dtype=float).reshape(-1, 5)
    kw = {c: ak.Array(a[:, i]) for i, c in enumerate(["dr", "phi0", "kappa", "dz", "tanl"])}
    if errs is not None: kw["error"] = ak.Array(np.array(errs))
    if pivs is not None:
        pv = np.array(pivs, dtype=float).reshape(-1, 3)
        kw["pivot"] = ak.zip({"x": pv[:, 0], "y": pv[:, 1], "z": pv[:, 2]}, with_name="Vector3D")
    return p3.helix_awk(**kw)

def near_centre_pivot(par, p0):
    """a new pivot close to (not numerically on) the circle centre: |r| * 10^-3.5 .. |r| / 10 away, at least 0.01 cm"""
    c = centre(par, p0); r = abs(ALPHA / par[2])
    d = max(0.01, r * 10 ** rng.uniform(-3.5, -1)); t = rng.uniform(0, TWO_PI)
    bump("pivot:near-centre")
    return [c[0] + d * math.cos(t), c[1] + d * math.sin(t), rng.uniform(-5, 5)]

def _int_columns_move(prefix):
    """integer-typed parameter columns (as read from an integer branch / built from Python ints) moved to a fractional pivot given as
    plain numbers: the reported pivot is the requested one and every track equals the object moved the same way"""
    global n_eval
    ipar = [float(rng.randrange(-3, 4)), float(rng.randrange(0, 6)), float(rng.choice([-2, -1, 1, 2])), float(rng.randrange(-4, 5)), float(rng.randrange(-2, 3))]
    fp = [rng.uniform(-3, 3) + 0.5, rng.uniform(-3, 3) + 0.25, rng.uniform(-3, 3) + 0.75]
    cols = {c: ak.Array(np.array([ipar[k], ipar[k]], dtype=np.int64)) for k, c in enumerate(["dr", "phi0", "kappa", "dz", "tanl"])}
    ho = obj(ipar, [0.0, 0.0, 0.0]).change_pivot(*fp); want = pars(ho) + fp
    for form, args in (("xyz", tuple(fp)), ("tuple", (tuple(fp),)), ("vector", (vector.obj(x=fp[0], y=fp[1], z=fp[2]),))):
        bump(f"intcols-move:{form}")
        for fe in ("arr", "rec"):
            ha = p3.helix_awk(**cols)
            out = ha.change_pivot(*args) if fe == "arr" else ha[0].change_pivot(*args); n_eval += 1
            g = (lambda v: float(v[1])) if fe == "arr" else float
            got = [g(out[f]) for f in ("dr", "phi0", "kappa", "dz", "tanl")] + [g(out.pivot[c]) for c in "xyz"]
            if got[5:] != fp:
                report(f"{prefix}:pivot-not-reported:int-columns:{fe}", f"integer-typed columns moved to pivot {fp} ({form} form) report pivot {got[5:]}", {"par": ipar, "new_pivot": fp, "form": form})
            elif any(abs(a - b) > 1e-9 * (1 + abs(b)) + 1e-9 * abs(ALPHA / ipar[2]) for a, b in zip(got, want)):
                report(f"{prefix}:array-differs-from-object:int-columns:{fe}", f"integer-typed columns moved to {fp}: {got} vs object {want}", {"par": ipar, "new_pivot": fp, "form": form})

FIELDS5 = ("dr", "phi0", "kappa", "dz", "tanl")
def snapshot(a):
    """deep, memory-independent copy of everything a helix array holds"""
    d = {f: json.dumps(ak.to_list(a[f])) for f in FIELDS5}
    d["pivot"] = json.dumps(ak.to_list(a.pivot))
    if "error" in a.fields: d["error"] = json.dumps(ak.to_list(a.error))
    return d

def _reuse_history(prefix):
    """one helix array (built zero-copy on caller-owned NumPy buffers) moved several times and inspected in between:
    a move never changes its source, the caller's buffers or an earlier result; the same move asked twice gives the same answer;
    every move equals the per-track object move from the ORIGINAL numbers"""
    global n_eval
    m = rng.choice([2, 3, 5, 6]); P = [gen_helix() for _ in range(m)]; p0 = gen_pivot(); p1 = gen_pivot(); p2 = gen_pivot()
    E = [gen_error() for _ in range(m)] if rng.random() < 0.7 else None
    nested = m >= 3 and rng.random() < 0.5; cnts = [1, m - 2, 1]
    bump(f"history:reuse:{'nested' if nested else 'flat'}:{'err' if E is not None else 'noerr'}")
    cols = {c: np.array([pp[k] for pp in P], dtype=np.float64) for k, c in enumerate(FIELDS5)}
    ebuf = None if E is None else np.ascontiguousarray(np.array(E, dtype=np.float64))
    keep = {c: v.copy() for c, v in cols.items()}; ekeep = None if ebuf is None else ebuf.copy()
    wrap_ = (lambda x: ak.unflatten(ak.Array(x), cnts)) if nested else (lambda x: ak.Array(x))
    kw = {c: wrap_(v) for c, v in cols.items()}
    if ebuf is not None: kw["error"] = wrap_(ebuf)
    ha = p3.helix_awk(**kw, pivot=tuple(p0))
    s0 = snapshot(ha)
    m1 = ha.change_pivot(*p1); s1 = snapshot(m1); n_eval += 1
    inp = {"tracks": P, "pivot": p0, "moves": [p1, p2], "nested": nested, "with_error": E is not None}
    def source_intact(after):
        if snapshot(ha) != s0: report(f"{prefix}:history:source-modified-by-move", f"the helix array itself changed after {after} (fields differ from the values it was built with)", inp)
        if any(not np.array_equal(cols[c], keep[c]) for c in cols) or (ebuf is not None and not np.array_equal(ebuf, ekeep)):
            report(f"{prefix}:history:caller-buffer-modified", f"a NumPy array the caller built the helix from was overwritten by {after}", inp)
    source_intact("one change_pivot")
    m2 = ha.change_pivot(*p2); n_eval += 1
    if snapshot(m1) != s1: report(f"{prefix}:history:earlier-result-changed", "the result of the first move changed when the source was moved again", inp)
    source_intact("two change_pivot calls")
    m1b = ha.change_pivot(*p1); n_eval += 1
    if snapshot(m1b) != s1: report(f"{prefix}:history:not-repeatable", "the same move of the same array gave a different result the second time", inp)
    for lab, out, pp in (("second move", m2, p2), ("first move", m1, p1)):
        flat = {f: ak.to_numpy(ak.flatten(out[f], axis=None)) for f in FIELDS5}
        eo = None if E is None else ak.to_numpy(ak.flatten(out.error, axis=None)).reshape(-1, 5, 5)
        for j in range(m):
            ho = obj(P[j], p0, None if E is None else E[j]).change_pivot(*pp); sc = scale(P[j], p0, pp)
            if any(abs(float(flat[f][j]) - w) > 1e-9 * sc * (1 + abs(P[j][4])) for f, w in zip(FIELDS5, pars(ho))):
                report(f"{prefix}:history:array-differs-from-object", f"{lab} of a re-used array, track {j}: {[float(flat[f][j]) for f in FIELDS5]} vs object {pars(ho)}", inp); break
            if E is not None and not np.allclose(eo[j], np.asarray(ho.error), rtol=1e-9, atol=1e-15):
                report(f"{prefix}:history:error-differs-from-object", f"{lab} of a re-used array, track {j}: propagated error matrix differs from the object moved from the original numbers", inp); break

def _object_mutation(prefix):
    """HelixObject has plain public attributes: after one is reassigned, every derived quantity follows the new value"""
    global n_eval
    par, p0, p1 = gen_helix(), gen_pivot(), gen_pivot()
    h = obj(par, p0); _ = (h.radius, h.momentum, h.position, h.charge); _ = h.change_pivot(*p1); _ = h.isclose(h)
    k = rng.randrange(5); new = list(par)
    new[k] = {0: par[0] + 0.37, 1: (par[1] + 1.1) % TWO_PI, 2: par[2] * rng.choice([1.02, -1.0, 0.5]), 3: par[3] - 2.5, 4: par[4] + 0.3}[k]
    setattr(h, FIELDS5[k], new[k]); n_eval += 1; bump(f"history:object-attribute:{FIELDS5[k]}")
    # ... and the error matrix edited in place (same ndarray object, new content) between two identical moves
    E = gen_error(); he = obj(par, p0, E.copy()); _ = he.change_pivot(*p1)
    he.error *= 4.0; he.error[2, :] *= 1.5; he.error[:, 2] *= 1.5; n_eval += 1
    wantE = np.asarray(obj(par, p0, np.array(he.error, copy=True)).change_pivot(*p1).error); gotE = np.asarray(he.change_pivot(*p1).error)
    if not np.allclose(gotE, wantE, rtol=1e-12, atol=0):
        report(f"{prefix}:history:stale-after-error-edit", "after the error matrix of a used object was edited in place, change_pivot returns the matrix propagated from the OLD content",
               {"par": par, "pivot": p0, "new_pivot": p1})
    # the documented default pivot is the origin for EVERY helix, whatever was done to another helix' pivot vector
    d1 = p3.helix_obj(params=tuple(par)); d2 = p3.helix_obj(*par); n_eval += 1
    try:
        d1.pivot.x += 3.25; d1.pivot.z -= 1.5
    except Exception:
        pass
    d3 = p3.helix_obj(params=tuple(par)); d4 = p3.helix_awk(ak.Array(np.array([par, par])))
    if piv_of(d2) != [0.0, 0.0, 0.0] or piv_of(d3) != [0.0, 0.0, 0.0] or [float(d4.pivot[c][0]) for c in "xyz"] != [0.0, 0.0, 0.0]:
        report(f"{prefix}:history:default-pivot-shared", f"after `h.pivot.x += 3.25` on ONE default-pivot helix: another existing helix reports pivot {piv_of(d2)}, a new one {piv_of(d3)}, "
               f"a new array {[float(d4.pivot[c][0]) for c in 'xyz']} (the default pivot is the origin)", {"par": par})
    f = obj(new, p0); a, b = h.change_pivot(*p1), f.change_pivot(*p1)
    got = pars(a) + [h.radius, h.momentum.pt, h.momentum.phi, h.momentum.pz, h.position.x, h.position.y, h.position.z, h.charge]
    want = pars(b) + [f.radius, f.momentum.pt, f.momentum.phi, f.momentum.pz, f.position.x, f.position.y, f.position.z, f.charge]
    if any(abs(g - w) > 1e-12 * (1 + abs(w)) for g, w in zip(got, want)):
        report(f"{prefix}:history:stale-after-attribute-update:{FIELDS5[k]}", f"after h.{FIELDS5[k]} = {new[k]!r} the object gives {got}, a fresh object with the same numbers {want}",
               {"par": par, "pivot": p0, "new_pivot": p1, "attribute": FIELDS5[k], "value": new[k]})

def _tiny_kappa_charge(prefix):
    """charge of a (numerically) straight track: object, record, array and the public kernel agree for |kappa| at and around the neutral band"""
    global n_eval
    ks = [0.0, 1e-12, -3e-11, 1e-10, -1e-10, float(np.nextafter(1e-10, 1)), float(np.nextafter(-1e-10, -1)), 2e-10, -2e-10, 5e-324, -5e-324, 0.3, -0.3]
    P = [[0.1, 1.0, k, 0.2, 0.3] for k in ks]; bump("charge:tiny-kappa")
    want = [int(obj(pp, [0.0, 0.0, 0.0]).charge) for pp in P]; n_eval += len(ks)
    a = awk(P, [[0.0, 0.0, 0.0]] * len(P))
    got = {"array": [int(x) for x in ak.to_numpy(a.charge)], "record": [int(a[i].charge) for i in range(len(P))],
           "nested-array": [int(x) for x in ak.to_numpy(ak.flatten(ak.unflatten(a, [3, 0, len(P) - 3]).charge))],
           "kernel": [int(x) for x in np.asarray(p3.tracks.helix.kappa_to_charge(np.array(ks)))] if hasattr(p3.tracks.helix, "kappa_to_charge") else None}
    for form, g in got.items():
        if g is not None and g != want:
            j = next(i for i in range(len(ks)) if g[i] != want[i])
            report(f"{prefix}:array-differs-from-object:charge:tiny-kappa:{form}", f"charge of kappa = {ks[j]!r}: {form} says {g[j]}, the single-track object {want[j]} (all: {g} vs {want})", {"kappas": ks})

def _curvilinear_vectors(prefix):
    """pivots / positions given as vector objects in cylindrical or spherical coordinates are the same points as their Cartesian forms"""
    global n_eval
    par, E = gen_helix(), gen_error()
    x, y, z = rng.uniform(-4, 4), rng.uniform(-4, 4), rng.uniform(-6, 6)
    rho, phi = math.hypot(x, y), math.atan2(y, x); theta = math.atan2(rho, z); eta = -math.log(math.tan(theta / 2))
    forms = {"cartesian": vector.obj(x=x, y=y, z=z), "rho-phi-z": vector.obj(rho=rho, phi=phi, z=z), "rho-phi-theta": vector.obj(rho=rho, phi=phi, theta=theta),
             "x-y-theta": vector.obj(x=x, y=y, theta=theta), "rho-phi-eta": vector.obj(rho=rho, phi=phi, eta=eta)}
    bump("pivot:vector-object-coordinate-systems")
    ref_new = pars(obj(par, [0.0, 0.0, 0.0], E).change_pivot(x, y, z)); ref_init = obj(par, [x, y, z])
    refpos = [ref_init.position.x, ref_init.position.y, ref_init.position.z]
    sc = 1 + abs(ALPHA / par[2]) + abs(par[0]) + 10
    for nm, v in forms.items():
        n_eval += 3
        g1 = pars(obj(par, [0.0, 0.0, 0.0], E).change_pivot(v))
        g2 = [float(t) for t in (lambda a: [a.dr[0], a.phi0[0], a.kappa[0], a.dz[0], a.tanl[0]])(awk([par], [[0.0, 0.0, 0.0]], [E]).change_pivot(v))]
        h3 = p3.helix_obj(params=tuple(par), pivot=v); g3 = [h3.position.x, h3.position.y, h3.position.z]
        for lab, g, w in (("change_pivot:obj", g1, ref_new), ("change_pivot:arr", g2, ref_new), ("initial-pivot:obj", g3, refpos)):
            if any((abs(wrap(a - b)) > 1e-9) if (k == 1 and lab.startswith("change")) else (abs(a - b) > 1e-9 * sc * (1 + abs(par[4]))) for k, (a, b) in enumerate(zip(g, w))):
                report(f"{prefix}:pivot-forms-differ:vector-object:{nm}:{lab}", f"pivot given as vector.obj in {nm} coordinates ({x!r}, {y!r}, {z!r}): {g}; as Cartesian numbers: {w}", {"par": par, "point": [x, y, z], "form": nm})
    # the physics-quantity constructor with position AND pivot as curvilinear vector objects
    hpos = obj(par, [x, y, z])
    pos = hpos.position; posv = vector.obj(rho=math.hypot(pos.x, pos.y), phi=math.atan2(pos.y, pos.x), z=pos.z)
    hb = p3.helix_obj(position=posv, momentum=hpos.momentum, charge=hpos.charge, pivot=forms["rho-phi-z"]); n_eval += 1
    back = pars(hb)
    if abs(back[0] - par[0]) > 1e-8 * sc or abs(wrap(back[1] - par[1])) > 1e-8 or abs(back[3] - par[3]) > 1e-8 * sc:
        report(f"{prefix}:roundtrip:vector-object:rho-phi-z", f"helix rebuilt from its position / pivot given as cylindrical vector objects: {back} vs {par}", {"par": par, "pivot": [x, y, z]})

tiny_kappa_charge = None
curvilinear_vectors = None
_AFA = [0]
def _array_field_assignment(prefix):
    """ak.Array supports in-place field assignment (`h["kappa"] = h.kappa / 1.25`, e.g. a momentum-scale correction): a helix array that
    was already used (radius / move / closeness) and then gets a column replaced behaves like a new array built from the new numbers"""
    global n_eval
    m = rng.choice([2, 3, 5]); P = [gen_helix() for _ in range(m)]; p0, p1 = gen_pivot(), gen_pivot()
    E = [gen_error() for _ in range(m)] if rng.random() < 0.6 else None
    lay = rng.choice(["flat", "ragged"]) if m >= 3 else "flat"
    ha = awk(P, [p0] * m, E, lay); _ = ha.radius; _ = ha.change_pivot(*p1); _ = ha.isclose(ha); _ = (ha.momentum, ha.position, ha.charge)
    _AFA[0] += 1; k = (1 + _AFA[0]) % 5      # kappa first, then every column in turn
    f = FIELDS5[k]; bump(f"history:array-field-assignment:{f}:{lay}")
    fac = {0: 1.0, 1: 1.0, 2: rng.choice([0.8, -1.0, 1.25]), 3: 1.0, 4: 1.0}[k]; add = {0: 0.37, 1: 0.0, 2: 0.0, 3: -2.5, 4: 0.3}[k]
    if k == 1: ha[f] = (ha[f] + 1.1) % TWO_PI
    else: ha[f] = ha[f] * fac + add
    n_eval += 1
    newP = [list(pp) for pp in P]
    for pp in newP: pp[k] = (pp[k] + 1.1) % TWO_PI if k == 1 else pp[k] * fac + add
    fresh = awk(newP, [p0] * m, E, lay)
    inp = {"tracks": P, "pivot": p0, "new_pivot": p1, "assigned_field": f, "layout": lay}
    def flatv(x): return [float(v) for v in ak.to_numpy(ak.flatten(x, axis=None))]
    for what, g, w in (("radius", flatv(ha.radius), flatv(fresh.radius)), ("momentum.pt", flatv(ha.momentum.pt), flatv(fresh.momentum.pt)),
                       ("position.x", flatv(ha.position.x), flatv(fresh.position.x)), ("charge", flatv(ha.charge), flatv(fresh.charge))):
        if any(abs(a - b) > 1e-12 * (1 + abs(b)) for a, b in zip(g, w)):
            report(f"{prefix}:history:stale-after-field-assignment:{what}", f"after h[{f!r}] = ... on a used helix array, {what} = {g}; a new array holding the same numbers gives {w}", inp); return
    a, b = ha.change_pivot(*p1), fresh.change_pivot(*p1)
    for ff in FIELDS5:
        if any(abs(x - y) > 1e-12 * (1 + abs(y)) for x, y in zip(flatv(a[ff]), flatv(b[ff]))):
            report(f"{prefix}:history:stale-after-field-assignment:change_pivot", f"after h[{f!r}] = ... on a used helix array, change_pivot gives {ff} = {flatv(a[ff])}; a new array holding the same numbers gives {flatv(b[ff])}", inp); return
    if E is not None and not np.allclose(np.array(flatv(a.error)), np.array(flatv(b.error)), rtol=1e-12, atol=0):
        report(f"{prefix}:history:stale-after-field-assignment:error", f"after h[{f!r}] = ... on a used helix array, the propagated error matrices differ from those of a new array holding the same numbers", inp); return
    if flatv(ha.isclose(fresh)) != flatv(fresh.isclose(fresh)):
        report(f"{prefix}:history:stale-after-field-assignment:isclose", f"after h[{f!r}] = ... on a used helix array, isclose against a new array holding the same numbers says {ak.to_list(ha.isclose(fresh))}", inp)

def _large_array(prefix):
    """more tracks than any internal block size (70 001, not a multiple of a power of two): every track, the last ones included,
    equals the object move; error matrices too"""
    global n_eval
    n = 70001; bump("layout:large-flat")
    base = [gen_helix() for _ in range(7)]; E7 = [gen_error() for _ in range(7)]; p0, p1 = gen_pivot("near"), gen_pivot("near")
    idx = np.arange(n) % 7
    cols = {c: ak.Array(np.array([b[k] for b in base])[idx]) for k, c in enumerate(FIELDS5)}
    ha = p3.helix_awk(**cols, error=ak.Array(np.array(E7)[idx]), pivot=tuple(p0)); out = ha.change_pivot(*p1); n_eval += n
    refs = [obj(base[j], p0, E7[j]).change_pivot(*p1) for j in range(7)]
    flat = {f: ak.to_numpy(out[f]) for f in FIELDS5}; eo = ak.to_numpy(out.error)
    for j in range(7):
        sel = np.nonzero(idx == j)[0]; sc = scale(base[j], p0, p1)
        for f, w in zip(FIELDS5, pars(refs[j])):
            bad = np.nonzero(np.abs(flat[f][sel] - w) > 1e-9 * sc * (1 + abs(base[j][4])))[0]
            if bad.size:
                report(f"{prefix}:array-differs-from-object:large-array:{f}", f"track {int(sel[bad[0]])} of {n}: {f} = {flat[f][sel[bad[0]]]!r}, object {w!r} ({bad.size} tracks differ)", {"n_tracks": n, "track": int(sel[bad[0]])}); break
        d = np.abs(eo[sel] - np.asarray(refs[j].error)[None, :, :]).reshape(len(sel), -1).max(axis=1)
        d = np.where(np.isfinite(d), d, np.inf)
        bad = np.nonzero(d > 1e-9 * (1 + np.abs(np.asarray(refs[j].error)).max()))[0]
        if bad.size:
            report(f"{prefix}:error-differs-from-object:large-array", f"track {int(sel[bad[0]])} of {n}: propagated error matrix differs from the object's ({bad.size} tracks)", {"n_tracks": n, "track": int(sel[bad[0]])})
    # a move to the own pivot, and there and back, over ALL tracks (block boundaries included)
    same = ak.to_numpy(ha.change_pivot(*p0).error); back = ak.to_numpy(out.change_pivot(*p0).error); e_in = np.array(E7)[idx]; n_eval += 2 * n
    emax = np.abs(e_in).reshape(n, -1).max(axis=1); emid = np.abs(eo).reshape(n, -1).max(axis=1)
    for lab, got, tol in (("identity", same, 1e-12 * (1 + emax)), ("there-and-back", back, 1e-9 * (1 + emax) + 1e-12 * np.where(np.isfinite(emid), emid, 0.0))):
        d = np.abs(got - e_in).reshape(n, -1).max(axis=1); d = np.where(np.isfinite(d), d, np.inf)
        canon = np.array([canonical(b) for b in base])[idx]     # a far-side helix is re-written in canonical form by any move (C11 is stated for canonical ones)
        bad = np.nonzero((d > tol) & canon)[0]
        if bad.size:
            report(f"{prefix}:{lab}-error:large-array", f"track {int(bad[0])} of {n}: error matrix after the {lab} move differs from the original by {d[bad[0]]!r} ({bad.size} tracks)", {"n_tracks": n, "track": int(bad[0])})

def _reordered_views(prefix):
    """helix arrays (with error matrices) whose tracks / events are re-ordered or selected by an index, inside events, across events,
    and as a column of an event record: every track keeps ITS parameters, pivot and error matrix"""
    global n_eval
    m = 7; P = [gen_helix() for _ in range(m)]; E = [gen_error() for _ in range(m)]; cnts = [2, 0, 3, 2]
    pvs = [[rng.uniform(-3, 3) for _ in range(3)] for _ in range(m)]; p1 = gen_pivot()
    un = lambda x: ak.unflatten(ak.Array(np.array(x, dtype=np.float64)), cnts)
    kw = {c: un([pp[k] for pp in P]) for k, c in enumerate(FIELDS5)}
    kw["error"] = un(E); kw["pivot"] = ak.zip({"x": un([v[0] for v in pvs]), "y": un([v[1] for v in pvs]), "z": un([v[2] for v in pvs])}, with_name="Vector3D")
    ha = p3.helix_awk(**kw)
    ref = {}
    for j in range(m):
        ho = obj(P[j], pvs[j], E[j]).change_pivot(*p1); ref[(P[j][0], P[j][1])] = (j, pars(ho), np.asarray(ho.error))
    run = ak.Array([3, 1, 4, 2])
    views = {"inner-argsort": lambda: ha[ak.argsort(abs(ha.kappa), axis=1)], "outer-index": lambda: ha[[2, 0, 3, 1]], "outer-index-dropping": lambda: ha[[2, 0]],
             "inner-mask": lambda: ha[ha.kappa > 0], "outer-slice": lambda: ha[1:],
             "record-column-reordered": lambda: ak.zip({"run": run, "trk": ha}, depth_limit=1)[ak.argsort(run)].trk,
             "record-column-masked": lambda: ak.zip({"run": run, "trk": ha}, depth_limit=1)[run > 1].trk}
    for vname, mk in views.items():
        bump(f"layout:reordered:{vname}"); n_eval += 1
        inp = {"tracks": P, "pivots": pvs, "new_pivot": p1, "counts": cnts, "view": vname}
        try:
            hv = mk(); out = hv.change_pivot(*p1)
            if ak.to_list(ak.num(out.dr, axis=-1)) != ak.to_list(ak.num(hv.dr, axis=-1)):
                report(f"{prefix}:nesting-changed:reordered:{vname}", f"output nesting {ak.to_list(ak.num(out.dr, axis=-1))} differs from the view's {ak.to_list(ak.num(hv.dr, axis=-1))}", inp); continue
            sdr = ak.to_numpy(ak.flatten(hv.dr, axis=None)); sph = ak.to_numpy(ak.flatten(hv.phi0, axis=None))
            flat = {f: ak.to_numpy(ak.flatten(out[f], axis=None)) for f in FIELDS5}
            eo = ak.to_numpy(ak.flatten(out.error, axis=None)).reshape(-1, 5, 5)
            for t in range(len(sdr)):
                j, wp, we = ref[(float(sdr[t]), float(sph[t]))]; sc = scale(P[j], pvs[j], p1)
                if any(abs(float(flat[f][t]) - w) > 1e-9 * sc * (1 + abs(P[j][4])) for f, w in zip(FIELDS5, wp)):
                    report(f"{prefix}:array-differs-from-object:reordered:{vname}", f"track {j} at position {t} of a {vname} view: {[float(flat[f][t]) for f in FIELDS5]} vs object {wp}", inp); break
                if not np.allclose(eo[t], we, rtol=1e-9, atol=1e-15):
                    report(f"{prefix}:error-differs-from-object:reordered:{vname}", f"track {j} at position {t} of a {vname} view carries another track's propagated error matrix", inp); break
        except Exception as e:
            report(f"{prefix}:raises:reordered:{vname}:{type(e).__name__}", f"{vname} view raised {type(e).__name__}: {str(e)[:200]}", inp)

def _guarded(fn, name):
    """a search item that makes the implementation raise reports that as a violation with the item's name instead of aborting the search"""
    def run(prefix):
        st = rng.getstate()
        try:
            fn(prefix)
        except Exception as e:  # noqa
            import traceback
            tb = traceback.extract_tb(e.__traceback__)
            where = next((f"{t.filename.split('/')[-1]}:{t.lineno}" for t in reversed(tb) if "/pybes3/" in t.filename), "?")
            report(f"{prefix}:{name}:raises:{type(e).__name__}", f"{name} made the implementation raise {type(e).__name__} at {where}: {str(e)[:200]}", {"item": name, "rng_state_hash": hash(st) % 10**9})
    return run
def _isclose_boundary(prefix):
    """closeness decided at the boundary of the tolerance (np.isclose(a, b) scales rtol by |b|: the roles of the two helices matter);
    array, single record (with and without error matrix) and object must give the same verdict"""
    global n_eval
    m = rng.choice([1, 3, 4]); P = [gen_helix() for _ in range(m)]; p0 = gen_pivot()
    # closeness decided at the boundary of the tolerance (np.isclose(a, b) scales rtol by |b|: the roles of the two helices matter)
    bump("isclose:boundary")
    k = rng.randrange(5); rt = rng.choice([1e-5, 1e-3, 0.1]); at = rng.choice([1e-8, 0.0])
    Pa = [list(pp) for pp in P]; Pb = [list(pp) for pp in P]
    for j in range(m):
        base = Pa[j][k] if abs(Pa[j][k]) > 1e-3 else 1.0
        Pa[j][k] = base
        # |a - b| between atol + rtol*|a| and atol + rtol*|b|  (b a little larger in magnitude), or just outside / inside both
        Pb[j][k] = base * (1 + rt * rng.choice([0.5, 1.0 + 0.5 * rt, 1.0 + 2 * rt, 1.5])) + (at if base > 0 else -at)
    for A, B, lab in ((Pa, Pb, "a~b"), (Pb, Pa, "b~a")):
        ga = ak.to_numpy(awk(A, [p0] * m).isclose(awk(B, [p0] * m), rtol=rt, atol=at)); n_eval += 1
        for j in range(m):
            wo = bool(obj(A[j], p0).isclose(obj(B[j], p0), rtol=rt, atol=at))
            wr = bool(awk([A[j]], [p0])[0].isclose(awk([B[j]], [p0])[0], rtol=rt, atol=at))
            if bool(ga[j]) != wo or wr != wo:
                report(f"{prefix}:array-differs-from-object:isclose:tolerance-boundary", f"track {j} ({lab}, field {FIELDS5[k]}, rtol={rt}, atol={at}): array {bool(ga[j])}, record {wr}, object {wo}",
                       {"a": A[j], "b": B[j], "pivot": p0, "rtol": rt, "atol": at}); break
    # NaN in the error matrix (a fit without covariance) with equal_nan=True / False: array, record and object agree
    En = np.full((5, 5), np.nan); a1 = P[0]          # (a partly-NaN matrix becomes all NaN when it is moved: only the all-NaN one can compare equal)
    for eqn in (True, False):
        wo = bool(obj(a1, p0, En).isclose(obj(a1, p0, En), equal_nan=eqn)); n_eval += 1
        wa = bool(ak.to_numpy(awk([a1, a1], [p0, p0], [En, En]).isclose(awk([a1, a1], [p0, p0], [En, En]), equal_nan=eqn))[1])
        wr = bool(awk([a1], [p0], [En])[0].isclose(awk([a1], [p0], [En])[0], equal_nan=eqn))
        if not (wo == wa == wr):
            report(f"{prefix}:array-differs-from-object:isclose:nan-error-matrix", f"error matrix holding NaN, equal_nan={eqn}: array {wa}, record {wr}, object {wo}", {"par": a1, "pivot": p0, "equal_nan": eqn})
    # with error matrices on both sides as well (records and objects)
    E = gen_error(); a0 = P[0]; b0 = list(a0); b0[3] = a0[3] + 1e-7
    wo = bool(obj(a0, p0, E).isclose(obj(b0, p0, E))); wr = bool(awk([a0], [p0], [E])[0].isclose(awk([b0], [p0], [E])[0])); n_eval += 1
    if wo != wr:
        report(f"{prefix}:array-differs-from-object:isclose:record-with-error", f"record {wr}, object {wo}", {"a": a0, "b": b0, "pivot": p0})
def _named_pivot_forms(prefix):
    """a new pivot given as a coordinate RECORD / per-track record array whose fields are declared in another order than x, y, z:
    coordinates are named, the reported pivot is the requested one and the move equals the move to (x, y, z)"""
    global n_eval
    par, p0, p1 = gen_helix(), gen_pivot(), gen_pivot("near"); E = gen_error()
    want_h = obj(par, p0, E).change_pivot(*p1); want = pars(want_h) + list(p1)
    for order in ("zxy", "yzx"):
        rec = ak.Record({c: p1["xyz".index(c)] for c in order})
        per = ak.zip({c: [p1["xyz".index(c)]] * 2 for c in order}, with_name="Vector3D")
        forms = {"obj": lambda: (lambda h: pars(h) + piv_of(h))(obj(par, p0, E).change_pivot(rec)),
                 "rec": lambda: (lambda r: [float(r[f]) for f in FIELDS5] + [float(r.pivot[c]) for c in "xyz"])(awk([par], [p0], [E])[0].change_pivot(rec)),
                 "arr": lambda: (lambda a: [float(a[f][1]) for f in FIELDS5] + [float(a.pivot[c][1]) for c in "xyz"])(awk([par, par], [p0, p0], [E, E]).change_pivot(rec)),
                 "arr-per-track": lambda: (lambda a: [float(a[f][1]) for f in FIELDS5] + [float(a.pivot[c][1]) for c in "xyz"])(awk([par, par], [p0, p0], [E, E]).change_pivot(per))}
        for fe, mk in forms.items():
            bump(f"pivot-form:record-{order}:{fe}"); n_eval += 1
            got = mk()
            if got[5:] != list(p1):
                report(f"{prefix}:pivot-not-reported:record-fields-{order}:{fe}", f"pivot given as a record with fields declared {order}: reported {got[5:]}, requested {p1}", {"par": par, "pivot": p0, "new_pivot": p1})
            elif any(abs(g - w) > 1e-9 * scale(par, p0, p1) * (1 + abs(par[4])) for g, w in zip(got, want)):
                report(f"{prefix}:array-differs-from-object:record-fields-{order}:{fe}", f"{got} vs move to x, y, z {want}", {"par": par, "pivot": p0, "new_pivot": p1})
int_columns_move = _guarded(_int_columns_move, "int-columns")
named_pivot_forms = _guarded(_named_pivot_forms, "named-pivot")
isclose_boundary = _guarded(_isclose_boundary, "isclose-boundary")
reuse_history = _guarded(_reuse_history, "history")
object_mutation = _guarded(_object_mutation, "history-object")
reordered_views = _guarded(_reordered_views, "reordered")
large_array = _guarded(_large_array, "large-array")
array_field_assignment = _guarded(_array_field_assignment, "history-array-field")
tiny_kappa_charge = _guarded(_tiny_kappa_charge, "tiny-kappa-charge")
curvilinear_vectors = _guarded(_curvilinear_vectors, "curvilinear-vector-objects")

# ------------------------------------------------------------------------------------------------ validate
def do_validate():
    global n_eval
    spec = importlib.util.spec_from_file_location("helix_ir", sys.argv[4]); ir = importlib.util.module_from_spec(spec); spec.loader.exec_module(ir)
    n = 600 if tier == "quick" else 4000
    cases = [(gen_helix(), gen_pivot(), gen_pivot(), gen_error()) for _ in range(n)]
    def close(a, b, sc): return abs(a - b) <= 1e-9 * sc
    def angclose(a, b): return abs(wrap(a - b)) <= 1e-9
    for par, p0, p1, E in cases:
        dr, phi0, kappa, dz, tanl = par
        h = obj(par, p0, E)
        props = ir.obj_props(dr, phi0, kappa, dz, tanl, *p0)
        mom = h.momentum; pos = h.position
        got = dict(radius=h.radius, pt=mom.pt, phi=mom.phi, pz=mom.pz, x=pos.x, y=pos.y, z=pos.z, charge=h.charge)
        for k in props:
            n_eval += 1
            if not close(float(got[k]), float(props[k]), 1 + abs(float(props[k]))):
                report(f"validate:prop:{k}", f"translated {k} = {props[k]!r}, implementation {got[k]!r}", {"par": par, "pivot": p0})
        sc = scale(par, p0, p1)
        for fe in ("obj", "rec", "arr"):
            if fe == "obj":
                h2 = h.change_pivot(*p1); out = (h2.dr, h2.phi0, h2.dz, np.asarray(h2.error))
            elif fe == "rec":
                r2 = awk([par], [p0], [E])[0].change_pivot(*p1); out = (float(r2.dr), float(r2.phi0), float(r2.dz), ak.to_numpy(r2.error))
            else:
                a2 = awk([par, par], [p0, p0], [E, E]).change_pivot(*p1); out = (float(a2.dr[1]), float(a2.phi0[1]), float(a2.dz[1]), ak.to_numpy(a2.error[1]))
            fn = ir.cp_obj if fe != "arr" else getattr(ir, "cp_arr", None)
            if fn is None: continue
            ndr, nphi, ndz, dphi, J = fn(h.radius, dr, phi0, dz, kappa, tanl, *p0, *p1)
            n_eval += 4
            Jm = np.array(J); Em = Jm @ E @ Jm.T
            # a turning angle of +-pi up to rounding (e.g. a far-side helix moved along z only: it is re-written on the near side) sits ON the
            # branch cut of the wrap: +pi and -pi are both right, dz then differs by one helix pitch and the Jacobian's dz row with it
            on_cut = abs(abs(float(dphi)) - math.pi) < 1e-6
            pitch = abs(TWO_PI * (ALPHA / kappa) * tanl)
            dz_ok = close(out[2], ndz, sc * (1 + abs(tanl))) or (on_cut and min(abs(out[2] - ndz - k * pitch) for k in (-1, 1)) <= 1e-9 * sc * (1 + abs(tanl)))
            same_branch = close(out[2], ndz, sc * (1 + abs(tanl)))
            if on_cut: bump("validate:turning-angle-on-branch-cut")
            ok = close(out[0], ndr, sc) and angclose(out[1], nphi) and dz_ok \
                and (not same_branch or np.allclose(out[3], Em, rtol=1e-7, atol=1e-12 * (1 + np.abs(Em).max())))
            if not ok:
                report(f"validate:change_pivot:{fe}", f"translated model differs from implementation ({fe}): model {(ndr, nphi, ndz)} impl {out[:3]}",
                       {"par": par, "pivot": p0, "new_pivot": p1})
    for c in cases[:3]: samples.append({"helix": c[0], "pivot": c[1], "new_pivot": c[2]})

# ------------------------------------------------------------------------------------------------ C06
def do_c06():
    global n_eval
    n = 500 if tier == "quick" else 5000
    for i in range(n + len(CORNERS)):
        par, p0, p1 = corner(i) or (gen_helix(), gen_pivot(), gen_pivot())
        if i >= len(CORNERS) and i % 8 == 0: p1 = near_centre_pivot(par, p0)
        if i % 12 == 0: object_mutation("C06"); array_field_assignment("C06")
        if i % 25 == 0: int_columns_move("C06"); reuse_history("C06"); named_pivot_forms("C06"); curvilinear_vectors("C06")
        if i >= len(CORNERS) and 0 < TWO_PI - par[1] < 1e-4 and rng.random() < 0.7:
            p1 = [p0[0], p0[1], p0[2] + rng.uniform(-5, 5)]; bump("pivot:z-only-at-the-seam")      # keeps phi0: the RESULT sits just below 2*pi
        c = centre(par, p0)
        if math.hypot(c[0] - p1[0], c[1] - p1[1]) < 1e-3: continue
        fe = rng.choice(["obj", "rec", "arr"])
        if fe == "obj": h2 = obj(par, p0).change_pivot(*p1); par2 = pars(h2)
        elif fe == "rec": r2 = awk([par], [p0])[0].change_pivot(*p1); par2 = [float(r2[f]) for f in ("dr", "phi0", "kappa", "dz", "tanl")]
        else:
            other = gen_helix(); a2 = awk([other, par], [p0, p0]).change_pivot(*p1); par2 = [float(a2[f][1]) for f in ("dr", "phi0", "kappa", "dz", "tanl")]
        q = "pos" if par[2] > 0 else "neg"
        sc = scale(par, p0, p1)
        d = wrap(par2[1] - par[1])
        if abs(abs(d) - math.pi) < 1e-6: continue
        worst = 0.0
        for s in (0.0, 0.7, -1.3):
            worst = max(worst, float(np.abs(traj(par2, p1, s) - traj(par, p0, s + d)).max())); n_eval += 1
        if par2[2] != par[2] or par2[4] != par[4]:
            report(f"C06:curvature-or-dip-changed:{fe}", "kappa/tanl changed by a pivot change", {"par": par, "pivot": p0, "new_pivot": p1, "out": par2})
        if worst > 1e-7 * sc * (1 + abs(par[4])):
            report(f"C06:trajectory-changed:{q}:{fe}", f"trajectory moved by {worst:.3g} cm (charge {q}, {fe} form)",
                   {"par": par, "pivot": p0, "new_pivot": p1, "out": par2})
        # closest approach: |dr'| = | |c-p'| - |r| |
        dist_c = math.hypot(c[0] - p1[0], c[1] - p1[1]); n_eval += 1
        if abs(abs(par2[0]) - abs(dist_c - abs(ALPHA / par[2]))) > 1e-7 * sc:
            report(f"C06:reference-not-closest:{q}:{fe}", "new reference point is not the closest point of the circle to the new pivot",
                   {"par": par, "pivot": p0, "new_pivot": p1, "out": par2})
    samples.append({"helix": par, "pivot": p0, "new_pivot": p1, "form": fe})
    # data confirmation: hits of reconstructed tracks lie within a drift cell of the helix (uses the implementation's change_pivot)
    import uproot
    from pathlib import Path
    data = Path(p3.__file__).resolve().parents[2] / "tests" / "data"
    if not data.exists(): data = Path("/repo/tests/data")
    res = {}
    for f in ("test_full_mc_evt_1.rec", "test_cgem.rec"):
        t = uproot.open(str(data / f))["Event/TRecEvent"]
        trks = t["m_recMdcTrackCol"].array(); hits = t["m_recMdcHitCol"].array()
        worst_dr = {"pos": 0.0, "neg": 0.0}; worst_dz = {"pos": 0.0, "neg": 0.0}; nh = 0
        for ev in range(len(trks)):
            tk = {int(tr.m_trackId): tr for tr in trks[ev]}
            for hit in hits[ev]:
                tr = tk.get(int(hit.m_trkid))
                if tr is None: continue
                g = p3.parse_mdc_digi_id(int(hit.m_mdcid))["gid"]
                z = float(hit.m_zhit)
                wx, wy = float(p3.mdc_gid_z_to_x(g, z)), float(p3.mdc_gid_z_to_y(g, z))
                h = p3.helix_obj(params=tuple(float(v) for v in tr.m_helix)).change_pivot(wx, wy, z)
                q = "pos" if h.kappa > 0 else "neg"; nh += 1; n_eval += 1
                worst_dr[q] = max(worst_dr[q], abs(h.dr)); worst_dz[q] = max(worst_dz[q], abs(h.dz))
        res[f] = {"hits": nh, "max_abs_dr_cm": worst_dr, "max_abs_dz_cm": worst_dz}
        for q in ("pos", "neg"):
            if worst_dr[q] > 2.5 or worst_dz[q] > 2.0:
                report(f"C06:hits-off-trajectory:{q}", f"{f}: hits of {q} tracks lie up to {worst_dr[q]:.2f} cm (xy) / {worst_dz[q]:.2f} cm (z) from the helix "
                       "(a drift cell is < 1 cm)", {"file": f, "summary": res[f]})
    samples.append({"data_confirmation": res})

# ------------------------------------------------------------------------------------------------ C11
def canonical(par): return (par[0] + ALPHA / par[2]) / (ALPHA / par[2]) > 0
def move(fe, par, piv, new, err=None):
    if fe == "obj":
        h = obj(par, piv, err).change_pivot(*new); return pars(h), piv_of(h), (None if h.error is None else np.asarray(h.error))
    if fe == "rec":
        r = awk([par], [piv], None if err is None else [err])[0].change_pivot(*new)
        return [float(r[f]) for f in ("dr", "phi0", "kappa", "dz", "tanl")], [float(r.pivot.x), float(r.pivot.y), float(r.pivot.z)], (ak.to_numpy(r.error) if "error" in r.fields else None)
    other = gen_helix()
    a = awk([par, other], [piv, piv], None if err is None else [err, err]).change_pivot(*new)
    return [float(a[f][0]) for f in ("dr", "phi0", "kappa", "dz", "tanl")], [float(a.pivot.x[0]), float(a.pivot.y[0]), float(a.pivot.z[0])], (ak.to_numpy(a.error[0]) if "error" in a.fields else None)

def do_c11():
    global n_eval
    n = 400 if tier == "quick" else 4000
    for i in range(n + len(CORNERS)):
        cc = corner(i)
        par, p0 = (cc[0], cc[1]) if cc else (gen_helix(), gen_pivot())
        fe = rng.choice(["obj", "rec", "arr"]); q = "pos" if par[2] > 0 else "neg"
        E = gen_error() if rng.random() < 0.5 else None
        if E is not None and i % 7 == 3:      # an integer-typed covariance is the same matrix
            A_ = np.array([[rng.randrange(-3, 4) for _ in range(5)] for _ in range(5)], dtype=np.int64); E = A_ @ A_.T + np.diag([1, 2, 3, 4, 5])
        seq = [cc[2]] if cc else [gen_pivot() for _ in range(rng.randrange(1, 5))]
        if not cc and i % 8 == 0: seq[rng.randrange(len(seq))] = near_centre_pivot(par, p0)
        if i % 10 == 0: int_columns_move("C11")
        if i % 12 == 0: reuse_history("C11"); object_mutation("C11"); array_field_assignment("C11")
        if i == 0: large_array("C11")
        if i % 20 == 0: named_pivot_forms("C11")
        if i % 40 == 0: reordered_views("C11")
        c = centre(par, p0)
        if any(math.hypot(c[0] - p[0], c[1] - p[1]) < 1e-3 for p in seq + [p0]): continue
        sc = scale(par, p0, seq[-1]); pitch = abs(TWO_PI * (ALPHA / par[2]) * par[4])
        cur, cp, ce = par, p0, E
        acc = 0.0; half = False
        # rounding: a matrix moved through a pivot close to the circle centre has entries ~ (r / distance)^2 times larger, and the way
        # back inherits eps * that size as ABSOLUTE error; comparisons of error matrices allow 1e-12 * the largest intermediate entry
        emax = [0.0 if E is None else float(np.abs(E).max())]
        for p in seq:
            nxt, npv, ne = move(fe, cur, cp, p, ce); n_eval += 1
            if ne is not None: emax.append(float(np.abs(ne).max()))
            d = wrap(nxt[1] - cur[1]); acc += d
            if abs(abs(d) - math.pi) < 1e-6: half = True
            # fl(2*pi) itself is below the real number 2*pi, but a correct modulo never returns it from an exact 0 / 2*pi angle
            if not (0.0 <= nxt[1] < TWO_PI) and not (nxt[1] == TWO_PI and not cc):
                report(f"C11:phi0-out-of-range:{fe}", f"phi0 = {nxt[1]!r}", {"par": cur, "pivot": cp, "new_pivot": p})
            if max(abs(a - b) for a, b in zip(npv, p)) > 0:
                report(f"C11:pivot-not-reported:{fe}", "reported pivot differs from the requested one", {"par": cur, "pivot": cp, "new_pivot": p, "got": npv})
            if nxt[2] != cur[2] or nxt[4] != cur[4]:
                report(f"C11:kappa-tanl-changed:{fe}", "curvature/dip changed", {"par": cur, "new_pivot": p})
            cur, cp, ce = nxt, npv, ne
        if half: continue
        direct, _, de = move(fe, par, p0, seq[-1], E)
        if abs(cur[0] - direct[0]) > 1e-7 * sc or abs(wrap(cur[1] - direct[1])) > 1e-8:
            report(f"C11:path-dependent:{q}:{fe}", "sequence of pivots differs from the direct move (dr/phi0)", {"par": par, "pivot": p0, "seq": seq, "chained": cur, "direct": direct})
        ddz = cur[3] - direct[3]
        k = round(ddz / pitch) if pitch > 1e-9 else 0
        if abs(ddz - k * pitch) > 1e-7 * sc * (1 + abs(par[4])) * len(seq):
            report(f"C11:dz-path-dependent:{q}:{fe}", "dz after a sequence of pivots is not the direct dz up to whole pitches", {"par": par, "pivot": p0, "seq": seq, "chained": cur, "direct": direct})
        if abs(acc) < math.pi - 1e-6 and k != 0 and abs(ddz) > 1e-7 * sc * (1 + abs(par[4])) * len(seq):
            report(f"C11:dz-not-exact-within-half-turn:{q}:{fe}", "accumulated turning angle within half a turn but dz differs", {"par": par, "pivot": p0, "seq": seq})
        # the error matrix is part of the result: within half a turn the chained and the direct matrices agree
        if E is not None and abs(acc) < math.pi - 1e-6 and k == 0 and ce is not None and de is not None:
            n_eval += 1
            sd = np.sqrt(np.abs(np.diag(de))) + 1e-300
            if np.abs((ce - de) / np.outer(sd, sd)).max() > 1e-5 * len(seq) and not np.allclose(ce, de, rtol=1e-6, atol=1e-12 * (1 + np.abs(de).max()) + 1e-12 * max(emax)):
                report(f"C11:error-path-dependent:{q}:{fe}", "error matrix after a sequence of pivots differs from the direct move (accumulated turning angle within half a turn)",
                       {"par": par, "pivot": p0, "seq": seq, "error": E.tolist()})
        if canonical(par):
            same, _, se = move(fe, par, p0, p0, E); n_eval += 1
            if abs(same[0] - par[0]) > 1e-8 * sc or abs(wrap(same[1] - par[1])) > 1e-9 or abs(same[3] - par[3]) > 1e-8 * sc:
                report(f"C11:identity:{q}:{fe}", "move to the current pivot changed the parameters", {"par": par, "pivot": p0, "out": same})
            if E is not None and not np.allclose(se, E, rtol=1e-7, atol=1e-14 + 1e-14 * (1 + abs(ALPHA / par[2])) * float(np.abs(E).max())):
                report(f"C11:identity-error:{q}:{fe}", "move to the current pivot changed the error matrix", {"par": par, "pivot": p0})
            there = move(fe, par, p0, seq[0], E)
            back, _, be = move(fe, *there[:2], p0, there[2]); n_eval += 1
            mid = 0.0 if there[2] is None else float(np.abs(there[2]).max())
            d01 = wrap(move(fe, par, p0, seq[0])[0][1] - par[1])
            if abs(abs(d01) - math.pi) > 1e-3:
                if abs(back[0] - par[0]) > 1e-7 * sc or abs(wrap(back[1] - par[1])) > 1e-8 or abs(back[3] - par[3]) > 1e-7 * sc * (1 + abs(par[4])):
                    report(f"C11:inverse:{q}:{fe}", "there-and-back does not restore the parameters", {"par": par, "pivot": p0, "via": seq[0], "out": back})
                if E is not None and not np.allclose(be, E, rtol=1e-5, atol=1e-9 * (1 + np.abs(E).max()) + 1e-12 * mid):
                    report(f"C11:inverse-error:{q}:{fe}", "there-and-back does not restore the error matrix", {"par": par, "pivot": p0, "via": seq[0]})
    samples.append({"helix": par, "pivot": p0, "sequence": seq, "form": fe})

# ------------------------------------------------------------------------------------------------ C13
def _call_forms(par, p0, E, p1):
    """every documented way of writing the same helix, the same pivot and the same move gives the same helix"""
    global n_eval
    dr, phi0, kappa, dz, tanl = par
    pv_forms = {"tuple": tuple(p0), "vector": vector.obj(x=p0[0], y=p0[1], z=p0[2]), "record": ak.Record({"x": p0[0], "y": p0[1], "z": p0[2]})}
    ref = obj(par, p0, E); want = pars(ref) + piv_of(ref)
    for pname, pv in pv_forms.items():
        makers = {"positional": lambda: p3.helix_obj(dr, phi0, kappa, dz, tanl, pivot=pv, error=E),
                  "keyword": lambda: p3.helix_obj(dr=dr, phi0=phi0, kappa=kappa, dz=dz, tanl=tanl, pivot=pv, error=E),
                  "params": lambda: p3.helix_obj(params=(dr, phi0, kappa, dz, tanl), pivot=pv, error=E),
                  "params-awkward-error": lambda: p3.helix_obj(params=(dr, phi0, kappa, dz, tanl), pivot=pv, error=ak.Array(E))}
        for cname, mk in makers.items():
            bump(f"callform:obj:{cname}:{pname}")
            h = mk(); got = pars(h) + piv_of(h); n_eval += 1
            if got != want or not np.array_equal(np.asarray(h.error), E):
                report(f"C13:constructor-forms-differ:helix_obj:{cname}:{pname}-pivot", f"helix_obj {cname} form with a {pname} pivot: {got}, expected {want}", {"par": par, "pivot": p0})
    moved = ref.change_pivot(*p1); wantm = pars(moved) + piv_of(moved)
    zxy = ak.Record({"z": p1[2], "x": p1[0], "y": p1[1]})       # coordinates are named, not positional
    for aname, args in (("tuple", (tuple(p1),)), ("vector", (vector.obj(x=p1[0], y=p1[1], z=p1[2]),)), ("record", (ak.Record({"x": p1[0], "y": p1[1], "z": p1[2]}),)),
                        ("record-fields-zxy", (zxy,))):
        bump(f"callform:obj.change_pivot:{aname}")
        h = ref.change_pivot(*args); got = pars(h) + piv_of(h); n_eval += 1
        if got != wantm:
            report(f"C13:constructor-forms-differ:change_pivot:{aname}", f"change_pivot with a {aname} argument: {got}, with x, y, z: {wantm}", {"par": par, "pivot": p0, "new_pivot": p1})
    # the same for the record and the array kind, and a per-track pivot array whose fields are declared in another order
    rec1 = awk([par], [p0], [E])[0]; arr2 = awk([par, par], [p0, p0], [E, E])
    pt_zxy = ak.zip({"z": [p1[2]] * 2, "x": [p1[0]] * 2, "y": [p1[1]] * 2}, with_name="Vector3D")
    for aname, mkr in (("record-kind:record-fields-zxy", lambda: rec1.change_pivot(zxy)), ("array-kind:record-fields-zxy", lambda: arr2.change_pivot(zxy)[1]),
                       ("array-kind:per-track-fields-zxy", lambda: arr2.change_pivot(pt_zxy)[1])):
        bump(f"callform:change_pivot:{aname}"); n_eval += 1
        r2 = mkr(); got = [float(r2[f]) for f in FIELDS5] + [float(r2.pivot[c]) for c in "xyz"]
        if any(abs(g - w) > 1e-9 * (1 + abs(w)) + 1e-9 * abs(ALPHA / kappa) for g, w in zip(got, wantm)):
            report(f"C13:constructor-forms-differ:change_pivot:{aname}", f"{aname}: {got}, with x, y, z: {wantm}", {"par": par, "pivot": p0, "new_pivot": p1})
    pv_zxy = ak.Record({"z": p0[2], "x": p0[0], "y": p0[1]})
    hz = p3.helix_obj(params=(dr, phi0, kappa, dz, tanl), pivot=pv_zxy); n_eval += 1
    if piv_of(hz) != list(p0):
        report("C13:constructor-forms-differ:helix_obj:record-fields-zxy-pivot", f"pivot record with fields declared z, x, y read as {piv_of(hz)}, given {p0}", {"par": par, "pivot": p0})
    # array constructor: positional helix / error / pivot, helix=, columns
    other = gen_helix(); E2 = gen_error()
    raw = ak.Array(np.array([other, par])); err = ak.Array(np.array([E2, E]))
    cols = {c: raw[..., k] for k, c in enumerate(["dr", "phi0", "kappa", "dz", "tanl"])}
    apv = dict(pv_forms); apv["array"] = ak.zip({"x": [p0[0]] * 2, "y": [p0[1]] * 2, "z": [p0[2]] * 2}, with_name="Vector3D")
    for pname, pv in apv.items():
        makers = {"positional(helix,error,pivot)": lambda: p3.helix_awk(raw, err, pv),
                  "positional(helix,error)+pivot=": lambda: p3.helix_awk(raw, err, pivot=pv),
                  "positional(helix)+error=+pivot=": lambda: p3.helix_awk(raw, error=err, pivot=pv),
                  "helix=": lambda: p3.helix_awk(helix=raw, error=err, pivot=pv),
                  "columns": lambda: p3.helix_awk(**cols, error=err, pivot=pv)}
        for cname, mk in makers.items():
            bump(f"callform:awk:{cname}:{pname}")
            a = mk(); n_eval += 1
            got = [float(a[f][1]) for f in ("dr", "phi0", "kappa", "dz", "tanl")] + [float(a.pivot[c][1]) for c in "xyz"]
            pos = [float(a.position[c][1]) for c in "xyz"]; wpos = [ref.position.x, ref.position.y, ref.position.z]
            if got != want or not np.array_equal(ak.to_numpy(a.error[1]), E) or any(abs(g - w) > 1e-12 * (1 + abs(w)) for g, w in zip(pos, wpos)):
                report(f"C13:constructor-forms-differ:helix_awk:{cname}:{pname}-pivot", f"helix_awk {cname} with a {pname} pivot: track {got} position {pos}, object {want} position {wpos}", {"par": par, "pivot": p0})
        # the same forms WITHOUT an error matrix (an explicit None in the error slot, or no error at all): same track, same pivot, same
        # position as the object, and no error field appears (round 8: the third positional slot lost when the second holds None)
        makers0 = {"positional(helix,None,pivot)": lambda: p3.helix_awk(raw, None, pv),
                   "positional(helix)+pivot=": lambda: p3.helix_awk(raw, pivot=pv),
                   "positional(helix)+error=None+pivot=": lambda: p3.helix_awk(raw, error=None, pivot=pv),
                   "positional(helix,None)+pivot=": lambda: p3.helix_awk(raw, None, pivot=pv),
                   "helix=+pivot=": lambda: p3.helix_awk(helix=raw, pivot=pv),
                   "columns+pivot=": lambda: p3.helix_awk(**cols, pivot=pv)}
        for cname, mk in makers0.items():
            bump(f"callform:awk:noerr:{cname}:{pname}")
            a = mk(); n_eval += 1
            got = [float(a[f][1]) for f in ("dr", "phi0", "kappa", "dz", "tanl")] + [float(a.pivot[c][1]) for c in "xyz"]
            pos = [float(a.position[c][1]) for c in "xyz"]; wpos = [ref.position.x, ref.position.y, ref.position.z]
            if got != want or "error" in a.fields or any(abs(g - w) > 1e-12 * (1 + abs(w)) for g, w in zip(pos, wpos)):
                report(f"C13:constructor-forms-differ:helix_awk:noerr:{cname}:{pname}-pivot", f"helix_awk {cname} (no error matrix) with a {pname} pivot: track {got} position {pos} fields {a.fields}, object {want} position {wpos}", {"par": par, "pivot": p0})
    # default pivot
    for cname, a in (("positional", p3.helix_awk(raw)), ("positional+error", p3.helix_awk(raw, err)), ("columns", p3.helix_awk(**cols))):
        n_eval += 1
        if [float(a.pivot[c][1]) for c in "xyz"] != [0.0, 0.0, 0.0] or [float(a[f][1]) for f in ("dr", "phi0", "kappa", "dz", "tanl")] != par:
            report(f"C13:constructor-forms-differ:helix_awk:{cname}:default-pivot", "default pivot is not the origin / parameters differ", {"par": par})
    # physics-quantity constructor of the ARRAY kind with every pivot form: the helix built from (position, momentum, charge, pivot)
    # of a helix is that helix, and equals the object built from the same numbers
    aa = p3.helix_awk(raw, pivot=apv["array"])
    for pname, pv in apv.items():
        bump(f"callform:awk-physics:{pname}"); n_eval += 1
        hb = p3.helix_awk(momentum=aa.momentum, position=aa.position, charge=aa.charge, pivot=pv)
        back = [float(hb[f][1]) for f in FIELDS5] + [float(hb.pivot[c][1]) for c in "xyz"]
        ho = p3.helix_obj(momentum=ref.momentum, position=ref.position, charge=ref.charge, pivot=tuple(p0)); wo = pars(ho) + piv_of(ho)
        if any(abs(wrap(g - w)) > 1e-9 if k == 1 else abs(g - w) > 1e-9 * (1 + abs(w)) for k, (g, w) in enumerate(zip(back, wo))):
            report(f"C13:constructor-forms-differ:helix_awk:physics:{pname}-pivot", f"helix_awk(momentum, position, charge, pivot={pname}) gives {back}, helix_obj from the same numbers {wo}", {"par": par, "pivot": p0})
    # the array kind reports one position / momentum RECORD per track, nested like the tracks (events x tracks here)
    rg = p3.helix_awk(ak.unflatten(raw, [1, 0, 1]), pivot=tuple(p0)); n_eval += 1
    for qn, q, keys in (("position", rg.position, "xyz"), ("momentum", rg.momentum, ("pt", "phi", "pz"))):
        lst = ak.to_list(q)
        ok = isinstance(lst, list) and [len(e) if isinstance(e, list) else None for e in lst] == [1, 0, 1] and all(isinstance(t, dict) and set(t) == set(keys) for e in lst for t in e)
        if not ok or q.ndim != 2:
            report(f"C13:container-forms-differ:array-{qn}-structure", f"{qn} of an events x tracks helix array has type {str(q.type)[:100]}: not one {qn} record per track", {"par": par, "pivot": p0})
        else:
            single = rg[2][0]; sq = getattr(single, qn)
            if any(abs(float(lst[2][0][k]) - float(sq[k])) > 1e-12 * (1 + abs(float(sq[k]))) for k in keys):
                report(f"C13:container-forms-differ:array-{qn}-vs-record", f"array.{qn}[2][0] = {lst[2][0]}, array[2][0].{qn} = {ak.to_list(sq)}", {"par": par, "pivot": p0})
    # the record kind: a helix record's own reported position / momentum / charge / pivot rebuild it (through helix_obj)
    bump("callform:record-physics"); n_eval += 1
    rec = aa[1]
    hr = p3.helix_obj(position=rec.position, momentum=rec.momentum, charge=rec.charge, pivot=rec.pivot); gr = pars(hr) + piv_of(hr)
    if any(abs(wrap(g - w)) > 1e-9 if k == 1 else abs(g - w) > 1e-9 * (1 + abs(w)) for k, (g, w) in enumerate(zip(gr, want))):
        report("C13:roundtrip:record-kind", f"helix_obj built from a helix RECORD's own position / momentum / charge / pivot gives {gr}, the record holds {want}", {"par": par, "pivot": p0})
    # position / momentum / pivot written as records OF ragged coordinate lists (the way docs/user-manual/helix.md builds them)
    bump("callform:awk-physics:doc-form"); n_eval += 1
    cnts = [1, 0, 1]
    un = lambda v: ak.unflatten(ak.Array(np.asarray(ak.to_numpy(v), dtype=np.float64)), cnts)
    dpos = ak.Array({"x": un(aa.position.x), "y": un(aa.position.y), "z": un(aa.position.z)}, with_name="Vector3D")
    dmom = ak.Array({"px": un(aa.momentum.px), "py": un(aa.momentum.py), "pz": un(aa.momentum.pz)}, with_name="Momentum3D")
    dpiv = ak.Array({"x": un(aa.pivot.x), "y": un(aa.pivot.y), "z": un(aa.pivot.z)}, with_name="Vector3D")
    # ... and the momentum exactly as the page writes it: px / py / pz lists in a record named "Vector3D"
    dmom_doc = ak.Array({"px": un(aa.momentum.px), "py": un(aa.momentum.py), "pz": un(aa.momentum.pz)}, with_name="Vector3D")
    for pname, pv, dm in (("doc-form-array", dpiv, dmom), ("tuple", tuple(p0), dmom), ("tuple:momentum-named-as-documented", tuple(p0), dmom_doc),
                          ("doc-form-array:momentum-named-as-documented", dpiv, dmom_doc)):
        try:
            hd = p3.helix_awk(position=dpos, momentum=dm, charge=un(aa.charge), pivot=pv)
        except Exception as e:  # noqa: BLE001
            report(f"C13:constructor-forms-differ:helix_awk:physics:doc-form-position:{pname}-pivot:raises:{type(e).__name__}",
                   f"the array example of docs/user-manual/helix.md ('Create helix from physics parameters') raises {type(e).__name__}: {str(e)[:160]}", {"par": par, "pivot": p0}); continue
        if hd.dr.ndim != 2 or ak.to_list(ak.num(hd.dr, axis=1)) != cnts:
            report(f"C13:constructor-forms-differ:helix_awk:physics:doc-form-position:{pname}-pivot", f"position / momentum as records of ragged lists: result has type {str(hd.dr.type)[:60]}, tracks are nested {cnts}", {"par": par, "pivot": p0}); continue
        gd = [float(ak.flatten(hd[f])[1]) for f in FIELDS5]
        if any(abs(wrap(g - w)) > 1e-9 if k == 1 else abs(g - w) > 1e-9 * (1 + abs(w)) for k, (g, w) in enumerate(zip(gd, par))):
            report(f"C13:constructor-forms-differ:helix_awk:physics:doc-form-position:{pname}-pivot", f"{gd} vs {par}", {"par": par, "pivot": p0})
    # physics-quantity constructor: momentum / position given as tuple, vector object, Awkward record
    mom, pos = ref.momentum, ref.position
    mforms = {"vector": mom, "tuple": (mom.px, mom.py, mom.pz), "record": ak.Record({"px": mom.px, "py": mom.py, "pz": mom.pz}),
              "record-pt-phi-pz": ak.Record({"pt": mom.pt, "phi": mom.phi, "pz": mom.pz})}
    pforms = {"vector": pos, "tuple": (pos.x, pos.y, pos.z), "record": ak.Record({"x": pos.x, "y": pos.y, "z": pos.z})}
    base = None
    for mn, mv in mforms.items():
        for pn, pp in pforms.items():
            for pvn, pv in pv_forms.items():
                bump(f"callform:obj-physics:{mn}:{pn}:{pvn}")
                h = p3.helix_obj(momentum=mv, position=pp, charge=ref.charge, pivot=pv); got = pars(h) + piv_of(h); n_eval += 1
                if base is None: base = got
                if any(abs(g - b) > 1e-9 * (1 + abs(b)) for g, b in zip(got, base)):
                    report(f"C13:constructor-forms-differ:helix_obj:physics:{mn}-momentum:{pn}-position:{pvn}-pivot", f"{got} vs {base}", {"par": par, "pivot": p0})

def call_forms(par, p0, E, p1):
    try:
        _call_forms(par, p0, E, p1)
    except Exception as e:  # noqa
        import traceback
        tb = traceback.extract_tb(e.__traceback__)
        where = next((f"{t.filename.split('/')[-1]}:{t.lineno}" for t in reversed(tb) if "/pybes3/" in t.filename), "?")
        mine = next((t.lineno for t in reversed(tb) if t.filename.endswith("helix_impl.py")), 0)
        report(f"C13:call-forms:raises:{type(e).__name__}:{where}", f"a documented call form made the implementation raise {type(e).__name__} at {where} "
               f"(search line {mine}): {str(e)[:200]}", {"par": par, "pivot": p0, "new_pivot": p1})

FRESH_INT = r"""
import json, numpy as np, awkward as ak, pybes3 as p3
import pybes3.tracks.helix as H
k = np.array([2, -4, 1, -1, 3], dtype=np.int64); ph = np.array([0, 1, 2, 3, 5], dtype=np.int64); d = np.array([1, -2, 0, 3, -1], dtype=np.int64)
out = {}
# integer-typed arrays are the FIRST thing these kernels see in this process (numba compiles a loop per input type on first use)
h = p3.helix_awk(dr=ak.Array(d), phi0=ak.Array(ph), kappa=ak.Array(k), dz=ak.Array(d), tanl=ak.Array(ph), pivot=(0.5, 0.25, 0.75))
out["awk"] = {"pt": h.momentum.pt.tolist(), "phi": h.momentum.phi.tolist(), "pz": h.momentum.pz.tolist(), "x": h.position.x.tolist(), "y": h.position.y.tolist(),
              "z": h.position.z.tolist(), "charge": h.charge.tolist(), "radius": h.radius.tolist()}
r = h[1]
out["rec"] = {"pt": float(r.momentum.pt), "pz": float(r.momentum.pz), "x": float(r.position.x), "radius": float(r.radius), "charge": int(r.charge)}
for name, args in (("kappa_to_pt", (k,)), ("kappa_to_charge", (k,)), ("kappa_to_radius", (k,)), ("phi0_to_phi", (ph,)), ("dr_phi0_to_x", (d, ph)), ("dr_phi0_to_y", (d, ph))):
    f = getattr(H, name, None)
    if f is not None: out[name] = np.asarray(f(*args)).tolist()
out["scalar"] = {"kappa_to_pt(2)": float(H.kappa_to_pt(2)) if hasattr(H, "kappa_to_pt") else None}
print(json.dumps(out))
"""

def fresh_process_int_first():
    """whole-number parameters given as integer arrays / Python ints to a FRESH interpreter: the documented formulas, not integer arithmetic"""
    global n_eval
    import subprocess, os
    bump("history:fresh-process-int-first")
    pr = subprocess.run([sys.executable, "-c", FRESH_INT], capture_output=True, text=True, timeout=600, env=dict(os.environ))
    if pr.returncode != 0:
        report("C13:fresh-process-int-first:raises", f"integer-typed helix parameters as the first use of a fresh process raised: {pr.stderr[-300:]}", {"script": "FRESH_INT in tools/impl/helix_impl.py"}); return
    out = json.loads(pr.stdout.strip().splitlines()[-1])
    k = [2, -4, 1, -1, 3]; ph = [0, 1, 2, 3, 5]; d = [1, -2, 0, 3, -1]
    want = {"pt": [1 / abs(x) for x in k], "phi": [(p + math.pi / 2) % TWO_PI for p in ph], "pz": [pp / abs(x) for pp, x in zip(ph, k)],
            "x": [0.5 + a * math.cos(p) for a, p in zip(d, ph)], "y": [0.25 + a * math.sin(p) for a, p in zip(d, ph)], "z": [0.75 + a for a in d],
            "charge": [1 if x > 0 else -1 for x in k], "radius": [1000 / 2.99792458 / abs(x) for x in k]}
    for nm, w in want.items():
        g = out["awk"][nm]; n_eval += len(w)
        if any(abs(wrap(a - b)) > 1e-9 if nm == "phi" else abs(a - b) > 1e-9 * (1 + abs(b)) for a, b in zip(g, w)):
            report(f"C13:formula:{nm}:integer-columns:fresh-process", f"helix_awk with int64 columns as the first use of a fresh process: {nm} = {g}, documented formulas give {w}", {"kappa": k, "phi0": ph, "dr": d, "dz": d, "tanl": ph, "pivot": [0.5, 0.25, 0.75]})
    if abs(out["rec"]["pt"] - 0.25) > 1e-12 or abs(out["rec"]["radius"] - 1000 / 2.99792458 / 4) > 1e-9:
        report("C13:formula:record:integer-columns:fresh-process", f"record of integer-typed columns: {out['rec']}", {"kappa": k})
    for nm, w in (("kappa_to_pt", want["pt"]), ("kappa_to_charge", want["charge"]), ("kappa_to_radius", want["radius"]),
                  ("dr_phi0_to_x", [a * math.cos(p) for a, p in zip(d, ph)]), ("dr_phi0_to_y", [a * math.sin(p) for a, p in zip(d, ph)])):
        if nm in out and any(abs(a - b) > 1e-9 * (1 + abs(b)) for a, b in zip(out[nm], w)):
            report(f"C13:formula:{nm}:integer-input:fresh-process", f"{nm}(int64 array) as first use of a fresh process = {out[nm]}, formula gives {w}", {"input": k})
    if out["scalar"]["kappa_to_pt(2)"] is not None and abs(out["scalar"]["kappa_to_pt(2)"] - 0.5) > 1e-12:
        report("C13:formula:kappa_to_pt:python-int:fresh-process", f"kappa_to_pt(2) = {out['scalar']['kappa_to_pt(2)']}", {})

def do_c13():
    global n_eval
    fresh_process_int_first()
    n = 500 if tier == "quick" else 5000
    for i in range(n):
        par, p0 = gen_helix(), gen_pivot()
        dr, phi0, kappa, dz, tanl = par; q = "pos" if kappa > 0 else "neg"
        nz = "pivot0" if p0 == [0.0, 0.0, 0.0] else "pivotnz"
        forms = {}
        h = obj(par, p0); forms["obj"] = (h.position.x, h.position.y, h.position.z, h.momentum.pt, h.momentum.phi, h.momentum.pz, h.charge, h.radius)
        r = awk([par], [p0])[0]; forms["rec"] = tuple(float(v) for v in (r.position.x, r.position.y, r.position.z, r.momentum.pt, r.momentum.phi, r.momentum.pz, r.charge, r.radius))
        a = awk([gen_helix(), par], [p0, p0]); forms["arr"] = tuple(float(v[1]) for v in (a.position.x, a.position.y, a.position.z, a.momentum.pt, a.momentum.phi, a.momentum.pz, a.charge, a.radius))
        pt = 1 / abs(kappa)
        want = (p0[0] + dr * math.cos(phi0), p0[1] + dr * math.sin(phi0), p0[2] + dz, pt, (phi0 + math.pi / 2) % TWO_PI, pt * tanl, (1 if kappa > 0 else -1), 1000 / 2.99792458 * pt)
        names = ("position.x", "position.y", "position.z", "momentum.pt", "momentum.phi", "momentum.pz", "charge", "radius")
        for fe, got in forms.items():
            for nm, g, w in zip(names, got, want):
                n_eval += 1
                bad = abs(wrap(g - w)) > 1e-9 if nm == "momentum.phi" else abs(g - w) > 1e-9 * (1 + abs(w))
                if bad: report(f"C13:formula:{nm}:{nz}:{fe}", f"{nm} = {g!r}, documented formula gives {w!r}", {"par": par, "pivot": p0})
        # integer-typed parameter columns with a fractional scalar pivot (tuple and vector object)
        if i % 5 == 0:
            ipar = [float(rng.randrange(-3, 4)), float(rng.randrange(0, 6)), float(rng.choice([-2, -1, 1, 2])), float(rng.randrange(-4, 5)), float(rng.randrange(-2, 3))]
            fp = [rng.uniform(-3, 3) + 0.5, rng.uniform(-3, 3) + 0.25, rng.uniform(-3, 3) + 0.75]
            for pv_kind, pv in (("tuple", tuple(fp)), ("vector", vector.obj(x=fp[0], y=fp[1], z=fp[2]))):
                bump(f"intcols:{pv_kind}")
                hi = p3.helix_awk(**{c: ak.Array(np.array([ipar[k], ipar[k]], dtype=np.int64)) for k, c in enumerate(["dr", "phi0", "kappa", "dz", "tanl"])}, pivot=pv)
                ho = obj(ipar, fp); n_eval += 1
                got = (float(hi.position.x[0]), float(hi.position.y[0]), float(hi.position.z[0]), float(hi.pivot.x[0]), float(hi.pivot.y[0]), float(hi.pivot.z[0]))
                want = (ho.position.x, ho.position.y, ho.position.z, fp[0], fp[1], fp[2])
                if any(abs(g - w) > 1e-9 * (1 + abs(w)) for g, w in zip(got, want)):
                    report(f"C13:container-forms-differ:int-columns:{pv_kind}-pivot", f"helix_awk with integer-typed columns and pivot {fp}: position/pivot {got} vs object {want}", {"par": ipar, "pivot": fp})
        if i % 10 == 0: call_forms(par, p0, gen_error(), gen_pivot())
        if i % 12 == 0: object_mutation("C13"); array_field_assignment("C13")
        if i == 0: tiny_kappa_charge("C13")
        if i % 20 == 3: curvilinear_vectors("C13")
        if i % 10 == 5: call_forms(par, rng.choice([[0.0, 0.0, rng.uniform(-20, 20)], [rng.uniform(-5, 5), 0.0, 0.0], [0.0, rng.uniform(-5, 5), 0.0]]), gen_error(), gen_pivot())
        # three ways of passing parameters
        h1 = p3.helix_obj(dr, phi0, kappa, dz, tanl, pivot=tuple(p0)); h2 = p3.helix_obj(dr=dr, phi0=phi0, kappa=kappa, dz=dz, tanl=tanl, pivot=tuple(p0))
        h3 = p3.helix_obj(params=(dr, phi0, kappa, dz, tanl), pivot=vector.obj(x=p0[0], y=p0[1], z=p0[2])); n_eval += 3
        if not (pars(h1) == pars(h2) == pars(h3) and piv_of(h1) == piv_of(h2) == piv_of(h3)):
            report("C13:constructor-forms-differ", "positional / keyword / tuple constructors disagree", {"par": par, "pivot": p0})
        # round trip through physics quantities
        for fe in ("obj", "arr"):
            if fe == "obj":
                hb = p3.helix_obj(momentum=h.momentum, position=h.position, charge=h.charge, pivot=tuple(p0)); back = pars(hb)
            else:
                aa = awk([par, par], [p0, p0])
                pv = ak.zip({"x": [p0[0]] * 2, "y": [p0[1]] * 2, "z": [p0[2]] * 2}, with_name="Vector3D")
                hb = p3.helix_awk(momentum=aa.momentum, position=aa.position, charge=aa.charge, pivot=pv); back = [float(hb[f][1]) for f in ("dr", "phi0", "kappa", "dz", "tanl")]
            n_eval += 1
            sgn = "dr0" if dr == 0 else ("drpos" if dr > 0 else "drneg")
            if (abs(back[0] - dr) > 1e-9 * (1 + abs(dr)) or abs(wrap(back[1] - phi0)) > 1e-9 or abs(back[2] - kappa) > 1e-9 * abs(kappa)
                    or abs(back[3] - dz) > 1e-9 * (1 + abs(dz)) or abs(back[4] - tanl) > 1e-9 * (1 + abs(tanl))):
                report(f"C13:roundtrip:{sgn}:{nz}:{fe}", "helix built from its own position/momentum/charge/pivot differs", {"par": par, "pivot": p0, "back": back})
        # position / momentum held in single precision (float32 columns, e.g. a slimmed ntuple): the array constructor gives what the object
        # constructor gives from the SAME numbers - in particular the same sign of dr (tolerances at the precision of the input)
        # (only where single precision can tell the direction pivot -> position at all: the rounding of a coordinate, 6e-8 of its size, seen from
        #  a distance |dr| must stay ten times below the 3e-5 rad at which the constructors call two directions equal)
        if i % 6 == 2 and abs(dr) > 0.05 and abs(dr) < 0.5 * abs(ALPHA / kappa) and 6e-8 * max(map(abs, [h.position.x, h.position.y] + p0[:2])) < 3e-6 * abs(dr):
            bump("physics-ctor:float32-inputs")
            X = [np.float32(v) for v in (h.position.x, h.position.y, h.position.z)]; M = [np.float32(v) for v in (h.momentum.px, h.momentum.py, h.momentum.pz)]
            ho32 = p3.helix_obj(position=tuple(float(v) for v in X), momentum=tuple(float(v) for v in M), charge=h.charge, pivot=tuple(p0))
            for nm32, pos32, mom32 in (("flat", ak.zip({"x": np.array([X[0]] * 2), "y": np.array([X[1]] * 2), "z": np.array([X[2]] * 2)}, with_name="Vector3D"),
                                        ak.zip({"px": np.array([M[0]] * 2), "py": np.array([M[1]] * 2), "pz": np.array([M[2]] * 2)}, with_name="Momentum3D")),):
                ha32 = p3.helix_awk(position=pos32, momentum=mom32, charge=ak.Array([h.charge, h.charge]), pivot=tuple(p0)); n_eval += 1
                g32 = [float(ha32[f][1]) for f in FIELDS5]; w32 = pars(ho32); sc32 = 1e-4 * (1 + abs(ALPHA / kappa) + abs(dr) + max(map(abs, p0)))
                if (abs(g32[0] - w32[0]) > sc32 or abs(wrap(g32[1] - w32[1])) > 1e-4 or abs(g32[2] - w32[2]) > 1e-4 * abs(w32[2]) or abs(g32[3] - w32[3]) > sc32 or abs(g32[4] - w32[4]) > 1e-4 * (1 + abs(w32[4]))):
                    report(f"C13:container-forms-differ:physics-constructor:float32-inputs:{'dr-sign' if g32[0] * w32[0] < 0 else 'values'}",
                           f"helix_awk(position, momentum, charge) with float32 columns gives {g32}; helix_obj with the same numbers gives {w32}", {"par": par, "pivot": p0})
    samples.append({"helix": par, "pivot": p0})

# ------------------------------------------------------------------------------------------------ C07
_SEEN = {}
def layouts(pars_list):
    """yield (name, array of parameter rows with some nesting, flat order index)"""
    n = len(pars_list)
    a = np.array(pars_list)
    yield "flat", ak.Array(a), list(range(n))
    cuts = sorted(rng.sample(range(n + 1), min(3, n + 1)))
    counts = np.diff([0] + cuts + [n])
    counts = [int(c) for c in counts]
    yield "ragged", ak.unflatten(ak.Array(a), counts), list(range(n))
    yield "ragged+empty", ak.unflatten(ak.Array(a), [0] + counts + [0]), list(range(n))
    # a regular array with NO track per event (3 * 0 * helix): the number of events is part of the nesting (once per run)
    if not _SEEN.get("regular-size0"):
        _SEEN["regular-size0"] = True
        yield "regular-size0", ak.to_regular(ak.unflatten(ak.Array(a[:0]), [0, 0, 0]), axis=1), []
    if n % 2 == 0 and n >= 2:
        yield "regular", ak.to_regular(ak.unflatten(ak.Array(a), [2] * (n // 2)), axis=1), list(range(n))
        # the same regular nesting held by ONE n-dimensional NumPy buffer (ak.Array(np.ndarray), ak.from_numpy)
        yield "numpy-regular", ak.Array(a.reshape(n // 2, 2, 5)), list(range(n))
    if n >= 4:
        inner = ak.unflatten(ak.Array(a), [1, n - 3, 2])
        yield "depth3", ak.unflatten(inner, [2, 1]), list(range(n))
        yield "depth3+empty", ak.unflatten(ak.unflatten(ak.Array(a), [1, 0, n - 3, 2]), [1, 0, 3]), list(range(n))
    rag = ak.unflatten(ak.Array(a), counts)
    if len(rag) > 1:
        off = int(counts[0])
        yield "sliced", rag[1:], list(range(off, n))
        idx = list(range(len(rag)))[::-1]
        order = []
        starts = np.cumsum([0] + counts)
        for i in idx: order += list(range(starts[i], starts[i + 1]))
        yield "indexed", rag[idx], order

def do_c07():
    global n_eval
    n = 60 if tier == "quick" else 500
    fields = ("dr", "phi0", "kappa", "dz", "tanl")
    for i in range(n):
        m = rng.choice([1, 2, 4, 5, 6, 8])
        P = [gen_helix() for _ in range(m)]
        errs = [gen_error() for _ in range(m)] if rng.random() < 0.5 else None
        p0 = gen_pivot(); p1 = gen_pivot()
        ref = []
        for j, par in enumerate(P):
            h = obj(par, p0, None if errs is None else errs[j]); h2 = h.change_pivot(*p1)
            ref.append({"close": bool(h.isclose(h2)), "cp": pars(h2) + piv_of(h2), "err": None if errs is None else np.asarray(h2.error), "mom": (h.momentum.pt, h.momentum.phi, h.momentum.pz),
                        "pos": (h.position.x, h.position.y, h.position.z), "charge": h.charge, "radius": h.radius})
        for lname, arr, order in layouts(P):
            bump(f"layout:{lname}")
            for pform in ("tuple", "vector", "per-track"):
                try:
                    kw = {c: arr[..., k] for k, c in enumerate(fields)}
                    x0 = ak.ones_like(kw["dr"]) * p0[0]; y0 = ak.ones_like(kw["dr"]) * p0[1]; z0 = ak.ones_like(kw["dr"]) * p0[2]
                    kw["pivot"] = ak.zip({"x": x0, "y": y0, "z": z0}, with_name="Vector3D")
                    if errs is not None:
                        e = ak.Array(np.array(errs))
                        # give the error matrices the same nesting as the tracks
                        ecounts = kw["dr"]
                        flat_idx = ak.local_index(ak.flatten(kw["dr"], axis=None))
                        e = e[np.array(order, dtype=np.int64)]
                        lay = kw["dr"]
                        if lname == "numpy-regular":
                            e = ak.Array(np.array(errs)[np.array(order)].reshape(m // 2, 2, 5, 5))
                        else:
                            for cnt in p3._utils._extract_index(ak.to_packed(lay).layout)[::-1]:
                                e = ak.unflatten(e, cnt, axis=0)
                        kw["error"] = e
                    ha = p3.helix_awk(**kw)
                    if pform == "tuple": out = ha.change_pivot(*p1)
                    elif pform == "vector": out = ha.change_pivot(vector.obj(x=p1[0], y=p1[1], z=p1[2]))
                    else:
                        out = ha.change_pivot(ak.zip({"x": ak.ones_like(kw["dr"]) * p1[0], "y": ak.ones_like(kw["dr"]) * p1[1], "z": ak.ones_like(kw["dr"]) * p1[2]}, with_name="Vector3D"))
                    n_eval += 1
                    # nesting preserved
                    if ak.to_list(ak.num(out.dr, axis=-1) if out.dr.ndim > 1 else len(out.dr)) != ak.to_list(ak.num(kw["dr"], axis=-1) if kw["dr"].ndim > 1 else len(kw["dr"])) or out.dr.ndim != kw["dr"].ndim:
                        report(f"C07:nesting-changed:{lname}", "output nesting differs from input nesting", {"layout": lname, "pivot_form": pform, "n": m})
                    flat = {f: ak.to_numpy(ak.flatten(out[f], axis=None)) for f in fields}
                    fp = {c: ak.to_numpy(ak.flatten(out.pivot[c], axis=None)) for c in "xyz"}
                    for t, j in enumerate(order):
                        got = [float(flat[f][t]) for f in fields] + [float(fp[c][t]) for c in "xyz"]
                        want = ref[j]["cp"]
                        sc = scale(P[j], p0, p1)
                        if any(abs(g - w) > 1e-9 * sc * (1 + abs(P[j][4])) for g, w in zip(got, want)):
                            report(f"C07:array-differs-from-object:change_pivot:{lname}", f"track {j}: array {got} object {want}", {"tracks": P, "pivot": p0, "new_pivot": p1, "layout": lname, "pivot_form": pform}); break
                    if errs is not None:
                        eo = ak.to_numpy(ak.flatten(out.error, axis=None)).reshape(-1, 5, 5)
                        for t, j in enumerate(order):
                            if not np.allclose(eo[t], ref[j]["err"], rtol=1e-9, atol=1e-15):
                                report(f"C07:array-differs-from-object:error:{lname}", f"track {j}: propagated error matrix differs", {"tracks": P, "pivot": p0, "new_pivot": p1, "layout": lname}); break
                    if pform == "tuple":
                        mo, po = ha.momentum, ha.position
                        chk = {"momentum.pt": (mo.pt, [r["mom"][0] for r in ref]), "momentum.phi": (mo.phi, [r["mom"][1] for r in ref]), "momentum.pz": (mo.pz, [r["mom"][2] for r in ref]),
                               "position.x": (po.x, [r["pos"][0] for r in ref]), "position.y": (po.y, [r["pos"][1] for r in ref]), "position.z": (po.z, [r["pos"][2] for r in ref]),
                               "charge": (ha.charge, [r["charge"] for r in ref]), "radius": (ha.radius, [r["radius"] for r in ref])}
                        for nm, (gotarr, wants) in chk.items():
                            g = ak.to_numpy(ak.flatten(gotarr, axis=None)); n_eval += 1
                            for t, j in enumerate(order):
                                if abs(float(g[t]) - float(wants[j])) > 1e-9 * (1 + abs(float(wants[j]))):
                                    report(f"C07:array-differs-from-object:{nm}:{lname}", f"track {j}: array {g[t]!r} object {wants[j]!r}", {"tracks": P, "pivot": p0, "layout": lname}); break
                        close = ak.to_numpy(ak.flatten(ha.isclose(out), axis=None)); n_eval += 1
                        for t, j in enumerate(order):
                            if bool(close[t]) != ref[j]["close"]:
                                report(f"C07:array-differs-from-object:isclose:{lname}", f"track {j}: array isclose {bool(close[t])}, object isclose {ref[j]['close']}",
                                       {"tracks": P, "pivot": p0, "new_pivot": p1, "layout": lname}); break
                except Exception as e:
                    report(f"C07:raises:{lname}:{type(e).__name__}", f"helix array with layout {lname} raised {type(e).__name__}: {str(e)[:200]}",
                           {"tracks": P, "pivot": p0, "new_pivot": p1, "layout": lname, "pivot_form": pform})
        # views of helix arrays themselves (sliced / index-selected), nesting depth 1 and 2
        if m >= 4:
            for vname, base_counts in (("events", [[1, m - 3, 2]]), ("runs-events", [[1, m - 3, 2], [2, 1]])):
                try:
                    a = ak.Array(np.array(P))
                    for cnt in base_counts: a = ak.unflatten(a, cnt)
                    kw = {c: a[..., k] for k, c in enumerate(fields)}
                    kw["pivot"] = ak.zip({"x": ak.ones_like(kw["dr"]) * p0[0], "y": ak.ones_like(kw["dr"]) * p0[1], "z": ak.ones_like(kw["dr"]) * p0[2]}, with_name="Vector3D")
                    ha = p3.helix_awk(**kw)
                    nouter = len(ha)
                    for view, sel in (("sliced", slice(1, None)), ("indexed", list(range(nouter))[::-1])):
                        bump(f"layout:view-{view}-{vname}")
                        hv = ha[sel]; out = hv.change_pivot(*p1); n_eval += 1
                        srcdr = ak.to_numpy(ak.flatten(hv.dr, axis=None)); srcphi = ak.to_numpy(ak.flatten(hv.phi0, axis=None))
                        got = ak.to_numpy(ak.flatten(out.dr, axis=None))
                        if ak.to_list(ak.num(out.dr, axis=-1)) != ak.to_list(ak.num(hv.dr, axis=-1)):
                            report(f"C07:nesting-changed:view-{view}-{vname}", "output nesting differs from the view's nesting", {"tracks": P, "view": view, "nesting": vname})
                        for t in range(len(srcdr)):
                            j = next(k for k in range(m) if P[k][0] == srcdr[t] and P[k][1] == srcphi[t])
                            if abs(got[t] - ref[j]["cp"][0]) > 1e-9 * scale(P[j], p0, p1):
                                report(f"C07:array-differs-from-object:change_pivot:view-{view}-{vname}", f"track {j} in a {view} view", {"tracks": P, "pivot": p0, "new_pivot": p1}); break
                except Exception as e:
                    report(f"C07:raises:view-{vname}:{type(e).__name__}", f"{vname} helix array view raised {type(e).__name__}: {str(e)[:200]}", {"tracks": P, "pivot": p0, "new_pivot": p1, "nesting": vname})
        # per-track pivots given the way docs/user-manual/helix.md writes them: ak.Array({"x": ..., "y": ..., "z": ...}, with_name="Vector3D")
        # (for ragged tracks that is a record OF lists, not a list of records), both as initial pivot and as new pivot
        if m >= 4:
            try:
                cnts = [1, m - 3, 2]
                a = ak.unflatten(ak.Array(np.array(P)), cnts)
                kw = {c: a[..., k] for k, c in enumerate(fields)}
                pvs = [[rng.uniform(-3, 3) for _ in range(3)] for _ in range(m)]
                col = lambda k: ak.unflatten(ak.Array(np.array([pv[k] for pv in pvs])), cnts)
                docpv = ak.Array({"x": col(0), "y": col(1), "z": col(2)}, with_name="Vector3D")
                bump("pivot-form:doc-record-of-lists")
                hd = p3.helix_awk(**kw, pivot=docpv); od = hd.change_pivot(*p1); n_eval += 1
                gd = ak.to_numpy(ak.flatten(od.dr, axis=None))
                for j in range(m):
                    wj = obj(P[j], pvs[j]).change_pivot(*p1).dr
                    if len(gd) != m or abs(gd[j] - wj) > 1e-9 * scale(P[j], pvs[j], p1):
                        report("C07:array-differs-from-object:per-track-initial-pivot:doc-form", f"track {j}: per-track initial pivot in the documented ak.Array(dict) form", {"tracks": P, "pivots": pvs, "new_pivot": p1}); break
                # ... and as the pivot of the physics-quantity constructor: the helix rebuilt from (position, momentum, charge, pivot) is the helix
                hb = p3.helix_awk(momentum=hd.momentum, position=hd.position, charge=hd.charge, pivot=docpv); n_eval += 1
                if ak.to_list(ak.num(hb.dr, axis=-1)) != ak.to_list(ak.num(hd.dr, axis=-1)) or hb.dr.ndim != hd.dr.ndim:
                    report("C07:nesting-changed:physics-constructor:doc-form-pivot", f"helix_awk(momentum, position, charge, pivot=<documented per-track form>) has nesting "
                           f"{str(hb.dr.type)[:80]} for tracks nested as {str(hd.dr.type)[:80]}", {"tracks": P, "pivots": pvs})
                else:
                    gb = {f: ak.to_numpy(ak.flatten(hb[f], axis=None)) for f in fields}
                    for j in range(m):
                        if any(abs(wrap(float(gb[f][j]) - P[j][k])) > 1e-9 if f == "phi0" else abs(float(gb[f][j]) - P[j][k]) > 1e-9 * (1 + abs(P[j][k])) for k, f in enumerate(fields)):
                            report("C07:array-differs-from-object:physics-constructor:doc-form-pivot", f"track {j} rebuilt from its physics quantities with the documented per-track pivot form: "
                                   f"{[float(gb[f][j]) for f in fields]} vs {P[j]}", {"tracks": P, "pivots": pvs}); break
                hz = p3.helix_awk(**kw, pivot=tuple(p0)); oz = hz.change_pivot(docpv); n_eval += 1
                gz = ak.to_numpy(ak.flatten(oz.dr, axis=None))
                for j in range(m):
                    wj = obj(P[j], p0).change_pivot(*pvs[j]).dr
                    if len(gz) != m or abs(gz[j] - wj) > 1e-9 * scale(P[j], p0, pvs[j]):
                        report("C07:array-differs-from-object:per-track-new-pivot:doc-form", f"track {j}: per-track new pivot in the documented ak.Array(dict) form", {"tracks": P, "pivot": p0, "new_pivots": pvs}); break
            except Exception as e:
                report(f"C07:raises:per-track-pivot:doc-form:{type(e).__name__}", f"per-track pivot written as in docs/user-manual/helix.md raised {type(e).__name__}: {str(e)[:160]}", {"tracks": P, "new_pivot": p1})
        # exact-boundary corner cases (turning angle exactly +-pi, atan2 exactly 0 / pi): array vs object must agree bit for bit
        if i * 4 < len(CORNERS):
            cs = CORNERS[i * 4:(i + 1) * 4]
            for cpar, cp0, cp1 in cs:
                bump("corner")
                ho = obj(cpar, cp0).change_pivot(*cp1); ha1 = awk([cpar, P[0]], [cp0, cp0]).change_pivot(*cp1); n_eval += 1
                got = [float(ha1[f][0]) for f in fields]; want = pars(ho)
                if any(abs(g - w) > 1e-9 * scale(cpar, cp0, cp1) * (1 + abs(cpar[4])) for g, w in zip(got, want)):
                    report("C07:array-differs-from-object:change_pivot:boundary", f"boundary case (exact 0 / pi angles): array {got} object {want}", {"par": cpar, "pivot": cp0, "new_pivot": cp1})
        # isclose on arrays whose phi0 is written outside [0, 2*pi) (a legal way of writing the same direction), same and different pivots,
        # identical and perturbed partners: per track the answer of the object form
        if i % 3 == 0:
            bump("isclose:raw-phi0")
            Pa = [[pp[0], pp[1] + rng.choice([-TWO_PI, 0.0, TWO_PI, -4 * math.pi]), pp[2], pp[3], pp[4]] for pp in P]
            Pb = [list(pp) if rng.random() < 0.5 else [pp[0] + rng.choice([0.0, 1e-3]), pp[1] + rng.choice([0.0, TWO_PI, 1e-3]), pp[2], pp[3], pp[4]] for pp in Pa]
            for pb in (p0, p1):
                ga = ak.to_numpy(awk(Pa, [p0] * m).isclose(awk(Pb, [pb] * m))); n_eval += 1
                for j in range(m):
                    wo = bool(obj(Pa[j], p0).isclose(obj(Pb[j], pb)))
                    if bool(ga[j]) != wo:
                        report("C07:array-differs-from-object:isclose:raw-phi0", f"track {j}: array isclose {bool(ga[j])}, object isclose {wo} (phi0 written outside [0, 2*pi), partner pivot {'same' if pb is p0 else 'different'})",
                               {"tracks": Pa, "partners": Pb, "pivot": p0, "partner_pivot": pb}); break
        if i % 6 == 0: int_columns_move("C07")
        if i % 2 == 0: isclose_boundary("C07")
        if i % 4 == 0: reordered_views("C07")
        if i == 0: large_array("C07"); tiny_kappa_charge("C07")
        if i % 5 == 0: reuse_history("C07"); array_field_assignment("C07")
        if i % 7 == 0: named_pivot_forms("C07")
        # permutation equivariance on the flat layout
        perm = list(range(m)); rng.shuffle(perm)
        a1 = awk(P, [p0] * m).change_pivot(*p1); a2 = awk([P[k] for k in perm], [p0] * m).change_pivot(*p1); n_eval += 1
        for t, k in enumerate(perm):
            if any(float(a2[f][t]) != float(a1[f][k]) for f in fields):
                report("C07:order-dependent", "result for a track depends on its position / the other tracks", {"tracks": P, "perm": perm, "pivot": p0, "new_pivot": p1}); break
        # single track alone vs inside an array
        one = awk([P[0]], [p0]).change_pivot(*p1); n_eval += 1
        if any(float(one[f][0]) != float(a1[f][0]) for f in fields):
            report("C07:depends-on-other-tracks", "a track alone gives a different result than inside an array", {"tracks": P, "pivot": p0, "new_pivot": p1})
    samples.append({"tracks": P[:2], "pivot": p0, "new_pivot": p1, "layouts": sorted(k for k in dist if k.startswith("layout:"))})

# ------------------------------------------------------------------------------------------------ C12
def fmap(par, p0, p1):
    h = obj(par, p0).change_pivot(*p1)
    return np.array(pars(h))

def half_turn_cases():
    """new pivots (almost) diametrically opposite the reference point, beyond the circle: turning angle pi - delta.  dr', phi0', kappa, tanl are
    smooth there (only dz jumps by a pitch at the cut), so those rows / columns of J E J^T are compared with a finite-difference Jacobian; the
    whole matrix must be finite, symmetric and positive semi-definite"""
    global n_eval
    for kappa in (1.3, -0.8):
        for delta in (0.0, 3e-6, -2e-5, 1e-4):
            par = [0.0, 0.0, kappa, 0.4, 0.6]; p0 = [0.0, 0.0, 0.0]; E = gen_error(); bump("pivot:half-turn")
            c = centre(par, p0); v = (c[0] - 0.0, c[1] - 0.0)
            ca, sa = math.cos(delta), math.sin(delta)
            p1 = [c[0] + 1.4 * (ca * v[0] - sa * v[1]), c[1] + 1.4 * (sa * v[0] + ca * v[1]), 1.0]
            idx = [0, 1, 2, 4]
            J = np.zeros((5, 5))
            for j in range(5):
                hstep = 1e-6 * max(1.0, abs(par[j]))
                up = list(par); up[j] += hstep; dn = list(par); dn[j] -= hstep
                dv = fmap(up, p0, p1) - fmap(dn, p0, p1); dv[1] = wrap(dv[1]); J[:, j] = dv / (2 * hstep)
            want = (J[idx] @ E @ J[idx].T)
            for fe in ("obj", "arr"):
                got = np.asarray(obj(par, p0, E).change_pivot(*p1).error) if fe == "obj" else ak.to_numpy(awk([par, par], [p0, p0], [E, E]).change_pivot(*p1).error[1])
                n_eval += 1
                inp = {"par": par, "pivot": p0, "new_pivot": p1, "error": E.tolist(), "turning_angle_pi_minus": delta}
                if not np.all(np.isfinite(got)):
                    report(f"C12:not-finite:half-turn:{fe}", f"propagated error matrix holds nan / inf for a pivot diametrically opposite (turning angle pi - {delta:g})", inp); continue
                sub = got[np.ix_(idx, idx)]
                tol = 1e-5 * (np.abs(want).max() + 1e-12)
                if not np.all(np.abs(sub - want) <= tol):
                    report(f"C12:not-JEJT:half-turn:{fe}", f"rows / columns (dr, phi0, kappa, tanl) of the propagated matrix differ from J E J^T with the finite-difference Jacobian at "
                           f"turning angle pi - {delta:g} (max rel dev {np.abs(sub - want).max() / (np.abs(want).max() + 1e-300):.3g})", inp)
                if not np.allclose(got, got.T, rtol=1e-10, atol=1e-18):
                    report(f"C12:asymmetric:half-turn:{fe}", "propagated error matrix is not symmetric", inp)
                w = np.linalg.eigvalsh((got + got.T) / 2)
                if w.min() < -1e-9 * max(1e-30, abs(w).max()):
                    report(f"C12:not-psd:half-turn:{fe}", f"propagated error matrix has eigenvalue {w.min():.3g}", inp)

def do_c12():
    global n_eval
    _guarded(lambda prefix: half_turn_cases(), "half-turn")("C12")
    n = 150 if tier == "quick" else 1500
    for i in range(n + len(CORNERS)):
        par, p0, p1 = corner(i) or (gen_helix(rng.choice(["typ", "typ", "low_pt", "high_pt", "drneg"])), gen_pivot(), gen_pivot())
        if i >= len(CORNERS) and i % 10 == 0:
            # radial moves (turning angle 0 up to rounding): onto the helix' own reference point, and along the line pivot - centre
            t = rng.choice([1.0, rng.uniform(-3, 3)]); bump("pivot:radial")
            p1 = [p0[0] + t * par[0] * math.cos(par[1]) + (0 if t == 1.0 else t * math.cos(par[1])), p0[1] + t * par[0] * math.sin(par[1]) + (0 if t == 1.0 else t * math.sin(par[1])), p0[2] + rng.uniform(-2, 2)]
        if i % 10 == 0: reuse_history("C12"); object_mutation("C12"); array_field_assignment("C12")
        if i == 0: large_array("C12")
        if i % 25 == 0: reordered_views("C12"); int_columns_move("C12")
        c = centre(par, p0)
        if math.hypot(c[0] - p1[0], c[1] - p1[1]) < 0.5: continue
        base = fmap(par, p0, p1)
        if abs(abs(wrap(base[1] - par[1])) - math.pi) < 1e-2: continue
        q = "pos" if par[2] > 0 else "neg"
        E = gen_error()
        if i % 9 == 4:
            # an integer-typed error matrix (np.eye(5, dtype=int), a nested list of Python ints, ...) is the same matrix
            A = np.array([[rng.randrange(-3, 4) for _ in range(5)] for _ in range(5)], dtype=np.int64)
            E = A @ A.T + np.diag([1, 2, 3, 4, 5]); bump("error:integer-dtype")
        J = np.zeros((5, 5))
        for j in range(5):
            hstep = 1e-6 * max(1.0, abs(par[j]))
            up = list(par); up[j] += hstep; dn = list(par); dn[j] -= hstep
            dv = fmap(up, p0, p1) - fmap(dn, p0, p1); dv[1] = wrap(dv[1])      # phi0 is an angle: difference across the 0 / 2*pi seam
            J[:, j] = dv / (2 * hstep)
        want = J @ E.astype(np.float64) @ J.T
        etag = ":integer-error-matrix" if E.dtype.kind in "iu" else ""
        for fe in ("obj", "arr"):
            if fe == "obj": got = np.asarray(obj(par, p0, E).change_pivot(*p1).error)
            else: got = ak.to_numpy(awk([gen_helix(), par], [p0, p0], [gen_error(), E]).change_pivot(*p1).error[1])
            n_eval += 1
            tol = 1e-5 * (np.abs(want).max() + 1e-12) + 1e-4 * np.sqrt(np.outer(np.abs(np.diag(want)), np.abs(np.diag(want))))
            if not np.all(np.abs(got - want) <= tol + 1e-18):
                report(f"C12:not-JEJT:{q}:{fe}{etag}", f"propagated error matrix differs from J E J^T with the finite-difference Jacobian of the parameter map (max rel dev {np.abs(got - want).max() / (np.abs(want).max() + 1e-300):.3g})",
                       {"par": par, "pivot": p0, "new_pivot": p1, "error": E.tolist()})
            if not np.allclose(got, got.T, rtol=1e-10, atol=1e-18):
                report(f"C12:asymmetric:{fe}", "propagated error matrix is not symmetric", {"par": par, "pivot": p0, "new_pivot": p1})
            w = np.linalg.eigvalsh((got + got.T) / 2)
            if w.min() < -1e-9 * max(1e-30, abs(w).max()):
                report(f"C12:not-psd:{fe}", f"propagated error matrix has eigenvalue {w.min():.3g}", {"par": par, "pivot": p0, "new_pivot": p1})
        if i % 7 == 3:
            # J E J^T is linear in E: covariances in small (or large) units are propagated like any other (no absolute thresholds)
            sfac = rng.choice([1e-14, 1e-17, 1e-20, 1e-25, 1e10]); bump(f"error:scaled:{sfac:g}")
            Ef = E.astype(np.float64)
            for fe in ("obj", "arr"):
                if fe == "obj": g1 = np.asarray(obj(par, p0, Ef).change_pivot(*p1).error); gs = np.asarray(obj(par, p0, Ef * sfac).change_pivot(*p1).error)
                else:
                    g1 = ak.to_numpy(awk([par, par], [p0, p0], [Ef, Ef]).change_pivot(*p1).error[1]); gs = ak.to_numpy(awk([par, par], [p0, p0], [Ef, Ef * sfac]).change_pivot(*p1).error[1])
                n_eval += 2
                if not np.all(np.abs(gs - sfac * g1) <= 1e-9 * sfac * np.abs(g1).max()):
                    report(f"C12:not-linear-in-E:{fe}", f"the matrix propagated from E * {sfac:g} is not {sfac:g} times the matrix propagated from E (max deviation "
                           f"{np.abs(gs - sfac * g1).max() / (sfac * np.abs(g1).max() + 1e-300):.3g} of the largest entry): J E J^T is linear in E",
                           {"par": par, "pivot": p0, "new_pivot": p1, "error": Ef.tolist(), "scale": sfac})
                if canonical(par):
                    ss = np.asarray(obj(par, p0, Ef * sfac).change_pivot(*p0).error) if fe == "obj" else ak.to_numpy(awk([par], [p0], [Ef * sfac]).change_pivot(*p0).error[0])
                    if not np.allclose(ss, Ef * sfac, rtol=1e-7, atol=(1e-15 + 1e-14 * (1 + abs(ALPHA / par[2])) * float(np.abs(Ef).max())) * sfac):
                        report(f"C12:identity-move-changes-error:scaled:{fe}", f"move to the same pivot changed an error matrix given in units {sfac:g} times smaller", {"par": par, "pivot": p0, "scale": sfac})
        h0 = obj(par, p0); n_eval += 1
        if h0.change_pivot(*p1).error is not None:
            report("C12:error-appears", "helix without error matrix acquired one", {"par": par})
        if canonical(par):
            same = np.asarray(obj(par, p0, E).change_pivot(*p0).error)
            # J = I up to rounding of order eps * |r| in its off-diagonal entries: absolute slack eps-scaled by |r| and the matrix' size
            if not np.allclose(same, E, rtol=1e-7, atol=1e-15 + 1e-14 * (1 + abs(ALPHA / par[2])) * float(np.abs(E).max())):
                report(f"C12:identity-move-changes-error:{q}{etag}", "move to the same pivot changed the error matrix", {"par": par, "pivot": p0})
    samples.append({"helix": par, "pivot": p0, "new_pivot": p1})

with warnings.catch_warnings():
    warnings.simplefilter("ignore")
    {"validate": do_validate, "c06": do_c06, "c07": do_c07, "c11": do_c11, "c12": do_c12, "c13": do_c13}[mode]()
print(json.dumps({"evaluations": n_eval, "violations": viol, "samples": samples, "distribution": dist}, default=lambda o: o.tolist() if hasattr(o, "tolist") else str(o)))
