"""Layout tie for C07: runs the real _extract_index / flatten / unflatten loop of the working tree on generated nestings.
stdin: JSON list of cases {"nested": python nested list of ints, "depth": d, "view": kind}; prints JSON results."""
import json, sys
import numpy as np, awkward as ak
from pybes3._utils import _extract_index, _flat_to_numpy

def build(nested, d):
    """typed nested array from python lists: flat int64 leaves + per-level counts (never an untyped EmptyArray)"""
    levels = []
    cur = nested
    for _ in range(d):
        levels.append([len(x) for x in cur])
        cur = [y for x in cur for y in x]
    arr = ak.Array(np.array(cur, dtype=np.int64))
    for cnt in reversed(levels):
        arr = ak.unflatten(arr, np.array(cnt, dtype=np.int64))
    return arr


cases = json.load(sys.stdin)
out = []
for c in cases:
    try:
        d = c["depth"]
        # typed leaves (helix parameters are always typed numbers; ak.Array([[]]) alone would have unknown type)
        arr = build(c["nested"], d)
        if c["view"] == "numpy":
            arr = ak.Array(np.array(c["nested"], dtype=np.int64))
        elif c["view"] == "regular" and d >= 1:
            arr = ak.to_regular(arr, axis=1)
        elif c["view"] == "sliced":
            arr = ak.concatenate([build(c["prefix"], d), arr])[len(c["prefix"]):] if d > 0 else arr
        elif c["view"] == "indexed":
            idx = list(range(len(arr)))
            arr = ak.concatenate([arr, arr])[idx]
        if d > 0 and arr.ndim != d + 1:
            out.append({"skip": "depth"}); continue
        idx = _extract_index(arr.layout)
        counts = [[int(x)] * 1 if np.ndim(i) == 0 else [int(x) for x in np.asarray(i)] for i in idx for x in [i]] if False else \
                 [([int(i)] * (len(ak.flatten(arr, axis=None)) if False else 0) if False else None) for i in idx]
        levels = []
        cur_len = len(arr)
        for i in idx:
            if np.ndim(i) == 0:
                lv = [int(i)] * cur_len      # RegularArray: size repeated
            else:
                lv = [int(x) for x in np.asarray(i)]
            levels.append(lv); cur_len = sum(lv)
        flat = [int(x) for x in _flat_to_numpy(arr)]
        res = ak.Array(np.array(flat, dtype=np.int64) * 10)
        for count in reversed(idx):
            res = ak.unflatten(res, count)
        out.append({"levels": levels, "flat": flat, "rebuilt": ak.to_list(res)})
    except Exception as e:
        out.append({"error": f"{type(e).__name__}: {str(e)[:120]}"})
print(json.dumps(out))
