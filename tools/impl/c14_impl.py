"""C14 configuration matrix: every public function of pybes3.detectors x input container kind x integer dtype x options.
argv: <seed> <tier>.  Reference = the function applied to Python ints one element at a time (compared with the Coq model by
the caller on a sample).  Prints JSON {evaluations, violations, matrix, sample}."""
import json, sys, random, itertools
import numpy as np, awkward as ak
import pybes3 as p3, pybes3.detectors as det, pybes3.detectors.digi_id as d

seed, tier = int(sys.argv[1]), sys.argv[2]
rng = random.Random(seed)
N = 24 if tier == "quick" else 60
viol = []; matrix = {}; n_eval = 0
def report(key, what, inp):
    if len(viol) < 30 and not any(v["key"] == key for v in viol): viol.append({"key": key, "what": what, "input": inp})
def bits(x):
    if isinstance(x, (bool, np.bool_)): return int(bool(x))
    if isinstance(x, (float, np.floating)): return ("f", np.float64(x).view(np.uint64).item())
    return int(x)
def canon(v):
    """nested python structure of bit-exact leaves (None kept)"""
    if v is None: return None
    if isinstance(v, (list, tuple)): return [canon(i) for i in v]
    return bits(v)

mdc = np.load(p3.detectors.geometry.mdc._cur_dir / "mdc_geom.npz"); emc = np.load(p3.detectors.geometry.mdc._cur_dir / "emc_geom.npz")
def words(tag): return [(tag << 24) | rng.randrange(1 << 24) for _ in range(N)]
def rows(tab, cols): 
    idx = [rng.randrange(len(tab[cols[0]])) for _ in range(N)]
    return [[int(tab[c][i]) for i in idx] for c in cols]
gid_m = [rng.randrange(6796) for _ in range(N)]; gid_e = [rng.randrange(6240) for _ in range(N)]
SPEC = {  # name -> (callable, list of integer argument columns, optional extra non-integer columns)
 "digi_id.check_mdc_id": (d.check_mdc_id, [words(rng.choice([0x10, 0x20]))]), "digi_id.check_tof_id": (d.check_tof_id, [words(rng.choice([0x10, 0x20]))]),
 "digi_id.check_emc_id": (d.check_emc_id, [words(0x30)]), "digi_id.check_muc_id": (d.check_muc_id, [words(0x40)]), "digi_id.check_cgem_id": (d.check_cgem_id, [words(0x60)]),
 "digi_id.mdc_id_to_wire": (d.mdc_id_to_wire, [words(0x10)]), "digi_id.mdc_id_to_layer": (d.mdc_id_to_layer, [words(0x10)]), "digi_id.mdc_id_to_is_stereo": (d.mdc_id_to_is_stereo, [words(0x10)]),
 "digi_id.tof_id_to_part": (d.tof_id_to_part, [words(0x20)]), "digi_id.tof_id_to_end": (d.tof_id_to_end, [words(0x20)]),
 "digi_id.tof_id_to_layer_or_module": (d.tof_id_to_layer_or_module, [words(0x20)]), "digi_id.tof_id_to_phi_or_strip": (d.tof_id_to_phi_or_strip, [words(0x20)]),
 "digi_id.emc_id_to_module": (d.emc_id_to_module, [words(0x30)]), "digi_id.emc_id_to_theta": (d.emc_id_to_theta, [words(0x30)]), "digi_id.emc_id_to_phi": (d.emc_id_to_phi, [words(0x30)]),
 "digi_id.muc_id_to_part": (d.muc_id_to_part, [words(0x40)]), "digi_id.muc_id_to_segment": (d.muc_id_to_segment, [words(0x40)]), "digi_id.muc_id_to_layer": (d.muc_id_to_layer, [words(0x40)]),
 "digi_id.muc_id_to_channel": (d.muc_id_to_channel, [words(0x40)]), "digi_id.muc_id_to_gap": (d.muc_id_to_gap, [words(0x40)]), "digi_id.muc_id_to_strip": (d.muc_id_to_strip, [words(0x40)]),
 "digi_id.cgem_id_to_layer": (d.cgem_id_to_layer, [words(0x60)]), "digi_id.cgem_id_to_sheet": (d.cgem_id_to_sheet, [words(0x60)]), "digi_id.cgem_id_to_strip": (d.cgem_id_to_strip, [words(0x60)]),
 "digi_id.cgem_id_to_is_x_strip": (d.cgem_id_to_is_x_strip, [words(0x60)]),
 "get_mdc_digi_id": (det.get_mdc_digi_id, [[rng.randrange(512) for _ in range(N)], [rng.randrange(64) for _ in range(N)], [rng.randrange(2) for _ in range(N)]]),
 "get_tof_digi_id": (det.get_tof_digi_id, [[rng.randrange(5) for _ in range(N)], [rng.randrange(2) for _ in range(N)], [rng.randrange(16) for _ in range(N)], [rng.randrange(2) for _ in range(N)]]),
 "get_emc_digi_id": (det.get_emc_digi_id, [[rng.randrange(3) for _ in range(N)], [rng.randrange(44) for _ in range(N)], [rng.randrange(120) for _ in range(N)]]),
 "get_muc_digi_id": (det.get_muc_digi_id, [[rng.randrange(3) for _ in range(N)], [rng.randrange(8) for _ in range(N)], [rng.randrange(9) for _ in range(N)], [rng.randrange(112) for _ in range(N)]]),
 "get_cgem_digi_id": (det.get_cgem_digi_id, [[rng.randrange(3) for _ in range(N)], [rng.randrange(2) for _ in range(N)], [rng.randrange(1200) for _ in range(N)], [rng.randrange(2) for _ in range(N)]]),
 "get_mdc_gid": (det.get_mdc_gid, rows(mdc, ["layer", "wire"])), "get_emc_gid": (det.get_emc_gid, rows(emc, ["part", "theta", "phi"])),
 "mdc_layer_to_superlayer": (det.mdc_layer_to_superlayer, [[rng.randrange(43) for _ in range(N)]]), "mdc_layer_to_is_stereo": (det.mdc_layer_to_is_stereo, [[rng.randrange(43) for _ in range(N)]]),
}
for nm in ("superlayer", "layer", "wire", "stereo", "is_stereo", "west_x", "west_y", "west_z", "east_x", "east_y", "east_z"):
    SPEC[f"mdc_gid_to_{nm}"] = (getattr(det, f"mdc_gid_to_{nm}"), [gid_m])
for nm in ("part", "theta", "phi", "center_x", "center_y", "center_z", "front_center_x", "front_center_y", "front_center_z"):
    SPEC[f"emc_gid_to_{nm}"] = (getattr(det, f"emc_gid_to_{nm}"), [gid_e])
for ax in "xyz":
    SPEC[f"emc_gid_to_point_{ax}"] = (getattr(det, f"emc_gid_to_point_{ax}"), [gid_e, [rng.randrange(8) for _ in range(N)]])
zs = [rng.uniform(-120, 120) for _ in range(N)]
public = [n for n in det.__all__ if callable(getattr(det, n))]
covered = set(k.split(".")[-1] for k in SPEC) | {"mdc_gid_z_to_x", "mdc_gid_z_to_y", "get_mdc_wire_position", "get_emc_crystal_position",
          "parse_mdc_gid", "parse_mdc_digi_id", "parse_tof_digi_id", "parse_emc_digi_id", "parse_muc_digi_id", "parse_cgem_digi_id", "parse_emc_gid"}
missing = [n for n in public if n not in covered]
if missing: report("C14:harness:function-not-in-matrix", f"public functions not covered by the matrix: {missing}", missing)

INT_DT = [np.uint8, np.int8, np.uint16, np.int16, np.uint32, np.int32, np.uint64, np.int64]
def containers(cols, extra=None):
    """yield (kind, args, unwrap) where unwrap(result) -> flat python list aligned with the input order (None for missing)"""
    n = len(cols[0]); lo = min(min(c) for c in cols); hi = max(max(c) for c in cols)
    ex = extra or []
    for dt in INT_DT:
        info = np.iinfo(dt)
        if lo >= info.min and hi <= info.max:
            name = np.dtype(dt).name
            yield f"np.{name}", [np.array(c, dtype=dt) for c in cols] + [np.array(e) for e in ex], lambda r: np.asarray(r).tolist()
            yield f"npscalar.{name}", None, dt
            yield f"ak.flat.{name}", [ak.Array(np.array(c, dtype=dt)) for c in cols] + [ak.Array(np.array(e)) for e in ex], lambda r: ak.to_list(r)
    # NumPy arrays that are not plain native contiguous buffers (after the native loops above exist: numba compiles per first-seen type)
    for bdt in (">u2", ">i4", ">u8", ">i8"):
        info = np.iinfo(np.dtype(bdt))
        if lo >= info.min and hi <= info.max:
            yield f"np.bigendian.{bdt[1:]}", [np.array(c, dtype=bdt) for c in cols] + [np.array(e) for e in ex], lambda r: np.asarray(r).tolist()
    def strided(c, dt=np.int64):
        b = np.zeros(2 * len(c), dtype=dt); b[::2] = c; return b[::2]
    yield "np.strided", [strided(c) for c in cols] + [strided(e, np.float64) for e in ex], lambda r: np.asarray(r).tolist()
    yield "np.reversed-view", [np.array(c[::-1], dtype=np.int64)[::-1] for c in cols] + [np.array(e[::-1])[::-1] for e in ex], lambda r: np.asarray(r).tolist()
    def ro(a): a.setflags(write=False); return a
    yield "np.readonly", [ro(np.array(c, dtype=np.int64)) for c in cols] + [ro(np.array(e)) for e in ex], lambda r: np.asarray(r).tolist()
    yield "np.2d", [np.array(c[: n // 2 * 2], dtype=np.int64).reshape(-1, 2) for c in cols] + [np.array(e[: n // 2 * 2]).reshape(-1, 2) for e in ex], ("trunc-np", n // 2 * 2)
    flagcols = [k for k, c in enumerate(cols) if set(c) <= {0, 1} and len(cols) > 1]
    if flagcols:   # a 0 / 1 flag given as booleans
        yield "np.bool-flags", [np.array(c, dtype=np.bool_ if k in flagcols else np.int64) for k, c in enumerate(cols)], lambda r: np.asarray(r).tolist()
        yield "ak.bool-flags", [ak.Array(np.array(c, dtype=np.bool_ if k in flagcols else np.int64)) for k, c in enumerate(cols)], lambda r: ak.to_list(r)
    cuts = sorted(rng.sample(range(n + 1), 3)); counts = [int(x) for x in np.diff([0] + cuts + [n])]
    def rag(c, dt=np.int64): return ak.unflatten(ak.Array(np.array(c, dtype=dt)), counts)
    fl = lambda r: ak.to_list(ak.flatten(r, axis=None))
    yield "ak.ragged+empty", [ak.unflatten(ak.Array(np.array(c, dtype=np.int64)), [0] + counts + [0]) for c in cols] + [ak.unflatten(ak.Array(np.array(e)), [0] + counts + [0]) for e in ex], fl
    yield "ak.depth3", [ak.unflatten(rag(c), [1, 0, 3]) for c in cols] + [ak.unflatten(ak.unflatten(ak.Array(np.array(e)), counts), [1, 0, 3]) for e in ex], fl
    yield "ak.regular", [ak.to_regular(ak.unflatten(ak.Array(np.array(c[: n // 2 * 2], dtype=np.int64)), 2), axis=1) for c in cols] + \
                        [ak.to_regular(ak.unflatten(ak.Array(np.array(e[: n // 2 * 2])), 2), axis=1) for e in ex], ("trunc", n // 2 * 2)
    yield "ak.sliced", [ak.concatenate([rag(c), rag(c)])[4:] for c in cols] + [ak.concatenate([ak.unflatten(ak.Array(np.array(e)), counts)] * 2)[4:] for e in ex], fl
    yield "ak.indexed", [rag(c)[[3, 2, 1, 0]] for c in cols] + [ak.unflatten(ak.Array(np.array(e)), counts)[[3, 2, 1, 0]] for e in ex], ("perm", counts)
    mask = [rng.random() < 0.7 for _ in range(n)]
    yield "ak.option", [ak.mask(ak.Array(np.array(c, dtype=np.int64)), mask) for c in cols] + [ak.mask(ak.Array(np.array(e)), mask) for e in ex], ("mask", mask)
    yield "ak.typed-empty", [ak.unflatten(ak.Array(np.array([], dtype=np.int64)), [0, 0]) for c in cols] + [ak.unflatten(ak.Array(np.array([], dtype=np.float64)), [0, 0]) for e in ex], ("empty", None)

def run_fn(name, fn, cols, extra=None):
    global n_eval
    n = len(cols[0]); ex = extra or []
    ref = [canon(fn(*[int(c[i]) for c in cols], *[float(e[i]) for e in ex])) for i in range(n)]; n_eval += n
    for kind, args, un in containers(cols, ex):
        matrix[f"{name}|{kind}"] = "ok"
        sys.stderr.write(f"BEGIN {name}|{kind}\n"); sys.stderr.flush()       # numba kernels do not bounds-check: a wrong index can kill the interpreter
        try:
            if kind.startswith("npscalar."):
                dt = un
                got = [canon(fn(*[dt(c[i]) for c in cols], *[np.float64(e[i]) for e in ex])) for i in range(min(n, 6))]; want = ref[:len(got)]
            else:
                r = fn(*args)
                if callable(un): got = canon(un(r)); want = ref
                elif un[0] == "trunc": got = canon(ak.to_list(ak.flatten(r, axis=None))); want = ref[:un[1]]
                elif un[0] == "trunc-np":
                    got = canon(np.asarray(r).ravel().tolist()); want = ref[:un[1]]
                    if np.asarray(r).shape != (un[1] // 2, 2): report(f"C14:structure:{name}:{kind}", f"2-D input gives shape {np.asarray(r).shape}", {"function": name, "kind": kind})
                elif un[0] == "perm":
                    counts = un[1]; st = np.cumsum([0] + counts); order = [i for k in (3, 2, 1, 0) for i in range(st[k], st[k + 1])]
                    got = canon(ak.to_list(ak.flatten(r, axis=None))); want = [ref[i] for i in order]
                    if [len(x) for x in ak.to_list(r)] != [counts[k] for k in (3, 2, 1, 0)]:
                        report(f"C14:structure:{name}:{kind}", "array structure not preserved", {"function": name, "kind": kind})
                elif un[0] == "mask":
                    got = canon(ak.to_list(r)); want = [ref[i] if un[1][i] else None for i in range(n)]
                else:
                    got = canon(ak.to_list(r)); want = [[], []]
                if kind in ("ak.ragged+empty", "ak.depth3") and isinstance(r, ak.Array):
                    if ak.to_list(ak.num(r, axis=1)) != ak.to_list(ak.num(args[0], axis=1)):
                        report(f"C14:structure:{name}:{kind}", "array structure not preserved", {"function": name, "kind": kind})
            n_eval += len(got) if isinstance(got, list) else 1
            if got != want:
                j = next((i for i in range(min(len(got), len(want))) if got[i] != want[i]), 0)
                report(f"C14:value:{name}:{kind}", f"{name} with {kind} input differs from the Python-int result at element {j}: {got[j] if j < len(got) else None} vs {want[j] if j < len(want) else None}",
                       {"function": name, "kind": kind, "args": [int(c[j]) for c in cols] if j < n else None})
                matrix[f"{name}|{kind}"] = "differs"
        except Exception as e:
            matrix[f"{name}|{kind}"] = f"raises {type(e).__name__}"
            report(f"C14:raises:{name}:{kind}:{type(e).__name__}", f"{name} with {kind} input raised {type(e).__name__}: {str(e)[:160]}", {"function": name, "kind": kind})
    return ref

def history_fn(name, fn, cols, extra=None):
    """one set of input buffers re-filled in place between two calls (a preallocated read buffer), results kept across calls:
    the second answer belongs to the second content, the first answer is not changed by the second call"""
    global n_eval
    n = len(cols[0]); ex = extra or []
    perm = list(range(n)); rng.shuffle(perm)
    colsB = [[c[i] for i in perm] for c in cols]; exB = [[e[i] for i in perm] for e in ex]
    try:
        bufs = [np.array(c, dtype=np.int64) for c in cols] + [np.array(e, dtype=np.float64) for e in ex]
        r1 = fn(*bufs); keep1 = canon(np.asarray(r1).tolist())
        for b, c in zip(bufs, colsB + exB): b[:] = c
        r2 = fn(*bufs); n_eval += 2 * n
        want2 = canon(np.asarray(fn(*[np.array(c, dtype=np.int64) for c in colsB], *[np.array(e, dtype=np.float64) for e in exB])).tolist())
        if canon(np.asarray(r2).tolist()) != want2:
            report(f"C14:history:refilled-buffer:{name}", f"{name}: the same input arrays re-filled in place and passed again give the answer of their PREVIOUS content", {"function": name})
        if canon(np.asarray(r1).tolist()) != keep1:
            report(f"C14:history:earlier-result-changed:{name}", f"{name}: the result of the first call changed when the function was called again", {"function": name})
        matrix[f"{name}|history"] = "ok"
    except Exception as e:
        report(f"C14:raises:{name}:history:{type(e).__name__}", f"{name} refilled-buffer history raised {type(e).__name__}: {str(e)[:160]}", {"function": name})

FRESH = r"""
import json, sys, numpy as np
import pybes3.detectors as det
name, first = sys.argv[1], sys.argv[2]
cols = json.loads(sys.argv[3]); flags = json.loads(sys.argv[4])
fn = getattr(det, name)
def args(kind):
    return [np.array(c, dtype=(np.bool_ if (kind == 'bool' and k in flags) else np.int64)) for k, c in enumerate(cols)]
out = {}
for kind in ([first] + [k for k in ('bool', 'int') if k != first]):      # numba compiles a loop for the first types it sees; later calls may reuse it
    out[kind] = [int(x) for x in np.asarray(fn(*args(kind))).tolist()]
out['pyint'] = [int(fn(*[int(c[i]) for c in cols])) for i in range(min(4, len(cols[0])))]
print(json.dumps(out))
"""
def fresh_first_call():
    """a 0 / 1 flag given as booleans or as integers, each as the FIRST call of a fresh interpreter: the same identifiers"""
    global n_eval
    import subprocess, os
    jobs = []
    for name, (fn, cols) in SPEC.items():
        flags = [k for k, c in enumerate(cols) if set(c) <= {0, 1} and len(cols) > 1]
        if flags and name.startswith("get_") and name.endswith("_digi_id"):
            for first in ("bool", "int"):
                jobs.append((name, first, subprocess.Popen([sys.executable, "-c", FRESH, name, first, json.dumps(cols), json.dumps(flags)], stdout=subprocess.PIPE, stderr=subprocess.PIPE, text=True, env=dict(os.environ))))
    res = {}
    for name, first, pr in jobs:
        so, se = pr.communicate(timeout=600)
        try: res[(name, first)] = json.loads(so.strip().splitlines()[-1])
        except Exception: report(f"C14:raises:{name}:fresh-process:{first}-first", f"{name} in a fresh interpreter ({first} flags first) failed: {se[-200:]}", {"function": name}); continue
    for (name, first), out in res.items():
        n_eval += 3 * len(out["bool"]); matrix[f"{name}|fresh:{first}-first"] = "ok"
        vals_ = {k: out[k] for k in ("bool", "int")}
        if vals_["bool"] != vals_["int"] or out["pyint"] != vals_["int"][:len(out["pyint"])] or any(res.get((name, o), out)["bool"] != vals_["bool"] for o in ("bool", "int")):
            matrix[f"{name}|fresh:{first}-first"] = "differs"
            j = next((i for i, (a, b) in enumerate(zip(vals_["bool"], vals_["int"])) if a != b), 0)
            report(f"C14:value:{name}:flag-representation:fresh-process", f"{name} in a fresh interpreter ({first} flags first): boolean flags give {hex(vals_['bool'][j])}, the same truth values as integers {hex(vals_['int'][j])}, "
                   f"Python ints {[hex(x) for x in out['pyint'][:2]]}", {"function": name, "first_call": first, "args": [int(c[j]) for c in SPEC[name][1]]})
fresh_first_call()

sample = []
for name, (fn, cols) in SPEC.items():
    history_fn(name, fn, cols)
    ref = run_fn(name, fn, cols)
    if all(isinstance(x, int) for x in ref):
        for i in range(3): sample.append({"f": name.split(".")[-1], "args": [int(c[i]) for c in cols], "value": ref[i]})
run_fn("mdc_gid_z_to_x", det.mdc_gid_z_to_x, [gid_m], [zs]); run_fn("mdc_gid_z_to_y", det.mdc_gid_z_to_y, [gid_m], [zs])
# z given as whole numbers in integer containers (negative ones included): the same positions as with the float of each value
zi = [rng.randrange(-115, 116) for _ in range(N)]
for nm, fn in (("mdc_gid_z_to_x", det.mdc_gid_z_to_x), ("mdc_gid_z_to_y", det.mdc_gid_z_to_y)):
    want = [canon(fn(int(g), float(z))) for g, z in zip(gid_m, zi)]; n_eval += N
    for kind, garr, zarr in (("np.int64", np.array(gid_m), np.array(zi, dtype=np.int64)), ("np.int32", np.array(gid_m), np.array(zi, dtype=np.int32)),
                             ("np.int16", np.array(gid_m, dtype=np.uint16), np.array(zi, dtype=np.int16)), ("np.int8", np.array(gid_m), np.array(zi, dtype=np.int8)),
                             ("ak.int64", ak.Array(np.array(gid_m)), ak.Array(np.array(zi, dtype=np.int64))), ("np.float32", np.array(gid_m), np.array(zi, dtype=np.float32))):
        sys.stderr.write(f"BEGIN {nm}|z-as-{kind}\n"); sys.stderr.flush()
        try:
            r = fn(garr, zarr); got = canon(ak.to_list(r) if isinstance(r, ak.Array) else np.asarray(r).tolist()); n_eval += N
            matrix[f"{nm}|z-as-{kind}"] = "ok" if got == want else "differs"
            if got != want:
                j = next(i for i in range(N) if got[i] != want[i])
                report(f"C14:value:{nm}:z-as-{kind}", f"{nm}(gid, z) with z as {kind} differs from the call with the float of the same number at element {j}: gid {gid_m[j]}, z {zi[j]}: {got[j]} vs {want[j]}",
                       {"function": nm, "kind": kind, "args": [int(gid_m[j]), int(zi[j])]})
        except Exception as e:
            matrix[f"{nm}|z-as-{kind}"] = f"raises {type(e).__name__}"
# two-argument functions with one scalar and one array argument (broadcast)
for name, fn, arr, sc in (("get_mdc_gid", det.get_mdc_gid, [0, 1, 2, 3], 5), ("emc_gid_to_point_x", det.emc_gid_to_point_x, gid_e[:6], 3)):
    want = [canon(fn(int(a), sc)) for a in arr]
    for kind, a in (("np", np.array(arr)), ("ak", ak.Array([arr[:2], arr[2:]]))):
        got = canon(ak.to_list(ak.flatten(fn(a, sc), axis=None)) if kind == "ak" else np.asarray(fn(a, sc)).tolist()); n_eval += len(arr)
        matrix[f"{name}|broadcast-{kind}"] = "ok" if got == want else "differs"
        if got != want: report(f"C14:value:{name}:broadcast-{kind}", "array x scalar broadcast differs from element-wise calls", {"function": name})

# ---- record-returning parsers: fields = individual field functions; flat option; np vs ak library; with_pos
def fields_of(r): return list(r.fields) if isinstance(r, (ak.Array, ak.Record)) else list(r.keys())
def col(r, k): v = r[k]; return canon(ak.to_list(v) if isinstance(v, (ak.Array, ak.Record)) else (np.asarray(v).tolist()))
w_tof = words(0x20); w_muc = words(0x40); w_cg = words(0x60); cuts = [5, 0, N - 5]
mdc_ids = [int(x) for x in d.get_mdc_digi_id(np.array(mdc["wire"][gid_m]), np.array(mdc["layer"][gid_m]), np.array(mdc["is_stereo"][gid_m]).astype(int))]
emc_ids = [int(x) for x in d.get_emc_digi_id(np.array(emc["part"][gid_e]), np.array(emc["theta"][gid_e]), np.array(emc["phi"][gid_e]))]
PARSERS = {
 "parse_tof_digi_id": (det.parse_tof_digi_id, w_tof, {"part": d.tof_id_to_part, "layer_or_module": d.tof_id_to_layer_or_module, "phi_or_strip": d.tof_id_to_phi_or_strip, "end": d.tof_id_to_end}, "flatlib"),
 "parse_muc_digi_id": (det.parse_muc_digi_id, w_muc, {"part": d.muc_id_to_part, "segment": d.muc_id_to_segment, "layer": d.muc_id_to_layer, "channel": d.muc_id_to_channel, "gap": d.muc_id_to_gap, "strip": d.muc_id_to_strip}, "flatlib"),
 "parse_cgem_digi_id": (det.parse_cgem_digi_id, w_cg, {"layer": d.cgem_id_to_layer, "sheet": d.cgem_id_to_sheet, "strip": d.cgem_id_to_strip, "is_x_strip": d.cgem_id_to_is_x_strip}, "flatlib"),
 "parse_mdc_gid": (det.parse_mdc_gid, gid_m, {"gid": lambda g: g, "layer": det.mdc_gid_to_layer, "wire": det.mdc_gid_to_wire, "stereo": det.mdc_gid_to_stereo, "is_stereo": det.mdc_gid_to_is_stereo,
                   "superlayer": det.mdc_gid_to_superlayer, "west_x": det.mdc_gid_to_west_x, "west_y": det.mdc_gid_to_west_y, "west_z": det.mdc_gid_to_west_z,
                   "east_x": det.mdc_gid_to_east_x, "east_y": det.mdc_gid_to_east_y, "east_z": det.mdc_gid_to_east_z}, "pos"),
 "parse_emc_gid": (det.parse_emc_gid, gid_e, {"gid": lambda g: g, "part": det.emc_gid_to_part, "theta": det.emc_gid_to_theta, "phi": det.emc_gid_to_phi,
                   "front_center_x": det.emc_gid_to_front_center_x, "front_center_y": det.emc_gid_to_front_center_y, "front_center_z": det.emc_gid_to_front_center_z,
                   "center_x": det.emc_gid_to_center_x, "center_y": det.emc_gid_to_center_y, "center_z": det.emc_gid_to_center_z}, "pos"),
 "parse_mdc_digi_id": (det.parse_mdc_digi_id, mdc_ids, {"gid": lambda w: det.get_mdc_gid(d.mdc_id_to_layer(w), d.mdc_id_to_wire(w)), "layer": d.mdc_id_to_layer, "wire": d.mdc_id_to_wire}, "pos"),
 "parse_emc_digi_id": (det.parse_emc_digi_id, emc_ids, {"gid": lambda w: det.get_emc_gid(d.emc_id_to_module(w), d.emc_id_to_theta(w), d.emc_id_to_phi(w)), "part": d.emc_id_to_module, "theta": d.emc_id_to_theta, "phi": d.emc_id_to_phi}, "pos"),
}
for pname, (pf, vals, fmap, optkind) in PARSERS.items():
    arr_np = np.array(vals, dtype=np.int64); arr_ak = ak.Array(arr_np); arr_rag = ak.unflatten(arr_ak, cuts); arr_d3 = ak.unflatten(arr_rag, [1, 2])
    opts = [dict(flat=f, library=l) for f in (False, True) for l in ("ak", "np")] if optkind == "flatlib" else [dict(with_pos=w) for w in (False, True)]
    for o in opts:
        for kind, x in (("int", int(vals[0])), ("np", arr_np), ("ak.flat", arr_ak), ("ak.ragged", arr_rag), ("ak.depth3", arr_d3), ("ak.option", ak.mask(arr_ak, [i % 3 != 0 for i in range(N)]))):
            tag = f"{pname}|{kind}|{json.dumps(o, sort_keys=True)}"
            try:
                # reference: "flattening the input first" (ak.flatten semantics incl. its errors) then the field functions
                xin = x
                if o.get("flat") and isinstance(x, ak.Array):
                    try: xin = ak.flatten(x)
                    except Exception as fe:
                        try: pf(x, **o); report(f"C14:flat-option:{pname}:{kind}", "flat=True succeeded where flattening the input first raises", {"parser": pname, "kind": kind})
                        except type(fe): matrix[tag] = "raises-like-flatten"
                        continue
                r = pf(x, **o); n_eval += 1
                flds = fields_of(r)
                if isinstance(r, ak.Array) and isinstance(xin, ak.Array) and r.ndim != xin.ndim:
                    report(f"C14:structure:{pname}:{kind}", f"{pname}: records sit at depth {r.ndim}, the input has depth {xin.ndim} ({kind}, {o}): type {str(r.type)[:120]}", {"parser": pname, "kind": kind, "options": o})
                for k, f in fmap.items():
                    if k not in flds:
                        if k in ("west_x", "west_y", "west_z", "east_x", "east_y", "east_z", "front_center_x", "front_center_y", "front_center_z", "center_x", "center_y", "center_z") and not o.get("with_pos", pname.endswith("_gid")):
                            continue
                        report(f"C14:parser-field-missing:{pname}:{k}", f"field {k} missing ({kind}, {o})", {"parser": pname}); continue
                    want = f(xin); n_eval += 1
                    if col(r, k) != canon(ak.to_list(want) if isinstance(want, (ak.Array, ak.Record)) else np.asarray(want).tolist()):
                        report(f"C14:parser-field:{pname}:{k}:{kind}", f"parser field {k} differs from the field function ({kind}, {o})", {"parser": pname, "kind": kind, "options": o})
                matrix[tag] = "ok"
            except Exception as e:
                matrix[tag] = f"raises {type(e).__name__}"
                report(f"C14:raises:{pname}:{kind}:{json.dumps(o, sort_keys=True)}:{type(e).__name__}", f"{pname}({kind}, {o}) raised {type(e).__name__}: {str(e)[:160]}", {"parser": pname, "kind": kind, "options": o})
    # results of successive calls are independent objects: parsing B does not change what was returned for A (both libraries where offered)
    for lib in (("np", "ak") if optkind == "flatlib" else ("ak",)):
        try:
            kwl = {"library": lib} if optkind == "flatlib" else {}
            A = np.array(vals, dtype=np.int64); B = np.array(vals[::-1], dtype=np.int64)
            buf = A.copy(); ra = pf(buf if lib == "np" else ak.Array(buf), **kwl); keep = {k: col(ra, k) for k in fmap if k in fields_of(ra)}
            buf[:] = B; rb = pf(buf if lib == "np" else ak.Array(buf), **kwl); n_eval += 2
            wantb = pf(B.copy() if lib == "np" else ak.Array(B.copy()), **kwl)
            for k in keep:
                if col(rb, k) != col(wantb, k):
                    report(f"C14:history:refilled-buffer:{pname}:{lib}", f"{pname}: an input array re-filled in place and parsed again gives the records of its PREVIOUS content (field {k})", {"parser": pname, "library": lib}); break
            r_first = pf(A.copy() if lib == "np" else ak.Array(A.copy()), **kwl); keep1 = {k: col(r_first, k) for k in fmap if k in fields_of(r_first)}
            pf(B.copy() if lib == "np" else ak.Array(B.copy()), **kwl)
            if any(col(r_first, k) != keep1[k] for k in keep1):
                report(f"C14:history:earlier-result-changed:{pname}:{lib}", f"{pname}(library={lib}): the result returned for one collection changed when another collection was parsed", {"parser": pname, "library": lib})
            if lib == "np" and isinstance(r_first, dict):
                ids_ = [id(v) for v in r_first.values()]
                n_eval += 1
        except Exception as e:
            report(f"C14:raises:{pname}:history:{lib}:{type(e).__name__}", f"{pname} history ({lib}) raised {type(e).__name__}: {str(e)[:160]}", {"parser": pname})
    # the SAME NumPy array object passed again after it was re-filled in place (no library option: every parser takes NumPy input)
    try:
        A = np.array(vals, dtype=np.int64); B = np.array(vals[::-1], dtype=np.int64)
        buf = A.copy(); ra = pf(buf); buf[:] = B; rb = pf(buf); wantb = pf(B.copy()); n_eval += 3
        for k in fmap:
            if k in fields_of(rb) and col(rb, k) != col(wantb, k):
                report(f"C14:history:refilled-buffer:{pname}:same-object", f"{pname}: the same NumPy array re-filled in place and parsed again gives the records of its PREVIOUS content (field {k})", {"parser": pname}); break
    except Exception as e:
        report(f"C14:raises:{pname}:history:same-object:{type(e).__name__}", f"{pname} history (same object) raised {type(e).__name__}: {str(e)[:160]}", {"parser": pname})
    if optkind == "flatlib":   # NumPy and Awkward outputs hold the same values
        a = pf(arr_np, library="np"); b = pf(arr_ak, library="ak"); n_eval += 1
        for k in fmap:
            if col(a, k) != col(b, k): report(f"C14:np-vs-ak:{pname}:{k}", "library='np' and library='ak' outputs differ", {"parser": pname})
# ---- parse_mdc_digi / parse_emc_digi (records of raw digi fields in, records out): pass-through fields unchanged, id fields = the
#      id parser's, nesting preserved, flat / ragged / single-event inputs
for pname, idp, ids, extra_in, extra_out in (
        ("parse_mdc_digi", det.parse_mdc_digi_id, mdc_ids, {"m_timeChannel": "time_channel", "m_chargeChannel": "charge_channel", "m_trackIndex": "track_index", "m_overflow": "overflow"}, "digi_id"),
        ("parse_emc_digi", det.parse_emc_digi_id, emc_ids, {"m_timeChannel": "time_channel", "m_chargeChannel": "charge_channel", "m_trackIndex": "track_index", "m_measure": "measure"}, "digi_id")):
    pf = getattr(det, pname, None) or getattr(p3, pname)
    cols = {"m_intId": np.array(ids, dtype=np.uint32)}
    for j, k in enumerate(extra_in): cols[k] = np.array([rng.randrange(1 << 16) for _ in range(N)], dtype=np.uint32)
    flat = ak.zip({k: ak.Array(v) for k, v in cols.items()})
    # the same digis as records whose fields are stored in another order (a re-zipped or re-projected collection): fields are named
    rev = ak.zip({k: ak.Array(cols[k]) for k in reversed(list(cols))})
    proj = flat[[list(cols)[k] for k in (2, 0, 4, 1, 3)][:len(cols)]] if len(cols) == 5 else flat
    for kind, x in (("ak.flat", flat), ("ak.ragged", ak.unflatten(flat, cuts)), ("ak.event", ak.unflatten(flat, cuts)[2]),
                    ("ak.flat.fields-reversed", rev), ("ak.ragged.fields-reordered", ak.unflatten(proj, cuts))):
        for wp in (False, True):
            tag = f"{pname}|{kind}|with_pos={wp}"
            try:
                r = pf(x, with_pos=wp); n_eval += 1
                ref = idp(x["m_intId"], with_pos=wp)
                bad = None
                for k in ref.fields:
                    if canon(ak.to_list(r[k])) != canon(ak.to_list(ref[k])): bad = k
                for kin, kout in extra_in.items():
                    if canon(ak.to_list(r[kout])) != canon(ak.to_list(x[kin])): bad = kout
                if canon(ak.to_list(r[extra_out])) != canon(ak.to_list(x["m_intId"])): bad = extra_out
                if ak.to_list(ak.num(r[extra_out], axis=-1) if r[extra_out].ndim > 1 else len(r[extra_out])) != ak.to_list(ak.num(x["m_intId"], axis=-1) if x["m_intId"].ndim > 1 else len(x["m_intId"])): bad = "nesting"
                matrix[tag] = "ok" if bad is None else "differs"
                if bad: report(f"C14:parser-field:{pname}:{bad}:{kind}", f"{pname} field {bad} differs from the id parser / the input digi field ({kind}, with_pos={wp})", {"parser": pname, "kind": kind})
            except Exception as e:
                matrix[tag] = f"raises {type(e).__name__}"
                report(f"C14:raises:{pname}:{kind}:{type(e).__name__}", f"{pname}({kind}, with_pos={wp}) raised {type(e).__name__}: {str(e)[:160]}", {"parser": pname, "kind": kind})
kinds = sorted({k.split("|")[1] for k in matrix})
print(json.dumps({"evaluations": n_eval, "violations": viol, "functions": len(SPEC) + 2, "parsers": len(PARSERS), "container_kinds": kinds,
                  "configurations": len(matrix), "not_ok": {k: v for k, v in matrix.items() if v not in ("ok", "raises-like-flatten")}, "sample": sample}))
