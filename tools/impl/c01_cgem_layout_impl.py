"""C01: plausibility of the HARD-CODED TRecCgemCluster layout (root_io.hh Bes3CgemClusterColReader) on the fixtures that hold such
clusters.  The files carry no streamer for the class, so there is no member-by-member reference; what can be observed is whether the
decoded values look like data or like the framing of another layout: a std::vector<int> member is streamed as <count><elements>, and a
count read as (part of) a value shows up as a constant equal to the number of elements that follow.
argv: <datadir>.  Prints {"files": {name: evidence}}."""
import glob, json, os, sys
import numpy as np
import awkward as ak
import uproot
import pybes3  # noqa: F401

out = {}
for fn in sorted(glob.glob(os.path.join(sys.argv[1], "*.rec")) + glob.glob(os.path.join(sys.argv[1], "*.dst"))):
    try:
        tree = uproot.open(fn)["Event"]
        if "TRecEvent/m_recCgemClusterCol" not in tree:
            continue
        a = tree["TRecEvent/m_recCgemClusterCol"].array()
    except Exception as e:  # noqa: BLE001
        out[os.path.basename(fn)] = {"error": f"{type(e).__name__}: {e}"[:200]}
        continue
    f = ak.flatten(a)
    n = len(f)
    if n == 0 or "m_recZ" not in f.fields:
        continue
    z = ak.to_numpy(f["m_recZ"]).astype(np.float64); bits = z.view(np.uint64)
    hi = sorted({int(x) for x in (bits >> np.uint64(32)).tolist()})
    cf = ak.to_numpy(f["m_clusterFlag"]); sid = ak.to_numpy(f["m_stripID"])
    n_cf, n_sid = int(np.prod(cf.shape[1:])), int(np.prod(sid.shape[1:]))
    ev = {"clusters": n, "streamer_for_class_in_file": any("CgemCluster" in k for k in uproot.open(fn).file.streamers),
          "m_recZ_all_subnormal": bool(np.all((np.abs(z) < 2.3e-308) & (z != 0))), "m_recZ_high_words": hi[:5],
          "m_clusterFlag_last_column": sorted({int(x) for x in cf.reshape(n, -1)[:, -1].tolist()})[:5],
          "n_clusterFlag_ints": n_cf, "n_stripID_ints": n_sid, "sample_m_recZ": [float(x) for x in z[:3]],
          "sample_m_clusterFlag": cf[:3].tolist(), "sample_m_recPositionY_m_recV": [ak.to_list(f[k][:3]) for k in ("m_recPositionY", "m_recV") if k in f.fields]}
    ev["length_words_decoded_as_values"] = bool(ev["m_recZ_all_subnormal"] and hi == [n_cf] and ev["m_clusterFlag_last_column"] == [n_sid])
    out[os.path.basename(fn)] = ev
print(json.dumps({"files": out}))
