"""Implementation side of the C16 tie (Python route; runs under /venv/bin/python with PYTHONPATH=<repo>/src).
argv: <py_cases.json> {"spec_items", "idxmaps" {n: [packed index per row-major (i,j)]}, "dim_inputs", "dim_model", "n_factory",
"fixtures"}.  For every fixture and every listed matrix member: TBranch.array() (working-tree root_io.py + pinned besio_cpp.so)
vs the packed values from an independent schema-driven decode (tools/proto/refdec.py) expanded by the given index map; all
comparisons on 64-bit patterns.  Also the factory arithmetic / reshape on synthetic streamer info."""
import glob, hashlib, json, os, struct, sys

# /venv carries a scikit-build-core editable install whose meta-path finder maps pybes3.* to /repo/src and wins over
# PYTHONPATH; re-point it to the tree under test (PYBES3_REPO) so that a scratch worktree is really what gets imported.
_repo = os.environ.get("PYBES3_REPO", "/repo").rstrip("/")
for _f in sys.meta_path:
    _m = getattr(_f, "known_source_files", None)
    if isinstance(_m, dict):
        for _k, _v in list(_m.items()):
            if _v.startswith("/repo/src/") and os.path.exists(_repo + _v[len("/repo"):]):  # (_version.py is build-generated)
                _m[_k] = _repo + _v[len("/repo"):]

import numpy as np, awkward as ak, uproot
import pybes3  # noqa: F401  (registers the interpretation + factories from the working tree)
from pybes3.besio import root_io
import uproot_custom

sys.path.insert(0, os.path.join(os.path.dirname(os.path.dirname(os.path.abspath(__file__))), "proto"))
import refdec

inp = json.load(open(sys.argv[1]))
assert os.path.realpath(root_io.__file__).startswith(os.path.realpath(_repo) + os.sep), \
    f"pybes3 imported from {root_io.__file__}, not from the tree under test {_repo}"
idxmaps = {int(k): v for k, v in inp["idxmaps"].items()}
mism, tie, samples, hashes = [], [], [], set()
n_members = n_objects = n_entries = n_factory = 0


def streamers_of(f):
    res = {}
    for name, versions in f.file.streamers.items():
        info = versions[max(versions)]
        els = []
        for e in info.member("fElements"):
            d = dict(e.all_members)
            d["_kind"] = e.classname.split("Model_")[-1].split("_v")[0]
            els.append(d)
        res[name] = els
    return res


def tri(n):
    return n * (n + 1) // 2


target_items = sorted(root_io.Bes3SymMatrixArrayFactory.target_items)
all_items = sorted(set(inp["spec_items"]) | set(target_items))
files = sorted(p for p in glob.glob(os.path.join(inp["fixtures"], "*")) if p.rsplit(".", 1)[-1] in ("rtraw", "dst", "rec"))
seen_items = set()
for path in files:
    f = uproot.open(path)
    t = f["Event"]
    streamers = streamers_of(f)
    fname = os.path.basename(path)
    for item in all_items:
        parts = item.split(".")
        bpath = parts[0].replace("/Event:", "")
        mem = parts[-1]
        if bpath not in t:
            continue
        br = t[bpath]
        if len(parts) == 3:  # TObjArray collection member
            cls = parts[1]
            if cls not in streamers:
                continue
            el = [e for e in streamers[cls] if e["fName"] == mem]
            if not el:
                continue
            flat = int(np.prod(el[0]["fMaxIndex"][:el[0]["fArrayDim"]]))
            bk = br.basket(0)
            if br.num_baskets != 1:
                tie.append({"name": f"{fname}:{bpath}", "detail": "more than one basket in a fixture branch"}); continue
            data = np.asarray(bk.data); offs = np.asarray(bk.byte_offsets)
            evs = refdec.decode_branch(data, offs, cls, streamers)
            packed = [[o[mem] for o in ev] for ev in evs]
            counts = [len(ev) for ev in packed]
            if sum(counts) == 0:
                continue
            seen_items.add(item)
            key = f"C16:fixture:{fname}:{item}"
            try:
                arr = br.array()
            except Exception as e:
                mism.append({"key": key, "what": f"{fname} {item}: TBranch.array() raised {type(e).__name__}: {str(e)[:300]}"}); continue
            if mem not in arr.fields:
                mism.append({"key": key, "what": f"{fname} {item}: member missing from the array (fields {arr.fields[:6]}...)"}); continue
            a = arr[mem]
            if [int(x) for x in ak.num(a, axis=1)] != counts:
                mism.append({"key": key, "what": f"{fname} {item}: per-event object counts {ak.num(a, axis=1).tolist()} != stored {counts}"}); continue
            n = None
            for cand in range(1, 13):
                if tri(cand) == flat:
                    n = cand
            if n is None:
                tie.append({"name": key, "detail": f"packed length {flat} is not triangular"}); continue
            try:
                got = ak.to_numpy(ak.flatten(a, axis=1))
            except Exception as e:
                mism.append({"key": key, "what": f"{fname} {item}: not a regular array: {type(e).__name__} {e}"}); continue
            if got.dtype != np.float64 or got.shape != (sum(counts), n, n):
                mism.append({"key": key, "what": f"{fname} {item}: returned shape {got.shape} dtype {got.dtype}; packed length {flat} "
                             f"requires {n} x {n} per object (type {ak.type(a)})"}); continue
            gb = np.ascontiguousarray(got).view(np.uint64).reshape(sum(counts), n * n)
            pk = np.array([[v[1] for v in o] for ev in packed for o in ev], dtype=np.uint64)
            want = pk[:, np.array(idxmaps[n], dtype=np.int64)]
            n_members += 1; n_objects += pk.shape[0]; n_entries += int(want.size)
            hashes.add(hashlib.sha1((fname + item).encode() + pk.tobytes()).digest()[:8].hex())
            bad = np.argwhere(gb != want)
            if len(samples) < 4:
                samples.append({"kind": "fixture-member", "file": fname, "member": item, "n": n, "objects": int(pk.shape[0]),
                                "packed0_hex": ["%016x" % int(x) for x in pk[0][:6]]})
            if bad.size:
                o, pos = int(bad[0][0]), int(bad[0][1])
                ev = int(np.searchsorted(np.cumsum(counts), o, side="right"))
                mism.append({"key": key, "what": f"{fname} {item}: event {ev} object {o} M[{pos // n}][{pos % n}] = {int(gb[o, pos]):#018x} but "
                             f"packed[{idxmaps[n][pos]}] = {int(want[o, pos]):#018x} ({len(bad)} differing entries)",
                             "packed": ["%016x" % int(x) for x in pk[o]], "got": ["%016x" % int(x) for x in gb[o]]})
            # symmetric-looking? record whether the data would have distinguished a wrong map
        else:  # member of a single-object branch (not a TObjArray collection)
            arr = br.array()
            if mem not in arr.fields:
                continue
            a = arr[mem]
            ty = str(ak.type(a))
            shape = ak.to_numpy(a).shape
            flat = int(np.prod(shape[1:]))
            n = next((c for c in range(1, 13) if tri(c) == flat or c * c == flat and len(shape) == 3), None)
            seen_items.add(item)
            if len(shape) != 3 or shape[1] != shape[2]:
                mism.append({"key": f"C16:not-expanded:{item}", "what": f"{fname} {item}: listed for expansion but returned as {ty} "
                             f"(interpretation {br.interpretation!r}); packed length {flat} requires {n} x {n}", "file": fname})

# ---- factory arithmetic and reshape (working-tree Python, synthetic streamer info)
F = root_io.Bes3SymMatrixArrayFactory
item = "/Event:TDstEvent/m_mdcTrackCol.TMdcTrack.m_err" if "/Event:TDstEvent/m_mdcTrackCol.TMdcTrack.m_err" in F.target_items else (target_items[0] if target_items else None)


def build(fmax, adim):
    si = {"fName": "m_err", "fArrayDim": adim, "fMaxIndex": np.array(fmax, dtype=np.int32), "fTypeName": "double", "fType": 28}
    return F.build_factory("double", si, {}, item)


if item is not None:
    for flat, want in zip(inp["dim_inputs"], inp["dim_model"] or []):
        if flat <= 0 or flat >= 2 ** 31:
            continue
        fac = build([flat, 0, 0, 0, 0], 1); n_factory += 1
        if int(fac.full_dim) != want or int(fac.flat_size) != flat:
            tie.append({"name": f"py_full_dim({flat})", "detail": f"implementation flat_size={fac.flat_size} full_dim={fac.full_dim}, model {want}"})
    for n in range(1, inp["n_factory"] + 1):
        fac = build([tri(n), 0, 0, 0, 0], 1); n_factory += 1
        if int(fac.full_dim) != n:
            mism.append({"key": f"C16:full_dim:flat={tri(n)}", "what": f"build_factory: packed length {tri(n)} = {n}({n}+1)/2 gives full_dim {fac.full_dim}"})
            break
    # every spelling of the double type that uproot-custom's PrimitiveFactory maps to 'd' must be expanded alike
    try:
        from uproot_custom import PrimitiveFactory as _PF
        spellings = sorted(k for k, v in _PF.typenames.items() if v == "d")
    except Exception:
        spellings = ["double", "Double_t"]
    for sp in spellings:
        si = {"fName": "m_err", "fArrayDim": 1, "fMaxIndex": np.array([15, 0, 0, 0, 0], dtype=np.int32), "fTypeName": sp, "fType": 28}
        try:
            fac = F.build_factory(sp, si, {}, item); n_factory += 1
            okf = fac is not None and int(fac.full_dim) == 5 and int(fac.flat_size) == 15
        except Exception as e:
            okf = False
        if not okf:
            mism.append({"key": f"C16:not-expanded:type-name:{sp}", "what": f"a listed packed member whose streamer type name is spelled {sp!r} is not given to the "
                         f"symmetric-matrix factory (it would come back as the flat packed vector)"})
    for fmax, adim, flat in (([3, 5, 0, 0, 0], 2, 15), ([2, 3, 0, 0, 0], 2, 6), ([6, 9, 9, 9, 9], 1, 6), ([1, 1, 1, 0, 0], 3, 1)):
        fac = build(fmax, adim); n_factory += 1
        if int(fac.flat_size) != flat:
            tie.append({"name": f"py_flat_size({fmax},{adim})", "detail": f"implementation {fac.flat_size}, model {flat}"})
    for n in (1, 2, 3, 5, 6, 7):
        fac = build([tri(n), 0, 0, 0, 0], 1)
        for k in (0, 1, 4):
            raw = np.arange(k * n * n, dtype=np.float64)
            try:
                c = ak.to_numpy(ak.Array(fac.make_awkward_content(raw)))
                okc = c.shape == (k, n, n) and all(c[o, i, j] == o * n * n + i * n + j for o in range(k) for i in range(n) for j in range(n))
            except Exception as e:
                okc = False; c = e
            n_factory += 1
            if not okc:
                mism.append({"key": f"C16:reshape:n={n}:objects={k}", "what": f"make_awkward_content on {k} objects of {n}x{n}: element [o][i][j] "
                             f"is not raw[o*n*n+i*n+j] ({getattr(c, 'shape', c)})"})
        try:
            rd = fac.build_cpp_reader()
            raw = uproot_custom.cpp.read_data(np.frombuffer(struct.pack(">%dd" % tri(n), *range(tri(n))), dtype=np.uint8),
                                              np.array([0, 8 * tri(n)], dtype=np.uint32), rd)
            want = [float(idxmaps[n][p]) for p in range(n * n)]
            if list(map(float, raw)) != want:
                mism.append({"key": f"C16:pinned-so:n={n}", "what": f"factory-built reader (pinned .so) on packed 0..{tri(n) - 1}: {list(raw)[:9]} != {want[:9]}"})
        except Exception as e:
            mism.append({"key": f"C16:reader-rejected:n={n}", "what": f"factory-built reader for packed length {tri(n)} raised {type(e).__name__}: {e}"})

# a (packed length, dimension) pair offered through the Python factory reaches the reader unchanged: a dimension too large for the
# packed length is rejected, the attributes are what was offered
if item is not None:
    for flat, dim in ((6, 4), (1, 2), (3, 3), (15, 6), (21, 7), (28, 8), (10, 5), (0, 1)):
        n_factory += 1
        try:
            fac = F("m_err", "d", flat, dim)
            if (int(fac.flat_size), int(fac.full_dim)) != (flat, dim):
                mism.append({"key": f"C16:factory-args:flat={flat}:dim={dim}", "what": f"Bes3SymMatrixArrayFactory(flat_size={flat}, full_dim={dim}) holds "
                             f"flat_size={fac.flat_size}, full_dim={fac.full_dim}"})
            fac.build_cpp_reader()
            mism.append({"key": f"C16:factory-accepts:flat={flat}:dim={dim}", "what": f"the factory built a reader for packed length {flat} and dimension {dim} "
                         f"({dim}({dim}+1)/2 = {tri(dim)} > {flat}): a dimension too large for the packed length must be rejected"})
        except (RuntimeError, ValueError, AssertionError):
            pass
    for flat, dim in ((6, 3), (7, 3), (15, 5), (21, 6), (30, 7)):
        n_factory += 1
        try:
            fac = F("m_err", "d", flat, dim); fac.build_cpp_reader()
            if (int(fac.flat_size), int(fac.full_dim)) != (flat, dim):
                mism.append({"key": f"C16:factory-args:flat={flat}:dim={dim}", "what": f"factory holds flat_size={fac.flat_size}, full_dim={fac.full_dim}"})
        except Exception as e:
            mism.append({"key": f"C16:reader-rejected:flat={flat}:dim={dim}", "what": f"legal pair ({flat}, {dim}) rejected: {type(e).__name__}: {e}"})

print(json.dumps({"members_checked": n_members, "objects": n_objects, "entries_compared": n_entries, "factory_calls": n_factory,
                  "target_items": target_items, "items_seen_in_fixtures": sorted(seen_items), "mismatches": mism[:40], "tie": tie[:20],
                  "samples": samples, "hashes": sorted(hashes)}))
