"""Implementation side of the C08 tie (exhaustive over all 6796 wires / 6240 crystals).
argv: <cases.json> with {"mdc_order": [[l,w]..], "emc_order": [[p,t,f]..], "sample": [...]}
Compares the public functions of the working tree with the model's values (tables / enumeration theorem)."""
import json, sys
import numpy as np, awkward as ak
import pybes3 as p3
import pybes3.detectors.digi_id as d

inp = json.load(open(sys.argv[1]))
gdir = p3.detectors.geometry.mdc._cur_dir
mdc = np.load(gdir / "mdc_geom.npz"); emc = np.load(gdir / "emc_geom.npz")
mis = []; n_eval = 0
def cmp(name, got, want, keys):
    global n_eval
    got = np.asarray(got); want = np.asarray(want); n_eval += int(got.size)
    if got.shape != want.shape:
        mis.append({"what": name, "shape": [list(got.shape), list(want.shape)]}); return
    bad = np.nonzero(got.astype(np.int64) != want.astype(np.int64))[0]
    if bad.size and len(mis) < 40:
        i = int(bad[0]); mis.append({"what": name, "input": [int(k[i]) for k in keys], "got": int(got[i]), "want": int(want[i]), "n_bad": int(bad.size)})

mo = np.array(inp["mdc_order"], dtype=np.int64); eo = np.array(inp["emc_order"], dtype=np.int64)
l, w = mo[:, 0], mo[:, 1]; g = np.arange(len(mo))
cmp("get_mdc_gid(documented order)", p3.get_mdc_gid(l, w), g, [l, w])
cmp("mdc_gid_to_layer", p3.mdc_gid_to_layer(g), mdc["layer"], [g]); cmp("mdc_gid_to_wire", p3.mdc_gid_to_wire(g), mdc["wire"], [g])
cmp("mdc_gid_to_layer(order)", p3.mdc_gid_to_layer(g), l, [g]); cmp("mdc_gid_to_wire(order)", p3.mdc_gid_to_wire(g), w, [g])
cmp("mdc table gid column", p3.get_mdc_wire_position()["gid"], g, [g])
for wt in (0, 1):
    ids = d.get_mdc_digi_id(w, l, np.full(len(l), wt))
    r = p3.parse_mdc_digi_id(ids)
    cmp(f"parse_mdc_digi_id.gid wt={wt}", r["gid"], g, [l, w]); cmp(f"parse_mdc_digi_id.layer wt={wt}", r["layer"], l, [l, w])
    cmp(f"parse_mdc_digi_id.wire wt={wt}", r["wire"], w, [l, w])
    cmp(f"parse_mdc_digi_id.superlayer wt={wt}", r["superlayer"], mdc["superlayer"], [l, w])
    cmp(f"parse_mdc_digi_id.stereo wt={wt}", r["stereo"], mdc["stereo"], [l, w])
    cmp(f"parse_mdc_digi_id.is_stereo wt={wt}", r["is_stereo"], mdc["is_stereo"], [l, w])
    ra = p3.parse_mdc_digi_id(ak.Array(ids))
    cmp(f"parse_mdc_digi_id(ak).gid wt={wt}", ak.to_numpy(ra["gid"]), g, [l, w])
r = p3.parse_mdc_gid(g, with_pos=False)
cmp("parse_mdc_gid.gid", r["gid"], g, [g]); cmp("parse_mdc_gid.layer", r["layer"], l, [g]); cmp("parse_mdc_gid.wire", r["wire"], w, [g])
p, t, f = eo[:, 0], eo[:, 1], eo[:, 2]; ge = np.arange(len(eo))
cmp("get_emc_gid(documented order)", p3.get_emc_gid(p, t, f), ge, [p, t, f])
cmp("emc_gid_to_part", p3.emc_gid_to_part(ge), emc["part"], [ge]); cmp("emc_gid_to_theta", p3.emc_gid_to_theta(ge), emc["theta"], [ge])
cmp("emc_gid_to_phi", p3.emc_gid_to_phi(ge), emc["phi"], [ge])
cmp("emc_gid_to_part(order)", p3.emc_gid_to_part(ge), p, [ge]); cmp("emc_gid_to_theta(order)", p3.emc_gid_to_theta(ge), t, [ge])
cmp("emc_gid_to_phi(order)", p3.emc_gid_to_phi(ge), f, [ge])
cmp("emc table gid column", p3.get_emc_crystal_position()["gid"], ge, [ge])
ids = d.get_emc_digi_id(p, t, f)
r = p3.parse_emc_digi_id(ids)
cmp("parse_emc_digi_id.gid", r["gid"], ge, [p, t, f]); cmp("parse_emc_digi_id.part", r["part"], p, [p, t, f])
cmp("parse_emc_digi_id.theta", r["theta"], t, [p, t, f]); cmp("parse_emc_digi_id.phi", r["phi"], f, [p, t, f])
ra = p3.parse_emc_digi_id(ak.Array(ids)); cmp("parse_emc_digi_id(ak).gid", ak.to_numpy(ra["gid"]), ge, [p, t, f])
r = p3.parse_emc_gid(ge, with_pos=False)
cmp("parse_emc_gid.gid", r["gid"], ge, [ge]); cmp("parse_emc_gid.part", r["part"], p, [ge]); cmp("parse_emc_gid.theta", r["theta"], t, [ge]); cmp("parse_emc_gid.phi", r["phi"], f, [ge])
# every element once, but NOT in numbering order (same length as the table, same first and last element): sorted by (wire, layer) / (phi, theta, part),
# the middle shuffled, reversed - a list of ids is looked up element by element, whatever it looks like as a whole
rs = np.random.RandomState(20260930)
for tag, gg, cols, fns in (("mdc", g, (l, w), (("mdc_gid_to_layer", p3.mdc_gid_to_layer, l), ("mdc_gid_to_wire", p3.mdc_gid_to_wire, w), ("mdc_gid_to_superlayer", p3.mdc_gid_to_superlayer, mdc["superlayer"]))),
                           ("emc", ge, (p, t, f), (("emc_gid_to_part", p3.emc_gid_to_part, p), ("emc_gid_to_theta", p3.emc_gid_to_theta, t), ("emc_gid_to_phi", p3.emc_gid_to_phi, f)))):
    mid = gg[1:-1].copy(); rs.shuffle(mid)
    orders = {"sorted-by-last-key-first": gg[np.lexsort(cols)], "middle-shuffled": np.concatenate([gg[:1], mid, gg[-1:]]), "reversed": gg[::-1].copy(),
              "two-swapped": np.concatenate([gg[:1], gg[2:3], gg[1:2], gg[3:]])}
    for oname, og in orders.items():
        for fname, fn, col in fns:
            for dt in (np.int64, np.uint16):
                cmp(f"{fname}(all {tag} ids, {oname}, {np.dtype(dt).name})", fn(og.astype(dt)), np.asarray(col)[og], [og])
        if tag == "mdc":
            cmp(f"get_mdc_gid(all wires, {oname})", p3.get_mdc_gid(l[og], w[og]), og, [l[og], w[og]])
            r_ = p3.parse_mdc_gid(og, with_pos=False); cmp(f"parse_mdc_gid.layer(all wires, {oname})", r_["layer"], l[og], [og]); cmp(f"parse_mdc_gid.wire(all wires, {oname})", r_["wire"], w[og], [og])
        else:
            cmp(f"get_emc_gid(all crystals, {oname})", p3.get_emc_gid(p[og], t[og], f[og]), og, [p[og], t[og], f[og]])
            r_ = p3.parse_emc_gid(og, with_pos=False); cmp(f"parse_emc_gid.theta(all crystals, {oname})", r_["theta"], t[og], [og]); cmp(f"parse_emc_gid.phi(all crystals, {oname})", r_["phi"], f[og], [og])
# the same array object parsed again after it was re-filled in place (a preallocated read buffer): the gid of the CURRENT content
for pname, pf, ids_all, want_all, keys in (("parse_mdc_digi_id", p3.parse_mdc_digi_id, d.get_mdc_digi_id(w, l, np.zeros(len(l), dtype=np.int64)), g, [l, w]),
                                           ("parse_emc_digi_id", p3.parse_emc_digi_id, d.get_emc_digi_id(p, t, f), ge, [p, t, f])):
    half = len(ids_all) // 2
    buf = np.array(ids_all[:half], dtype=np.uint32); first = pf(buf); first_gid = np.array(first["gid"]).copy()
    buf[:] = np.array(ids_all[half:2 * half], dtype=np.uint32); second = pf(buf)
    cmp(f"{pname}(same array re-filled in place).gid", second["gid"], want_all[half:2 * half], [k[half:2 * half] for k in keys])
    cmp(f"{pname}(result kept across calls).gid", first["gid"], first_gid, [k[:half] for k in keys])
# one identifier at a time, as a plain Python int and as a NumPy scalar (a separate code path from arrays): every wire / crystal
import time as _t
_t0 = _t.time()
ids_m = d.get_mdc_digi_id(w, l, np.zeros(len(l), dtype=np.int64)); ids_e = d.get_emc_digi_id(p, t, f)
for label, conv in (("int", int), ("np.uint32", np.uint32)):
    step = 1 if label == "int" else 7
    gm = {k: [] for k in ("gid", "layer", "wire")}; idx = range(0, len(ids_m), step)
    for i in idx:
        r1 = p3.parse_mdc_digi_id(conv(ids_m[i]))
        for k in gm: gm[k].append(int(r1[k]))
    sel = np.array(list(idx))
    cmp(f"parse_mdc_digi_id({label} scalar).gid", gm["gid"], g[sel], [l[sel], w[sel]]); cmp(f"parse_mdc_digi_id({label} scalar).layer", gm["layer"], l[sel], [l[sel], w[sel]])
    cmp(f"parse_mdc_digi_id({label} scalar).wire", gm["wire"], w[sel], [l[sel], w[sel]])
    ge_ = {k: [] for k in ("gid", "part", "theta", "phi")}; idx = range(0, len(ids_e), step)
    for i in idx:
        r1 = p3.parse_emc_digi_id(conv(ids_e[i]))
        for k in ge_: ge_[k].append(int(r1[k]))
    sel = np.array(list(idx))
    cmp(f"parse_emc_digi_id({label} scalar).gid", ge_["gid"], ge[sel], [p[sel], t[sel], f[sel]])
    for k, col in (("part", p), ("theta", t), ("phi", f)): cmp(f"parse_emc_digi_id({label} scalar).{k}", ge_[k], col[sel], [p[sel], t[sel], f[sel]])
    # the gid accessors themselves with scalars
    cmp(f"get_mdc_gid({label} scalars)", [int(p3.get_mdc_gid(conv(a), conv(b))) for a, b in zip(l[::step], w[::step])], g[::step], [l[::step], w[::step]])
    cmp(f"get_emc_gid({label} scalars)", [int(p3.get_emc_gid(conv(a), conv(b), conv(c))) for a, b, c in zip(p[::step], t[::step], f[::step])], ge[::step], [p[::step], t[::step], f[::step]])
scalar_s = round(_t.time() - _t0, 1)
# the documented parameter names: a call that names its inputs may be refused (numba ufuncs take no keyword inputs), but whenever it
# returns, it is the value for the NAMED wire / crystal, whatever the order in which the names are written
import inspect, itertools
refused = 0
for fname, names, cols, want in (("get_mdc_gid", ("layer", "wire"), (l, w), g), ("get_emc_gid", ("part", "theta", "phi"), (p, t, f), ge)):
    fn = getattr(p3, fname)
    for npos in range(len(names)):
        for perm in itertools.permutations(range(npos, len(names))):
            kw = {names[k]: cols[k] for k in perm}
            try:
                got = fn(*cols[:npos], **kw)
            except TypeError:
                refused += 1; continue
            cmp(f"{fname}({', '.join(names[:npos])}{', ' if npos else ''}{', '.join(names[k] + '=' for k in perm)})", got, want, list(cols))
for fname, kwname, col, want in (("mdc_gid_to_layer", "gid", g, l), ("mdc_gid_to_wire", "gid", g, w), ("emc_gid_to_part", "gid", ge, p), ("emc_gid_to_theta", "gid", ge, t), ("emc_gid_to_phi", "gid", ge, f)):
    try:
        got = getattr(p3, fname)(**{kwname: col})
    except TypeError:
        refused += 1; continue
    cmp(f"{fname}({kwname}=)", got, want, [col])
# sampled kernel evaluations for comparison with the model evaluated inside Coq
out = []
for c in inp["sample"]:
    fn = getattr(p3, c["f"])
    out.append(int(fn(*[np.int64(a) for a in c["args"]])))
print(json.dumps({"evaluations": n_eval, "mismatches": mis, "sample": out, "keyword_calls_refused": refused, "scalar_loop_s": scalar_s}))
