"""Implementation side of the C09 tie.  argv: <seed> <tier>.  Prints one JSON document.
 (1) every accessor on every element vs the .npz column, bit patterns (lookup_is_row);
 (2) interpolation vs exact rational evaluation of the model formula, a few ulps (float rounding is outside the model);
 (3) parse_mdc_gid mid point = mean; (4) direct statements: stereo sign vs exact twist, uniformity, superlayers, centroids;
 (5) histories: retrieve table (np/ak/pd), modify in place, lookups unchanged."""
import json, sys, random
from fractions import Fraction
import numpy as np, awkward as ak
import pybes3 as p3
import pybes3.detectors.geometry as geom

seed, tier = int(sys.argv[1]), sys.argv[2]
rng = random.Random(seed); nrng = np.random.default_rng(seed)
gdir = geom.mdc._cur_dir
mdc = dict(np.load(gdir / "mdc_geom.npz")); emc = dict(np.load(gdir / "emc_geom.npz"))
mis = []; n_eval = 0; findings = []
def bits(a):
    a = np.ascontiguousarray(a)
    return a.view(np.uint64) if a.dtype == np.float64 else a.astype(np.int64)
def cmp(name, got, want, keys=None):
    global n_eval
    got = np.asarray(got); want = np.asarray(want); n_eval += int(got.size)
    if got.shape != want.shape:
        mis.append({"what": name, "shape": [list(got.shape), list(want.shape)]}); return
    bad = np.nonzero(bits(got).ravel() != bits(want).ravel())[0]
    if bad.size and len(mis) < 40:
        i = int(bad[0]); mis.append({"what": name, "index": i, "got": repr(got.ravel()[i]), "want": repr(want.ravel()[i]), "n_bad": int(bad.size)})

g = np.arange(6796); ge = np.arange(6240)
for col in ("layer", "wire", "superlayer", "stereo", "is_stereo", "east_x", "east_y", "east_z", "west_x", "west_y", "west_z"):
    cmp(f"mdc_gid_to_{col}", getattr(p3, f"mdc_gid_to_{col}")(g), mdc[col])
    cmp(f"mdc_gid_to_{col}(ak)", ak.to_numpy(getattr(p3, f"mdc_gid_to_{col}")(ak.Array(g))), mdc[col])
for col in ("part", "theta", "phi", "center_x", "center_y", "center_z", "front_center_x", "front_center_y", "front_center_z"):
    cmp(f"emc_gid_to_{col}", getattr(p3, f"emc_gid_to_{col}")(ge), emc[col])
for ax in "xyz":
    for k in range(8):
        cmp(f"emc_gid_to_point_{ax}[{k}]", getattr(p3, f"emc_gid_to_point_{ax}")(ge, k), emc[f"points_{ax}"][:, k])
    gg, kk = np.meshgrid(ge, np.arange(8), indexing="ij")
    cmp(f"emc_gid_to_point_{ax}[grid]", getattr(p3, f"emc_gid_to_point_{ax}")(gg.ravel(), kk.ravel()), emc[f"points_{ax}"].ravel())
# inputs written by their documented names: the call may be refused (a numba ufunc takes no keyword inputs), but a value that is
# returned is the value for the NAMED wire / crystal / corner / z, whatever the order of the names
kw_refused = 0
def kwcall(name, fn, want, **kw):
    global kw_refused
    try: got = fn(**kw)
    except TypeError: kw_refused += 1; return
    cmp(name, got, want)
zz = np.linspace(-110.0, 110.0, len(g)); kk8 = (ge % 8)
pos_zx = p3.mdc_gid_z_to_x(g, zz); pos_zy = p3.mdc_gid_z_to_y(g, zz)
kwcall("mdc_gid_z_to_x(gid=, z=)", p3.mdc_gid_z_to_x, pos_zx, gid=g, z=zz); kwcall("mdc_gid_z_to_x(z=, gid=)", p3.mdc_gid_z_to_x, pos_zx, z=zz, gid=g)
kwcall("mdc_gid_z_to_y(z=, gid=)", p3.mdc_gid_z_to_y, pos_zy, z=zz, gid=g)
for ax in "xyz":
    fnp = getattr(p3, f"emc_gid_to_point_{ax}"); wantp = emc[f"points_{ax}"][ge, kk8]
    kwcall(f"emc_gid_to_point_{ax}(gid=, point=)", fnp, wantp, gid=ge, point=kk8); kwcall(f"emc_gid_to_point_{ax}(point=, gid=)", fnp, wantp, point=kk8, gid=ge)
for col in ("west_x", "east_y", "stereo"): kwcall(f"mdc_gid_to_{col}(gid=)", getattr(p3, f"mdc_gid_to_{col}"), mdc[col], gid=g)
for col in ("center_x", "front_center_z"): kwcall(f"emc_gid_to_{col}(gid=)", getattr(p3, f"emc_gid_to_{col}"), emc[col], gid=ge)
tab = p3.get_mdc_wire_position()
for col in mdc: cmp(f"get_mdc_wire_position[{col}]", tab[col], mdc[col])
tab = p3.get_emc_crystal_position()
for col in ("gid", "center_x", "center_y", "center_z", "front_center_x", "front_center_y", "front_center_z"):
    cmp(f"get_emc_crystal_position[{col}]", tab[col], emc[col])
for ax in "xyz":
    for k in range(8): cmp(f"get_emc_crystal_position[points_{ax}_{k}]", tab[f"points_{ax}_{k}"], emc[f"points_{ax}"][:, k])
# the same tables in every output library: same column names in the same order, every column bit-equal to the published table
_libs = ["ak"]
try:
    import pandas  # noqa
    _libs.append("pd")
except ImportError:
    pass
for lib in _libs:
    for which, ref_tab, fn in (("mdc", p3.get_mdc_wire_position(), p3.get_mdc_wire_position), ("emc", p3.get_emc_crystal_position(), p3.get_emc_crystal_position)):
        t = fn(lib)
        names = list(t.fields) if lib == "ak" else list(t.columns)
        if names != list(ref_tab.keys()):
            mis.append({"what": f"get_{which}_table({lib}) column names/order", "got": names[:40], "want": list(ref_tab.keys())[:40]})
        for col in ref_tab:
            if col in names:
                cmp(f"get_{which}_table({lib})[{col}]", ak.to_numpy(t[col]) if lib == "ak" else t[col].to_numpy(), ref_tab[col])
r = p3.parse_mdc_gid(g, with_pos=True)
cmp("parse_mdc_gid.mid_x", r["mid_x"], (mdc["west_x"] + mdc["east_x"]) / 2); cmp("parse_mdc_gid.mid_y", r["mid_y"], (mdc["west_y"] + mdc["east_y"]) / 2)
for col in ("west_x", "west_y", "west_z", "east_x", "east_y", "east_z", "stereo", "is_stereo", "superlayer", "layer", "wire"):
    cmp(f"parse_mdc_gid.{col}", r[col], mdc[col])
r = p3.parse_emc_gid(ge, with_pos=True)
for col in ("center_x", "center_y", "center_z", "front_center_x", "front_center_y", "front_center_z", "part", "theta", "phi"):
    cmp(f"parse_emc_gid.{col}", r[col], emc[col])
# the digi-level parsers with positions (round 8: one end-point column of parse_mdc_digi(with_pos=True) filled from the other end):
# every wire / crystal once, through its digi identifier and through a digi record; each position column is the table's row
import pybes3.detectors as _det
_mid = _det.get_mdc_digi_id(np.asarray(mdc["wire"]), np.asarray(mdc["layer"]), np.asarray(mdc["is_stereo"]).astype(int)); _eid = _det.get_emc_digi_id(np.asarray(emc["part"]), np.asarray(emc["theta"]), np.asarray(emc["phi"]))
_zero = np.zeros(len(g), dtype=np.uint32); _zeroe = np.zeros(len(ge), dtype=np.uint32)
_mdigi = ak.zip({"m_intId": ak.Array(np.asarray(_mid, dtype=np.uint32)), "m_timeChannel": _zero, "m_chargeChannel": _zero, "m_trackIndex": _zero, "m_overflow": _zero})
_edigi = ak.zip({"m_intId": ak.Array(np.asarray(_eid, dtype=np.uint32)), "m_timeChannel": _zeroe, "m_chargeChannel": _zeroe, "m_trackIndex": _zeroe, "m_measure": _zeroe})
for _pn, _r in (("parse_mdc_digi_id", _det.parse_mdc_digi_id(_mid, with_pos=True)), ("parse_mdc_digi", _det.parse_mdc_digi(_mdigi, with_pos=True))):
    cmp(f"{_pn}.gid", ak.to_numpy(_r["gid"]), g)
    cmp(f"{_pn}.mid_x", ak.to_numpy(_r["mid_x"]), (mdc["west_x"] + mdc["east_x"]) / 2); cmp(f"{_pn}.mid_y", ak.to_numpy(_r["mid_y"]), (mdc["west_y"] + mdc["east_y"]) / 2)
    for col in ("west_x", "west_y", "west_z", "east_x", "east_y", "east_z", "stereo", "is_stereo", "superlayer", "layer", "wire"):
        cmp(f"{_pn}.{col}", ak.to_numpy(_r[col]), mdc[col])
for _pn, _r in (("parse_emc_digi_id", _det.parse_emc_digi_id(_eid, with_pos=True)), ("parse_emc_digi", _det.parse_emc_digi(_edigi, with_pos=True))):
    cmp(f"{_pn}.gid", ak.to_numpy(_r["gid"]), ge)
    for col in ("center_x", "center_y", "center_z", "front_center_x", "front_center_y", "front_center_z", "theta", "phi"):
        cmp(f"{_pn}.{col}", ak.to_numpy(_r[col]), emc[col])
cmp("mdc_layer_to_superlayer", p3.mdc_layer_to_superlayer(mdc["layer"]), mdc["superlayer"])
cmp("mdc_layer_to_is_stereo", p3.mdc_layer_to_is_stereo(mdc["layer"]), mdc["is_stereo"])

# (2) interpolation vs exact rational evaluation of the regenerated formula
interp_bad = []
nz = 40 if tier == "quick" else 400
gids = [0, 6795] + [rng.randrange(6796) for _ in range(nz)]
for gi in gids:
    wx, wy, wz, ex, ey, ez = (Fraction(float(mdc[c][gi])) for c in ("west_x", "west_y", "west_z", "east_x", "east_y", "east_z"))
    # "for every z": also far outside the chamber, where an ill-conditioned way of writing the line shows (axial wires stay EXACTLY put)
    for z in [float(mdc["west_z"][gi]), float(mdc["east_z"][gi]), 0.0, 200.0, -200.0, rng.uniform(-150, 150), rng.uniform(-1e4, 1e4),
              1e6, -1e9, 1e12, -1e15, rng.choice([-1, 1]) * 10.0 ** rng.uniform(5, 17)]:
        zq = Fraction(z)
        for ax, w, e in (("x", wx, ex), ("y", wy, ey)):
            exact = w + (e - w) / (ez - wz) * (zq - wz)
            got = float(getattr(p3, f"mdc_gid_z_to_{ax}")(gi, z))
            n_eval += 1
            tol = 1e-12 * (1 + abs(float(exact)) + abs(z) * abs(float((e - w) / (ez - wz))))
            if abs(got - float(exact)) > tol and len(interp_bad) < 10:
                interp_bad.append({"gid": gi, "z": z, "axis": ax, "got": got, "exact": float(exact)})

# (4) direct statements of the derived-quantity clauses on the implementation (failing-input search)
def I(a): return [int(round(float(v) * 2**20)) for v in a]  # only used for reporting
ex, ey, wx, wy = (p3.mdc_gid_to_east_x(g), p3.mdc_gid_to_east_y(g), p3.mdc_gid_to_west_x(g), p3.mdc_gid_to_west_y(g))
twist = np.array([(1 if c > 0 else -1 if c < 0 else 0) for c in
                  (Fraction(float(a)) * Fraction(float(d)) - Fraction(float(b)) * Fraction(float(c2)) for a, b, c2, d in zip(ex, ey, wx, wy))])
st = np.asarray(p3.mdc_gid_to_stereo(g)).astype(int); n_eval += 6796
bad = np.nonzero(st != twist)[0]
if bad.size:
    findings.append({"clause": "stereo_sign_is_twist", "n": int(bad.size), "gids": bad.tolist(),
                     "first": {"gid": int(bad[0]), "stereo": int(st[bad[0]]), "twist_sign": int(twist[bad[0]])}})
lay = np.asarray(p3.mdc_gid_to_layer(g)).astype(int)
nonuni = sorted({int(l) for l in range(43) if len(set(st[lay == l].tolist())) > 1})
if nonuni: findings.append({"clause": "stereo_uniform_in_layer", "layers": nonuni})
iss = np.asarray(p3.mdc_gid_to_is_stereo(g)).astype(bool)
bad = np.nonzero(iss != (st != 0))[0]
if bad.size: findings.append({"clause": "is_stereo_flag", "gids": bad[:20].tolist()})
bad = np.nonzero(np.asarray(p3.mdc_layer_to_superlayer(lay)) != np.asarray(p3.mdc_gid_to_superlayer(g)))[0]
if bad.size: findings.append({"clause": "superlayer_by_layer_vs_wire", "gids": bad[:20].tolist()})
bar = np.nonzero(np.asarray(p3.emc_gid_to_part(ge)) == 1)[0]
for ax in "xyz":
    P = np.stack([getattr(p3, f"emc_gid_to_point_{ax}")(bar, k) for k in range(8)], axis=1)
    c = getattr(p3, f"emc_gid_to_center_{ax}")(bar); f = getattr(p3, f"emc_gid_to_front_center_{ax}")(bar); n_eval += 2 * len(bar)
    b1 = np.nonzero(np.abs(c - P.mean(axis=1)) > 2.0**-40)[0]; b2 = np.nonzero(np.abs(f - P[:, :4].mean(axis=1)) > 2.0**-40)[0]
    if b1.size: findings.append({"clause": f"barrel_center_{ax}", "gids": bar[b1][:20].tolist()})
    if b2.size: findings.append({"clause": f"barrel_front_center_{ax}", "gids": bar[b2][:20].tolist()})

# (5) histories: retrieval, in-place modification by the caller, subsequent lookups
hist_bad = []; n_hist = 0
# numba freezes the module-level tables into a kernel when it is compiled (per input dtype), so an aliased table shows up
# (a) in later table retrievals and (b) in lookups through a dtype specialisation compiled AFTER the modification.
FRESH_DTYPES = [np.int16, np.uint16, np.int32, np.uint32, np.uint64]
def snapshot(dt=np.int64):
    gm = g.astype(dt); gem = ge.astype(dt)
    s = {c: np.array(getattr(p3, f"mdc_gid_to_{c}")(gm)) for c in ("west_x", "east_y", "layer", "stereo", "wire", "superlayer", "is_stereo", "east_z")} | \
        {c: np.array(getattr(p3, f"emc_gid_to_{c}")(gem)) for c in ("center_x", "front_center_z", "theta", "part", "phi")} | \
        {f"p{ax}{k}": np.array(getattr(p3, f"emc_gid_to_point_{ax}")(gem, dt(k))) for ax in "xyz" for k in (0, 3, 7)} | \
        {"zx": np.array(p3.mdc_gid_z_to_x(gm, 12.5))}
    tm = p3.get_mdc_wire_position(); te = p3.get_emc_crystal_position()
    s |= {f"tab.mdc.{c}": np.array(tm[c]) for c in tm} | {f"tab.emc.{c}": np.array(te[c]) for c in te}
    # ... and the tables as handed out in the other libraries (every retrieval is a fresh private copy in every library)
    for lib_ in SNAP_LIBS:
        tm2 = p3.get_mdc_wire_position(lib_); te2 = p3.get_emc_crystal_position(lib_)
        for nm_, t2 in (("mdc", tm2), ("emc", te2)):
            for c in (t2.fields if lib_ == "ak" else list(t2.columns)):
                s[f"tab.{nm_}.{lib_}.{c}"] = np.array(ak.to_numpy(t2[c]) if lib_ == "ak" else t2[c].to_numpy())
    return s
SNAP_LIBS = ["ak"]
try:
    import pandas as _pd  # noqa
    SNAP_LIBS.append("pd")
except ImportError:
    pass
ref = snapshot()
libs = ["np", "ak"]
try:
    import pandas  # noqa
    libs.append("pd")
except ImportError:
    pass
def mutate(arr, kind):
    try:
        if arr.dtype == bool: arr[:] = ~arr
        elif kind == "iadd": arr += 1
        elif kind == "slice": arr[:] = 7
        elif kind == "item": arr[0] = 3
        else: arr.fill(9)
        return kind
    except ValueError:
        return "readonly"
# systematic pass first: every column of every table in every library is modified in place, then everything is looked up again
for which in ("mdc", "emc"):
    for li, lib in enumerate(libs):
        t = p3.get_mdc_wire_position(lib) if which == "mdc" else p3.get_emc_crystal_position(lib)
        cols = list(t.keys()) if lib == "np" else (t.fields if lib == "ak" else list(t.columns))
        ops = []
        for col in cols:
            arr = t[col] if lib == "np" else (ak.to_numpy(t[col]) if lib == "ak" else t[col].to_numpy())
            ops.append([which, lib, col, mutate(arr, "iadd")])
        # ... and columns REPLACED on the handed-out object (t["c"] = ...), the ordinary way of editing an Awkward array / DataFrame / dict
        for col in cols[:3]:
            try:
                if lib == "np": t[col] = np.zeros_like(t[col])
                elif lib == "ak": t[col] = t[col] * 0 + 5
                else: t[col] = 5
                ops.append([which, lib, col, "setfield"])
            except Exception:
                ops.append([which, lib, col, "setfield-refused"])
        now = snapshot(FRESH_DTYPES[(li + (3 if which == "emc" else 0)) % len(FRESH_DTYPES)]); n_hist += 1
        for k in ref:
            if not np.array_equal(bits(ref[k]), bits(now[k])):
                hist_bad.append({"history": [o for o in ops if o[2] in k or k.startswith("tab.") is False][:6] or ops[:3], "lookup": k, "systematic": True}); break
        if hist_bad: break
    if hist_bad: break
nh = 0 if hist_bad else (12 if tier == "quick" else 80)
for h in range(nh):
    ops = []
    for _ in range(rng.randrange(1, 5)):
        which = rng.choice(["mdc", "emc"]); lib = rng.choice(libs)
        t = p3.get_mdc_wire_position(lib) if which == "mdc" else p3.get_emc_crystal_position(lib)
        cols = list(t.keys()) if lib == "np" else (t.fields if lib == "ak" else list(t.columns))
        for col in rng.sample(cols, min(len(cols), rng.randrange(1, 6))):
            kind = rng.choice(["iadd", "slice", "item", "fill"])
            arr = t[col] if lib == "np" else (ak.to_numpy(t[col]) if lib == "ak" else t[col].to_numpy())
            try:
                if arr.dtype == bool:
                    arr[:] = ~arr
                elif kind == "iadd": arr += 1
                elif kind == "slice": arr[:] = 7
                elif kind == "item": arr[rng.randrange(len(arr))] = 3
                else: arr.fill(9)
            except ValueError:
                kind = "readonly"
            ops.append([which, lib, col, kind])
    now = snapshot(FRESH_DTYPES[h % len(FRESH_DTYPES)]); n_hist += 1
    for k in ref:
        if not np.array_equal(bits(ref[k]), bits(now[k])):
            hist_bad.append({"history": ops, "lookup": k}); break
    if hist_bad: break
print(json.dumps({"evaluations": n_eval, "mismatches": mis, "interp_bad": interp_bad, "findings": findings,
                  "histories": n_hist, "hist_bad": hist_bad, "libs": libs}))
