"""C09 / C14: one geometry function as the FIRST geometry call of a fresh interpreter with an empty numba cache directory
(kernels freeze the module-level arrays they see when they are compiled; tables are loaded lazily).
argv: <function name> ...   prints {"results": {name: null | "what differs"}}; expectations come from the .npz tables only."""
import json, os, sys
import numpy as np
import pybes3 as p3

gd = os.path.join(os.path.dirname(p3.__file__), "detectors", "geometry")
mdc = np.load(os.path.join(gd, "mdc_geom.npz")); emc = np.load(os.path.join(gd, "emc_geom.npz"))
g = np.array([0, 39, 40, 1000, 3333, 6795]); ge = np.array([0, 95, 96, 479, 480, 3000, 5759, 5760, 6239])
first_of_layer = np.array([int(np.nonzero(mdc["layer"] == l)[0][0]) for l in range(43)])
layers = np.arange(43)


def spec(name):
    if name.startswith("mdc_gid_to_"):
        return (g,), mdc[name[len("mdc_gid_to_"):]][g]
    if name.startswith("emc_gid_to_point_"):
        k = np.arange(len(ge)) % 8
        return (ge, k), emc["points_" + name[-1]][ge, k]
    if name.startswith("emc_gid_to_"):
        return (ge,), emc[name[len("emc_gid_to_"):]][ge]
    if name == "mdc_layer_to_is_stereo":
        return (layers,), mdc["is_stereo"][first_of_layer]
    if name == "mdc_layer_to_superlayer":
        return (layers,), mdc["superlayer"][first_of_layer]
    if name == "get_mdc_gid":
        return (mdc["layer"][g].astype(np.int64), mdc["wire"][g].astype(np.int64)), g
    if name == "get_emc_gid":
        return (emc["part"][ge].astype(np.int64), emc["theta"][ge].astype(np.int64), emc["phi"][ge].astype(np.int64)), ge
    if name in ("mdc_gid_z_to_x", "mdc_gid_z_to_y"):
        return (g, mdc["east_z"][g]), mdc["east_" + name[-1]][g]
    return None


out = {}
name = sys.argv[1]
sp = spec(name)
if sp is None:
    out[name] = "no expectation"
else:
    args, want = sp
    try:
        got = np.asarray(getattr(p3, name)(*args))
        if want.dtype.kind == "f":
            ok = got.shape == want.shape and bool(np.all(np.abs(got - want) <= 1e-9 * (1 + np.abs(want))))
        else:
            ok = got.shape == want.shape and bool(np.all(got.astype(np.int64) == want.astype(np.int64)))
        out[name] = None if ok else f"first call of the interpreter (empty numba cache): {got.tolist()[:8]} - the table says {want.tolist()[:8]}"
        # ... and once more after another function has loaded everything
        _ = p3.mdc_gid_to_layer(g); _ = p3.emc_gid_to_part(ge)
        got2 = np.asarray(getattr(p3, name)(*args))
        if out[name] is None and not np.array_equal(got2, got):
            out[name] = "second call differs from the first"
    except Exception as e:  # noqa: BLE001
        out[name] = f"raises {type(e).__name__}: {str(e)[:160]}"
print(json.dumps({"results": out}))
