"""Implementation side of the C17 tie (numba cache invalidation).

  replay <cases.json> <src_dir>   replay op sequences on a scratch COPY of the working tree's pybes3/__init__.py and
                                  pybes3/_cache_numba.py (verbatim source text; stub sub-packages), synthetic cache
                                  files, mtimes by os.utime; prints per-step observations + direct property checks
  e2e <src_dir> <level>           end-to-end with real numba in fresh interpreters on a scratch copy of the package

Everything lives under a fresh directory in /tmp which is removed afterwards.  Prints one JSON document.

Op encoding (shared with tools/props/c17.py and coq/Model/Cache.v):
  ["U", t, dt]  UpdateTable      ["D", t]  DropTable        ["F", t, fn, dt]  FirstUse
  ["I", env]    Import           ["C", env] ForcedClear     ["A", t, force, env, form]  direct cache_auto_clear
  env = {"k": null|int (interrupt after k removals), "denied": [fid..], "vanished": [fid..], "msg": 0|1}
File ids: fid = (fn*3 + kind)*2 + t with kind 0 table / 1 nbi / 2 nbc, t 0 mdc / 1 emc.
"""
import contextlib, glob as globmod, importlib, importlib.util, io, json, os, shutil, subprocess, sys, tempfile, types
from pathlib import Path

BASE = int(os.environ.get("C17_BASE", 1_600_000_000))
TICK_NS = int(os.environ.get("C17_TICK_NS", 250_000_000))   # one model clock tick = a quarter of a second: successive writes usually fall into the SAME second
# (tools/props/c17.py repeats part of the replay with ten-minute ticks around the end of daylight saving time in a zone that has it)
TN = ["mdc", "emc"]
DISTRACTORS = ["mdc.cpython-312.pyc", "emc.cpython-312.pyc", "mdcx.k1-101.py312.nbi", "helix.k1-101.py312.1.nbc",
               "mdc.k1-101.py312.nbx", "xemc.k1-101.py312.nbi"]

STUB = ('import sys\n_h = sys.modules.get("_c17_harness")\n'
        'if _h is not None:\n    _h.submodule_imported(__name__)\n'
        'def __getattr__(name):\n    if name.startswith("__"):\n        raise AttributeError(name)\n    return None\n')


def strip_editable_finder():
    """the editable-install redirector pins `pybes3` to the installed checkout regardless of sys.path"""
    sys.meta_path[:] = [f for f in sys.meta_path if type(f).__name__ != "ScikitBuildRedirectingFinder"]


def fid(t, kind, fn):
    return (fn * 3 + kind) * 2 + t


def name_of(i):
    t, r = i % 2, i // 2
    kind, fn = r % 3, r // 3
    if kind == 0:
        return f"{TN[t]}_geom.npz"
    return f"{TN[t]}.k{fn}-{100 + fn}.py312." + ("nbi" if kind == 1 else "1.nbc")


class Scratch:
    """scratch copy of the package skeleton + simulated numba/process state"""

    def __init__(self, root: Path, src: Path):
        self.root = root
        self.pkg = root / "pybes3"
        self.geom = self.pkg / "detectors" / "geometry"
        self.pyc = self.geom / "__pycache__"
        self.pyc.mkdir(parents=True)
        for f in ("__init__.py", "_cache_numba.py"):
            shutil.copyfile(src / f, self.pkg / f)          # verbatim working-tree source text
        (self.pkg / "_version.py").write_text('version = __version__ = "0+c17"\n')
        for sub in ("besio", "detectors", "tracks"):
            (self.pkg / sub).mkdir(exist_ok=True)
            (self.pkg / sub / "__init__.py").write_text(STUB)
        self.names = {}
        self.reset()

    # ------------------------------------------------------------ file helpers
    def path(self, i):
        kind = (i // 2) % 3
        return (self.geom if kind == 0 else self.pyc) / name_of(i)

    def put(self, i, mtime, content):
        p = self.path(i)
        p.write_text(str(content))
        ns = BASE * 1_000_000_000 + mtime * TICK_NS
        os.utime(p, ns=(ns, ns))
        self.names[p.name] = i

    def listing(self):
        """[(fid, mtime, content)] of all model-visible files, sorted"""
        res = []
        for d in (self.geom, self.pyc):
            for p in d.iterdir():
                if p.is_file() and p.name in self.names:
                    res.append([self.names[p.name], (os.stat(p).st_mtime_ns - BASE * 1_000_000_000) // TICK_NS, int(p.read_text())])
        return sorted(res)

    def distractors_ok(self):
        return all((self.pyc / d).exists() for d in DISTRACTORS)

    def reset(self):
        for d in (self.geom, self.pyc):
            for p in d.iterdir():
                if p.is_file():
                    p.unlink()
        for d in DISTRACTORS:
            (self.pyc / d).write_text("x")
            os.utime(self.pyc / d, (BASE - 100, BASE - 100))      # older than everything: must never matter
        self.clock = 1
        self.ver = [1, 1]
        self.put(fid(0, 0, 0), 1, 1)
        self.put(fid(1, 0, 0), 1, 1)
        self.alive = False
        self.loaded = [None, None]
        self.comp = {}
        self.dirty_built = set()          # cache files compiled by a process from a table it loaded BEFORE the file was re-written

    # ------------------------------------------------------------ running the real code
    def purge(self):
        for m in [m for m in sys.modules if m == "pybes3" or m.startswith("pybes3.")]:
            del sys.modules[m]

    def load_cache_module(self):
        spec = importlib.util.spec_from_file_location("_c17_cache_numba", self.pkg / "_cache_numba.py")
        mod = importlib.util.module_from_spec(spec)
        spec.loader.exec_module(mod)
        return mod

    def run_real(self, kind, env, t=None, force=None, form=0):
        """execute Import / ForcedClear / AutoClear on the real source; returns observation dict"""
        budget = [env.get("k")]
        denied = {str(self.path(i)) for i in env.get("denied", [])}
        vanished = {str(self.path(i)) for i in env.get("vanished", [])}
        real_remove, real_glob = os.remove, globmod.glob
        globs, calls = [], []

        def fake_remove(p, *a, **kw):
            p = os.fspath(p)
            calls.append(p)
            if p in vanished:
                real_remove(p)
                raise FileNotFoundError(p)
            if p in denied:
                raise PermissionError(p)
            if budget[0] is not None:
                if budget[0] == 0:
                    raise KeyboardInterrupt()
                budget[0] -= 1
            return real_remove(p)

        def rec_glob(pat, *a, **kw):
            r = real_glob(pat, *a, **kw)
            globs.append([os.fspath(pat), list(r)])
            return r

        before = {x[0] for x in self.listing()}
        harness = sys.modules["_c17_harness"]
        harness.snapshot = None
        out = io.StringIO()
        err, ret, exc_text = 0, None, ""
        old_msg = os.environ.get("PYBES3_NUMBA_CACHE_MSG")
        if env.get("msg"):
            os.environ["PYBES3_NUMBA_CACHE_MSG"] = "1"
        else:
            os.environ.pop("PYBES3_NUMBA_CACHE_MSG", None)
        os.remove, globmod.glob = fake_remove, rec_glob
        try:
            with contextlib.redirect_stdout(out):
                if kind == "I":
                    self.purge()
                    importlib.import_module("pybes3")
                else:
                    mod = self.load_cache_module()
                    if kind == "C":
                        mod.clear_numba_cache()
                    else:
                        pair = [(s, c) for s, c in mod.src_cache_list if os.path.basename(str(s)) == f"{TN[t]}_geom.npz"]
                        if not pair:
                            err = 9                                   # the working tree has no pair for this table
                        else:
                            s, c = pair[0]
                            cl = list(c) if isinstance(c, (list, tuple)) else [c]
                            c1 = c if isinstance(c, (list, tuple)) else None
                            args = [(s, c), (str(s), [str(x) for x in cl] if c1 is not None else str(c)), ([s], cl),
                                    ([str(s)], [str(x) for x in cl])][form % 4]
                            ret = mod.cache_auto_clear(args[0], args[1], silent=not env.get("msg"), force=bool(force))
        except ValueError as e:
            err, exc_text = 1, str(e)
        except ImportError as e:
            err, exc_text = 2, str(e)
        except KeyboardInterrupt:
            err = 3
        finally:
            os.remove, globmod.glob = real_remove, real_glob
            if old_msg is None:
                os.environ.pop("PYBES3_NUMBA_CACHE_MSG", None)
            else:
                os.environ["PYBES3_NUMBA_CACHE_MSG"] = old_msg
            self.purge()
        after = {x[0] for x in self.listing()}
        gone = before - after
        # what the code itself reported
        printed = out.getvalue()
        reported = None
        if ret is not None:
            reported = [self.names.get(os.path.basename(p), -1) for p in ret]
        elif env.get("msg") and err == 0:
            reported = []
            for line in printed.splitlines():
                line = line.strip()
                if line.startswith("Removed cache files:"):
                    line = line[len("Removed cache files:"):].strip()
                elif line.startswith("- "):
                    line = line[2:].strip()
                else:
                    continue
                reported.append(self.names.get(os.path.basename(line), -1))
        # successful removals in call order (vanished ones are gone but never reported as removed)
        rm_order = [self.names.get(os.path.basename(p), -1) for p in calls
                    if p not in vanished and self.names.get(os.path.basename(p), -1) in gone]
        order = []
        for pat, res in globs:
            for p in res:
                i = self.names.get(os.path.basename(p))
                if i is not None and (i // 2) % 3 != 0:
                    order.append(i)
        obs = {"err": err, "removed": rm_order, "reported": reported, "gone": sorted(gone), "order": order,
               "printed_when_silent": bool(printed) and not env.get("msg"),
               "denied_in_msg": sorted(i for i in env.get("denied", []) if name_of(i) in exc_text) if err == 2 else None,
               "globbed_unrelated": sorted({os.path.basename(p) for _, res in globs for p in res
                                            if os.path.basename(p) not in self.names}),
               "submodule_snapshot": harness.snapshot}
        return obs

    # ------------------------------------------------------------ one op
    def step(self, op):
        k = op[0]
        o = {"err": 0, "removed": [], "value": None}
        if k == "U":
            _, t, dt = op
            self.clock += dt
            self.ver[t] += 1
            self.put(fid(t, 0, 0), self.clock, self.ver[t])
        elif k == "D":
            p = self.path(fid(op[1], 0, 0))
            if p.exists():
                p.unlink()
        elif k == "F":
            _, t, fn, dt = op
            if self.alive:
                if (t, fn) in self.comp:
                    o["value"] = self.comp[(t, fn)]
                else:
                    if self.loaded[t] is None:
                        self.loaded[t] = self.ver[t]                  # _ensure_loaded(): np.load of the current file
                    nbi, nbc = self.path(fid(t, 1, fn)), self.path(fid(t, 2, fn))
                    if nbi.exists() and nbc.exists():                 # numba: index + data present -> load
                        v = int(nbc.read_text())
                    else:                                             # compile from the in-memory table, save index + data
                        v = self.loaded[t]
                        self.clock += dt
                        self.put(fid(t, 2, fn), self.clock, v)
                        self.put(fid(t, 1, fn), self.clock, v)
                        for i in (fid(t, 1, fn), fid(t, 2, fn)):
                            (self.dirty_built.add if v != self.ver[t] else self.dirty_built.discard)(i)
                    self.comp[(t, fn)] = v
                    o["value"] = v
        elif k == "I":
            self.alive, self.loaded, self.comp = False, [None, None], {}
            o.update(self.run_real("I", op[1]))
            self.alive = o["err"] == 0
        elif k == "C":
            o.update(self.run_real("C", op[1]))
        elif k == "A":
            _, t, force, env, form = op
            o.update(self.run_real("A", env, t=t, force=force, form=form))
        o["files"] = self.listing()
        o["distractors_ok"] = self.distractors_ok()
        return o

    # ------------------------------------------------------------ direct statement of the property on the real code
    def stale(self):
        return [f for f in self.listing() if (f[0] // 2) % 3 != 0 and f[2] < self.ver[f[0] % 2]]

    def run_case(self, ops, check_props):
        """returns (steps, failures); failures = [(kind, step index, detail)]"""
        self.reset()
        steps, fails = [], []
        prev_crash = False
        for idx, op in enumerate(ops):
            files_before = self.listing()
            tabs = {f[0] % 2: f[1] for f in files_before if (f[0] // 2) % 3 == 0}
            caches_before = [f for f in files_before if (f[0] // 2) % 3 != 0]
            all_fresh = len(tabs) == 2 and all(c[1] >= tabs[c[0] % 2] for c in caches_before)
            o = self.step(op)
            steps.append(o)
            if not o["distractors_ok"]:
                fails.append(("unrelated-file-removed", idx, "a file outside the cache globs disappeared"))
            if {f[0] for f in files_before if (f[0] // 2) % 3 == 0} - {f[0] for f in o["files"]} and op[0] != "D":
                fails.append(("table-file-removed", idx, "a geometry table file was deleted by the clean-up"))
            if not check_props:
                prev_crash = False
                continue
            benign = op[0] in "IC" and op[1].get("k") is None and not op[1].get("denied") and not op[1].get("vanished")
            if op[0] == "I":
                if o["err"] == 0:
                    st = self.stale()
                    if st:
                        # a stale cache that sat beside an OLDER cache of the same table before this import: "remove all on stale"
                        # must have taken it, whatever its own mtime and however it came to be stale
                        beside = [f for f in st if f[1] >= tabs.get(f[0] % 2, -1) and any(c[0] % 2 == f[0] % 2 and c[1] < tabs.get(f[0] % 2, -1) for c in caches_before)]
                        held = [f for f in st if f not in beside and f[0] in self.dirty_built]
                        if beside and len(beside) == len(st):
                            kind = "stale-cache-kept-beside-older-cache"
                        elif len(held) == len(st):
                            # the only way the mtime criterion can miss: every older cache is gone and the stale one was written
                            # after the table by a process that held the old table in memory
                            kind = "stale-cache-after-import:process-held-old-table"
                        else:
                            kind = "leftover-after-interrupted-cleanup-and-retry" if prev_crash else "stale-cache-after-import"
                        fails.append((kind, idx, f"stale cache files (fid, mtime, built_from) {st} with table versions {self.ver}"))
                    snap = o.get("submodule_snapshot")
                    now = sorted(x[0] for x in o["files"] if (x[0] // 2) % 3 != 0)
                    if snap is None or snap != now:
                        fails.append(("check-not-before-submodule-import", idx,
                                      f"cache files visible when the first sub-package was imported: {snap}; after import: {now}"))
                if all_fresh and o["gone"]:
                    fails.append(("fresh-cache-removed", idx, f"every cache was at least as new as its table, yet {o['gone']} were removed"))
                if benign and len(tabs) == 2 and o["err"] != 0:
                    fails.append(("import-raised", idx, f"error class {o['err']} without any injected fault"))
            if op[0] == "C" and benign and len(tabs) == 2:
                left = [f for f in o["files"] if (f[0] // 2) % 3 != 0]
                if left or o["err"] != 0:
                    fails.append(("forced-clear-leaves-files", idx, f"err={o['err']} left={left}"))
            prev_crash = op[0] == "I" and o["err"] == 3
        return steps, fails


def shrink(sc, ops, kind):
    """greedy one-op-at-a-time minimisation preserving a failure of the same kind"""
    def failing(cand):
        _, fl = sc.run_case(cand, True)
        return any(f[0] == kind for f in fl)
    cur = list(ops)
    changed = True
    while changed:
        changed = False
        for i in range(len(cur)):
            cand = cur[:i] + cur[i + 1:]
            if cand and failing(cand):
                cur, changed = cand, True
                break
    return cur


def short(ops):
    def one(o):
        if o[0] in "IC":
            e = o[1]
            x = ("k%d" % e["k"] if e.get("k") is not None else "") + ("d%s" % e["denied"] if e.get("denied") else "") + \
                ("v%s" % e["vanished"] if e.get("vanished") else "")
            return o[0] + (f"({x})" if x else "")
        if o[0] == "A":
            return f"A({TN[o[1]]},{'force' if o[2] else 'auto'})"
        return o[0] + "(" + ",".join(TN[a] if j == 0 else str(a) for j, a in enumerate(o[1:])) + ")"
    return ";".join(one(o) for o in ops)


def replay(cases_path, src):
    strip_editable_finder()
    cases = json.load(open(cases_path))
    root = Path(tempfile.mkdtemp(prefix="c17_", dir="/tmp"))
    res = {"cases": [], "violations": [], "structure": {}}
    try:
        h = types.ModuleType("_c17_harness")
        h.snapshot = None
        sc = Scratch(root, Path(src))

        def submodule_imported(name):
            if h.snapshot is None:
                h.snapshot = sorted(x[0] for x in sc.listing() if (x[0] // 2) % 3 != 0)
        h.submodule_imported = submodule_imported
        sys.modules["_c17_harness"] = h
        sys.path.insert(0, str(root))
        # structure of the real src_cache_list, as evaluated by the real module on the scratch copy
        mod = sc.load_cache_module()
        pairs, extra = [], []
        for s, c in mod.src_cache_list:
            cl = [str(x) for x in (c if isinstance(c, (list, tuple)) else [c])]
            intree = [os.path.relpath(x, sc.pkg) for x in cl if os.path.abspath(x).startswith(str(sc.pkg) + os.sep)]
            extra += [x for x in cl if not os.path.abspath(x).startswith(str(sc.pkg) + os.sep)]
            pairs.append([os.path.relpath(str(s), sc.pkg)] + intree)
        res["structure"]["src_cache_list"] = pairs
        res["structure"]["cache_globs_outside_package"] = extra       # e.g. relocated numba cache dirs; empty in the replay
        for c in cases:
            steps, fails = sc.run_case(c["ops"], c.get("valid", False))
            res["cases"].append({"steps": steps})
            seen = set()
            for kind, idx, detail in fails:
                if kind in seen:
                    continue
                seen.add(kind)
                small = shrink(sc, c["ops"][:idx + 1], kind) if c.get("valid", False) or kind in (
                    "unrelated-file-removed", "table-file-removed") else c["ops"][:idx + 1]
                res["violations"].append({"kind": kind, "ops": small, "short": short(small), "detail": detail,
                                          "from_case": c.get("id")})
    finally:
        shutil.rmtree(root, ignore_errors=True)
    print(json.dumps(res))


# ================================================================================================ end-to-end
BOOT = r'''
import sys, os, json
sys.meta_path[:] = [f for f in sys.meta_path if type(f).__name__ != "ScikitBuildRedirectingFinder"]
sys.path.insert(0, sys.argv[1])
mode = sys.argv[2]
if mode.startswith("crash"):
    k = [int(mode[5:])]
    _rm = os.remove
    def rm(p, *a, **kw):
        if str(p).endswith((".nbi", ".nbc")):
            if k[0] == 0:
                raise KeyboardInterrupt()
            k[0] -= 1
        return _rm(p, *a, **kw)
    os.remove = rm
if mode.startswith("kill"):
    # the interpreter is killed outright (SIGKILL: OOM killer, batch time limit, power cut) in the middle of the clean-up: no exception
    # handler, no `finally`, no atexit runs
    import signal
    kk = [int(mode[4:])]
    _rm2 = os.remove
    def rm2(p, *a, **kw):
        if str(p).endswith((".nbi", ".nbc")):
            if kk[0] == 0:
                os.kill(os.getpid(), signal.SIGKILL)
            kk[0] -= 1
        return _rm2(p, *a, **kw)
    os.remove = rm2
import numpy as np
try:
    import pybes3 as p3
except KeyboardInterrupt:
    print(json.dumps({"interrupted": True})); sys.exit(0)
out = {"file": p3.__file__}
if mode == "lateuse":
    # the tables change AFTER this process imported pybes3 and BEFORE its first lookup (= cache creation)
    geom = os.path.join(os.path.dirname(p3.__file__), "detectors", "geometry")
    out["bumped"] = {}
    for t, key in (("mdc", "east_x"), ("emc", "center_x")):
        d = dict(np.load(os.path.join(geom, t + "_geom.npz")))
        a = d[key].copy(); a.flat[0] = a.flat[0] + 1.0; d[key] = a
        np.savez(os.path.join(geom, t + "_geom.npz"), **d)
        out["bumped"][t] = float(a.flat[0]).hex()
if mode == "longlived":
    # a process that already holds the mdc table: table re-written, caches force-cleared, ANOTHER mdc kernel used for the first time
    geom = os.path.join(os.path.dirname(p3.__file__), "detectors", "geometry")
    p3.mdc_gid_to_east_x(np.array([0]))
    d = dict(np.load(os.path.join(geom, "mdc_geom.npz")))
    a = d["west_x"].copy(); a.flat[0] = a.flat[0] + 1.0; d["west_x"] = a
    np.savez(os.path.join(geom, "mdc_geom.npz"), **d)
    out["bumped"] = float(a.flat[0]).hex()
    from pybes3._cache_numba import clear_numba_cache
    clear_numba_cache()
    out["west_in_process"] = float(p3.mdc_gid_to_west_x(np.array([0]))[0]).hex()
elif mode == "usew":
    out["west"] = float(p3.mdc_gid_to_west_x(np.array([0]))[0]).hex()
elif mode == "clear":
    from pybes3._cache_numba import clear_numba_cache
    clear_numba_cache()
else:
    out["mdc"] = [float(x).hex() for x in p3.mdc_gid_to_east_x(np.array([0, 1, 2]))]
    out["emc"] = [float(x).hex() for x in p3.emc_gid_to_center_x(np.array([0, 1]))]
    out["gid"] = [int(x) for x in p3.get_mdc_gid(np.array([0, 1, 42]), np.array([0, 3, 7]))]
    # quantities the package derives from the tables outside the geometry modules (record parsers)
    _r = p3.parse_mdc_gid(np.array([0, 1, 2]), with_pos=True)
    out["mid_x"] = [float(x).hex() for x in _r["mid_x"]]; out["parse_east_x"] = [float(x).hex() for x in _r["east_x"]]
    _e = p3.parse_emc_gid(np.array([0, 1]), with_pos=True)
    out["parse_center_x"] = [float(x).hex() for x in _e["center_x"]]
print(json.dumps(out))
'''


BOOT_MP = r'''
import sys, os, json, multiprocessing as mp


def work(base):
    # the FIRST import of pybes3 after the table update happens here, in a worker process; the driver never imports it
    sys.meta_path[:] = [f for f in sys.meta_path if type(f).__name__ != "ScikitBuildRedirectingFinder"]
    sys.path.insert(0, base)
    import numpy as np
    import pybes3 as p3
    return {"file": p3.__file__, "mdc": [float(x).hex() for x in p3.mdc_gid_to_east_x(np.array([0, 1, 2]))],
            "emc": [float(x).hex() for x in p3.emc_gid_to_center_x(np.array([0, 1]))]}


if __name__ == "__main__":
    if sys.argv[3] == "executor":
        from concurrent.futures import ProcessPoolExecutor
        with ProcessPoolExecutor(1, mp_context=mp.get_context("spawn")) as ex:
            out = ex.submit(work, sys.argv[1]).result()
    else:
        with mp.get_context(sys.argv[3]).Pool(1) as pool:
            out = pool.apply(work, (sys.argv[1],))
    print(json.dumps(out))
'''


def e2e(src, level):
    import numpy as np
    src = Path(src)
    root = Path(tempfile.mkdtemp(prefix="c17e2e_", dir="/tmp"))
    res = {"runs": [], "fails": [], "notes": [], "findings": []}
    try:
        pkg = root / "pkg" / "pybes3"
        shutil.copytree(src, pkg, ignore=shutil.ignore_patterns("__pycache__", "cpp", "*.nbi", "*.nbc", "*.pyc"))
        if not (pkg / "_version.py").exists():
            (pkg / "_version.py").write_text('version = __version__ = "0+c17"\n__version_tuple__ = version_tuple = (0,)\n'
                                             'commit_id = __commit_id__ = None\n')
        # prebuilt extension: located by file scan (never by importing the real package: that would run
        # check_numba_cache() on the real tree)
        import sysconfig
        sos = [p for d in {sysconfig.get_paths()["platlib"], sysconfig.get_paths()["purelib"]}
               for p in Path(d).glob("pybes3/besio/besio_cpp*.so")]
        if not sos:
            raise RuntimeError("prebuilt besio_cpp extension not found")
        shutil.copyfile(sos[0], pkg / "besio" / sos[0].name)
        (root / "boot.py").write_text(BOOT)
        (root / "bootmp.py").write_text(BOOT_MP)
        geom = pkg / "detectors" / "geometry"
        pyc = geom / "__pycache__"

        def run(mode, cache_dir=None, base=None):
            env = dict(os.environ)
            env.pop("NUMBA_CACHE_DIR", None)
            env.pop("PYTHONPATH", None)
            env["PYTHONDONTWRITEBYTECODE"] = "1"
            if cache_dir:
                env["NUMBA_CACHE_DIR"] = str(cache_dir)
            script = "boot.py"
            if mode.startswith("mp:"):
                script, mode = "bootmp.py", mode[3:]
            p = subprocess.run([sys.executable, str(root / script), str(base or (root / "pkg")), "x" if script == "bootmp.py" else mode] + ([mode] if script == "bootmp.py" else []), env=env, cwd=str(root),
                               capture_output=True, text=True, timeout=600)
            if mode.startswith("kill") and p.returncode == -9:
                out = {"mode": mode, "killed": True}
                res["runs"].append(out)
                return out
            if p.returncode != 0:
                raise RuntimeError(f"interpreter run '{mode}' failed: {p.stderr[-1500:]}")
            out = json.loads(p.stdout.strip().splitlines()[-1])
            if "file" in out and not out["file"].startswith(str(root)):
                raise RuntimeError("scratch copy was not the imported package: " + out["file"])
            out["mode"] = mode
            res["runs"].append(out)
            return out

        def caches():
            if not pyc.is_dir():
                return {}
            return {p.name: (p.stat().st_mtime_ns, p.stat().st_size) for p in pyc.iterdir() if p.suffix in (".nbi", ".nbc")}

        def bump(table, key, gdir=None):
            p = (gdir or geom) / table
            d = dict(np.load(p))
            a = d[key].copy()
            a.flat[0] = a.flat[0] + 1.0
            d[key] = a
            np.savez(p, **d)
            return float(a.flat[0]).hex()

        def expect(cond, key, what):
            if not cond:
                res["fails"].append({"key": key, "what": what})

        # A: first process creates the caches
        a = run("use")
        ca = caches()
        import fnmatch
        expect(any(fnmatch.fnmatch(n, "mdc.*.nb[ci]") for n in ca) and any(fnmatch.fnmatch(n, "emc.*.nb[ci]") for n in ca),
               "e2e:cache-location", f"numba did not write caches matching the globs into {pyc}: {sorted(ca)}")
        expect(all(fnmatch.fnmatch(n, "mdc.*.nb[ci]") or fnmatch.fnmatch(n, "emc.*.nb[ci]") for n in ca),
               "e2e:cache-names", f"cache files not covered by the two globs: {sorted(ca)}")
        ref = {k: [float(x).hex() for x in np.load(geom / "mdc_geom.npz")["east_x"][:3]] for k in ["mdc"]}
        expect(a["mdc"] == ref["mdc"], "e2e:first-values", f"lookup {a['mdc']} != table {ref['mdc']}")
        # B: negative control — unchanged tables: cache files untouched, same values
        b = run("use")
        expect(caches() == ca, "e2e:fresh-cache-touched", "cache files changed although no table changed")
        expect((b["mdc"], b["emc"], b["gid"]) == (a["mdc"], a["emc"], a["gid"]), "e2e:negative-control-values", "values changed without a table change")
        # C: table changed -> next interpreter sees the new value, mdc caches rebuilt, emc caches untouched
        newv = bump("mdc_geom.npz", "east_x")
        c = run("use")
        cc = caches()
        _t = np.load(geom / "mdc_geom.npz")
        expect(c["mid_x"] == [float(x).hex() for x in ((_t["west_x"] + _t["east_x"]) / 2)[:3]] and c["parse_east_x"][0] == newv,
               "e2e:stale-derived-value-after-table-update", f"parse_mdc_gid(with_pos=True) after the table update: mid_x {c['mid_x']}, east_x {c['parse_east_x']} "
               f"- the table now gives mid_x {[float(x).hex() for x in ((_t['west_x'] + _t['east_x']) / 2)[:3]]}, east_x[0] {newv}")
        expect(c["mdc"][0] == newv, "e2e:stale-value-after-table-update",
               f"mdc_gid_to_east_x(0) = {c['mdc'][0]} but the table now holds {newv} (old {a['mdc'][0]})")
        expect(all(cc.get(n) != v for n, v in ca.items() if n.startswith("mdc.")), "e2e:stale-mdc-cache-kept", "an mdc cache file survived the table update unchanged")
        expect(all(cc.get(n) == v for n, v in ca.items() if n.startswith("emc.")), "e2e:emc-cache-touched", "emc caches changed although only the mdc table changed")
        expect(c["emc"] == a["emc"], "e2e:emc-values", "emc values changed")
        # H: history  forced clear -> import -> table update -> first use (cache creation) -> import + lookup in a new process.
        # The caches written in the second step are newer than the tables, so nothing may be removed afterwards - which is only right
        # if they were compiled from the tables as they were at first use (tables are read lazily, not at import).
        run("clear")
        expect(caches() == {}, "e2e:forced-clear-leaves-files", f"left after clear_numba_cache(): {sorted(caches())}")
        h1 = run("lateuse")
        h2 = run("use")
        for t, got in (("mdc", h2["mdc"][0]), ("emc", h2["emc"][0])):
            expect(got == h1["bumped"][t], f"e2e:stale-value:update-between-import-and-first-use:{t}",
                   f"history clear -> import -> {t}_geom.npz updated ({h1['bumped'][t]}) -> first use -> new process: lookup returns {got}; "
                   f"the cache created at first use is newer than the table but holds the table as it was at import")
        c = h2
        # S: the same package installed as a tree of file-level symlinks (strict editable installs, stow / link farms): numba keeps the
        #    caches beside the path the module was imported through; a table update must still be seen by the next interpreter
        farm = root / "farm"
        for d, _dirs, fs in os.walk(pkg):
            if "__pycache__" in d:
                continue
            fd = farm / "pybes3" / Path(d).relative_to(pkg)
            fd.mkdir(parents=True, exist_ok=True)
            for fn in fs:
                os.symlink(Path(d) / fn, fd / fn)
        fpyc = farm / "pybes3" / "detectors" / "geometry" / "__pycache__"
        s1 = run("use", base=farm)
        expect(s1["file"].startswith(str(farm)), "e2e:link-farm-not-imported", s1.get("file", ""))
        n_farm = len([q for q in fpyc.iterdir() if q.suffix in (".nbi", ".nbc")]) if fpyc.is_dir() else 0
        news = bump("mdc_geom.npz", "east_x")
        s2 = run("use", base=farm)
        expect(s2["mdc"][0] == news, "e2e:stale-value-after-table-update:link-farm-install",
               f"package imported through a tree of per-file symlinks ({n_farm} cache files beside the links): after mdc_geom.npz changed "
               f"(east_x[0] -> {news}) a fresh interpreter returns mdc_gid_to_east_x(0) = {s2['mdc'][0]} (before the update: {s1['mdc'][0]})")
        run("clear", base=farm)
        left = sorted(q.name for q in fpyc.iterdir() if q.suffix in (".nbi", ".nbc")) if fpyc.is_dir() else []
        expect(left == [], "e2e:forced-clear-leaves-files:link-farm-install", f"left after clear_numba_cache(): {left}")
        c = run("use")
        # P: the package copied into an ordinary installation layout (<prefix>/lib/pythonX.Y/site-packages/pybes3): the check is about the tables
        #    beside the code, wherever that is
        sp = root / "prefix" / "lib" / "python3.12" / "site-packages"
        shutil.copytree(pkg, sp / "pybes3", ignore=shutil.ignore_patterns("__pycache__", "*.nbi", "*.nbc", "*.pyc"))
        p1 = run("use", base=sp)
        expect(p1["file"].startswith(str(sp)), "e2e:site-packages-copy-not-imported", p1.get("file", ""))
        newp = bump("mdc_geom.npz", "east_x", gdir=sp / "pybes3" / "detectors" / "geometry")
        p2 = run("use", base=sp)
        expect(p2["mdc"][0] == newp, "e2e:stale-value-after-table-update:site-packages-layout",
               f"package installed under {sp.relative_to(root)}: after mdc_geom.npz changed (east_x[0] -> {newp}) a fresh interpreter returns "
               f"mdc_gid_to_east_x(0) = {p2['mdc'][0]} (before the update: {p1['mdc'][0]})")
        # K: the interpreter doing the clean-up is KILLED (no handler runs) after one removal; the next import finishes the job, a forced clear too
        newk = bump("emc_geom.npz", "center_x")
        n_before = len(caches())
        kres = run("kill1")
        expect(kres.get("killed") is True, "e2e:kill-not-delivered", f"the import with a SIGKILL inside the second os.remove ended normally: {kres}")
        k2 = run("use")
        expect(k2["emc"][0] == newk, "e2e:stale-value-after-killed-cleanup",
               f"emc_geom.npz changed (center_x[0] -> {newk}); the interpreter that cleaned up was killed (SIGKILL) after 1 of {n_before} removals; the next import "
               f"leaves emc_gid_to_center_x(0) = {k2['emc'][0]}")
        newk2 = bump("emc_geom.npz", "center_x")
        run("kill0")
        run("clear")
        left_k = sorted(caches())
        expect(left_k == [], "e2e:forced-clear-leaves-files:after-killed-cleanup", f"left after clear_numba_cache() following a killed clean-up: {left_k}")
        k3 = run("use")
        expect(k3["emc"][0] == newk2, "e2e:stale-value-after-killed-cleanup-and-clear", f"emc_gid_to_center_x(0) = {k3['emc'][0]}, table {newk2}")
        # M: the first import after a table update is made by a multiprocessing worker (driver imports nothing; task imports lazily)
        for how in (["spawn"] if level != "full" else ["spawn", "forkserver", "fork", "executor"]):
            newm = bump("mdc_geom.npz", "east_x")
            m1 = run("mp:" + how)
            expect(m1["mdc"][0] == newm, f"e2e:stale-value-after-table-update:import-in-worker:{how}",
                   f"after mdc_geom.npz changed (east_x[0] -> {newm}) the next import of pybes3 was made by a multiprocessing worker ({how}); "
                   f"its lookup mdc_gid_to_east_x(0) returned {m1['mdc'][0]}")
        c = run("use")
        if level == "full":
            # D/E: interrupted clean-up (after 1 removal), then retry
            newe = bump("emc_geom.npz", "center_x")
            before = caches()
            d = run("crash1")
            after = caches()
            expect(d.get("interrupted") is True, "e2e:crash-not-propagated", f"KeyboardInterrupt inside os.remove did not abort the import: {d}")
            expect(len(set(before) - set(after)) == 1, "e2e:crash-removed-count", f"removed {sorted(set(before) - set(after))} before the interrupt at k=1")
            e = run("use")
            expect(e["emc"][0] == newe, "e2e:stale-value-after-interrupted-cleanup",
                   f"emc_gid_to_center_x(0) = {e['emc'][0]} but the table now holds {newe}")
            expect(e["mdc"] == c["mdc"], "e2e:mdc-values-after-crash", "mdc values changed")
            # F: forced clear
            run("clear")
            expect(caches() == {}, "e2e:forced-clear-leaves-files", f"left after clear_numba_cache(): {sorted(caches())}")
            # L: the long-lived-process history of the replay, with real numba: the process holds the old mdc table, the table is
            #    re-written, the caches are force-cleared, another mdc kernel is compiled (from the table in memory); next process
            run("clear")
            l1 = run("longlived")
            l2 = run("usew")
            if l2["west"] != l1["bumped"]:
                res["findings"].append({"key": "e2e:process-held-old-table",
                                        "what": f"a process that had loaded mdc_geom.npz kept running while the table was re-written (west_x[0] -> "
                                                f"{l1['bumped']}) and the caches were force-cleared; its first use of mdc_gid_to_west_x wrote a cache "
                                                f"compiled from the table in memory ({l1['west_in_process']}); a fresh interpreter afterwards keeps that "
                                                f"cache (it is newer than the table) and returns {l2['west']}"})
            else:
                res["notes"].append("long-lived process: new value seen")
            # G: numba cache relocated by NUMBA_CACHE_DIR (documented numba setting; the framework itself runs with it)
            nb = root / "nbcache"
            g1 = run("use", cache_dir=nb)
            newg = bump("mdc_geom.npz", "east_x")
            g2 = run("use", cache_dir=nb)
            reloc = sorted(str(p.relative_to(nb)) for p in nb.rglob("*.nb[ci]"))
            if g2["mdc"][0] != newg:
                res["findings"].append({"key": "e2e:relocated-cache:NUMBA_CACHE_DIR",
                                        "what": f"with NUMBA_CACHE_DIR set numba stores the kernels' caches in {len(reloc)} files outside "
                                                f"detectors/geometry/__pycache__; after mdc_geom.npz changed (east_x[0] -> {newg}) a fresh "
                                                f"interpreter still returns {g2['mdc'][0]} (the old value {g1['mdc'][0]}); "
                                                "src_cache_list only globs the in-tree __pycache__",
                                        "files": reloc[:6]})
            else:
                res["notes"].append("relocated cache (NUMBA_CACHE_DIR): new value seen")
    finally:
        shutil.rmtree(root, ignore_errors=True)
    print(json.dumps(res))


if __name__ == "__main__":
    if sys.argv[1] == "replay":
        replay(sys.argv[2], sys.argv[3])
    elif sys.argv[1] == "e2e":
        e2e(sys.argv[2], sys.argv[3])
    else:
        sys.exit("usage")
