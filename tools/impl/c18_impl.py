"""Implementation side of the C18 tie (runs under /venv/bin/python against the working tree).

argv: dump <datadir>                      factory trees, announced forms, content forms, raw samples (as JSON-able trees)
      file <datadir> <fname> <cfg.json>   uproot.dask(...).compute() vs TBranch.array() for every registered branch
Prints one JSON document."""
import hashlib
import json
import os
import sys

import awkward as ak
import numpy as np
import uproot
import uproot.interpretation.library as _L

import pybes3  # noqa: F401
import pybes3.besio.root_io as rio
import uproot_custom.readers.cpp as RC
from uproot_custom import factories as F

from c02_impl import bits, compare, digest, is_digi, registered, top_factory, tstr, values_equal  # noqa: F401

LIB = _L._regularize_library("ak")

DT = {"bool": "DBool", "i1": "DI8", "i2": "DI16", "i4": "DI32", "i8": "DI64", "u1": "DU8", "u2": "DU16", "u4": "DU32",
      "u8": "DU64", "f": "DF32", "d": "DF64"}
NPDT = {"bool": "DBool", "int8": "DI8", "int16": "DI16", "int32": "DI32", "int64": "DI64", "uint8": "DU8", "uint16": "DU16",
        "uint32": "DU32", "uint64": "DU64", "float32": "DF32", "float64": "DF64"}


class Unsupported(Exception):
    pass


def exmsg(ex):
    lines = str(ex).splitlines()
    return type(ex).__name__ + ": " + (lines[0][:300] if lines else "")


# ----------------------------------------------------------------------------------------------- dumping (JSON trees)
def fac_tree(f):
    n = type(f).__name__
    if n == "PrimitiveFactory":
        return ["Prim", f.name, DT[f.ctype]]
    if n == "Bes3TObjArrayFactory":
        return ["TObjArray", f.name, fac_tree(f.element_factory)]
    if n in ("AnyClassFactory", "Bes3BaseObjectFactory", "BaseObjectFactory", "GroupFactory"):
        return ["Group", f.name, [fac_tree(s) for s in f.sub_factories]]
    if n == "CStyleArrayFactory":
        dims = None
        if f.fArrayDim is not None and f.fMaxIndex is not None:
            dims = [int(f.fMaxIndex[i]) for i in range(int(f.fArrayDim))]
        return ["CArr", f.name, int(f.flat_size), dims, fac_tree(f.element_factory)]
    if n == "STLSeqFactory":
        return ["Seq", f.name, fac_tree(f.element_factory)]
    if n == "STLMapFactory":
        return ["Map", f.name, fac_tree(f.key_factory), fac_tree(f.val_factory)]
    if n in ("TStringFactory", "STLStringFactory"):
        return ["Str", f.name]
    if n == "TArrayFactory":
        return ["TArr", f.name, DT[f.ctype]]
    if n == "TObjectFactory":
        return ["TObject", f.name, bool(f.keep_data)]
    if n == "Bes3SymMatrixArrayFactory":
        if f.ctype != "d":
            raise Unsupported("sym matrix ctype " + str(f.ctype))
        return ["Sym", f.name, int(f.full_dim)]
    if n == "EmptyFactory":
        return ["Empty", f.name]
    if n == "Bes3CgemClusterColFactory":
        return ["Cgem", f.name]
    if n == "ObjectHeaderFactory":
        return fac_tree(f.element_factory)
    raise Unsupported("factory class " + n)


def form_tree(fm):
    n = type(fm).__name__
    par = fm.parameters or {}
    if n == "NumpyForm":
        dt = "DChar" if par.get("__array__") == "char" else NPDT[fm.primitive]
        return ["Numpy", dt, [int(x) for x in fm.inner_shape]]
    if n == "EmptyForm":
        return ["Empty"]
    if n == "ListOffsetForm":
        return ["List", par.get("__array__") == "string", form_tree(fm.content)]
    if n == "RegularForm":
        return ["Regular", int(fm.size), form_tree(fm.content)]
    if n == "RecordForm":
        if fm.is_tuple:
            raise Unsupported("tuple record form")
        return ["Record", [[k, form_tree(c)] for k, c in zip(fm.fields, fm.contents)]]
    if n == "UnionForm":
        return ["Union", [form_tree(c) for c in fm.contents]]
    raise Unsupported("form class " + n)


def arr_vals(a):
    a = np.ascontiguousarray(a)
    if a.dtype == np.bool_:
        return "DBool", [int(x) for x in a.astype(np.uint8).ravel()]
    if a.dtype.kind == "f":
        v = a.view(np.uint64 if a.dtype.itemsize == 8 else np.uint32)
        return NPDT[str(a.dtype)], [int(x) for x in v.ravel()]
    return NPDT[str(a.dtype)], [int(x) for x in a.ravel()]


def raw_tree(r):
    if r is None:
        return ["None"]
    if isinstance(r, np.ndarray):
        dt, vals = arr_vals(r)
        return ["Arr", dt, vals]
    if isinstance(r, dict):
        return ["Tup", [raw_tree(v) for v in r.values()]]
    if isinstance(r, (tuple, list)):
        return ["Tup", [raw_tree(v) for v in r]]
    raise Unsupported("raw data of type " + type(r).__name__)


def buffers_of(layout):
    """(dtype, values) of every buffer in form order, char data labelled DChar"""
    form, length, cont = ak.to_buffers(layout)
    out = []

    def walk(fm):
        n = type(fm).__name__
        if n == "NumpyForm":
            dt, vals = arr_vals(cont[f"{fm.form_key}-data"])
            if (fm.parameters or {}).get("__array__") == "char":
                dt = "DChar"
            out.append([dt, vals])
        elif n == "EmptyForm":
            pass
        elif n == "ListOffsetForm":
            dt, vals = arr_vals(cont[f"{fm.form_key}-offsets"])
            out.append([dt, vals])
            walk(fm.content)
        elif n == "RegularForm":
            walk(fm.content)
        elif n == "RecordForm":
            for c in fm.contents:
                walk(c)
        else:
            raise Unsupported("buffers of " + n)

    walk(form)
    return out


def dump(datadir):
    import glob
    out = {"branches": [], "errors": []}
    for fn in sorted(glob.glob(os.path.join(datadir, "*.rtraw")) + glob.glob(os.path.join(datadir, "*.dst"))
                     + glob.glob(os.path.join(datadir, "*.rec"))):
        fname = os.path.basename(fn)
        tree = uproot.open(fn)["Event"]
        for k, br, p in registered(tree):
            rec = {"file": fname, "key": k, "path": p, "digi": is_digi(p)}
            try:
                fac = top_factory(br, p)
                rec["fac"] = fac_tree(fac)
                try:
                    rec["factory_form"] = form_tree(fac.make_awkward_form())          # what the factory tree announces
                except NotImplementedError:
                    rec["factory_form"] = None
                try:
                    rec["form"] = form_tree(br.interpretation.awkward_form(br.file))  # what uproot.dask is told
                except NotImplementedError:
                    rec["form"] = None
                bk = br.basket(0)
                data = np.asarray(bk.data)
                bo = np.asarray(bk.byte_offsets)
                barr = br.interpretation.basket_array(data, bo, bk, br, br.context, 0, LIB, {})
                lay = barr.layout if isinstance(barr, ak.Array) else barr
                rec["content_form"] = form_tree(lay.form)
                full = br.array()
                rec["final_form"] = form_tree(full.layout.form)
                rec["type"] = tstr(full)
                # raw sample: the shortest prefix of events holding an element, kept small
                n = len(bo) - 1
                counts = [int(c) for c in ak.num(full, axis=1)]
                kk = 1
                for i in range(n):
                    kk = i + 1
                    if counts[i] > 0 or bo[i + 1] > 6000:
                        break
                if bo[kk] <= 20000:
                    d2 = data[:bo[kk]]
                    o2 = bo[:kk + 1].copy()
                    raw = RC.read_data(d2, o2, fac.build_cpp_reader())
                    rec["raw"] = raw_tree(raw)
                    c2 = fac.make_awkward_content(RC.read_data(d2, o2, fac.build_cpp_reader()))
                    rec["sample_bufs"] = buffers_of(c2)
                    rec["sample_form"] = form_tree(c2.form)
            except Unsupported as ex:
                out["errors"].append({"file": fname, "key": k, "error": str(ex)})
                continue
            out["branches"].append(rec)
    return out


# ----------------------------------------------------------------------------------------------- lazy vs eager
def leaf_fields(arr):
    return list(arr.fields)


def has_inner_shape(form):
    n = type(form).__name__
    if n == "NumpyForm":
        return len(form.inner_shape) > 0
    if hasattr(form, "contents"):
        return any(has_inner_shape(c) for c in form.contents)
    if hasattr(form, "content"):
        return has_inner_shape(form.content)
    return False


def run_file(datadir, fname, cfg):
    import dask
    dask.config.set(scheduler="synchronous")
    fn = os.path.join(datadir, fname)
    tree = uproot.open(fn)["Event"]
    regs = registered(tree)
    mism, hashes, notes = [], [], []
    n_eval = 0

    def case(*c):
        nonlocal n_eval
        n_eval += 1
        hashes.append(hashlib.sha1(json.dumps([fname, *c], default=str).encode()).hexdigest()[:16])

    def mm(kind, branch, detail, d):
        if len(mism) < 600:
            mism.append({"kind": kind, "file": fname, "branch": branch, "detail": detail, **d})

    def lazy_cmp(kind, k, br, lazy_arr, ann, eager, detail):
        """compare announced type, computed type and values with the eager array"""
        ct, et = tstr(lazy_arr), tstr(eager)
        d = compare(lazy_arr, eager)
        if ann is not None and ann != ct:
            mm(kind + "-announced", k, detail, {"type_equal": False, "values_equal": d is None, "got_type": ann[:400], "want_type": ct[:400]})
        if d:
            if is_digi(rio.regularize_object_path(br.object_path)) and "TRawData" in lazy_arr.fields:
                try:
                    flat = rio.process_digi_subbranch(lazy_arr)
                    d["digi_flatten_fixes_it"] = compare(flat, eager) is None
                except Exception as ex:  # noqa: BLE001
                    d["digi_flatten_fixes_it"] = False
                    d["flatten_error"] = str(ex)[:200]
            mm(kind, k, detail, d)

    eager, lazy_ok, symm = {}, [], []
    for k, br, p in regs:
        eager[k] = br.array()
        try:
            fm = br.interpretation.awkward_form(br.file)
            lazy_ok.append(k)
            if has_inner_shape(fm):
                symm.append(k)
        except NotImplementedError as ex:
            notes.append({"branch": k, "not_lazy_capable": str(ex)[:200]})
            # the refusal must be clean: uproot.dask raises the same error, it does not return wrong data
            case("refusal", k)
            try:
                uproot.dask({fn: "Event/" + k})
                mm("refusal-not-clean", k, [], {"type_equal": False, "values_equal": False, "got_type": "uproot.dask returned an array"})
            except NotImplementedError:
                pass
            except Exception as ex2:  # noqa: BLE001
                mm("refusal-other-exception", k, [], {"type_equal": False, "values_equal": False, "got_type": type(ex2).__name__ + ": " + str(ex2)[:200]})

    # (1) single-branch lazy arrays, every steps_per_file, with and without a column projection before compute()
    for k, br, p in regs:
        if k not in lazy_ok:
            continue
        e = eager[k]
        fields = leaf_fields(e)
        h = int(hashlib.sha1((str(cfg["seed"]) + fname + k).encode()).hexdigest(), 16)
        for steps in cfg["steps"]:
            case("dask", k, steps)
            try:
                d = uproot.dask({fn: "Event/" + k}, steps_per_file=steps)
                if d.npartitions != steps:
                    mm("dask-partitions", k, [steps], {"type_equal": True, "values_equal": True, "got_len": d.npartitions, "want_len": steps})
                ann = tstr(d[br.name])
                c = d.compute()[br.name]
            except Exception as ex:  # noqa: BLE001
                mm("dask-exception", k, [steps], {"type_equal": False, "values_equal": False, "got_type": exmsg(ex)})
                continue
            lazy_cmp("dask", k, br, c, ann, e, [steps])
            if not fields:
                continue
            proj = [fields[0], fields[-1], fields[h % len(fields)]] if steps in cfg["project_steps"] else []
            if steps in cfg.get("all_fields_steps", []):
                proj = list(fields)
            for fld in dict.fromkeys(proj):
                case("dask-project", k, steps, fld)
                try:
                    dp = d[br.name][fld]
                    annp = tstr(dp)
                    cp = dp.compute()
                except Exception as ex:  # noqa: BLE001
                    dd = {"type_equal": False, "values_equal": False, "got_type": exmsg(ex)}
                    if "TRawData" in c.fields and fld in c["TRawData"].fields:
                        dd["digi_flatten_fixes_it"] = compare(d[br.name]["TRawData"][fld].compute(), e[fld]) is None
                    mm("dask-project-exception", k, [steps, fld], dd)
                    continue
                lazy_cmp("dask-project", k, br, cp, annp, e[fld], [steps, fld])

    # (1b) the graph computed in OTHER processes (dask's process scheduler / a cluster): workers unpickle the branches and their
    #      interpretations and import the package afresh - everything the read needs must be in place there without this process' history
    for k in [x for x in lazy_ok if "Digi" in x][:1] + [x for x in symm][:1] + [x for x in lazy_ok if "Digi" not in x and x not in symm][:1] if cfg.get("process_scheduler") else []:
        br = tree[k]
        case("dask-processes", k)
        try:
            d = uproot.dask({fn: "Event/" + k}, steps_per_file=2)
            c = d.compute(scheduler="processes", num_workers=2)[br.name]
        except Exception as ex:  # noqa: BLE001
            mm("dask-processes-exception", k, [2], {"type_equal": False, "values_equal": False, "got_type": exmsg(ex)})
            continue
        lazy_cmp("dask-processes", k, br, c, None, eager[k], [2])

    # (2) several branches in one lazy collection, projected to one branch each before compute()
    plain = [k for k in lazy_ok if k not in symm]
    for gsteps in (cfg.get("group_steps_list", [cfg["group_steps"]]) if plain else []):
        paths = {tree[k].object_path for k in plain}
        case("dask-group", "plain", len(plain), gsteps)
        try:
            dg = uproot.dask({fn: "Event"}, filter_branch=lambda b: b.object_path in paths, steps_per_file=gsteps)
            for k in plain:
                br = tree[k]
                case("dask-group-project", k, gsteps)
                try:
                    ann = tstr(dg[br.name])
                    c = dg[br.name].compute()
                except Exception as ex:  # noqa: BLE001
                    mm("dask-group-exception", k, [], {"type_equal": False, "values_equal": False, "got_type": exmsg(ex)})
                    continue
                lazy_cmp("dask-group", k, br, c, ann, eager[k], [])
        except Exception as ex:  # noqa: BLE001
            mm("dask-group-exception", "*", [], {"type_equal": False, "values_equal": False, "got_type": exmsg(ex)})
    for m in symm:
        partner = next((k for k in plain if k != m), None)
        if partner is None:
            continue
        paths = {tree[m].object_path, tree[partner].object_path}
        try:
            dg = uproot.dask({fn: "Event"}, filter_branch=lambda b: b.object_path in paths, steps_per_file=cfg["group_steps"])
        except Exception as ex:  # noqa: BLE001
            mm("dask-pair-exception", m, [partner], {"type_equal": False, "values_equal": False, "got_type": type(ex).__name__ + ": " + str(ex)[:300]})
            continue
        for target in (m, partner):
            br = tree[target]
            case("dask-pair-project", m, partner, target)
            try:
                ann = tstr(dg[br.name])
                c = dg[br.name].compute()
            except Exception as ex:  # noqa: BLE001
                msg = exmsg(ex)
                mm("dask-pair-projected-away" if target == partner else "dask-pair-exception", m, [partner, target],
                   {"type_equal": False, "values_equal": False, "got_type": msg,
                    "placeholder_inner_shape": isinstance(ex, TypeError) and "unknown lengths" in str(ex)})
                continue
            lazy_cmp("dask-pair", target, br, c, ann, eager[target], [m, partner])
    return {"file": fname, "mismatches": mism, "evaluations": n_eval, "hashes": hashes, "notes": notes,
            "lazy_capable": len(lazy_ok), "inner_shape_branches": symm, "pybes3": pybes3.__file__}


def run_cross(datadir, order, rounds=2):
    """all fixtures in ONE process, in the given order: a branch read lazily from one file must not depend on which files were read
    before it (forms, factories and readers belong to a file's own streamer information)"""
    import dask
    dask.config.set(scheduler="synchronous")
    files = sorted(f for f in os.listdir(datadir) if f.endswith((".rtraw", ".dst", ".rec")))
    if order == "reversed":
        files = files[::-1]
    mism, hashes = [], []
    n_eval = 0
    for rnd in range(rounds):                # second round: every file again after all others have been seen
        for fname in files:
            fn = os.path.join(datadir, fname)
            tree = uproot.open(fn)["Event"]
            for k, br, p in registered(tree):
                try:
                    br.interpretation.awkward_form(br.file)
                except NotImplementedError:
                    continue
                n_eval += 1
                hashes.append(hashlib.sha1(json.dumps(["cross", order, rnd, fname, k]).encode()).hexdigest()[:16])
                try:
                    e = br.array()
                    d = uproot.dask({fn: "Event/" + k}, steps_per_file=2 if rnd else 1)
                    ann = tstr(d[br.name])
                    c = d.compute()[br.name]
                except Exception as ex:  # noqa: BLE001
                    mism.append({"kind": "cross-file-exception", "file": fname, "branch": k, "detail": [order, rnd], "type_equal": False,
                                 "values_equal": False, "got_type": exmsg(ex)})
                    continue
                ct, et = tstr(c), tstr(e)
                dd = compare(c, e)
                if ann != ct or dd:
                    mism.append({"kind": "cross-file", "file": fname, "branch": k, "detail": [order, rnd], "announced": ann[:300], "computed_type": ct[:300],
                                 "eager_type": et[:300], **(dd or {"type_equal": ct == et, "values_equal": True})})
    return {"order": order, "files": files, "mismatches": mism[:200], "evaluations": n_eval, "hashes": hashes}


def main():
    cmd = sys.argv[1]
    if cmd == "dump":
        out = dump(sys.argv[2])
    elif cmd == "file":
        out = run_file(sys.argv[2], sys.argv[3], json.load(open(sys.argv[4])))
    elif cmd == "cross":
        out = run_cross(sys.argv[2], sys.argv[3], int(sys.argv[4]) if len(sys.argv) > 4 else 2)
    else:
        raise SystemExit("unknown command")
    json.dump(out, sys.stdout)


if __name__ == "__main__":
    main()
