"""Implementation side of the C02 tie (runs under /venv/bin/python against the working tree, PYTHONPATH=<repo>/src).

argv: survey <datadir>
      file   <datadir> <fname> <cases.json>     (one fixture: intervals, iterate, subsets, re-partitioned / synthetic baskets)
      concat <datadir> <cases.json>             (uproot.concatenate over ordered file lists)
Prints one JSON document.  Floats are never compared as floats: arrays are packed and compared buffer-by-buffer (bytes)."""
import hashlib
import json
import math
import sys

import awkward as ak
import numpy as np
import uproot
import uproot.interpretation.library as _L

import pybes3  # noqa: F401  (registers the interpretation)
import pybes3.besio.root_io as rio
from uproot_custom import factories as F

LIB = _L._regularize_library("ak")


# ----------------------------------------------------------------------------------------------- canonical forms
def tstr(arr):
    s = str(arr.type)
    return s.split(" * ", 1)[1] if " * " in s else s


def digest(arr):
    p = ak.to_packed(arr)
    form, length, cont = ak.to_buffers(p)
    h = hashlib.sha1()
    h.update(form.to_json().encode())
    h.update(str(length).encode())
    for k in sorted(cont):
        h.update(k.encode())
        h.update(np.ascontiguousarray(cont[k]).tobytes())
    return h.hexdigest()


def bits(x):
    """to_list with floats replaced by their bit patterns (used only to describe/decide a mismatch)"""
    if isinstance(x, float):
        return "f" + np.float64(x).tobytes().hex()
    if isinstance(x, list):
        return [bits(v) for v in x]
    if isinstance(x, dict):
        return {k: bits(v) for k, v in x.items()}
    return x


def values_equal(a, b):
    return bits(ak.to_list(a)) == bits(ak.to_list(b))


def compare(got, want):
    """-> None when type and values agree, else dict(type_equal, values_equal, got_type, want_type)"""
    tg, tw = tstr(got), tstr(want)
    if tg == tw and len(got) == len(want) and digest(got) == digest(want):
        return None
    ve = len(got) == len(want) and values_equal(got, want)
    return {"type_equal": tg == tw, "values_equal": bool(ve), "got_type": tg[:400], "want_type": tw[:400],
            "got_len": len(got), "want_len": len(want)}


# ----------------------------------------------------------------------------------------------- branch discovery
def registered(tree):
    out = []
    for k, br in tree.items(recursive=True):
        p = rio.regularize_object_path(br.object_path)
        if p in rio.bes3_branch2types:
            out.append((k, br, p))
    return out


def top_factory(br, p):
    it = br.interpretation
    si = br.streamer.all_members if br.streamer is not None else {"fName": br.name, "fTypeName": it.typename}
    return F.build_factory(si, it.all_streamer_info, p, called_from_top=True, branch=br)


def branch_kind(br, p):
    fac = top_factory(br, p)
    n = type(fac).__name__
    if n == "Bes3CgemClusterColFactory":
        return "cgem"
    if n == "Bes3TObjArrayFactory":
        return "toa"
    return "other:" + n


def is_digi(p):
    q = p.replace("/Event:", "")
    evt, sub = q.split("/")
    return evt == "TDigiEvent" and sub != "m_fromMc"


def survey(datadir):
    import glob
    import os
    res = {}
    for fn in sorted(glob.glob(os.path.join(datadir, "*.rtraw")) + glob.glob(os.path.join(datadir, "*.dst"))
                     + glob.glob(os.path.join(datadir, "*.rec"))):
        tree = uproot.open(fn)["Event"]
        brs = []
        for k, br, p in registered(tree):
            full = br.array()
            brs.append({"key": k, "path": p, "n": int(br.num_entries), "counts": [int(c) for c in ak.num(full, axis=1)],
                        "type": tstr(full), "kind": branch_kind(br, p), "digi": is_digi(p),
                        "num_baskets": int(br.num_baskets), "entry_offsets": [int(x) for x in br.entry_offsets]})
        res[os.path.basename(fn)] = brs
    return res


# ----------------------------------------------------------------------------------------------- driving the interpretation
class RecordingDict(dict):
    """basket_arrays as final_array sees it; records which basket numbers are asked for"""

    def __init__(self, *a):
        super().__init__(*a)
        self.asked = []

    def __getitem__(self, k):
        self.asked.append(int(k))
        return super().__getitem__(k)


def loaded_baskets(offs, a, b):
    """uproot TBranch.entries_to_ranges_or_baskets: which baskets get decoded for [a,b)"""
    out = []
    start = offs[0]
    for i, stop in enumerate(offs[1:]):
        if a < stop and (start < b or a == b == start):
            out.append(i)
        start = stop
    return out


def drive(br, interp, events, parts, a, b, native=None):
    """events: list of byte strings (one per entry); parts: basket sizes.  Decode every basket uproot would load for [a,b)
    with a fresh basket_array call, then final_array.  -> (array, asked keys, per-basket offsets lists).
    native = (file handle, op, tag list): also write each decoded basket as a request line for the native C++ driver"""
    offs = [0]
    for n in parts:
        offs.append(offs[-1] + n)
    arrs = RecordingDict()
    boffs = {}
    decoded = []
    for i in loaded_baskets(offs, a, b):
        evs = events[offs[i]:offs[i + 1]]
        data = np.frombuffer(b"".join(evs), dtype=np.uint8)
        bo = np.cumsum([0] + [len(e) for e in evs]).astype(np.int32)
        arr = interp.basket_array(data, bo, None, br, br.context, 0, LIB, {})
        lay = arr.layout if isinstance(arr, ak.Array) else arr
        try:
            boffs[i] = [int(x) for x in np.asarray(lay.offsets)]
        except Exception:
            boffs[i] = None
        decoded.append((i, arr))
        if native is not None and boffs[i] is not None:
            fh, op, index, tag = native
            fh.write(f"{op} {data.tobytes().hex() or '-'} {len(bo)} " + " ".join(str(int(x)) for x in bo) + "\n")
            index.append({**tag, "basket": i, "offsets": boffs[i], "has_y": "m_recPositionY" in (lay.content.fields or [])})
    # uproot fills {basket number: array} in COMPLETION order (threaded decompression / interpretation): the mapping is keyed by
    # basket number and its insertion order carries no meaning - every other case hands it over last-basket-first
    if (a + b + len(parts)) % 2:
        decoded.reverse()
    for i, arr in decoded:
        dict.__setitem__(arrs, i, arr)
    out = interp.final_array(arrs, a, b, offs, LIB, br, {})
    return out, arrs.asked, boffs


def empty_event(kind, events):
    """bytes of an event holding an empty TObjArray, built from the header of a real event"""
    if kind == "toa":
        hdr = bytearray(events[0][:25])
        hdr[0:4] = (0x40000000 | 21).to_bytes(4, "big")
        hdr[17:21] = b"\0\0\0\0"
        return bytes(hdr)
    if kind == "cgem":
        hdr = bytearray(events[0][:43])
        hdr[0:4] = (0x40000000 | 39).to_bytes(4, "big")
        hdr[18:22] = (0x40000000 | 21).to_bytes(4, "big")
        hdr[35:39] = b"\0\0\0\0"
        return bytes(hdr)
    return None


def cg_class(t):
    """classify the type of a CGEM-cluster array the way the Coq model does: rec-y / rec-noy / union[...]"""
    if t.startswith("union["):
        inner = t[len("union["):-1]
        parts = []
        depth = 0
        cur = ""
        for ch in inner:
            if ch in "{[":
                depth += 1
            if ch in "}]":
                depth -= 1
            if ch == "," and depth == 0:
                parts.append(cur.strip())
                cur = ""
            else:
                cur += ch
        parts.append(cur.strip())
        return "union[" + ",".join("y" if "m_recPositionY" in p else "n" for p in parts) + "]"
    return "rec-y" if "m_recPositionY" in t else "rec-n"


def run_file(datadir, fname, cases):
    import os
    fn = os.path.join(datadir, fname)
    tree = uproot.open(fn)["Event"]
    regs = registered(tree)
    n = int(tree.num_entries)
    mism = []
    hashes = []
    n_eval = 0

    def case(*c):
        nonlocal n_eval
        n_eval += 1
        hashes.append(hashlib.sha1(json.dumps([fname, *c], default=str).encode()).hexdigest()[:16])

    def mm(kind, branch, detail, d):
        if len(mism) < 400:
            mism.append({"kind": kind, "file": fname, "branch": branch, "detail": detail, **d})

    full = {}
    for k, br, p in regs:
        full[k] = br.array()
    native_index = []
    native_fh = open(cases["native_requests"], "w") if cases.get("native_requests") else None

    # (b) every interval 0 <= a < b <= n vs the slice of the full read
    for k, br, p in regs:
        for a in range(n):
            for b in range(a + 1, n + 1):
                got = br.array(entry_start=a, entry_stop=b)
                case("interval", k, a, b)
                d = compare(got, full[k][a:b])
                if d:
                    mm("interval", k, [a, b], d)

    # (c) iterate with every step size 1..n ; the chunk ranges are the model's iterate_ranges
    objpaths = {br.object_path for k, br, p in regs}
    fb = (lambda b: b.object_path in objpaths)
    name2key = {}
    for k, br, p in regs:
        name2key.setdefault(br.name, k)
    chunk_lens = {}
    for step in cases.get("steps", list(range(1, n + 1))):
        pos = 0
        lens = []
        for ch in tree.iterate(filter_branch=fb, step_size=step):
            lens.append(len(ch))
            for fld in ch.fields:
                k = name2key[fld]
                case("iterate", k, step, pos)
                d = compare(ch[fld], full[k][pos:pos + len(ch)])
                if d:
                    mm("iterate", k, [step, pos], d)
            pos += len(ch)
        chunk_lens[str(step)] = lens
        if pos != n:
            mm("iterate", "*", [step], {"type_equal": True, "values_equal": False, "got_len": pos, "want_len": n})

    # (e) branch subsets
    allarr = tree.arrays(filter_branch=fb)
    for k, br, p in regs:
        case("arrays-all", k)
        d = compare(allarr[br.name], full[k])
        if d:
            mm("arrays-all", k, [], d)
    for sub in cases.get("subsets", []):
        paths = {tree[k].object_path for k in sub}
        got = tree.arrays(filter_branch=lambda b: b.object_path in paths)
        if sorted(got.fields) != sorted(tree[k].name for k in sub):
            mm("subset-fields", "*", sub, {"type_equal": False, "values_equal": False, "got_type": str(got.fields)[:300], "want_type": str(sub)[:300]})
        for k in sub:
            case("subset", k, sorted(sub))
            d = compare(got[tree[k].name], full[k])
            if d:
                mm("subset", k, sorted(sub), d)
        # the filter_name route the tests/docs use
        names = [tree[k].name for k in sub]
        got2 = tree.arrays(filter_name=names)
        for k in sub:
            case("subset-name", k, sorted(sub))
            d = compare(got2[tree[k].name], full[k])
            if d:
                mm("subset-name", k, sorted(sub), d)

    # (f) re-partitioned real basket bytes and (g) synthetic streams with empty-collection events
    repart = []
    for k, br, p in regs:
        bc = cases["branches"].get(k)
        if not bc:
            continue
        interp = br.interpretation
        if br.num_baskets != 1:
            mm("fixture-layout", k, [], {"type_equal": True, "values_equal": True, "got_len": br.num_baskets, "want_len": 1})
            continue
        bk = br.basket(0)
        data = np.asarray(bk.data)
        bo = np.asarray(bk.byte_offsets)
        events = [bytes(data[bo[i]:bo[i + 1]]) for i in range(n)]
        one_cache = {}
        checked_one = set()
        for ci, c in enumerate(bc["repart"]):
            parts, a, b = c["parts"], c["a"], c["b"]
            case("repart", k, parts, a, b)
            nat = None
            if native_fh is not None and c.get("native") and bc["kind"] in ("toa", "cgem"):
                nat = (native_fh, "T" if bc["kind"] == "toa" else "G", native_index, {"branch": k, "kind": "repart", "i": ci})
            try:
                got, asked, boffs = drive(br, interp, events, parts, a, b, nat)
            except Exception as ex:  # noqa: BLE001
                mm("repart-exception", k, [parts, a, b], {"type_equal": False, "values_equal": False,
                                                           "got_type": type(ex).__name__ + ": " + str(ex)[:300]})
                repart.append({"branch": k, "i": ci, "error": type(ex).__name__})
                continue
            d = compare(got, full[k][a:b])
            if d:
                mm("repart", k, [parts, a, b], d)
            repart.append({"branch": k, "i": ci, "asked": asked, "boffs": {str(i): v for i, v in boffs.items()},
                           "counts": [int(x) for x in ak.num(got, axis=1)]})
        kind = bc["kind"]
        emp = None
        if kind in ("toa", "cgem"):
            emp = empty_event(kind, events)
        for ci, c in enumerate(bc.get("synth", [])):
            layout, parts, a, b = c["layout"], c["parts"], c["a"], c["b"]
            if emp is None:
                nat = [i for i, cnt in enumerate(bc["counts"]) if cnt == 0]
                if not nat:
                    repart.append({"branch": k, "synth": ci, "skipped": "no empty event available"})
                    continue
                emp_ev = events[nat[0]]
            else:
                emp_ev = emp
            evs = [emp_ev if j < 0 else events[j] for j in layout]
            case("synth", k, layout, parts, a, b)
            try:
                key1 = json.dumps(layout)
                if key1 not in one_cache:
                    one_cache[key1] = drive(br, interp, evs, [len(evs)], 0, len(evs))[0]
                one = one_cache[key1]
                nat = None
                if native_fh is not None and c.get("native") and kind in ("toa", "cgem"):
                    nat = (native_fh, "T" if kind == "toa" else "G", native_index, {"branch": k, "kind": "synth", "i": ci})
                got, asked, boffs = drive(br, interp, evs, parts, a, b, nat)
            except Exception as ex:  # noqa: BLE001
                mm("synth-exception", k, [layout, parts, a, b], {"type_equal": False, "values_equal": False,
                                                                  "got_type": type(ex).__name__ + ": " + str(ex)[:300]})
                repart.append({"branch": k, "synth": ci, "error": type(ex).__name__})
                continue
            want_counts = [0 if j < 0 else bc["counts"][j] for j in layout]
            one_counts = [int(x) for x in ak.num(one, axis=1)]
            if one_counts != want_counts:
                mm("synth-one-basket-counts", k, [layout[:40], len(layout)], {"type_equal": True, "values_equal": False,
                                                            "got_type": str(one_counts)[:300], "want_type": str(want_counts)[:300]})
            if all(j >= 0 for j in layout) and key1 not in checked_one:
                checked_one.add(key1)
                dd = compare(one, full[k][np.array(layout)])
                if dd:
                    mm("synth-one-basket-values", k, [layout[:40], len(layout)], dd)
            d = compare(got, one[a:b])
            rec = {"branch": k, "synth": ci, "asked": asked, "boffs": {str(i): v for i, v in boffs.items()},
                   "counts": [int(x) for x in ak.num(got, axis=1)]}
            if kind == "cgem":
                rec["cg_type"] = cg_class(tstr(got))
                rec["cg_one_type"] = cg_class(tstr(one))
            if d:
                offs = np.cumsum([0] + parts)
                sel = loaded_baskets([int(x) for x in offs], a, b)
                d["all_empty_basket_selected"] = any(all(layout[j] < 0 for j in range(offs[i], offs[i + 1])) for i in sel)
                mm("synth", k, [layout if len(layout) <= 40 else layout[:40] + ["...", len(layout)], parts, a, b], d)
            repart.append(rec)
    if native_fh is not None:
        native_fh.close()
    return {"file": fname, "n": n, "full_digests": {k: [tstr(v)[:400], digest(v)] for k, v in full.items()},
            "mismatches": mism, "evaluations": n_eval, "hashes": hashes, "repart": repart,
            "chunk_lens": chunk_lens, "pybes3": pybes3.__file__, "native_index": native_index}


def run_concat(datadir, cases):
    import os
    mism = []
    hashes = []
    n_eval = 0
    cache = {}

    def rd(f, path):
        if (f, path) not in cache:
            cache[(f, path)] = uproot.open(os.path.join(datadir, f))["Event"][path].array()
        return cache[(f, path)]

    # first of all every file's branches once, file after file in the given order (a file with an all-empty collection may come before
    # one that has objects in it, or after): what a file reads as must not depend on the files read before it in the same interpreter
    for f, keys in cases.get("prepass") or []:
        for path in keys:
            n_eval += 1
            hashes.append(hashlib.sha1(json.dumps(["prepass", f, path]).encode()).hexdigest()[:16])
            try:
                rd(f, path)
            except Exception as ex:  # noqa: BLE001
                mism.append({"kind": "read-after-other-files-exception", "file": f, "branch": path, "detail": [], "type_equal": False, "values_equal": False,
                             "got_type": type(ex).__name__ + ": " + str(ex)[:200]})
    for c in cases["lists"]:
        files, path = c["files"], c["branch"]
        n_eval += 1
        hashes.append(hashlib.sha1(json.dumps(["concat", files, path]).encode()).hexdigest()[:16])
        spec = [{os.path.join(datadir, f): "Event/" + path} for f in files]
        try:
            got = uproot.concatenate(spec)
            if n_eval % 3 == 0:       # the package's own multi-file reader (alias of uproot.concatenate), files given as ONE ordered mapping
                import warnings
                import pybes3
                with warnings.catch_warnings():
                    warnings.simplefilter("ignore")
                    alt = pybes3.concatenate({os.path.join(datadir, f): "Event/" + path for f in files}) if len(set(files)) == len(files) else None
                if alt is not None and (len(alt) != len(got) or digest(alt[path.split("/")[-1]]) != digest(got[path.split("/")[-1]])):
                    mism.append({"kind": "concat-alias", "file": ",".join(files), "branch": path, "detail": [], "type_equal": True, "values_equal": False,
                                 "got_type": "pybes3.concatenate(mapping in this order) differs from uproot.concatenate of the same ordered files"})
        except Exception as ex:  # noqa: BLE001
            mism.append({"kind": "concat-exception", "file": ",".join(files), "branch": path, "detail": [],
                         "type_equal": False, "values_equal": False, "got_type": type(ex).__name__ + ": " + str(ex)[:300]})
            continue
        name = path.split("/")[-1]
        got = got[name]
        parts = [rd(f, path) for f in files]
        pos = 0
        bad = None
        types = {tstr(p) for p in parts}
        for f, p in zip(files, parts):
            seg = got[pos:pos + len(p)]
            ok = (len(seg) == len(p)) and (digest(seg) == digest(p) if tstr(seg) == tstr(p) else values_equal(seg, p))
            if not ok:
                bad = {"type_equal": tstr(seg) == tstr(p), "values_equal": False, "got_type": tstr(seg)[:300],
                       "want_type": tstr(p)[:300], "segment": f}
                break
            pos += len(p)
        if bad is None and pos != len(got):
            bad = {"type_equal": True, "values_equal": False, "got_len": len(got), "want_len": pos}
        if bad is None and len(types) == 1 and tstr(got) != next(iter(types)):
            bad = {"type_equal": False, "values_equal": True, "got_type": tstr(got)[:300], "want_type": next(iter(types))[:300]}
        if bad:
            mism.append({"kind": "concat", "file": ",".join(files), "branch": path, "detail": [], **bad})
    # one path STRING, two files in turn (the file at a path replaced between reads; the same relative name in two working directories):
    # a file is decoded with its OWN streamer information, whatever was read under that name before
    import shutil
    import tempfile
    pairs = cases.get("same_path_pairs") or []
    scratch = tempfile.mkdtemp(prefix="c02_samepath_", dir=os.getcwd()) if pairs else None
    cwd0 = os.getcwd()
    try:
        for fa, fb, keys in pairs:
            ext = os.path.splitext(fa)[1]
            for how in ("replaced", "chdir"):
                d = tempfile.mkdtemp(dir=scratch)
                if how == "replaced":
                    names = [os.path.join(d, "run" + ext)] * 2
                else:
                    os.mkdir(os.path.join(d, "a")); os.mkdir(os.path.join(d, "b")); names = ["run" + ext] * 2
                for k, (f, nm) in enumerate(zip((fa, fb), names)):
                    if how == "replaced":
                        shutil.copyfile(os.path.join(datadir, f), nm)
                    else:
                        os.chdir(os.path.join(d, "ab"[k])); shutil.copyfile(os.path.join(datadir, f), nm)
                    for path in keys:
                        n_eval += 1
                        hashes.append(hashlib.sha1(json.dumps(["samepath", how, fa, fb, k, path]).encode()).hexdigest()[:16])
                        want = rd(f, path)
                        try:
                            with uproot.open(nm) as fh:
                                got = fh["Event"][path].array()
                            ok = tstr(got) == tstr(want) and digest(got) == digest(want)
                            detail = {"got_type": tstr(got)[:200], "want_type": tstr(want)[:200]}
                        except Exception as ex:  # noqa: BLE001
                            ok, detail = False, {"got_type": type(ex).__name__ + ": " + str(ex)[:200]}
                        if not ok:
                            mism.append({"kind": "same-path-other-file:" + how, "file": f"{fa}->{fb}" if k else fa, "branch": path, "detail": [k], "type_equal": False,
                                         "values_equal": False, **detail})
                os.chdir(cwd0)
    finally:
        os.chdir(cwd0)
        if scratch:
            shutil.rmtree(scratch, ignore_errors=True)
    # the per-file reference reads of THIS process (made after other files were read in it), to be compared with each file's own process
    refs = {f + "|" + path: [tstr(v)[:400], digest(v)] for (f, path), v in cache.items()}
    return {"mismatches": mism, "evaluations": n_eval, "hashes": hashes, "reference_reads": refs}


def main():
    cmd = sys.argv[1]
    if cmd == "survey":
        out = survey(sys.argv[2])
    elif cmd == "file":
        out = run_file(sys.argv[2], sys.argv[3], json.load(open(sys.argv[4])))
    elif cmd == "concat":
        out = run_concat(sys.argv[2], json.load(open(sys.argv[3])))
    else:
        raise SystemExit("unknown command")
    json.dump(out, sys.stdout)


if __name__ == "__main__":
    main()
