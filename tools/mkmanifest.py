#!/usr/bin/env python3
"""Writes MANIFEST.json from tools/manifest.d/<ID>.json fragments (keys: text, note, technique, design; optional
quick_cmd/thorough_cmd overrides) and tools/not_applicable.json; always schema-valid."""
import glob, json, os
HERE = os.path.dirname(os.path.dirname(os.path.abspath(__file__)))
def main():
    CHECKS = {}
    for f in sorted(glob.glob(os.path.join(HERE, "tools", "manifest.d", "C*.json"))):
        CHECKS[os.path.basename(f)[:-5]] = json.load(open(f))
    props = [json.loads(l) for l in open(os.path.join(HERE, "properties.jsonl"))]
    na_file = os.path.join(HERE, "tools", "not_applicable.json")
    na = json.load(open(na_file)) if os.path.exists(na_file) else {}
    checks = []
    for p in props:
        pid = p["id"]
        if pid in CHECKS:
            c = CHECKS[pid]
            checks.append({
              "property_id": pid,
              "quick_cmd": c.get("quick_cmd", f"/venv/bin/python tools/check.py {pid} --tier quick"),
              "thorough_cmd": c.get("thorough_cmd", f"/venv/bin/python tools/check.py {pid} --tier thorough"),
              "evidence_file": f"/verif/evidence/{pid}.json",
              "replay_cmd_template": f"/venv/bin/python tools/check.py {pid} --replay {{path}}",
              "engine": "coq-proof",
              "level_claimed": {"category": "proof", "text": c["text"], "design_ref": c["design"]},
              "level_note": c["note"],
              "technique": c["technique"],
            })
    man = {
      "version": 1,
      "setup_cmd": "/venv/bin/python tools/setup.py",
      "hooks": {"guard": "PYBES3_VERIF", "enable": "no source hooks are needed; checks import /repo/src via PYTHONPATH and "
                "compile the C++ sources natively against a pybind11 stand-in",
                "baseline_off_cmd": "cd /repo && /venv/bin/python -m pytest -ra -q -p no:cacheprovider --timeout=900 --continue-on-collection-errors",
                "source_commits": [], "add_only": True},
      "engines": [{"name": "coq-proof", "path": "/verif/tools/check.py", "serves_properties": sorted(CHECKS),
                   "kind_free_text": "Coq 8.16.1 theorems over regenerated / hand models + checked correspondence with the implementation"}],
      "checks": checks,
      "not_applicable": [{"property_id": p["id"], "reason": na.get(p["id"], "check not yet built in this round (planned, see DESIGN.md §4)")}
                         for p in props if p["id"] not in CHECKS],
      "notes": "All checks: tools/check.py <ID> --tier quick|thorough; evidence in evidence/<ID>.json; known findings in known_findings.txt",
    }
    json.dump(man, open(os.path.join(HERE, "MANIFEST.json"), "w"), indent=1)
if __name__ == "__main__":
    main()
