#!/usr/bin/env python3
"""Writes MANIFEST.json from the table below (kept in one place so it is always schema-valid)."""
import json, os
HERE = os.path.dirname(os.path.dirname(os.path.abspath(__file__)))
CHECKS = {
 "C05": dict(
   text="Machine-checked proof (Coq 8.16.1) over a Gallina model REGENERATED on every run from digi_id.py by a fail-closed "
        "ast translator: decode(encode a) = a mod field-width for all integer arguments (round trip, truncation, no leak, "
        "tag exclusivity) and recomposition of every tagged 32-bit word, for all six encoders; tie additionally checked by "
        "evaluating model (vm_compute) and numba kernels on the same generated cases under all integer dtypes, and by a "
        "complete sweep of the implementation over every field space.",
   note="Trusted: Coq kernel+vm_compute; translator rules (numba integer semantics = Z after final mask/cast); "
        "theorems are axiom-free (Print Assumptions: closed). Inputs restricted to 64-bit representable integers.",
   technique="Coq proof over regenerated model (ast->Gallina) + vm_compute correspondence",
   design="DESIGN.md §4 C05"),
 "C08": dict(
   text="Machine-checked proof (Coq 8.16.1): the gid kernels (ast->Gallina) and the COMPLETE geometry tables are regenerated from "
        "the working tree on every run; complete computations inside Coq show get_emc_gid / get_mdc_gid enumerate the documented "
        "element order onto 0..6239 / 0..6795 (density, range, monotone order), that the tables list exactly those elements in gid "
        "order, that the maps are mutually inverse over all real elements, and (with the C05 codec lemmas) that the gid parsed from a "
        "digi identifier equals the gid of its fields. Python glue (parse_*) is tied by an exhaustive correspondence on all elements.",
   note="Trusted: Coq kernel+vm_compute; translators (py2coq_bits, gen_geom incl. numpy.load of the .npz); hand model of parse_* "
        "glue checked exhaustively; theorems axiom-free.",
   technique="Coq proof (complete finite computation) over regenerated kernels+tables + exhaustive correspondence",
   design="DESIGN.md §4 C08"),
}
NOT_YET = {}
def main():
    props = [json.loads(l) for l in open(os.path.join(HERE, "properties.jsonl"))]
    na_file = os.path.join(HERE, "tools", "not_applicable.json")
    na = json.load(open(na_file)) if os.path.exists(na_file) else {}
    checks = []
    for p in props:
        pid = p["id"]
        if pid in CHECKS:
            c = CHECKS[pid]
            checks.append({
              "property_id": pid,
              "quick_cmd": f"/venv/bin/python tools/check.py {pid} --tier quick",
              "thorough_cmd": f"/venv/bin/python tools/check.py {pid} --tier thorough",
              "evidence_file": f"/verif/evidence/{pid}.json",
              "replay_cmd_template": f"/venv/bin/python tools/check.py {pid} --replay {{path}}",
              "engine": "coq-proof",
              "level_claimed": {"category": "proof", "text": c["text"], "design_ref": c["design"]},
              "level_note": c["note"],
              "technique": c["technique"],
            })
    man = {
      "version": 1,
      "setup_cmd": "/venv/bin/python tools/setup.py",
      "hooks": {"guard": "PYBES3_VERIF", "enable": "no source hooks are needed; checks import /repo/src via PYTHONPATH and "
                "compile the C++ sources natively against a pybind11 stand-in",
                "baseline_off_cmd": "cd /repo && /venv/bin/python -m pytest -ra -q -p no:cacheprovider --timeout=900 --continue-on-collection-errors",
                "source_commits": [], "add_only": True},
      "engines": [{"name": "coq-proof", "path": "/verif/tools/check.py", "serves_properties": sorted(CHECKS),
                   "kind_free_text": "Coq 8.16.1 theorems over regenerated / hand models + checked correspondence with the implementation"}],
      "checks": checks,
      "not_applicable": [{"property_id": p["id"], "reason": na.get(p["id"], "check not yet built in this round (planned, see DESIGN.md §4)")}
                         for p in props if p["id"] not in CHECKS],
      "notes": "All checks: tools/check.py <ID> --tier quick|thorough; evidence in evidence/<ID>.json; known findings in known_findings.txt",
    }
    json.dump(man, open(os.path.join(HERE, "MANIFEST.json"), "w"), indent=1)
if __name__ == "__main__":
    main()
