"""Shared machinery of the raw-data checks C03 / C04 / C15.

* structured generator of raw files / event streams (plain dicts mirroring the records of coq/Model/RawFormat.v),
* a Python mirror of the Gallina encoder that also labels every emitted word (used to build the adversarial stream and to
  name findings); the mirror is tied to the Gallina encoder on every run (Coq terms of the same structures are
  evaluated with vm_compute and the word lists compared),
* the adversarial stream (single-word replacements, truncations, random words),
* builders / batch runners: native working-tree raw_io.cc under ASan+UBSan (native/rawdrv.cc) and the extracted Gallina
  parser (coq/Extract/RawExtract.v + ocaml/rawmodel_drv.ml), canonicalisation of both outputs.
"""
from __future__ import annotations

import hashlib
import json
import os
import re
import shutil
import struct
import subprocess
from concurrent.futures import ThreadPoolExecutor
from pathlib import Path

import vlib

FILE_START, FILE_NAME, RUN_PARAMS, DATA_SEP = 0x1234AAAA, 0x1234AABB, 0x1234BBBB, 0x1234CCCC
TAIL_START, FILE_END = 0x1234DDDD, 0x1234EEEE
FULL_EVENT, SUB_DETECTOR, ROS, ROB, ROD = 0xAA1234AA, 0xBB1234BB, 0xCC1234CC, 0xDD1234DD, 0xEE1234EE
EVT_VERSION = 0x3000000
DETS = ["mdc", "tof", "emc", "muc", "trg", "ef"]  # selmask bit order
DET_ID = {"mdc": 0xA1, "tof": 0xA2, "emc": 0xA3, "muc": 0xA4, "trg": 0xA5, "ef": 0x7C}
SET_ORDER = ["ef", "mdc", "tof", "emc", "muc", "trg"]  # ascending id = std::set order = dict key order
M32 = (1 << 32) - 1

# ------------------------------------------------------------------------------------------------ encoder mirror


class W:
    """word list with one label per word"""

    def __init__(self):
        self.w, self.lab = [], []

    def put(self, label, *ws):
        for x in ws:
            self.w.append(x)
            self.lab.append(label)

    def ext(self, other):
        self.w += other.w
        self.lab += other.lab


def enc_rob(r):
    o = W()
    hs = 7 + len(r["status"]) + len(r["spec"])
    body_n = len(r["rstatus"]) + len(r["data"])
    o.put("rob.flag", ROB); o.put("rob.total", hs + 9 + body_n + 3); o.put("rob.hsize", hs)
    o.put("rob.version", r["ver"]); o.put("rob.source", r["src"]); o.put("rob.nstatus", len(r["status"]))
    o.put("rob.status", *r["status"]); o.put("rob.nspec", len(r["spec"])); o.put("rob.spec", *r["spec"])
    o.put("rod.flag", ROD); o.put("rod.hsize", 9); o.put("rod.hdr7", *r["rod7"])
    if r["pos"] == 0:
        o.put("rod.body_status", *r["rstatus"]); o.put("rod.body_data", *r["data"])
    else:
        o.put("rod.body_data", *r["data"]); o.put("rod.body_status", *r["rstatus"])
    o.put("rod.nstatus", len(r["rstatus"])); o.put("rod.ndata", len(r["data"])); o.put("rod.pos", r["pos"])
    return o


def enc_ros(r):
    o = W()
    hs = 10 + len(r["status"])
    body = W()
    for b in r["robs"]:
        body.ext(enc_rob(b))
    o.put("ros.flag", ROS); o.put("ros.total", hs + len(body.w)); o.put("ros.hsize", hs)
    o.put("ros.version", r["ver"]); o.put("ros.source", r["src"]); o.put("ros.nstatus", len(r["status"]))
    o.put("ros.status", *r["status"]); o.put("ros.nspec", 3); o.put("ros.spec", *r["spec3"])
    o.ext(body)
    return o


def enc_subdet(s):
    o = W()
    hs = 7 + len(s["status"]) + len(s["spec"])
    body = W()
    if "raw" in s:
        body.put("sd.rawbody", *s["raw"])
    else:
        for r in s["ros"]:
            body.ext(enc_ros(r))
    o.put("sd.flag", SUB_DETECTOR); o.put("sd.total", hs + len(body.w)); o.put("sd.hsize", hs)
    o.put("sd.version", s["ver"]); o.put("sd.source", s["src"]); o.put("sd.nstatus", len(s["status"]))
    o.put("sd.status", *s["status"]); o.put("sd.nspec", len(s["spec"])); o.put("sd.spec", *s["spec"])
    o.ext(body)
    return o


def enc_event(e):
    o = W()
    hs = 17 + len(e["status"])
    body = W()
    for s in e["subs"]:
        body.ext(enc_subdet(s))
    o.put("evt.flag", FULL_EVENT); o.put("evt.total", hs + len(body.w)); o.put("evt.hsize", hs)
    o.put("evt.version", EVT_VERSION); o.put("evt.source", e["src"]); o.put("evt.nstatus", len(e["status"]))
    o.put("evt.status", *e["status"]); o.put("evt.nspec", 10); o.put("evt.hdr", *e["hdr"])
    o.put("evt.spare", *e["spare"]); o.put("evt.tags", *e["tags"])
    o.ext(body)
    return o


def enc_block(b):
    o = W()
    body = W()
    for e in b["events"]:
        body.ext(enc_event(e))
    o.put("sep.flag", DATA_SEP); o.put("sep.w1", b["w1"]); o.put("sep.w2", b["w2"]); o.put("sep.size", 4 * len(body.w))
    o.ext(body)
    return o


def pack_bytes(bs, pad):
    ws = []
    for i in range(0, len(bs), 4):
        ch = list(bs[i:i + 4])
        ch += [pad] * (4 - len(ch))
        ws.append(ch[0] | ch[1] << 8 | ch[2] << 16 | ch[3] << 24)
    return ws


def enc_file_header(f):
    return ([FILE_START, f["hdr1"], f["version"], f["number"], f["date"], f["time"], f["hdr6"], f["hdr7"]]
            + [FILE_NAME, len(f["name"])] + pack_bytes(f["name"], f["name_pad"])
            + [len(f["tag"])] + pack_bytes(f["tag"], f["tag_pad"])
            + [RUN_PARAMS, f["rp1"]] + list(f["run_params"]))


def enc_file_tail(f):
    return [TAIL_START] + list(f["tail1"]) + [f["entries"]] + list(f["tail2"]) + [FILE_END]


def enc_file(f):
    ws = enc_file_header(f)
    for b in f["blocks"]:
        ws += enc_block(b).w
    return ws + enc_file_tail(f)


def words_to_bytes(ws):
    return struct.pack("<%dI" % len(ws), *ws)


# ------------------------------------------------------------------------------------------------ Coq terms


def zl(xs):
    return "[" + "; ".join(str(x) for x in xs) + "]"


def coq_rob(r):
    return ("{| rb_version := %d; rb_source := %d; rb_status := %s; rb_spec := %s; rd_hdr7 := %s; rd_status := %s; "
            "rd_data := %s; rd_pos := %d |}" % (r["ver"], r["src"], zl(r["status"]), zl(r["spec"]), zl(r["rod7"]),
                                                zl(r["rstatus"]), zl(r["data"]), r["pos"]))


def coq_ros(r):
    return ("{| rs_version := %d; rs_source := %d; rs_status := %s; rs_spec3 := %s; rs_robs := [%s] |}"
            % (r["ver"], r["src"], zl(r["status"]), zl(r["spec3"]), "; ".join(coq_rob(b) for b in r["robs"])))


def coq_subdet(s):
    body = "SDRaw %s" % zl(s["raw"]) if "raw" in s else "SDRos [%s]" % "; ".join(coq_ros(r) for r in s["ros"])
    return ("{| sd_version := %d; sd_source := %d; sd_status := %s; sd_spec := %s; sd_body := %s |}"
            % (s["ver"], s["src"], zl(s["status"]), zl(s["spec"]), body))


def coq_event(e):
    h, t = e["hdr"], e["tags"]
    return ("{| ev_source := %d; ev_status := %s; ev_time := %d; ev_no := %d; ev_run := %d; ev_l1 := %d; ev_spare := %s; "
            "ev_tag1 := %d; ev_tag2 := %d; ev_tag3 := %d; ev_tag4 := %d; ev_subs := [%s] |}"
            % (e["src"], zl(e["status"]), h[0], h[1], h[2], h[3], zl(e["spare"]), t[0], t[1], t[2], t[3],
               ";\n   ".join(coq_subdet(s) for s in e["subs"])))


def coq_block(b):
    return "{| bk_w1 := %d; bk_w2 := %d; bk_events := [%s] |}" % (b["w1"], b["w2"], ";\n  ".join(coq_event(e) for e in b["events"]))


def coq_file(f):
    return ("{| f_hdr1 := %d; f_version := %d; f_number := %d; f_date := %d; f_time := %d; f_hdr6 := %d; f_hdr7 := %d; "
            "f_name := %s; f_name_pad := %d; f_tag := %s; f_tag_pad := %d; f_rp1 := %d; f_run_params := %s; "
            "f_blocks := [%s]; f_tail1 := %s; f_entries := %d; f_tail2 := %s |}"
            % (f["hdr1"], f["version"], f["number"], f["date"], f["time"], f["hdr6"], f["hdr7"], zl(f["name"]), f["name_pad"],
               zl(f["tag"]), f["tag_pad"], f["rp1"], zl(f["run_params"]), ";\n ".join(coq_block(b) for b in f["blocks"]),
               zl(f["tail1"]), f["entries"], zl(f["tail2"])))


def coq_sel(mask):
    return "[" + "; ".join(d.capitalize() for i, d in enumerate(DETS) if mask >> i & 1) + "]"


# ------------------------------------------------------------------------------------------------ generator


def rword(rng):
    r = rng.random()
    if r < 0.15:
        return rng.choice([0, 1, M32, 0x7FFFFFFF, 0x80000000, ROB, ROD, ROS, SUB_DETECTOR, FULL_EVENT, DATA_SEP])
    if r < 0.5:
        return rng.randrange(0, 64)
    return rng.getrandbits(32)


def rwords(rng, hi, p_empty=0.5):
    if rng.random() < p_empty:
        return []
    return [rword(rng) for _ in range(rng.randint(1, hi))]


def gen_data(rng, det_id, n):
    """n data words for one ROD of a sub-detector: few channels (so that T/Q halves and duplicates meet), all widths"""
    ws = []
    if det_id == 0xA1:
        pool = [rng.randrange(1 << 14) for _ in range(rng.randint(1, 4))] + [0, (1 << 14) - 1]
        for _ in range(n):
            if rng.random() < 0.1:
                ws.append(rng.getrandbits(32)); continue
            ws.append(rng.choice(pool) << 18 | rng.randrange(2) << 17 | (rng.random() < 0.3) << 16 | rng.choice([0, 0xFFFF, rng.getrandbits(16)]))
    elif det_id == 0xA2:
        pool = [rng.randrange(1 << 10) for _ in range(rng.randint(1, 4))] + [0, (1 << 10) - 1]
        for _ in range(n):
            if rng.random() < 0.1:
                ws.append(rng.getrandbits(32)); continue
            ws.append(rng.randrange(2) << 31 | rng.choice(pool) << 21 | rng.randrange(2) << 20 | (rng.random() < 0.3) << 19
                      | rng.getrandbits(4) << 15 | rng.choice([0, 0x7FFF, rng.getrandbits(15)]))
    else:
        for _ in range(n):
            ws.append(rng.choice([0, M32, rng.getrandbits(32), rng.getrandbits(32), rng.getrandbits(20)]))
    return ws


def gen_rob(rng, det_id, big=False):
    n = rng.choice([0, 0, 1, 2, 3, 5, 8]) if not big else rng.randint(5, 30)
    return {"ver": rword(rng), "src": rword(rng), "status": rwords(rng, 3, 0.6), "spec": rwords(rng, 3, 0.6),
            "rod7": [rword(rng) for _ in range(7)], "rstatus": rwords(rng, 3, 0.4), "data": gen_data(rng, det_id, n),
            "pos": rng.choice([0, 0, 1, 1, 2, M32, rng.getrandbits(32)])}


def gen_ros(rng, det_id):
    return {"ver": rword(rng), "src": rword(rng), "status": rwords(rng, 3, 0.6), "spec3": [rword(rng) for _ in range(3)],
            "robs": [gen_rob(rng, det_id) for _ in range(rng.choice([0, 1, 1, 2, 2, 3, 4]))]}


def gen_subdet(rng, det_id=None):
    if det_id is None:
        det_id = rng.choice([0xA1, 0xA1, 0xA2, 0xA2, 0xA3, 0xA4, 0xA5, 0x7C, 0x99, 0, 0xFFFF, 0xA6, rng.randrange(1 << 16)])
    s = {"ver": rword(rng), "src": det_id << 16 | rng.choice([0, 0xFFFF, rng.getrandbits(16)]),
         "status": rwords(rng, 3, 0.6), "spec": rwords(rng, 3, 0.6)}
    known = det_id in DET_ID.values()
    if not known and rng.random() < 0.5:
        s["raw"] = rwords(rng, 12, 0.2)
    else:
        s["ros"] = [gen_ros(rng, det_id) for _ in range(rng.choice([0, 1, 1, 2, 3]))]
    return s


def gen_event(rng, nsub=None):
    if nsub is None:
        nsub = rng.choice([0, 1, 2, 3, 4, 5, 6])
    return {"src": rword(rng), "status": rwords(rng, 3, 0.6), "hdr": [rng.getrandbits(32) for _ in range(4)],
            "spare": [rword(rng), rword(rng)], "tags": [rng.choice([0, M32, rng.getrandbits(32)]) for _ in range(4)],
            "subs": [gen_subdet(rng) for _ in range(nsub)]}


def gen_block(rng, nev=None, small=False):
    if nev is None:
        nev = rng.choice([1, 1, 1, 2, 3])
    return {"w1": rword(rng), "w2": rword(rng),
            "events": [gen_event(rng, nsub=rng.choice([0, 1, 2]) if small else None) for _ in range(nev)]}


def gen_file(rng, nblocks=None, name=None, tag=None, small=False):
    if nblocks is None:
        nblocks = rng.choice([1, 2, 3, 4, 5, 7])
    rb = lambda n: [rng.randrange(33, 127) for _ in range(n)]
    blocks = [gen_block(rng, small=small) for _ in range(nblocks)]
    return {"hdr1": rword(rng), "version": rword(rng), "number": rword(rng), "date": rword(rng), "time": rword(rng),
            "hdr6": rword(rng), "hdr7": rword(rng),
            "name": rb(rng.choice([0, 1, 3, 4, 5, 7, 8, 13, 65])) if name is None else name, "name_pad": rng.choice([32, 0, 10]),
            "tag": rb(rng.choice([0, 1, 2, 4, 6, 9])) if tag is None else tag, "tag_pad": rng.choice([32, 0]),
            "rp1": rword(rng), "run_params": [rword(rng) for _ in range(7)], "blocks": blocks,
            "tail1": [rword(rng) for _ in range(3)], "entries": sum(len(b["events"]) for b in blocks),
            "tail2": [rword(rng) for _ in range(4)]}


def gen_items(rng, with_sep=None, nev=None, small=False):
    """an event stream as handed to the C++ parser: [(separator words (a,b,c) | None, event)]"""
    items = []
    for _ in range(rng.choice([1, 1, 2, 3]) if nev is None else nev):
        e = gen_event(rng, nsub=rng.choice([0, 1, 2, 3]) if small else None)
        sep = rng.random() < 0.5 if with_sep is None else with_sep
        items.append(((rword(rng), rword(rng), rng.choice([4 * len(enc_event(e).w), rword(rng)])) if sep else None, e))
    return items


def enc_items(items):
    o = W()
    for sep, e in items:
        if sep is not None:
            o.put("sep.flag", DATA_SEP); o.put("sep.w1", sep[0]); o.put("sep.w2", sep[1]); o.put("sep.size", sep[2])
        o.ext(enc_event(e))
    return o


def gen_stream(rng, with_sep=None):
    items = gen_items(rng, with_sep)
    return [e for _, e in items], enc_items(items)


def coq_items(items):
    return "[" + ";\n ".join("(%s, %s)" % ("Some (%d, %d, %d)" % sep if sep is not None else "None", coq_event(e)) for sep, e in items) + "]"


# ------------------------------------------------------------------------------------------------ direct Python statement
# of what a stream means (used only by the failing-input searches; the checked specification is the Gallina one)


def _merge(words, idf, tqf, sigf, ovf):
    m = {}
    for w in words:
        v = m.setdefault(idf(w), [0, 0, 0])
        v[tqf(w)] = sigf(w)
        v[2] |= ovf(w)
    return [[k] + m[k] for k in sorted(m)]


def py_rows(det, words):
    if det == "mdc":
        return _merge(words, lambda w: w >> 18 & 0x3FFF, lambda w: w >> 17 & 1, lambda w: w & 0xFFFF, lambda w: w >> 16 & 1)
    if det == "tof":
        return _merge(words, lambda w: w >> 21 & 0x3FF, lambda w: w >> 20 & 1, lambda w: w & 0x7FFF, lambda w: w >> 19 & 1)
    if det == "emc":
        return [[w >> 19 & 0x1FFF, w >> 13 & 0x3F, w & 0x7FF, w >> 11 & 3] for w in words]
    if det == "muc":
        return [[w >> 16 & 0x7FF, w & 0xFFFF] for w in words]
    return [[w] for w in words]


def py_columnar(dets, events):
    """dets: names in any order; result in canonical form (set order)"""
    hdr = [list(e["hdr"]) + list(e["tags"]) for e in events]
    out = []
    for d in SET_ORDER:
        if d not in dets:
            continue
        offs, rows = [0], []
        for e in events:
            for s in e["subs"]:
                if (s["src"] >> 16) & 0xFFFF == DET_ID[d] and "ros" in s:
                    for r in s["ros"]:
                        for b in r["robs"]:
                            rows += py_rows(d, b["data"])
            offs.append(len(rows))
        out.append([d, offs, rows])
    return {"hdr": hdr, "dets": out}


def mask_dets(mask):
    ds = [d for i, d in enumerate(DETS) if mask >> i & 1]
    return ds if ds else ["mdc", "tof", "emc", "muc"]


# ------------------------------------------------------------------------------------------------ adversarial stream

STRUCT_SUFFIX = ("flag", "total", "hsize", "nstatus", "nspec", "ndata", "pos", "size", "version", "source")


def structural(label):
    return label.endswith(STRUCT_SUFFIX)


def adversarial(rng, o: W, budget=None):
    """cases derived from one well-formed labelled stream: (kind, label, words)"""
    base = o.w
    n = len(base)
    out = []
    idx = [i for i in range(n) if structural(o.lab[i])]
    for i in idx:
        rem = n - i
        for v in {0, 1, rem - 1, rem, rem + 1, (1 << 31) - 1, M32}:
            v &= M32
            if v != base[i]:
                out.append(("replace", o.lab[i], base[:i] + [v] + base[i + 1:]))
    for k in range(n):
        out.append(("truncate", o.lab[k], base[:k]))
    others = [i for i in range(n) if not structural(o.lab[i])]
    for i in rng.sample(others, min(len(others), 12)):
        out.append(("replace", o.lab[i], base[:i] + [rng.choice([0, M32, ROB, ROD, rng.getrandbits(32)])] + base[i + 1:]))
    for _ in range(8):
        i = rng.randrange(n)
        out.append(("replace-random", o.lab[i], base[:i] + [rng.getrandbits(32)] + base[i + 1:]))
    if budget is not None and len(out) > budget:
        out = rng.sample(out, budget)
    return out


def adversarial_pairs(rng, o: W):
    """two neighbouring size / count / marker words of one fragment header corrupted together (e.g. total size AND header size 0):
    consistency checks between two fields can hide what a single replacement cannot reach"""
    base = o.w
    n = len(base)
    idx = [i for i in range(n) if structural(o.lab[i])]
    out = []
    for a, i in enumerate(idx):
        for j in idx[a + 1:a + 3]:
            if j - i > 2:
                continue
            rem = n - i
            for v1, v2 in ((0, 0), (0, 1), (1, 0), (1, 1), (rem & M32, 0), (2, 2), (M32, M32)):
                if (v1, v2) != (base[i], base[j]):
                    w = list(base); w[i] = v1; w[j] = v2
                    out.append(("replace-pair", o.lab[i] + "+" + o.lab[j], w))
    return out


def random_buffers(rng, k):
    out = []
    flags = [FULL_EVENT, SUB_DETECTOR, ROS, ROB, ROD, DATA_SEP, EVT_VERSION, 10, 3, 9, 0, 1, 2, 7, 17, 0xA10000, 0xA30000]
    for _ in range(k):
        n = rng.choice([0, 1, 2, 5, 17, 18, 30, 60])
        out.append(("random", "random", [rng.choice(flags) if rng.random() < 0.7 else rng.getrandbits(32) for _ in range(n)]))
    return out


# ------------------------------------------------------------------------------------------------ builders

NATIVE_FLAGS = ["-std=c++20", "-g", "-O1", "-fsanitize=address,undefined", "-fno-sanitize-recover=undefined",
                "-D_GLIBCXX_ASSERTIONS"]


def src_digest(paths):
    h = hashlib.sha1()
    for p in paths:
        h.update(Path(p).read_bytes())
    return h.hexdigest()[:16]


def build_native(outdir: Path):
    """compile the working tree's raw_io.cc (+ native/rawdrv.cc) under ASan/UBSan; returns (binary path | None, log)"""
    cpp = vlib.SRC / "besio" / "cpp"
    outdir.mkdir(parents=True, exist_ok=True)
    srcs = [cpp / "raw_io.cc", cpp / "raw_io.hh", vlib.VERIF / "native" / "rawdrv.cc",
            vlib.VERIF / "native" / "shim" / "pybind11" / "pybind11.h"]
    exe = outdir / ("rawdrv_" + src_digest(srcs))
    if exe.exists():
        return exe, "cached"
    cmd = ["clang++", *NATIVE_FLAGS, "-I", str(vlib.VERIF / "native" / "shim"), "-I", str(cpp),
           str(cpp / "raw_io.cc"), str(vlib.VERIF / "native" / "rawdrv.cc"), "-o", str(exe) + ".tmp%d" % os.getpid()]
    rc, so, se = vlib.sh(cmd, timeout=300)
    if rc != 0:
        return None, (se or so)[-3000:]
    os.replace(str(exe) + ".tmp%d" % os.getpid(), exe)
    return exe, "built"


def build_abi(outdir: Path):
    """shared object with a C ABI around the working tree's raw_io.cc (no sanitizers) for the ctypes route"""
    cpp = vlib.SRC / "besio" / "cpp"
    outdir.mkdir(parents=True, exist_ok=True)
    srcs = [cpp / "raw_io.cc", cpp / "raw_io.hh", vlib.VERIF / "native" / "rawabi.cc",
            vlib.VERIF / "native" / "shim" / "pybind11" / "pybind11.h"]
    so = outdir / ("librawabi_" + src_digest(srcs) + ".so")
    if so.exists():
        return so, "cached"
    tmp = str(so) + ".tmp%d" % os.getpid()
    cmd = ["clang++", "-std=c++20", "-O1", "-fPIC", "-shared", "-I", str(vlib.VERIF / "native" / "shim"), "-I", str(cpp),
           str(cpp / "raw_io.cc"), str(vlib.VERIF / "native" / "rawabi.cc"), "-o", tmp]
    rc, so_, se = vlib.sh(cmd, timeout=300)
    if rc != 0:
        return None, (se or so_)[-3000:]
    os.replace(tmp, so)
    return so, "built"


def build_model(outdir: Path):
    """extract the Gallina model (coq/Extract/RawExtract.v) and build the OCaml driver; returns (path | None, log)"""
    outdir.mkdir(parents=True, exist_ok=True)
    srcs = [vlib.COQ / "Model" / "RawFormat.v", vlib.COQ / "Model" / "RawParser.v", vlib.COQ / "Model" / "RawReader.v",
            vlib.COQ / "Extract" / "RawExtract.v", vlib.VERIF / "ocaml" / "rawmodel_drv.ml"]
    srcs = [s for s in srcs if s.exists()]
    d = outdir / ("model_" + src_digest(srcs))
    exe = d / "rawmodel_drv"
    if exe.exists():
        return exe, "cached"
    tmp = outdir / ("model_tmp%d" % os.getpid())
    shutil.rmtree(tmp, ignore_errors=True)
    tmp.mkdir(parents=True)
    rc, so, se = vlib.sh(["coqc", "-R", str(vlib.COQ / "Lib"), "PV.Lib", "-R", str(vlib.COQ / "Model"), "PV.Model",
                          "-o", str(tmp / "RawExtract.vo"), str(vlib.COQ / "Extract" / "RawExtract.v")], timeout=300, cwd=tmp)
    if rc != 0:
        return None, "extraction failed: " + (se or so)[-2000:]
    shutil.copy(vlib.VERIF / "ocaml" / "rawmodel_drv.ml", tmp / "rawmodel_drv.ml")
    rc, so, se = vlib.sh(["ocamlfind", "ocamlopt", "-w", "-a", "rawmodel.mli", "rawmodel.ml", "rawmodel_drv.ml", "-o",
                          "rawmodel_drv"], timeout=300, cwd=tmp)
    if rc != 0:
        return None, "ocaml build failed: " + (se or so)[-2000:]
    shutil.rmtree(d, ignore_errors=True)
    os.replace(tmp, d)
    return exe, "built"


# ------------------------------------------------------------------------------------------------ batch runners


def _run_lines(cmd, lines, timeout, env=None):
    p = subprocess.run(cmd, input="\n".join(lines) + "\n", capture_output=True, text=True, timeout=timeout, env=env)
    out = p.stdout.split("\n")
    if out and out[-1] == "":
        out.pop()
    return out, p.stderr


def run_batch(cmd, lines, nproc=16, timeout=900, env=None):
    """run a line-protocol driver over `lines`, split over nproc processes; answers in order (None where missing)"""
    if not lines:
        return []
    nproc = max(1, min(nproc, len(lines) // 8 or 1))
    chunks = [lines[i::nproc] for i in range(nproc)]
    with ThreadPoolExecutor(nproc) as ex:
        res = list(ex.map(lambda ch: _run_lines(cmd, ch, timeout, env), chunks))
    out = [None] * len(lines)
    for k, (o, _) in enumerate(res):
        for j, a in enumerate(o):
            if k + j * nproc < len(lines):
                out[k + j * nproc] = a
    return out


ASAN_ENV = {"ASAN_OPTIONS": "symbolize=0:detect_leaks=0:allocator_may_return_null=0:max_allocation_size_mb=2048:"
                            "abort_on_error=0:print_legend=0", "UBSAN_OPTIONS": "symbolize=0:print_stacktrace=0"}


def run_native(exe, cases, case_timeout=10):
    """cases: list of (selmask, words).  Returns canonical outcomes:
       ("ok", canon) | ("exc", msg) | ("san", kind, [pcs]) | ("timeout",) | ("harness", text)"""
    lines = ["%d %d %s" % (m, len(w), " ".join(map(str, w))) for m, w in cases]
    env = dict(os.environ); env.update(ASAN_ENV)
    raw = run_batch([str(exe), "--batch", str(case_timeout)], lines, env=env)
    return [parse_native(a) for a in raw]


def run_model(exe, cases, chk):
    lines = ["%d %d %d %s" % (1 if chk else 0, m, len(w), " ".join(map(str, w))) for m, w in cases]
    raw = run_batch([str(exe)], lines)
    return [parse_model(a) for a in raw]


EXPECT_KEYS = {"mdc": (["id", "adc", "tdc", "overflow"], ["u2", "u2", "u2", "u1"]),
               "tof": (["id", "adc", "tdc", "overflow"], ["u2", "u2", "u2", "u1"]),
               "emc": (["id", "adc", "tdc", "measure"], ["u2", "u2", "u2", "u1"]),
               "muc": (["id", "fec"], ["u2", "u2"])}
ROW_ORDER = {"mdc": ["id", "tdc", "adc", "overflow"], "tof": ["id", "tdc", "adc", "overflow"],
             "emc": ["id", "tdc", "adc", "measure"], "muc": ["id", "fec"]}
HDR_KEYS = ["evt_time", "evt_no", "run_no", "l1_id", "evt_tag1", "evt_tag2", "evt_tag3", "evt_tag4"]


def canon_native_dict(d):
    """the dict returned by py_read_bes_raw (as dumped by the stand-in) -> canonical {"hdr": rows, "dets": [[name, offsets, rows]]};
    key order and dtypes are part of what is compared (returned as `shape` problems)"""
    problems = []
    keys = list(d.keys())
    if not keys or keys[0] != "evt_header":
        problems.append("first key is not evt_header: %s" % keys)
    h = d.get("evt_header", {})
    if list(h.keys()) != HDR_KEYS or any(v["d"] != "u4" for v in h.values()):
        problems.append("evt_header keys/dtypes: %s" % [(k, v.get("d")) for k, v in h.items()])
    cols = [h[k]["a"] for k in h]
    hdr = [list(r) for r in zip(*cols)] if cols else []
    if cols and len({len(c) for c in cols}) != 1:
        problems.append("evt_header columns of different length")
    dets = []
    for k in keys[1:]:
        offs, data = d[k]
        if offs["d"] != "u4":
            problems.append(f"{k} offsets dtype {offs['d']}")
        if k in EXPECT_KEYS:
            ks, dts = EXPECT_KEYS[k]
            if list(data.keys()) != ks or [data[x]["d"] for x in data] != dts:
                problems.append(f"{k} columns {[(x, data[x]['d']) for x in data]}")
            try:
                cs = [data[x]["a"] for x in ROW_ORDER[k]]
            except KeyError:
                cs = [v["a"] for v in data.values()]
            if len({len(c) for c in cs}) != 1:
                problems.append(f"{k} columns of different length")
            rows = [list(r) for r in zip(*cs)]
        else:
            if data["d"] != "u4":
                problems.append(f"{k} data dtype {data['d']}")
            rows = [[x] for x in data["a"]]
        dets.append([k, offs["a"], rows])
    return {"hdr": hdr, "dets": dets}, problems


def parse_native(a):
    if a is None:
        return ("harness", "no answer")
    if a.startswith("OK "):
        canon, problems = canon_native_dict(json.loads(a[3:]))
        if problems:
            return ("ok", canon, problems)
        return ("ok", canon)
    if a.startswith("EXC "):
        return ("exc", a[4:])
    if a.startswith("SAN "):
        t = a.split()
        if t[1] == "harness-failure":
            return ("harness", a)
        return ("san", t[1], t[2:])
    if a == "TIMEOUT":
        return ("timeout",)
    return ("harness", a)


ERR_TEXT = {
    "EEvtFlag": "Invalid event header flag", "ESubFlag": "Invalid sub-detector flag", "ERosFlag": "Invalid ROS flag",
    "ERobFlag": "Invalid ROB flag", "ERodFlag": "Invalid ROD flag", "EEvtSize": "Invalid event size",
    "EBadName": "Invalid sub-detector name: xyz", "EEnd": "Unexpected end of raw data",
    "ERodRange": "Invalid ROD status/data count",
}


def err_text(name, arg=None):
    if name == "EEvtVersion":
        return "Invalid event format version: expecting 0x3000000 but get %s" % arg
    if name == "EEvtSpec":
        return "Invalid number of special units: expecting 10 but get %s" % arg
    if name == "ERosSpec":
        return "Invalid number of special units: expecting 3 but get %s" % arg
    return ERR_TEXT.get(name, name)


def parse_model(a):
    """-> ("ok", canon) | ("exc", message text of the C++ exception) | ("oob", kind, index) | ("fuel",)"""
    if a is None:
        return ("harness", "no answer")
    if a.startswith("OK "):
        return ("ok", json.loads(a[3:]))
    if a.startswith("THROW "):
        t = a.split()
        return ("exc", err_text(t[1], t[2] if len(t) > 2 else None), t[1], t[2] if len(t) > 2 else None)
    if a.startswith("OOB "):
        t = a.split()
        return ("oob", t[1], int(t[2]))
    if a == "FUEL":
        return ("fuel",)
    return ("harness", a)


def agree(model, native):
    """outcome-class + value agreement between model and native; None when they agree, else a description"""
    mk, nk = model[0], native[0]
    if mk == "ok" and nk == "ok":
        if len(native) > 2:
            return "shape: " + "; ".join(native[2])
        return None if model[1] == native[1] else "arrays differ"
    if mk == "exc" and nk == "exc":
        return None if model[1] == native[1] else "exception text differs: model %r native %r" % (model[1], native[1])
    if mk == "oob" and nk == "san":
        return None
    if mk == "fuel" and nk == "timeout":
        return None
    return "outcome class differs: model %s native %s" % (model[:2] if mk != "ok" else "ok", native[:2] if nk != "ok" else "ok")


def symbolize(exe, pcs):
    """resolve raw pcs of the native binary to function names (one llvm-symbolizer call)"""
    pcs = sorted(set(pcs))
    if not pcs:
        return {}
    tool = shutil.which("llvm-symbolizer") or shutil.which("llvm-symbolizer-14")
    if not tool:
        return {}
    rc, so, se = vlib.sh([tool, "--obj=" + str(exe), "--functions=short", "--no-inlines", *pcs], timeout=120)
    res = {}
    blocks = [b for b in so.strip().split("\n\n") if b.strip()]
    for pc, b in zip(pcs, blocks):
        ls = b.strip().split("\n")
        res[pc] = (ls[0].strip(), ls[1].strip() if len(ls) > 1 else "")
    return res


# ------------------------------------------------------------------------------------------------ answers as Coq terms

COQ_DET = {"mdc": "Mdc", "tof": "Tof", "emc": "Emc", "muc": "Muc", "trg": "Trg", "ef": "Ef"}
COQ_OOB = {"read": "OobRead", "bulk": "OobBulk", "erase_front": "OobEraseFront", "erase_back": "OobEraseBack"}


def coq_rows(rows):
    return "[" + "; ".join(zl(r) for r in rows) + "]"


def coq_answer(m):
    """a model answer (as returned by parse_model) as a Gallina term of type `res result`"""
    if m[0] == "ok":
        dets = "; ".join("(%s, {| offsets := %s; rows := %s |})" % (COQ_DET[d], zl(o), coq_rows(r)) for d, o, r in m[1]["dets"])
        return "Ok {| r_hdr := %s; r_dets := [%s] |}" % (coq_rows(m[1]["hdr"]), dets)
    if m[0] == "exc":
        return "Throw (%s %s)" % (m[2], m[3]) if m[3] is not None else "Throw %s" % m[2]
    if m[0] == "oob":
        return "OOB %s %d" % (COQ_OOB[m[1]], m[2])
    if m[0] == "fuel":
        return "OutOfFuel"
    raise ValueError(m)


def coq_sel_list(mask):
    """effective selection (empty = the default four) as a Gallina list of det"""
    return "[" + "; ".join(COQ_DET[d] for d in mask_dets(mask & 63)) + "]"


def coq_names(mask):
    l = ["Some " + COQ_DET[d] for i, d in enumerate(DETS) if mask >> i & 1]
    if mask & 64:
        l.append("None")
    return "[" + "; ".join(l) + "]"


def cases_file(cases, answers, chk):
    """Coq file that re-computes every case with vm_compute inside coqc and compares with the given answers;
    prints one list of booleans"""
    items = []
    for (mask, w), a in zip(cases, answers):
        items.append("(%s, %s, %s)" % (coq_names(mask), zl(w), coq_answer(a)))
    return ("From Coq Require Import ZArith List Bool. Import ListNotations.\n"
            "From PV.Model Require Import RawFormat RawParser.\nLocal Open Scope Z_scope.\n"
            "Definition cases : list (list (option det) * list Z * res result) := [\n" + ";\n".join(items) + "].\n"
            "Eval vm_compute in map (fun c => match c with (n, b, e) => res_eqb (read_bes_raw_gen %s (fuel_for b) n b) e end) cases.\n"
            % ("true" if chk else "false"))


def parse_bools(out):
    m = re.search(r"=\s*\[(.*?)\]\s*:\s*list bool", out, flags=re.S)
    if not m:
        return None
    body = m.group(1).strip()
    return [x.strip() == "true" for x in body.split(";")] if body else []
