"""Loaded automatically by the implementation interpreter (tools/ is on PYTHONPATH via vlib.impl_env).
/venv has a scikit-build-core *editable* install of pybes3 whose meta-path finder maps module names to files under
/repo/src and wins over PYTHONPATH.  When PYBES3_REPO points at another tree (scratch worktree with a mutation), re-point
the finder's source map so that `import pybes3` executes THAT tree.  The prebuilt besio_cpp.so mapping is left alone."""
import os
import sys

_repo = os.environ.get("PYBES3_REPO", "/repo").rstrip("/")
if _repo != "/repo":
    for _f in sys.meta_path:
        _m = getattr(_f, "known_source_files", None)
        if isinstance(_m, dict):
            for _k, _v in list(_m.items()):
                if isinstance(_v, str) and _v.startswith("/repo/src/"):
                    _new = _repo + _v[len("/repo"):]
                    if os.path.exists(_new):  # generated files (e.g. _version.py) exist only in /repo
                        _m[_k] = _new
