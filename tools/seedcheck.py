#!/venv/bin/python
"""Confirm a seeded change and run the property's check against it.
usage: seedcheck.py <PID> <worktree> <mutation-dir> [--checks C06,C07]   (the worktree must be a clean checkout of /repo HEAD)
Steps: demo on clean tree (want 0) -> apply patch -> full existing suite (want same pass set as baseline) -> demo (want != 0)
       -> tools/check.py <PID> with PYBES3_REPO=<worktree> (want exit 1 + VIOLATION) -> undo patch.
Writes seeded/<PID>_<name>/{patch.diff, demo.py, meta.json}."""
import json, os, shutil, subprocess, sys, time
VERIF = os.path.dirname(os.path.dirname(os.path.abspath(__file__)))

def run(cmd, env=None, cwd=None, timeout=3600):
    t = time.time()
    p = subprocess.run(cmd, shell=True, env=env, cwd=cwd, capture_output=True, text=True, timeout=timeout)
    return p.returncode, p.stdout + p.stderr, round(time.time() - t, 1)

def main():
    pid, wt, mdir = sys.argv[1], sys.argv[2], sys.argv[3]
    checks = [pid]
    if "--checks" in sys.argv: checks = sys.argv[sys.argv.index("--checks") + 1].split(",")
    name = os.path.basename(mdir.rstrip("/"))
    if "--label" in sys.argv: name = sys.argv[sys.argv.index("--label") + 1]
    # the searches / proofs / translators are measured WITHOUT the source pins (tools/pins.py), which would flag every seeded change
    if "--with-pins" not in sys.argv: os.environ["VERIF_NO_PINS"] = "1"
    env = dict(os.environ, PYBES3_REPO=wt, PYTHONPATH=f"{wt}/src:/tmp/mutkit", NUMBA_CACHE_DIR=f"/tmp/nb_seed_{pid}_{name}", PYTHONDONTWRITEBYTECODE="1")
    suite = "/venv/bin/python -m pytest -q -p no:cacheprovider --timeout=900 tests -x -q --deselect tests/test_docs.py::test_mkdocs_build --deselect tests/test__cache_numba.py 2>&1 | tail -n 3"
    meta = {"property": pid, "name": name, "worktree_head": run(f"git -C {wt} rev-parse --short HEAD")[1].strip()}
    assert run(f"git -C {wt} status --porcelain --untracked-files=no")[1].strip() == "", "worktree not clean"
    rc, out, _ = run(f"/venv/bin/python {mdir}/demo.py", env=env, cwd=wt); meta["demo_clean_rc"] = rc
    rc, out, _ = run(f"git -C {wt} apply {mdir}/patch.diff"); assert rc == 0, out
    try:
        rc, out, dt = run(suite, env=env, cwd=wt); meta["suite_with_patch"] = out.strip().splitlines()[-1] if out.strip() else ""; meta["suite_rc"] = rc
        rc, out, _ = run(f"/venv/bin/python {mdir}/demo.py", env=env, cwd=wt); meta["demo_patched_rc"] = rc; meta["demo_patched_tail"] = out.strip()[-400:]
        meta["checks"] = {}
        for c in checks:
            cenv = dict(os.environ, PYBES3_REPO=wt)
            rc, out, dt = run(f"/venv/bin/python tools/check.py {c}", env=cenv, cwd=VERIF)
            lines = [l for l in out.splitlines() if l.startswith(("VIOLATION", "KNOWN-FINDING", "[" + c))]
            keys = []
            for l in lines:
                if l.startswith("VIOLATION") and "replay=" in l:
                    rp = l.split("replay=")[1].split()[0]
                    try:
                        d = json.load(open(rp)); keys.append(d.get("key") or ("broken:" + ";".join(b["name"] for b in d.get("broken", []))[:200]))
                    except Exception: pass
            meta["checks"][c] = {"rc": rc, "wall_s": dt, "violations": sum(l.startswith("VIOLATION") for l in lines), "keys": keys[:8], "summary": lines[-1] if lines else out[-300:]}
    finally:
        run(f"git -C {wt} checkout -- .")
        shutil.rmtree(env["NUMBA_CACHE_DIR"], ignore_errors=True)
    meta["confirmed"] = (meta["demo_clean_rc"] == 0 and meta["demo_patched_rc"] != 0 and meta["suite_rc"] == 0)
    meta["caught_by"] = [c for c, r in meta["checks"].items() if r["rc"] == 1]
    dst = os.path.join(VERIF, "seeded", f"{pid}_{name}")
    os.makedirs(dst, exist_ok=True)
    shutil.copy(f"{mdir}/patch.diff", dst); shutil.copy(f"{mdir}/demo.py", dst)
    if os.path.exists(f"{mdir}/meta.txt"): shutil.copy(f"{mdir}/meta.txt", os.path.join(dst, "author_notes.txt"))
    json.dump(meta, open(os.path.join(dst, "meta.json"), "w"), indent=1)
    print(json.dumps({k: meta[k] for k in ("property", "name", "confirmed", "caught_by", "demo_clean_rc", "demo_patched_rc", "suite_with_patch")}),
          {c: (r["rc"], r["keys"][:3]) for c, r in meta["checks"].items()})

if __name__ == "__main__":
    main()
