#!/venv/bin/python
"""setup_cmd: build the static Coq libraries (full .vo build) and native helpers from files on disk only."""
import os, sys
sys.path.insert(0, os.path.dirname(os.path.abspath(__file__)))
import vlib
vlib.ensure_static()
print("static Coq libraries built")
