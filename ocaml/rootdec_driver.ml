(* Driver around the EXTRACTED Gallina decoder (rootdec.ml).  Only conversions and I/O live here.
   stdin, one request per group of lines:
     kind   obj <0|1 digi> | empty | cgem | map | blob
     schema <prefix tokens>            (obj: class mty; map: two sty)
     data   <hex>
     offs   <int>*
     go
   stdout per request: "OK <offsets> | <python literal>" or "NONE".
   Python literal: ints as (-)0x.., TString as b"\x..", lists [..], records {"name": v, ..}. *)
open Rootdec

let rec pos_of_int n = if n = 1 then XH else if n land 1 = 1 then XI (pos_of_int (n lsr 1)) else XO (pos_of_int (n lsr 1))
let z_of_int n = if n = 0 then Z0 else if n > 0 then Zpos (pos_of_int n) else Zneg (pos_of_int (-n))
let rec nat_of_int n = if n <= 0 then O else S (nat_of_int (n - 1))
let byte_tab = Array.init 256 z_of_int
let hex_digit c = match c with '0'..'9' -> Char.code c - 48 | 'a'..'f' -> Char.code c - 87 | _ -> failwith "hex"
let bytes_of_hex s =
  let n = String.length s / 2 in
  let rec go i acc = if i < 0 then acc else go (i - 1) (byte_tab.(16 * hex_digit s.[2 * i] + hex_digit s.[2 * i + 1]) :: acc) in
  go (n - 1) []
let name_of_string s = List.init (String.length s) (fun i -> byte_tab.(Char.code s.[i]))
(* positive -> hex string (bits are least-significant first) *)
let hex_of_pos p =
  let rec bits p acc = match p with XH -> 1 :: acc | XO q -> bits q (0 :: acc) | XI q -> bits q (1 :: acc) in
  let msb_first = bits p [] in
  let pad = (4 - List.length msb_first mod 4) mod 4 in
  let rec zeros k l = if k = 0 then l else zeros (k - 1) (0 :: l) in
  let l = zeros pad msb_first in
  let b = Buffer.create 16 in
  let rec go = function a :: b1 :: c :: d :: r -> Buffer.add_char b "0123456789abcdef".[8 * a + 4 * b1 + 2 * c + d]; go r | _ -> () in
  go l; Buffer.contents b
let str_of_z = function Z0 -> "0x0" | Zpos p -> "0x" ^ hex_of_pos p | Zneg p -> "-0x" ^ hex_of_pos p
let int_of_z z = int_of_string (str_of_z z)

let prim_of = function
  | "i8" -> PI8 | "i16" -> PI16 | "i32" -> PI32 | "i64" -> PI64 | "u8" -> PU8 | "u16" -> PU16 | "u32" -> PU32
  | "u64" -> PU64 | "f32" -> PF32 | "f64" -> PF64 | "b" -> PBool | s -> failwith ("prim " ^ s)
(* recursive-descent reader of the prefix notation; toks is a mutable cursor *)
let toks = ref []
let next () = match !toks with t :: r -> toks := r; t | [] -> failwith "schema: unexpected end"
let dims () = let n = int_of_string (next ()) in List.init n (fun _ -> nat_of_int (int_of_string (next ())))
let rec sty () = match next () with
  | "p" -> SPrim (prim_of (next ())) | "s" -> SStr | "v" -> SVec (sty ())
  | "m" -> let k = sty () in let v = sty () in SMap (k, v) | s -> failwith ("sty " ^ s)
let rec mty () = match next () with
  | "P" -> let d = dims () in MPrim (d, prim_of (next ()))
  | "S" -> MStr (dims ())
  | "L" -> let d = dims () in MStl (d, sty ())
  | "A" -> MTArr (prim_of (next ()))
  | "O" -> MTObj
  | "Y" -> MSym (nat_of_int (int_of_string (next ())))
  | "B" -> let name = name_of_string (next ()) in let k = int_of_string (next ()) in
           let ms = List.init k (fun _ -> let nm = name_of_string (next ()) in let t = mty () in (nm, t)) in
           MBase (name, List.map fst ms, List.map snd ms)
  | s -> failwith ("mty " ^ s)

let buf = Buffer.create (1 lsl 20)
let rec pr = function
  | PNum z -> Buffer.add_string buf (str_of_z z)
  | PStr s -> Buffer.add_string buf "b\""; List.iter (fun c -> Buffer.add_string buf (Printf.sprintf "\\x%02x" (int_of_z c))) s; Buffer.add_char buf '"'
  | PList l -> Buffer.add_char buf '['; List.iter (fun x -> pr x; Buffer.add_char buf ',') l; Buffer.add_char buf ']'
  | PRec fs -> Buffer.add_char buf '{';
      List.iter (fun (k, v) -> Buffer.add_char buf '"'; List.iter (fun c -> Buffer.add_char buf (Char.chr (int_of_z c))) k;
                               Buffer.add_string buf "\":"; pr v; Buffer.add_char buf ',') fs;
      Buffer.add_char buf '}'

let () =
  let kind = ref [] and schema = ref [] and data = ref [] and offs = ref [] in
  (try while true do
    let line = input_line stdin in
    match String.split_on_char ' ' (String.trim line) with
    | "kind" :: r -> kind := r
    | "schema" :: r -> schema := List.filter (fun s -> s <> "") r
    | "data" :: r -> data := (match r with h :: _ -> bytes_of_hex h | [] -> [])
    | "offs" :: r -> offs := List.map (fun s -> z_of_int (int_of_string s)) (List.filter (fun s -> s <> "") r)
    | "go" :: _ ->
        toks := !schema; Buffer.clear buf;
        let res = (match !kind with
          | ["obj"; d] -> let cls = mty () in
              (match present_branch (d = "1") cls !data !offs with Some (o, v) -> Some (o, PList (List.map (fun e -> PList e) v)) | None -> None)
          | ["empty"] -> (match present_empty_branch !data !offs with Some (o, v) -> Some (o, PList (List.map (fun e -> PList e) v)) | None -> None)
          | ["cgem"] -> (match present_cgem_branch !data !offs with Some (o, v) -> Some (o, PList (List.map (fun e -> PList e) v)) | None -> None)
          | ["blob"] ->
              (* per element: length and a checksum of its byte range (sum of (position+1)*byte mod 2^31), computed here *)
              (match blob_branch !data !offs with
               | Some (o, bl) -> Some (o, PList (List.map (fun b ->
                   let n = ref 0 and cs = ref 0 in
                   List.iter (fun c -> incr n; cs := (!cs + !n * int_of_z c) land 0x7fffffff) b;
                   PList [PNum (z_of_int !n); PNum (z_of_int !cs)]) bl))
               | None -> None)
          | ["map"] -> let k = sty () in let v = sty () in
              (match present_map_branch k v !data !offs with Some l -> Some ([], PList l) | None -> None)
          | _ -> failwith "kind") in
        (match res with
         | None -> print_string "NONE\n"
         | Some (o, v) -> pr v; Printf.printf "OK %s | %s\n" (String.concat " " (List.map str_of_z o)) (Buffer.contents buf));
        flush stdout
    | _ -> ()
  done with End_of_file -> ())
