(* Line-protocol driver around the extracted Gallina parser (PV.Model.RawParser.read_bes_raw_gen).
   stdin : one case per line   <chk 0|1> <selmask> <n> w0 ... w(n-1)     (decimal; selmask as in native/rawdrv.cc)
   stdout: one line per case   OK <json> | THROW <name> [arg] | OOB <kind> <index> | FUEL *)
open Rawmodel
let rec pos_of_int n = if n = 1 then XH else if n land 1 = 0 then XO (pos_of_int (n lsr 1)) else XI (pos_of_int (n lsr 1))
let z_of_int n = if n = 0 then Z0 else if n > 0 then Zpos (pos_of_int n) else Zneg (pos_of_int (- n))
let rec int_of_pos = function XH -> 1 | XO p -> 2 * int_of_pos p | XI p -> 2 * int_of_pos p + 1
let int_of_z = function Z0 -> 0 | Zpos p -> int_of_pos p | Zneg p -> - (int_of_pos p)
let zs l = "[" ^ String.concat "," (List.map (fun z -> string_of_int (int_of_z z)) l) ^ "]"
let rows l = "[" ^ String.concat "," (List.map zs l) ^ "]"
let dname = function Mdc -> "mdc" | Tof -> "tof" | Emc -> "emc" | Muc -> "muc" | Trg -> "trg" | Ef -> "ef"
let dets = [| Mdc; Tof; Emc; Muc; Trg; Ef |]
let names_of_mask m =
  let l = ref [] in
  for i = 5 downto 0 do if m land (1 lsl i) <> 0 then l := Some dets.(i) :: !l done;
  if m land 64 <> 0 then !l @ [None] else !l
let ename = function
  | EEvtFlag -> "EEvtFlag" | EEvtVersion v -> "EEvtVersion " ^ string_of_int (int_of_z v)
  | EEvtSpec n -> "EEvtSpec " ^ string_of_int (int_of_z n) | EEvtSize -> "EEvtSize" | ESubFlag -> "ESubFlag"
  | ERosFlag -> "ERosFlag" | ERosSpec n -> "ERosSpec " ^ string_of_int (int_of_z n) | ERobFlag -> "ERobFlag"
  | ERodFlag -> "ERodFlag" | EBadName -> "EBadName" | EBadDetId -> "EBadDetId" | EEnd -> "EEnd" | ERodRange -> "ERodRange"
let kname = function OobRead -> "read" | OobBulk -> "bulk" | OobEraseFront -> "erase_front" | OobEraseBack -> "erase_back"
let () =
  try while true do
    let line = input_line stdin in
    if String.length line > 0 then begin
      let toks = List.filter (fun s -> s <> "") (String.split_on_char ' ' line) in
      match toks with
      | c :: m :: _n :: ws ->
        let buf = List.map (fun s -> z_of_int (int_of_string s)) ws in
        let r = read_bes_raw_gen (c = "1") (fuel_for buf) (names_of_mask (int_of_string m)) buf in
        (match r with
         | Ok res ->
           let ds = List.map (fun (d, c) -> Printf.sprintf "[\"%s\",%s,%s]" (dname d) (zs c.offsets) (rows c.rows)) res.r_dets in
           Printf.printf "OK {\"hdr\":%s,\"dets\":[%s]}\n" (rows res.r_hdr) (String.concat "," ds)
         | Throw e -> Printf.printf "THROW %s\n" (ename e)
         | OOB (k, i) -> Printf.printf "OOB %s %d\n" (kname k) (int_of_z i)
         | OutOfFuel -> print_string "FUEL\n")
      | _ -> print_string "BADLINE\n"
    end
  done with End_of_file -> ()
