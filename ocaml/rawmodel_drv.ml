(* Line-protocol driver around the extracted Gallina model (PV.Model.RawParser / RawReader).
   stdin : one case per line (decimal numbers; selmask as in native/rawdrv.cc)
             <chk 0|1> <selmask> <n> w0 ... w(n-1)                                   read_bes_raw_gen on a word buffer
             A <chk> <lfix> <n_blocks> <per_batch> <selmask> <k> o1 .. ok <n> w0 .. w(n-1)   arrays_gen on the words of a
                                                  file; lfix = batch-loop variant; o1..ok = completion order of the tasks
             C <chk> <lfix> <per_batch> <selmask> <nfiles> <n1> w.. <n2> w.. ...             concatenate_gen
   stdout: one line per case   OK <json> | THROW <name> [arg] | OOB <kind> <index> | RTHROW <name> [args] | FUEL *)
open Rawmodel
let rec pos_of_int n = if n = 1 then XH else if n land 1 = 0 then XO (pos_of_int (n lsr 1)) else XI (pos_of_int (n lsr 1))
let z_of_int n = if n = 0 then Z0 else if n > 0 then Zpos (pos_of_int n) else Zneg (pos_of_int (- n))
let rec int_of_pos = function XH -> 1 | XO p -> 2 * int_of_pos p | XI p -> 2 * int_of_pos p + 1
let int_of_z = function Z0 -> 0 | Zpos p -> int_of_pos p | Zneg p -> - (int_of_pos p)
let zs l = "[" ^ String.concat "," (List.map (fun z -> string_of_int (int_of_z z)) l) ^ "]"
let rows l = "[" ^ String.concat "," (List.map zs l) ^ "]"
let dname = function Mdc -> "mdc" | Tof -> "tof" | Emc -> "emc" | Muc -> "muc" | Trg -> "trg" | Ef -> "ef"
let dets = [| Mdc; Tof; Emc; Muc; Trg; Ef |]
let names_of_mask m =
  let l = ref [] in
  for i = 5 downto 0 do if m land (1 lsl i) <> 0 then l := Some dets.(i) :: !l done;
  if m land 64 <> 0 then !l @ [None] else !l
let ename = function
  | EEvtFlag -> "EEvtFlag" | EEvtVersion v -> "EEvtVersion " ^ string_of_int (int_of_z v)
  | EEvtSpec n -> "EEvtSpec " ^ string_of_int (int_of_z n) | EEvtSize -> "EEvtSize" | ESubFlag -> "ESubFlag"
  | ERosFlag -> "ERosFlag" | ERosSpec n -> "ERosSpec " ^ string_of_int (int_of_z n) | ERobFlag -> "ERobFlag"
  | ERodFlag -> "ERodFlag" | EBadName -> "EBadName" | EBadDetId -> "EBadDetId" | EEnd -> "EEnd" | ERodRange -> "ERodRange"
let kname = function OobRead -> "read" | OobBulk -> "bulk" | OobEraseFront -> "erase_front" | OobEraseBack -> "erase_back"
let rec nat_of_int n = if n <= 0 then O else S (nat_of_int (n - 1))
let rec take n l = if n = 0 then ([], l) else match l with x :: tl -> let (a, b) = take (n - 1) tl in (x :: a, b) | [] -> ([], [])
let print_ok res =
  let ds = List.map (fun (d, c) -> Printf.sprintf "[\"%s\",%s,%s]" (dname d) (zs c.offsets) (rows c.rows)) res.r_dets in
  Printf.printf "OK {\"hdr\":%s,\"dets\":[%s]}\n" (rows res.r_hdr) (String.concat "," ds)
let print_rres = function
  | ROk res -> print_ok res
  | RThrow (RAssert k) -> Printf.printf "RTHROW RAssert %d\n" (int_of_z k)
  | RThrow ROsError -> print_string "RTHROW ROsError\n"
  | RThrow RConcatEmpty -> print_string "RTHROW RConcatEmpty\n"
  | RThrow (RParser e) -> Printf.printf "RTHROW RParser %s\n" (ename e)
  | RThrow (RParserOOB (k, i)) -> Printf.printf "RTHROW RParserOOB %s %d\n" (kname k) (int_of_z i)
  | ROutOfFuel -> print_string "FUEL\n"
let () =
  try while true do
    let line = input_line stdin in
    if String.length line > 0 then begin
      let toks = List.filter (fun s -> s <> "") (String.split_on_char ' ' line) in
      match toks with
      | "A" :: c :: lf :: nb :: pb :: m :: k :: rest ->
        let (ord, rest) = take (int_of_string k) rest in
        let order = List.map (fun s -> nat_of_int (int_of_string s)) ord in
        let fw = List.map (fun s -> z_of_int (int_of_string s)) (List.tl rest) in
        print_rres (arrays_gen (c = "1") (lf = "1") (reader_fuel fw) fw (z_of_int (int_of_string nb)) (z_of_int (int_of_string pb))
                      (names_of_mask (int_of_string m)) (fun _ -> order))
      | "C" :: c :: lf :: pb :: m :: nf :: rest ->
        let rec files k rest = if k = 0 then [] else
          match rest with
          | n :: tl -> let (ws, tl') = take (int_of_string n) tl in List.map (fun s -> z_of_int (int_of_string s)) ws :: files (k - 1) tl'
          | [] -> [] in
        print_rres (concatenate_gen (c = "1") (lf = "1") (files (int_of_string nf) rest) (z_of_int (int_of_string pb)) (names_of_mask (int_of_string m)))
      | c :: m :: _n :: ws ->
        let buf = List.map (fun s -> z_of_int (int_of_string s)) ws in
        let r = read_bes_raw_gen (c = "1") (fuel_for buf) (names_of_mask (int_of_string m)) buf in
        (match r with
         | Ok res -> print_ok res
         | Throw e -> Printf.printf "THROW %s\n" (ename e)
         | OOB (k, i) -> Printf.printf "OOB %s %d\n" (kname k) (int_of_z i)
         | OutOfFuel -> print_string "FUEL\n")
      | _ -> print_string "BADLINE\n"
    end
  done with End_of_file -> ()
