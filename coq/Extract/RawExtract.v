(* Extraction of the executable raw-data model (parser, encoder) for the correspondence drivers.
   ExtrOcamlBasic only: Z / positive / nat stay the extracted inductives. *)
From Coq Require Import ExtrOcamlBasic ZArith List.
From PV.Model Require Import RawFormat RawParser RawReader.
Extraction Language OCaml.
Extraction "rawmodel.ml" read_bes_raw_gen parse_gen fuel_for enc_event enc_block enc_file arrays_gen concatenate_gen reader_fuel.
