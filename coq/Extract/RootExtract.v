(* Extraction of the executable part of M-ROOT (ExtrOcamlBasic only: bool, option, unit, list, prod, sumbool map to
   OCaml's; Z / positive / nat stay the extracted inductives).  Compiled by tools/props/c01.py in a scratch directory;
   writes rootdec.ml / rootdec.mli into the current directory. *)
From Coq Require Import ExtrOcamlBasic ZArith List.
From PV.Model Require Import RootStream RootSchema RootGlue.
Extraction Language OCaml.
Extraction "rootdec.ml" present_branch present_empty_branch present_cgem_branch present_map_branch
  read_branch mdec mview flatten_digi cgem_branch blob_branch select Z.of_nat Z.to_nat.
