(* PV.Lib.RTables — double-valued table columns as exact dyadics: entry = (scaled integer) / 2^K, read into R. *)
From Coq Require Import ZArith List Reals Lia.
From PV.Lib Require Import Tables.
Import ListNotations.
Local Open Scope R_scope.

Definition rlookup (K : Z) (t : list Z) (i : Z) : R := IZR (tlookup t i) / IZR (2 ^ K).
Definition rlookup2 (K : Z) (t : tab2) (i j : Z) : R := IZR (tlookup2 t i j) / IZR (2 ^ K).

Lemma pow2K_pos K : (0 <= K)%Z -> 0 < IZR (2 ^ K).
Proof. intro H. apply IZR_lt. apply Z.pow_pos_nonneg; lia. Qed.

