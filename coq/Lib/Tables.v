(* PV.Lib.Tables — table lookups and small NumPy-like list functions used by the regenerated geometry models. *)
From Coq Require Import ZArith List Lia Bool.
Import ListNotations.
Local Open Scope Z_scope.

(* numpy a[i] for 0 <= i < len a; outside that range the model returns the default (theorems state the range) *)
Definition tlookup (t : list Z) (i : Z) : Z := nth (Z.to_nat i) t 0.
(* 2-D numpy array a[i, j] stored row-major with row width w *)
Record tab2 := { t2w : Z; t2flat : list Z }.
Definition tlookup2 (t : tab2) (i j : Z) : Z := tlookup (t2flat t) (i * t2w t + j).

Definition in_range (t : list Z) (i : Z) : bool := (0 <=? i) && (i <? Z.of_nat (length t)).

(* np.bincount(xs, minlength=n) for 0 <= xs < n *)
Definition bincount (n : nat) (xs : list Z) : list Z :=
  map (fun k => Z.of_nat (length (filter (fun x => x =? Z.of_nat k) xs))) (seq 0 n).

Fixpoint cumsum_from (acc : Z) (xs : list Z) : list Z :=
  match xs with [] => [] | x :: r => (acc + x) :: cumsum_from (acc + x) r end.
Definition cumsum := cumsum_from 0.

(* np.digitize(x, bins, right=False) for increasing bins: number of bins b with b <= x *)
Definition digitize (bins : list Z) (x : Z) : Z := Z.of_nat (length (filter (fun b => b <=? x) bins)).

(* np.searchsorted(sorted, v) (side='left'): number of elements < v *)
Definition searchsorted (xs : list Z) (v : Z) : Z := Z.of_nat (length (filter (fun x => x <? v) xs)).

Definition zseq (n : Z) : list Z := map Z.of_nat (seq 0 (Z.to_nat n)).

Lemma in_zseq n i : In i (zseq n) <-> 0 <= i < n.
Proof.
  unfold zseq. rewrite in_map_iff. split.
  - intros (k & <- & Hk). apply in_seq in Hk. lia.
  - intro Hi. exists (Z.to_nat i). split; [lia|]. apply in_seq. lia.
Qed.

Lemma forallb_zseq (P : Z -> bool) n :
  forallb P (zseq n) = true -> forall i, 0 <= i < n -> P i = true.
Proof. intros H i Hi. rewrite forallb_forall in H. apply H. apply in_zseq. exact Hi. Qed.

Lemma forallb_nth {A} (P : A -> bool) (l : list A) (d : A) (i : nat) :
  forallb P l = true -> (i < length l)%nat -> P (nth i l d) = true.
Proof. intros H Hi. rewrite forallb_forall in H. apply H. apply nth_In. exact Hi. Qed.
