(* PV.Lib.RealAux — real-number helpers for the helix model: Python float `%` (pymod), sign, isclose,
   2*pi-periodicity with integer multiples, uniqueness of angles, and a concrete atan2. *)
From Coq Require Import Reals Lra Lia ZArith.
Local Open Scope R_scope.

Definition pymod (x m : R) : R := x - m * IZR (Int_part (x / m)).
Definition Rsign (x : R) : R := if Rlt_dec 0 x then 1 else if Rlt_dec x 0 then -1 else 0.
Definition isclose (a b : R) : Prop := Rabs (a - b) <= 1 / 100000000 + 1 / 100000 * Rabs b.
Definition isclose_dec (a b : R) : {isclose a b} + {~ isclose a b} := Rle_dec _ _.

Lemma Rsign_pos x : 0 < x -> Rsign x = 1.
Proof. intro H. unfold Rsign. destruct (Rlt_dec 0 x); [reflexivity|lra]. Qed.
Lemma Rsign_neg x : x < 0 -> Rsign x = -1.
Proof. intro H. unfold Rsign. destruct (Rlt_dec 0 x); [lra|]. destruct (Rlt_dec x 0); [reflexivity|lra]. Qed.
Lemma Rsign_sq x : x <> 0 -> Rsign x * Rsign x = 1.
Proof. intro H. destruct (Rdichotomy _ _ H); [rewrite Rsign_neg by assumption | rewrite Rsign_pos by assumption]; ring. Qed.
Lemma Rsign_abs x : Rsign x * Rabs x = x.
Proof. unfold Rsign. destruct (Rlt_dec 0 x); [rewrite Rabs_pos_eq by lra; ring|].
  destruct (Rlt_dec x 0); [rewrite Rabs_left by lra; ring|]. assert (x = 0) by lra. subst. rewrite Rabs_R0. ring. Qed.

(* ---- periodicity with integer multiples *)
Lemma cos_period_Z x k : cos (x + 2 * IZR k * PI) = cos x.
Proof. destruct (Z_le_gt_dec 0 k) as [H|H].
  - rewrite <- (Z2Nat.id k H), <- INR_IZR_INZ. apply cos_period.
  - rewrite <- (cos_period (x + 2 * IZR k * PI) (Z.to_nat (-k))).
    rewrite INR_IZR_INZ, Z2Nat.id by lia. rewrite opp_IZR. f_equal. ring. Qed.
Lemma sin_period_Z x k : sin (x + 2 * IZR k * PI) = sin x.
Proof. destruct (Z_le_gt_dec 0 k) as [H|H].
  - rewrite <- (Z2Nat.id k H), <- INR_IZR_INZ. apply sin_period.
  - rewrite <- (sin_period (x + 2 * IZR k * PI) (Z.to_nat (-k))).
    rewrite INR_IZR_INZ, Z2Nat.id by lia. rewrite opp_IZR. f_equal. ring. Qed.

(* ---- pymod *)
Lemma pymod_eq x m : pymod x m = x + IZR (- Int_part (x / m)) * m.
Proof. unfold pymod. rewrite opp_IZR. ring. Qed.

Lemma pymod_range x m : 0 < m -> 0 <= pymod x m < m.
Proof.
  intro Hm. unfold pymod. destruct (base_Int_part (x / m)) as [H1 H2].
  assert (E : x = (x / m) * m) by (field; lra).
  set (q := x / m) in *. set (k := IZR (Int_part q)) in *.
  split.
  - assert (k * m <= q * m) by (apply Rmult_le_compat_r; lra). rewrite E at 1. lra.
  - assert ((q - k) * m < 1 * m) by (apply Rmult_lt_compat_r; lra). rewrite E at 1. lra.
Qed.

Lemma pymod_2pi_cos x : cos (pymod x (2 * PI)) = cos x.
Proof. rewrite pymod_eq. replace (x + IZR (- Int_part (x / (2 * PI))) * (2 * PI)) with (x + 2 * IZR (- Int_part (x / (2 * PI))) * PI) by ring.
  apply cos_period_Z. Qed.
Lemma pymod_2pi_sin x : sin (pymod x (2 * PI)) = sin x.
Proof. rewrite pymod_eq. replace (x + IZR (- Int_part (x / (2 * PI))) * (2 * PI)) with (x + 2 * IZR (- Int_part (x / (2 * PI))) * PI) by ring.
  apply sin_period_Z. Qed.

Lemma pymod_exists x m : exists k : Z, pymod x m = x + IZR k * m.
Proof. exists (- Int_part (x / m))%Z. apply pymod_eq. Qed.

(* an integer strictly between -1 and 1 is 0 *)
Lemma IZR_small k : -1 < IZR k < 1 -> k = 0%Z.
Proof. intros [H1 H2]. apply lt_IZR in H2. assert (H3 : (-1 < k)%Z) by (apply lt_IZR; exact H1). lia. Qed.

Lemma pymod_unique x m y k : 0 < m -> 0 <= y < m -> y = x + IZR k * m -> pymod x m = y.
Proof.
  intros Hm Hy E. destruct (pymod_exists x m) as [j Hj]. pose proof (pymod_range x m Hm) as Hr.
  rewrite Hj in *. 
  assert (D : (IZR j - IZR k) * m = (x + IZR j * m) - y) by (rewrite E; ring).
  assert (Hd : - m < (IZR j - IZR k) * m < m) by (rewrite D; lra).
  assert (Hjk : (j - k = 0)%Z).
  { apply IZR_small. rewrite minus_IZR. split.
    - apply (Rmult_lt_reg_r m); [exact Hm|]. lra.
    - apply (Rmult_lt_reg_r m); [exact Hm|]. lra. }
  assert (j = k) by lia. subst j. lra.
Qed.

Lemma pymod_small x m : 0 < m -> 0 <= x < m -> pymod x m = x.
Proof. intros Hm Hx. apply (pymod_unique x m x 0%Z Hm Hx). simpl. ring. Qed.

Lemma pymod_shift x m k : 0 < m -> pymod (x + IZR k * m) m = pymod x m.
Proof.
  intro Hm. destruct (pymod_exists x m) as [j Hj].
  apply (pymod_unique (x + IZR k * m) m (pymod x m) (j - k)%Z Hm (pymod_range x m Hm)).
  rewrite Hj, minus_IZR. ring.
Qed.

(* ---- uniqueness of angles *)
Lemma cos_eq_1_multiple d : cos d = 1 -> exists k : Z, d = 2 * IZR k * PI.
Proof.
  intro H. assert (S : sin d = 0).
  { pose proof (sin2_cos2 d) as E. unfold Rsqr in E. rewrite H in E. assert (sin d * sin d = 0) by lra.
    destruct (Rmult_integral _ _ H0); assumption. }
  destruct (sin_eq_0_0 d S) as [k Hk]. subst d.
  destruct (Z.Even_or_Odd k) as [[j Hj]|[j Hj]].
  - exists j. subst k. rewrite mult_IZR. simpl. ring.
  - exfalso. subst k. rewrite plus_IZR, mult_IZR in H. simpl in H.
    replace ((2 * IZR j + 1) * PI) with (PI + 2 * IZR j * PI) in H by ring.
    rewrite cos_period_Z, cos_PI in H. lra.
Qed.

Lemma angle_unique a b : cos a = cos b -> sin a = sin b -> exists k : Z, a = b + 2 * IZR k * PI.
Proof.
  intros Hc Hs. assert (H : cos (a - b) = 1).
  { rewrite cos_minus, Hc, Hs. pose proof (sin2_cos2 b) as E. unfold Rsqr in E. lra. }
  destruct (cos_eq_1_multiple _ H) as [k Hk]. exists k. lra.
Qed.

Lemma polar_unique rho1 rho2 a b : 0 < rho1 -> 0 < rho2 ->
  rho1 * cos a = rho2 * cos b -> rho1 * sin a = rho2 * sin b ->
  rho1 = rho2 /\ exists k : Z, a = b + 2 * IZR k * PI.
Proof.
  intros H1 H2 Hc Hs.
  assert (E : rho1 * rho1 = rho2 * rho2).
  { pose proof (sin2_cos2 a) as Ea. pose proof (sin2_cos2 b) as Eb. unfold Rsqr in *.
    replace (rho1 * rho1) with ((rho1 * cos a) * (rho1 * cos a) + (rho1 * sin a) * (rho1 * sin a)) by (transitivity (rho1 * rho1 * (sin a * sin a + cos a * cos a)); [ring | rewrite Ea; ring]).
    rewrite Hc, Hs. transitivity (rho2 * rho2 * (sin b * sin b + cos b * cos b)); [ring | rewrite Eb; ring]. }
  assert (R : rho1 = rho2) by nra. split; [exact R|]. subst rho2.
  apply angle_unique.
  - apply (Rmult_eq_reg_l rho1); [exact Hc | lra].
  - apply (Rmult_eq_reg_l rho1); [exact Hs | lra].
Qed.

(* ---- the interface of atan2 used by the helix theorems, and a concrete instance *)
Definition atan2_spec (atan2 : R -> R -> R) : Prop :=
  forall y x, (x <> 0 \/ y <> 0) ->
    x = sqrt (x * x + y * y) * cos (atan2 y x) /\ y = sqrt (x * x + y * y) * sin (atan2 y x).

Lemma sqrt_sumsq_pos x y : (x <> 0 \/ y <> 0) -> 0 < sqrt (x * x + y * y).
Proof. intro H. apply sqrt_lt_R0. destruct H; nra. Qed.

Definition atan2_c (y x : R) : R :=
  if Rlt_dec 0 x then atan (y / x)
  else if Rlt_dec x 0 then (if Rle_dec 0 y then atan (y / x) + PI else atan (y / x) - PI)
  else if Rlt_dec 0 y then PI / 2 else if Rlt_dec y 0 then - (PI / 2) else 0.

Lemma cos_atan_pos t : cos (atan t) = 1 / sqrt (1 + t * t).
Proof.
  assert (Hc : 0 < cos (atan t)) by (apply cos_gt_0; destruct (atan_bound t); lra).
  assert (Ht : tan (atan t) = t) by apply atan_right_inv.
  unfold tan in Ht.
  assert (Hs : sin (atan t) = t * cos (atan t)) by (rewrite <- Ht at 2; field; lra).
  pose proof (sin2_cos2 (atan t)) as E. unfold Rsqr in E. rewrite Hs in E.
  assert (E2 : cos (atan t) * cos (atan t) * (1 + t * t) = 1) by lra.
  assert (P : 0 < 1 + t * t) by nra.
  assert (Q : 0 < sqrt (1 + t * t)) by (apply sqrt_lt_R0; exact P).
  assert (E3 : (cos (atan t) * sqrt (1 + t * t)) * (cos (atan t) * sqrt (1 + t * t)) = 1).
  { transitivity (cos (atan t) * cos (atan t) * (sqrt (1 + t * t) * sqrt (1 + t * t))); [ring|].
    rewrite sqrt_sqrt by lra. exact E2. }
  assert (E4 : cos (atan t) * sqrt (1 + t * t) = 1).
  { assert (0 < cos (atan t) * sqrt (1 + t * t)) by (apply Rmult_lt_0_compat; assumption). nra. }
  apply (Rmult_eq_reg_r (sqrt (1 + t * t))); [|lra]. rewrite E4. field. lra.
Qed.

Lemma sin_atan_pos t : sin (atan t) = t / sqrt (1 + t * t).
Proof.
  assert (Hc : 0 < cos (atan t)) by (apply cos_gt_0; destruct (atan_bound t); lra).
  assert (Ht : tan (atan t) = t) by apply atan_right_inv. unfold tan in Ht.
  assert (Hs : sin (atan t) = t * cos (atan t)) by (rewrite <- Ht at 2; field; lra).
  rewrite Hs, cos_atan_pos. unfold Rdiv. ring.
Qed.

Lemma sqrt_scale x y : x <> 0 -> sqrt (x * x + y * y) = Rabs x * sqrt (1 + (y / x) * (y / x)).
Proof.
  intro Hx. rewrite <- (sqrt_Rsqr_abs x). rewrite <- sqrt_mult_alt by apply Rle_0_sqr.
  f_equal. unfold Rsqr. field. exact Hx.
Qed.

Lemma atan2_c_spec : atan2_spec atan2_c.
Proof.
  intros y x H. unfold atan2_c.
  destruct (Rlt_dec 0 x) as [Hx|Hx].
  - rewrite cos_atan_pos, sin_atan_pos, sqrt_scale by lra. rewrite Rabs_pos_eq by lra.
    assert (0 < sqrt (1 + y / x * (y / x))) by (apply sqrt_lt_R0; nra). split; field; lra.
  - destruct (Rlt_dec x 0) as [Hx'|Hx'].
    + assert (Q : 0 < sqrt (1 + y / x * (y / x))) by (apply sqrt_lt_R0; nra).
      destruct (Rle_dec 0 y).
      * rewrite cos_plus, sin_plus, cos_PI, sin_PI, cos_atan_pos, sin_atan_pos, sqrt_scale by lra.
        rewrite Rabs_left by lra. split; field; lra.
      * rewrite cos_minus, sin_minus, cos_PI, sin_PI, cos_atan_pos, sin_atan_pos, sqrt_scale by lra.
        rewrite Rabs_left by lra. split; field; lra.
    + assert (x = 0) by lra. subst x. replace (0 * 0 + y * y) with (Rsqr y) by (unfold Rsqr; ring).
      rewrite sqrt_Rsqr_abs.
      destruct (Rlt_dec 0 y).
      * rewrite cos_PI2, sin_PI2, Rabs_pos_eq by lra. split; ring.
      * destruct (Rlt_dec y 0).
        -- rewrite cos_neg, sin_neg, cos_PI2, sin_PI2, Rabs_left by lra. split; ring.
        -- exfalso. destruct H; lra.
Qed.
