(* PV.Lib.BitTac — lemmas and tactics that normalise mask/shift/or kernels to div/mod arithmetic. *)
From Coq Require Import ZArith Lia Bool ZifyBool.
From PV.Lib Require Import Bits.
Local Open Scope Z_scope.
Ltac Zify.zify_post_hook ::= Z.to_euclidean_division_equations.

(* (w & m) >> off, m = ones k << off *)
Lemma field_get w m k off : 0 <= k -> 0 <= off -> m = Z.shiftl (Z.ones k) off ->
  Z.shiftr (Z.land w m) off = (w / 2^off) mod 2^k.
Proof.
  intros Hk Ho ->. rewrite land_shifted_ones by lia. rewrite Z.shiftr_div_pow2 by lia.
  apply Z.div_mul. apply Z.pow_nonzero; lia.
Qed.

(* (v << off) & m, m = ones k << off *)
Lemma field_put v m k off : 0 <= k -> 0 <= off -> m = Z.shiftl (Z.ones k) off ->
  Z.land (Z.shiftl v off) m = (v mod 2^k) * 2^off.
Proof.
  intros Hk Ho ->. rewrite land_shifted_ones by lia. rewrite Z.shiftl_mul_pow2 by lia.
  rewrite Z.div_mul by (apply Z.pow_nonzero; lia). reflexivity.
Qed.

Lemma lor_low_high lo b k : 0 <= k -> 0 <= lo < 2^k -> b mod 2^k = 0 -> Z.lor lo b = lo + b.
Proof.
  intros Hk Hlo Hb.
  assert (Hp : 0 < 2^k) by (apply Z.pow_pos_nonneg; lia).
  assert (E : b = (b / 2^k) * 2^k) by (pose proof (Z.div_mod b (2^k)); lia).
  rewrite E. generalize (b / 2^k). intro h.
  rewrite (lor_disjoint' lo h k) by assumption. lia.
Qed.

Lemma lor_high_low b lo k : 0 <= k -> 0 <= lo < 2^k -> b mod 2^k = 0 -> Z.lor b lo = b + lo.
Proof. intros. rewrite Z.lor_comm, (lor_low_high lo b k) by assumption. lia. Qed.

(* rewrite one `Z.lor a b` whose arguments contain no further lor, splitting at bit k *)
Ltac lor_step k :=
  match goal with
  | |- context [Z.lor ?a ?b] =>
      lazymatch a with context [Z.lor _ _] => fail | _ => idtac end;
      lazymatch b with context [Z.lor _ _] => fail | _ => idtac end;
      first [ rewrite (lor_low_high a b k) by (try lia; reflexivity)
            | rewrite (lor_high_low a b k) by (try lia; reflexivity) ]
  end.

Ltac fget k off := rewrite (field_get _ _ k off) by (try lia; reflexivity).
Ltac fput k off := rewrite (field_put _ _ k off) by (try lia; reflexivity).
