(* PV.Lib.Bits — bit-field arithmetic on Z used by the digi-ID / raw-word models.
   Python / numba integer operators are modelled on unbounded Z:
     &  -> Z.land   |  -> Z.lor   << -> Z.shiftl   >> -> Z.shiftr   ~ -> Z.lnot
     np.uintN(e) -> e mod 2^N
   The lemmas below turn mask-and-shift expressions into div/mod arithmetic that lia
   (with the euclidean-division post hook) decides. *)
From Coq Require Import ZArith Lia Bool.
Local Open Scope Z_scope.

Definition u8  (x : Z) : Z := x mod 2^8.
Definition u16 (x : Z) : Z := x mod 2^16.
Definition u32 (x : Z) : Z := x mod 2^32.
Definition b2z (b : bool) : Z := if b then 1 else 0.

Lemma land_shifted_ones w k off : 0 <= k -> 0 <= off ->
  Z.land w (Z.shiftl (Z.ones k) off) = ((w / 2^off) mod 2^k) * 2^off.
Proof.
  intros Hk Ho.
  rewrite <- (Z.shiftl_mul_pow2 _ off) by lia.
  rewrite <- Z.land_ones by lia.
  rewrite <- Z.shiftr_div_pow2 by lia.
  apply Z.bits_inj'. intros n Hn.
  rewrite Z.land_spec.
  destruct (Z_lt_le_dec n off) as [Hlt|Hge].
  - rewrite !Z.shiftl_spec_low by lia. apply andb_false_r.
  - rewrite !Z.shiftl_spec by lia. rewrite Z.land_spec, Z.shiftr_spec by lia.
    replace (n - off + off) with n by lia. reflexivity.
Qed.

(* mask constant m recognised as (ones k) << off; the side condition is closed by reflexivity *)
Lemma land_mask w m k off : 0 <= k -> 0 <= off -> m = Z.shiftl (Z.ones k) off ->
  Z.land w m = ((w / 2^off) mod 2^k) * 2^off.
Proof. intros; subst; apply land_shifted_ones; lia. Qed.

Lemma testbit_small lo k n : 0 <= lo < 2^k -> k <= n -> Z.testbit lo n = false.
Proof.
  intros [H0 H1] Hn.
  destruct (Z.eq_dec lo 0) as [->|Hne]; [apply Z.bits_0|].
  apply Z.bits_above_log2; [lia|].
  assert (0 <= k) by (destruct (Z_lt_le_dec k 0); [rewrite Z.pow_neg_r in H1 by lia; lia|lia]).
  assert (Z.log2 lo < k) by (apply Z.log2_lt_pow2; lia). lia.
Qed.

Lemma lor_disjoint hi lo k : 0 <= k -> 0 <= lo < 2^k ->
  Z.lor (hi * 2^k) lo = hi * 2^k + lo.
Proof.
  intros Hk Hlo.
  rewrite <- Z.shiftl_mul_pow2 by lia.
  assert (Hd : Z.land (Z.shiftl hi k) lo = 0).
  { apply Z.bits_inj'; intros n Hn; rewrite Z.land_spec, Z.bits_0.
    destruct (Z_lt_le_dec n k).
    - rewrite Z.shiftl_spec_low by lia; reflexivity.
    - rewrite (testbit_small lo k n) by lia. apply andb_false_r. }
  rewrite <- Z.lxor_lor by exact Hd. rewrite Z.add_nocarry_lxor by exact Hd. reflexivity.
Qed.

Lemma lor_disjoint' lo hi k : 0 <= k -> 0 <= lo < 2^k ->
  Z.lor lo (hi * 2^k) = hi * 2^k + lo.
Proof. intros; rewrite Z.lor_comm; apply lor_disjoint; assumption. Qed.

Lemma shiftl_mul x n : 0 <= n -> Z.shiftl x n = x * 2^n.
Proof. intros; apply Z.shiftl_mul_pow2; assumption. Qed.

Lemma shiftr_div x n : 0 <= n -> Z.shiftr x n = x / 2^n.
Proof. intros; apply Z.shiftr_div_pow2; assumption. Qed.

Lemma lnot_eq x : Z.lnot x = - x - 1.
Proof. unfold Z.lnot. lia. Qed.
