(* C14 — lifting laws: applying a scalar kernel through any uniformly nested container (incl. missing values) changes
   neither the nesting nor the order, and acts on each element independently. Layout model: PV.Model.Nest. *)
From Coq Require Import List Lia Arith.
Import ListNotations.
From PV.Model Require Import Nest.

Lemma children_map' {A B} (f : A -> B) (xs : list (nest A)) : children (map (nest_map f) xs) = map (nest_map f) (children xs).
Proof. apply children_map. Qed.

Lemma lift_structure {A B} (f : A -> B) d : forall xs : list (nest A),
  extract_index d (map (nest_map f) xs) = extract_index d xs.
Proof.
  induction d as [|d IH]; intro xs; [reflexivity|]. cbn [extract_index]. rewrite counts_top_map, children_map, IH. reflexivity.
Qed.

Lemma flat0_map {A B} (f : A -> B) (xs : list (nest A)) : flat 0 (map (nest_map f) xs) = map f (flat 0 xs).
Proof.
  cbn [flat]. induction xs as [|x xs IH]; [reflexivity|]. cbn [map concat]. rewrite map_app, IH. f_equal. destruct x; reflexivity.
Qed.

Lemma lift_values {A B} (f : A -> B) d : forall xs : list (nest A), flat d (map (nest_map f) xs) = map f (flat d xs).
Proof. induction d as [|d IH]; intro xs; [apply flat0_map|]. cbn [flat]. rewrite children_map, IH. reflexivity. Qed.

Lemma uniform_lift {A B} (f : A -> B) d : forall xs : list (nest A), uniform d xs -> uniform d (map (nest_map f) xs).
Proof.
  induction d as [|d IH]; intros xs H.
  - cbn in *. induction H as [|x l Hx Hl IHl]; cbn [map]; constructor; [destruct x; [exact I | destruct Hx] | exact IHl].
  - destruct H as [Hn Hu]. split; [apply is_node_map; exact Hn | rewrite children_map; apply IH; exact Hu].
Qed.

(* missing values: kernels are lifted with option_map, so a missing entry stays missing and present entries are mapped *)
Lemma option_lift_values {A B} (f : A -> B) d (xs : list (nest (option A))) :
  flat d (map (nest_map (option_map f)) xs) = map (option_map f) (flat d xs).
Proof. apply lift_values. Qed.

(* the `flat=True` option of the parsers: flattening one level commutes with the element-wise kernel *)
Lemma flatten_then_map {A B} (f : A -> B) (xs : list (nest A)) :
  map (nest_map f) (children xs) = children (map (nest_map f) xs).
Proof. symmetry. apply children_map. Qed.

(* records: a parser returning the zip of several field kernels, lifted, is the zip of the lifted kernels *)
Lemma zip_of_lifts {A B C} (f : A -> B) (g : A -> C) d (xs : list (nest A)) :
  flat d (map (nest_map (fun a => (f a, g a))) xs) = combine (flat d (map (nest_map f) xs)) (flat d (map (nest_map g) xs)).
Proof.
  rewrite !lift_values. induction (flat d xs) as [|a l IH]; [reflexivity|]. cbn [map combine]. rewrite IH. reflexivity.
Qed.
