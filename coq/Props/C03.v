(* C03 — Raw DAQ files are decoded event-by-event exactly as encoded.   Statements only.

   Models: PV.Model.RawFormat (structure + encoder enc_file, well-formedness wf_file), PV.Model.RawParser (mirror of
   raw_io.cc, both variants of the access primitives), PV.Model.RawReader (mirror of raw_io.py: arrays_gen; meaning of a
   file: records / columnar defined directly on the structure).  The tie to the working tree is the correspondence run
   by tools/props/c03.py (native raw_io.cc under sanitizers, pybes3.open_raw on files written from the same structures,
   every implementation answer re-checked against [columnar] inside Coq). *)
From Coq Require Import ZArith List Bool Permutation Sorted.
From PV.Model Require Import RawFormat RawParser RawReader.
From PV.Props Require Import C03Proofs C03Digi C03Wf C03Reader.
Import ListNotations.
Local Open Scope Z_scope.

(* the C++ parser on ANY well-formed event stream (events each optionally preceded by a block separator), unbounded
   sizes, any selection, both variants of the primitives: exactly the columns defined on the structure *)
Theorem C03_parse_roundtrip : forall chk sel (items : list item), Forall wf_item items ->
  parse_gen chk (fuel_for (flat_map enc_item items)) sel (flat_map enc_item items)
  = Ok (columnar (sel_of sel) (map snd items)).
Proof. exact parse_roundtrip. Qed.
Print Assumptions C03_parse_roundtrip.

(* raw_roundtrip: reading a well-formed file with at least one block returns the events of all blocks in file order,
   for every batch size >= 1, every completion order of the decoding threads, every selection (empty = default four),
   any name/tag length, any grouping of events into blocks, any number of status words / fragments *)
Theorem C03_raw_roundtrip : forall f, wf_file f -> f_blocks f <> [] ->
  forall chk lfix pb sched dets, 1 <= pb -> (forall n, Permutation (sched n) (seq 0 n)) ->
  arrays_gen chk lfix (reader_fuel (enc_file f)) (enc_file f) (-1) pb (map Some dets) sched
  = ROk (columnar (sel_of (eff_dets dets)) (file_events f)).
Proof.
  intros f Hwf Hne chk lfix pb sched dets Hpb Hs.
  exact (arrays_all f Hwf lfix pb Hpb sched Hs chk _ dets Hne (blocks_lt_reader_fuel f Hwf)).
Qed.
Print Assumptions C03_raw_roundtrip.

(* the same result as a list of per-event records (ak.Array.to_list()): one record per event, in file order, header
   words and per-sub-detector digi lists taken directly from the structure *)
Theorem C03_raw_roundtrip_records : forall sel evs,
  to_records (columnar sel evs) = records sel evs /\ length (records sel evs) = length evs.
Proof. intros. split; [apply to_records_columnar|apply map_length]. Qed.
Print Assumptions C03_raw_roundtrip_records.

(* what a record contains: status words, unselected and unknown sub-detectors contribute nothing *)
Theorem C03_record_content : forall sel e,
  er_hdr (record_of sel e) = [ev_time e; ev_no e; ev_run e; ev_l1 e; ev_tag1 e; ev_tag2 e; ev_tag3 e; ev_tag4 e] /\
  er_dets (record_of sel e) =
    map (fun d => (d, flat_map (fun sd => if sd_id sd =? det_id d
                                          then match sd_body sd with
                                               | SDRos l => flat_map (fun r => flat_map (fun b => digi_rows d (rd_data b)) (rs_robs r)) l
                                               | SDRaw _ => [] end
                                          else []) (ev_subs e)))
        (filter sel all_dets).
Proof. exact record_content. Qed.
Print Assumptions C03_record_content.

(* unpacking laws of fill_digi, for ALL word lists *)
Theorem C03_mdc_merge_law : forall ws,
  let out := digi_rows Mdc ws in
  StronglySorted Z.lt (map (fun r => hd 0 r) out) /\
  (forall id, In id (map (fun r => hd 0 r) out) <-> exists w, In w ws /\ f_id mdc_fields w = id) /\
  (forall r, In r out -> r = hd 0 r :: chan_value mdc_fields (hd 0 r) ws).
Proof. exact mdc_merge_law. Qed.
Print Assumptions C03_mdc_merge_law.
Theorem C03_tof_merge_law : forall ws,
  let out := digi_rows Tof ws in
  StronglySorted Z.lt (map (fun r => hd 0 r) out) /\
  (forall id, In id (map (fun r => hd 0 r) out) <-> exists w, In w ws /\ f_id tof_fields w = id) /\
  (forall r, In r out -> r = hd 0 r :: chan_value tof_fields (hd 0 r) ws).
Proof. exact tof_merge_law. Qed.
Print Assumptions C03_tof_merge_law.
Theorem C03_field_slices : forall w,
  mdc_fields w = ((w / 2^18) mod 2^14, (w / 2^17) mod 2^1, w mod 2^16, (w / 2^16) mod 2^1) /\
  tof_fields w = ((w / 2^21) mod 2^10, (w / 2^20) mod 2^1, w mod 2^15, (w / 2^19) mod 2^1) /\
  emc_row w = [(w / 2^19) mod 2^13; (w / 2^13) mod 2^6; w mod 2^11; (w / 2^11) mod 2^2] /\
  muc_row w = [(w / 2^16) mod 2^11; w mod 2^16].
Proof. intros w. repeat split; [apply mdc_fields_spec|apply tof_fields_spec|apply emc_row_spec|apply muc_row_spec]. Qed.
Print Assumptions C03_field_slices.
Theorem C03_one_to_one : forall ws,
  digi_rows Emc ws = map emc_row ws /\ digi_rows Muc ws = map muc_row ws /\
  digi_rows Trg ws = map (fun w => [w]) ws /\ digi_rows Ef ws = map (fun w => [w]) ws.
Proof. intros; repeat split. Qed.
Print Assumptions C03_one_to_one.

(* the quantifier says "any number of events": a well-formed file with NO block makes arrays() raise
   (ak.concatenate([])) instead of returning an empty array — refuted corner of the round trip *)
Theorem C03_zero_event_file_raises : forall f, wf_file f -> f_blocks f = [] ->
  forall chk fuel pb names sched, 1 <= pb ->
  arrays_gen chk false fuel (enc_file f) (-1) pb names sched = RThrow RConcatEmpty.
Proof. intros f Hwf He chk fuel pb names sched Hpb. apply arrays_zero_blocks_raises; [assumption|reflexivity|assumption]. Qed.
Print Assumptions C03_zero_event_file_raises.
(* ... with the repaired batch loop (proposed_fixes/C04_raw_reader_batch_loop.diff = /repo commits b37e1e6 + 17ed0bd, lfix = true) the zero-event file
   is read as the empty array, so the round trip then holds for any number of events *)
Theorem C03_zero_event_file_repaired : forall f, wf_file f -> f_blocks f = [] ->
  forall chk fuel pb dets sched, 1 <= pb -> (forall n, Permutation (sched n) (seq 0 n)) ->
  arrays_gen chk true fuel (enc_file f) (-1) pb (map Some dets) sched = ROk (columnar (sel_of (eff_dets dets)) (file_events f)).
Proof.
  intros f Hwf He chk fuel pb dets sched Hpb Hs. unfold file_events. rewrite He. cbn [flat_map].
  apply arrays_zero_blocks_fixed; [assumption|assumption|reflexivity|assumption].
Qed.
Print Assumptions C03_zero_event_file_repaired.

(* non-vacuity: a concrete 3-event / 2-block file is well-formed and is read back as stated *)
Example C03_example_wf : wf_file ex_file /\ f_blocks ex_file <> [].
Proof. split; [apply wf_fileb_ok; vm_compute; reflexivity|discriminate]. Qed.
Print Assumptions C03_example_wf.
Example C03_example_read :
  arrays_gen false false (reader_fuel (enc_file ex_file)) (enc_file ex_file) (-1) 1 [Some Mdc; Some Emc] (fun n => rev (seq 0 n))
  = ROk {| r_hdr := [[100; 0; 77; 0; 1; 2; 3; 4294967295]; [101; 1; 77; 1; 1; 2; 3; 4294967295]; [102; 2; 77; 2; 1; 2; 3; 4294967295]];
           r_dets := [ (Mdc, {| offsets := [0; 3; 6; 9];
                                rows := [[3; 0; 7; 0]; [5; 111; 222; 1]; [5; 0; 0; 0];
                                         [3; 0; 7; 0]; [5; 111; 222; 1]; [5; 1; 0; 0];
                                         [3; 0; 7; 0]; [5; 111; 222; 1]; [5; 2; 0; 0]] |});
                       (Emc, {| offsets := [0; 1; 2; 3]; rows := [[77; 5; 291; 2]; [77; 5; 291; 2]; [77; 5; 291; 2]] |}) ] |}.
Proof. vm_compute. reflexivity. Qed.
Print Assumptions C03_example_read.
