(* C18 — proofs: announced form = type of the built content; lazy (dask) = eager when post-processing is applied
   consistently; the digi refutation.  Models: PV.Model.AwkList, PV.Model.LazyForm. *)
From Coq Require Import String ZArith Lia Bool List.
Import ListNotations.
From PV.Model Require Import AwkList LazyForm.
Local Open Scope Z_scope.

(* ------------------------------------------------------------------------------------------------ *)
(** * form_matches_content *)

Definition fmc (f : fac) : Prop :=
  forall r c fm, raw_ok f r = true -> content_of f r = Some c -> form_of f = Some fm -> type_of c = fm.

Lemma type_of_wrap_regular ds c : type_of (wrap_regular_content ds c) = wrap_regular_form ds (type_of c).
Proof.
  unfold wrap_regular_content, wrap_regular_form. generalize (rev ds) as l. intros l. revert c.
  induction l as [|s r IH]; intros c; simpl; [reflexivity|]. apply IH.
Qed.

Lemma group_fmc subs : Forall fmc subs ->
  forall items cs fs, group_ok raw_ok subs items = true ->
    group_contents content_of subs items = Some cs -> group_forms form_of subs = Some fs ->
    map (fun kc => (fst kc, type_of (snd kc))) cs = fs.
Proof.
  induction 1 as [|x r Hx Hr IH]; intros items cs fs Hok Hc Hf.
  - simpl in *. destruct items; inversion Hc; inversion Hf; reflexivity.
  - destruct items as [|rx rr]; [simpl in Hok; discriminate|].
    simpl in Hok. apply andb_true_iff in Hok. destruct Hok as [Hok1 Hok2].
    simpl in Hc, Hf.
    destruct (content_of x rx) as [cx|] eqn:Ecx; [|discriminate].
    destruct (group_contents content_of r rr) as [cr|] eqn:Ecr; [|discriminate].
    destruct (form_of x) as [fx|] eqn:Efx; [|discriminate].
    destruct (group_forms form_of r) as [fr|] eqn:Efr; [|discriminate].
    pose proof (Hx rx cx fx Hok1 Ecx Efx) as Tx.
    pose proof (IH rr cr fr Hok2 Ecr eq_refl) as Tr.
    inversion Hc; inversion Hf; subst. rewrite is_empty_type_of.
    destruct (is_empty_content cx); simpl; reflexivity.
Qed.

Ltac raw_shape r :=
  destruct r as [|?dt ?d|?items]; try discriminate.
Ltac items_shape items :=
  repeat match goal with
         | H : context [match ?l with [] => _ | _ :: _ => _ end] |- _ => is_var l; destruct l; try discriminate
         | H : context [match ?x with RNone => _ | RArr _ _ => _ | RTup _ => _ end] |- _ => is_var x; destruct x; try discriminate
         end.

Theorem form_matches_content : forall f, fmc f.
Proof.
  induction f using fac_ind'; unfold fmc; intros r c fm Hok Hc Hf.
  - (* Prim *) simpl in *. raw_shape r. inversion Hc; inversion Hf; subst.
    destruct ct; try reflexivity; (destruct (dtype_eqb dt _) eqn:E; [apply dtype_eqb_eq in E; subst; reflexivity|discriminate]).
  - (* TObjArray *) simpl in *. items_shape r.
    destruct (content_of f r0) as [ce|] eqn:Ec; [|discriminate].
    destruct (form_of f) as [fe|] eqn:Ef; [|discriminate].
    inversion Hc; inversion Hf; subst. simpl. f_equal. apply (IHf r0 ce fe Hok Ec Ef).
  - (* Group *) simpl in *. raw_shape r.
    destruct (group_contents content_of subs items) as [cs|] eqn:Ec; [|discriminate].
    destruct (group_forms form_of subs) as [fs|] eqn:Ef; [|discriminate].
    pose proof (group_fmc subs H items cs fs Hok Ec Ef) as T.
    destruct cs as [|c1 cs]; simpl in T; subst fs.
    + inversion Hc; inversion Hf; subst. reflexivity.
    + inversion Hc; inversion Hf; subst. reflexivity.
  - (* CArr *) simpl in *. destruct (fs <? 0) eqn:Efl.
    + items_shape r.
      destruct (content_of f r0) as [ce|] eqn:Ec; [|discriminate].
      destruct (form_of f) as [fe|] eqn:Ef; [|discriminate].
      pose proof (IHf r0 ce fe Hok Ec Ef) as T.
      inversion Hc; inversion Hf; subst. simpl. f_equal.
      destruct dims; [apply type_of_wrap_regular|reflexivity].
    + destruct (content_of f r) as [ce|] eqn:Ec; [|discriminate].
      destruct (form_of f) as [fe|] eqn:Ef; [|discriminate].
      pose proof (IHf r ce fe Hok Ec Ef) as T.
      inversion Hc; inversion Hf; subst.
      destruct dims; [apply type_of_wrap_regular|reflexivity].
  - (* Seq *) simpl in *. items_shape r.
    destruct (content_of f r0) as [ce|] eqn:Ec; [|discriminate].
    destruct (form_of f) as [fe|] eqn:Ef; [|discriminate].
    inversion Hc; inversion Hf; subst. simpl. f_equal. apply (IHf r0 ce fe Hok Ec Ef).
  - (* Map *) simpl in *. items_shape r.
    apply andb_true_iff in Hok. destruct Hok as [Hk Hv].
    destruct (content_of f1 r0) as [ck|] eqn:Eck; [|discriminate].
    destruct (content_of f2 r1) as [cv|] eqn:Ecv; [|discriminate].
    destruct (form_of f1) as [fk|] eqn:Efk; [|discriminate].
    destruct (form_of f2) as [fv|] eqn:Efv; [|discriminate].
    inversion Hc; inversion Hf; subst. simpl.
    rewrite (IHf1 r0 ck fk Hk Eck Efk), (IHf2 r1 cv fv Hv Ecv Efv). reflexivity.
  - (* Str *) simpl in *. items_shape r. inversion Hc; inversion Hf; subst. reflexivity.
  - (* TArr *) simpl in *. items_shape r. apply dtype_eqb_eq in Hok. inversion Hc; inversion Hf; subst. reflexivity.
  - (* TObject *) simpl in *. destruct keep.
    + items_shape r. apply andb_true_iff in Hok. destruct Hok as [Hok H3]. apply andb_true_iff in Hok. destruct Hok as [H1 H2].
      apply dtype_eqb_eq in H1, H2, H3. inversion Hc; inversion Hf; subst. reflexivity.
    + inversion Hc; inversion Hf; subst. reflexivity.
  - (* Sym *) simpl in *. raw_shape r. apply dtype_eqb_eq in Hok. inversion Hc; inversion Hf; subst. reflexivity.
  - (* Empty *) simpl in *. inversion Hc; inversion Hf; subst. reflexivity.
  - (* Cgem: no form *) simpl in Hf. discriminate.
Qed.

(* ------------------------------------------------------------------------------------------------ *)
(** * to_buffers / from_buffers round trip *)

Lemma record_roundtrip fs :
  Forall (fun kc => forall rest, from_buffers (type_of (snd kc)) (to_buffers (snd kc) ++ rest) = Some (snd kc, rest)) fs ->
  forall rest, record_from_buffers from_buffers (map (fun kc => (fst kc, type_of (snd kc))) fs)
                 (flat_map (fun kc => to_buffers (snd kc)) fs ++ rest) = Some (fs, rest).
Proof.
  induction 1 as [|[k c] r Hx Hr IH]; intros rest; [reflexivity|].
  simpl in *. rewrite <- app_assoc. rewrite Hx. rewrite IH. reflexivity.
Qed.

Theorem buffers_roundtrip c : forall rest, from_buffers (type_of c) (to_buffers c ++ rest) = Some (c, rest).
Proof.
  induction c using content_ind'; intros rest; simpl.
  - unfold dtype_eqb. destruct (dtype_eq_dec dt dt); [reflexivity|congruence].
  - reflexivity.
  - rewrite IHc. reflexivity.
  - rewrite IHc. reflexivity.
  - rewrite (record_roundtrip fs H rest). reflexivity.
Qed.

Corollary rebuild_type_of c : rebuild (type_of c) (to_buffers c) = Some c.
Proof. unfold rebuild. rewrite <- (app_nil_r (to_buffers c)). rewrite buffers_roundtrip. reflexivity. Qed.

(* ------------------------------------------------------------------------------------------------ *)
(** * the digi post-processing acts on the type exactly as its form-level counterpart *)

Lemma map_vals_map_vals U V W (g : V -> W) (h : U -> V) l : map_vals g (map_vals h l) = map_vals (fun x => g (h x)) l.
Proof. unfold map_vals. rewrite map_map. reflexivity. Qed.

Lemma map_vals_ext V W (g h : V -> W) l : (forall x, g x = h x) -> map_vals g l = map_vals h l.
Proof. intros E. unfold map_vals. apply map_ext. intros [k v]. simpl. rewrite E. reflexivity. Qed.

Lemma type_of_record fs : type_of (CRecord fs) = FRecord (map_vals type_of fs).
Proof. reflexivity. Qed.

Lemma flatten_fields_type fs : map_vals type_of (flatten_fields_c fs) = flatten_fields_f (map_vals type_of fs).
Proof.
  unfold flatten_fields_c, flatten_fields_f.
  rewrite map_vals_map_vals.
  rewrite (map_vals_ext _ _ (fun x => type_of (of_member_c x)) (fun x => of_member_f (mmap type_of x))).
  2:{ intros [c|subs]; reflexivity. }
  rewrite <- (map_vals_map_vals _ _ _ of_member_f (mmap type_of)).
  rewrite digi_flatten_natural. rewrite !map_vals_map_vals. do 2 f_equal.
  apply map_vals_ext. intros c. destruct c; reflexivity.
Qed.

Lemma has_rawdata_map_vals V W (g : V -> W) fs : has_rawdata (map_vals g fs) = has_rawdata fs.
Proof. unfold has_rawdata, map_vals. induction fs as [|[k v] r IH]; simpl; [reflexivity|]. rewrite IH. reflexivity. Qed.

Theorem type_of_process_digi c c' : process_digi c = Some c' -> process_digi_form (type_of c) = Some (type_of c').
Proof.
  destruct c as [| |s offsets el| |]; try discriminate. simpl.
  destruct el as [| | | |fs]; try discriminate.
  - intros H; inversion H; reflexivity.
  - destruct fs as [|kc fs]; [intros H; inversion H; reflexivity|].
    unfold process_digi. intros H.
    change (type_of (CRecord (kc :: fs))) with (FRecord (map_vals type_of (kc :: fs))).
    remember (kc :: fs) as fs0 eqn:E0.
    assert (Hne : map_vals type_of fs0 <> []) by (subst; discriminate).
    destruct (map_vals type_of fs0) as [|kf fr] eqn:Em; [congruence|]. rewrite <- Em.
    rewrite has_rawdata_map_vals. rewrite E0 in H. rewrite <- E0 in H.
    destruct (has_rawdata fs0); [|subst; discriminate].
    rewrite <- flatten_fields_type.
    assert (Hc : match fs0 with [] => Some (CList s offsets (CRecord [])) | _ :: _ =>
               match flatten_fields_c fs0 with [] => None | fs' => Some (CList s offsets (CRecord fs')) end end = Some c').
    { subst fs0. exact H. }
    subst fs0. destruct (flatten_fields_c (kc :: fs)) as [|k1 r1] eqn:Ef; [discriminate|].
    inversion Hc; subst. simpl. reflexivity.
Qed.

Corollary type_of_preprocess is_digi c c' :
  preprocess is_digi c = Some c' -> preprocess_form is_digi (type_of c) = Some (type_of c').
Proof. destruct is_digi; simpl; [apply type_of_process_digi|]. intros H; inversion H; reflexivity. Qed.

(* ------------------------------------------------------------------------------------------------ *)
(** * lazy = eager *)

(* whatever is announced, if it IS the type of the eagerly built array the lazy array is that array *)
Lemma lazy_of_announced is_digi announce f r c :
  eager is_digi f r = Some c -> announced announce f = Some (type_of c) -> lazy is_digi announce f r = Some c.
Proof. intros He Ha. unfold lazy. rewrite Ha, He. apply rebuild_type_of. Qed.

(* post-processing applied in neither path (is_digi = false) or in both (the announced form is post-processed as well) *)
Theorem lazy_eq_eager is_digi f r c :
  raw_ok f r = true -> form_of f <> None -> eager is_digi f r = Some c ->
  lazy is_digi (preprocess_form is_digi) f r = Some c /\
  announced (preprocess_form is_digi) f = Some (type_of c).
Proof.
  intros Hok Hf He.
  assert (Ha : announced (preprocess_form is_digi) f = Some (type_of c)).
  { unfold announced. destruct (form_of f) as [fm|] eqn:Ef; [|congruence].
    unfold eager in He. destruct (content_of f r) as [c0|] eqn:Ec; [|discriminate].
    rewrite <- (form_matches_content f r c0 fm Hok Ec Ef). apply type_of_preprocess. exact He. }
  split; [|exact Ha]. apply lazy_of_announced; assumption.
Qed.

(* a branch whose factory has no form does not support lazy reading at all: nothing is announced, nothing is computed *)
Theorem no_form_no_lazy is_digi announce f r : form_of f = None -> lazy is_digi announce f r = None /\ announced announce f = None.
Proof. intros H. unfold lazy, announced. rewrite H. split; reflexivity. Qed.

Lemma cgem_has_no_form n name : form_of (FacCgem n) = None /\ form_of (FacTObjArray name (FacCgem n)) = None.
Proof. split; reflexivity. Qed.

(* ------------------------------------------------------------------------------------------------ *)
(** * the code under study: the digi post-processing lives only in the eager path *)

Definition mdc_digi_fac : fac :=
  FacTObjArray "m_mdcDigiCol"
    (FacGroup "TMdcDigi"
       [FacGroup "TRawData" [FacTObject "TObject" false; FacPrim "m_intId" DU32; FacPrim "m_timeChannel" DU32;
                             FacPrim "m_chargeChannel" DU32; FacPrim "m_trackIndex" DI32];
        FacPrim "m_overflow" DU32]).
(* two events with 2 and 1 digis *)
Definition mdc_digi_raw : raw :=
  RTup [RArr DU32 [0; 2; 3];
        RTup [RTup [RNone; RArr DU32 [268435457; 268435458; 268435459]; RArr DU32 [11; 12; 13];
                    RArr DU32 [21; 22; 23]; RArr DI32 [0; 1; -1]];
              RArr DU32 [0; 0; 1]]].

Theorem lazy_digi_refuted :
  exists f r ce cl,
    raw_ok f r = true /\ eager true f r = Some ce /\
    lazy true (fun fm => Some fm) f r = Some cl /\                  (* the announced form is NOT post-processed *)
    announced (fun fm => Some fm) f = Some (type_of cl) /\          (* (it does equal the type of what compute() returns) *)
    to_buffers cl = to_buffers ce /\                                (* same numbers ... *)
    type_of cl <> type_of ce /\ cl <> ce.                           (* ... different type: TRawData stays nested *)
Proof.
  exists mdc_digi_fac, mdc_digi_raw. eexists. eexists.
  split; [vm_compute; reflexivity|]. split; [vm_compute; reflexivity|].
  split; [vm_compute; reflexivity|]. split; [vm_compute; reflexivity|].
  split; [vm_compute; reflexivity|]. split; intro E; vm_compute in E; discriminate.
Qed.
