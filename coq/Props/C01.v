(* C01 — ROOT object collections are decoded exactly as stored.   Statements only; proofs in C01Codec.v / C01Proofs.v.
   Model: PV.Model.RootStream (byte-level primitives), RootSchema (schema-driven encoder + independent member-by-member
   decoder), RootGlue (mirrors of Bes3TObjArrayReader::read, Bes3CgemClusterColReader::read, the entry loop, ListOffset
   reconstruction, digi flattening, factory selection).  Hand models, tied to the working tree by the correspondence of
   tools/props/c01.py.  Every round trip holds in front of ANY continuation, for lists of any length. *)
From Coq Require Import ZArith List Bool.
Import ListNotations.
From PV.Model Require Import RootStream RootSchema RootGlue.
From PV.Props Require Import C01Codec C01Proofs.
Local Open Scope Z_scope.

(* member-by-member deserialisation following the schema inverts the serialisation, for every schema (nested bases,
   fixed arrays of any shape, TString and arrays of them, vector / nested vector / map incl. member-wise maps, C arrays of
   STL members, TArray, TObject with or without kIsReferenced, packed matrices) and every well-formed stored value,
   incidental fields (versions, fUniqueID, fBits, pidf, map header bytes) included *)
Theorem C01_schema_roundtrip : forall (s : mty) (v : val) (rest : bytes),
  mwf s v -> mdec s (menc s v ++ rest) = Some (v, rest).
Proof. exact mdec_menc. Qed.
Print Assumptions C01_schema_roundtrip.

Theorem C01_stl_payload_roundtrip : forall (t : sty) (v : val) (rest : bytes),
  swf t v -> sdec t (senc t v ++ rest) = Some (v, rest).
Proof. exact sdec_senc. Qed.
Print Assumptions C01_stl_payload_roundtrip.

(* one TObjArray through the mirror of Bes3TObjArrayReader::read, for ANY element codec that round-trips: any number of
   objects (0 included), any object-header variant per object (new class tag + name, or class reference), any header
   field values; the offsets vector grows by exactly the object count, the elements come out in stored order, the cursor
   ends exactly behind the collection *)
Theorem C01_tobjarray_read : forall (V : Type) (elem_read : bytes -> option (V * bytes)) (elem_enc : V -> bytes) (P : V -> Prop),
  (forall v rest, P v -> elem_read (elem_enc v ++ rest) = Some (v, rest)) ->
  forall (ev : colhdr * list (objhdr * V)) (offsets : list Z) (rest : bytes),
  colhdr_wf (fst ev) -> u32_wf (zlen (snd ev)) -> Forall (fun ho => objhdr_wf (fst ho) /\ P (snd ho)) (snd ev) ->
  tobjarray_read elem_read offsets (event_enc elem_enc ev ++ rest) =
  Some ((offsets ++ [u32w (last offsets 0 + zlen (snd ev))], map snd (snd ev)), rest).
Proof. exact c01_tobjarray_read_pf. Qed.
Print Assumptions C01_tobjarray_read.

(* a whole basket: any number of events with any per-event counts (empty collections anywhere), entry boundaries given by
   the byte offsets; result: offsets = prefix sums of the counts starting at 0, content = all objects in stored order;
   ListOffsetArray(offsets, content) gives back exactly the per-event object lists: nothing lost, duplicated, shifted
   between objects or moved between events *)
Theorem C01_tobjarray_roundtrip : forall (V : Type) (elem_read : bytes -> option (V * bytes)) (elem_enc : V -> bytes) (P : V -> Prop),
  (forall v rest, P v -> elem_read (elem_enc v ++ rest) = Some (v, rest)) ->
  forall evs : list (colhdr * list (objhdr * V)),
  Forall (fun ev => colhdr_wf (fst ev) /\ u32_wf (zlen (snd ev)) /\ Forall (fun ho => objhdr_wf (fst ho) /\ P (snd ho)) (snd ev)) evs ->
  fold_right Z.add 0 (map (fun ev => zlen (snd ev)) evs) < 4294967296 ->
  let stored := map (event_enc elem_enc) evs in
  let objects := map (fun ev => map snd (snd ev)) evs in
  exists offsets content,
    read_branch elem_read (concat stored) (0 :: prefix_sums 0 (map zlen stored)) = Some (offsets, content) /\
    offsets = 0 :: prefix_sums 0 (map zlen objects) /\ content = concat objects /\
    list_offset offsets content = objects.
Proof. exact c01_tobjarray_roundtrip_pf. Qed.
Print Assumptions C01_tobjarray_roundtrip.

(* the two theorems composed: collections of schema-described objects (the case of every registered branch) *)
Theorem C01_collection_of_class : forall (cls : mty) (evs : list (colhdr * list (objhdr * val))),
  Forall (fun ev => colhdr_wf (fst ev) /\ u32_wf (zlen (snd ev)) /\ Forall (fun ho => objhdr_wf (fst ho) /\ mwf cls (snd ho)) (snd ev)) evs ->
  fold_right Z.add 0 (map (fun ev => zlen (snd ev)) evs) < 4294967296 ->
  let stored := map (event_enc (menc cls)) evs in
  let objects := map (fun ev => map snd (snd ev)) evs in
  exists offsets content,
    read_branch (mdec cls) (concat stored) (0 :: prefix_sums 0 (map zlen stored)) = Some (offsets, content) /\
    list_offset offsets content = objects.
Proof. exact c01_collection_of_class_pf. Qed.
Print Assumptions C01_collection_of_class.

(* CGEM cluster collection through the mirror of Bes3CgemClusterColReader::read, both class versions (cv = 0: with
   m_recPositionY; cv = 1: without), any counts (empty events anywhere), any object-header variant, and ANY fBits on ANY
   object — in particular on the first object of the basket, from whose byte count (96 / 98 with pidf for version 0,
   88 / 90 for version 1) the sticky version flag is derived.  cgev_ok only asks for representable field values
   (tobject_wf allows every fBits; pidf is present iff kIsReferenced) and that all clusters have the file's class version *)
Theorem C01_cgem_roundtrip : forall (cv : Z) (evs : list (objhdr * colhdr * list (objhdr * (Z * tobject * cgem)))),
  Forall (cgev_ok cv) evs ->
  fold_right Z.add 0 (map (fun ev => zlen (cgev_objs ev)) evs) < 4294967296 ->
  let stored := map cgem_event_enc evs in
  let clusters := map (fun ev => map cg_of (cgev_objs ev)) evs in
  exists mver offsets content,
    cgem_branch (concat stored) (0 :: prefix_sums 0 (map zlen stored)) = Some ((mver, offsets), content) /\
    mver = ver_after cv (-1) (concat (map cgev_objs evs)) /\
    content = concat clusters /\ list_offset offsets content = clusters.
Proof. exact c01_cgem_roundtrip_pf. Qed.
Print Assumptions C01_cgem_roundtrip.

(* the version flag is determined by the first stored cluster whatever its fBits are *)
Theorem C01_cgem_first_object_any_bits : forall (cv : Z) (x : objhdr * (Z * tobject * cgem)) (rest : bytes),
  cgobj_ok cv x -> cgem_obj_read (-1) (cgem_obj_enc x ++ rest) = Some ((cv, cg_of x), rest).
Proof. exact c01_cgem_first_object_any_bits_pf. Qed.
Print Assumptions C01_cgem_first_object_any_bits.

(* the stream the reader used to throw on (first cluster of the basket referenced, fNBytes = 98) now decodes, and so does its
   version-1 sibling (empty first event, then fNBytes = 90 followed by an unreferenced 88-byte cluster) *)
Example C01_ex_cgem_referenced_first :
  (Forall (cgev_ok 0) cg_referenced_first /\ Forall (cgev_ok 1) cg_referenced_first_v1) /\
  cgem_branch (concat (map cgem_event_enc cg_referenced_first)) (0 :: prefix_sums 0 (map zlen (map cgem_event_enc cg_referenced_first)))
    = Some ((0, [0; 1]), [cg_sample]) /\
  cgem_branch (concat (map cgem_event_enc cg_referenced_first_v1)) (0 :: prefix_sums 0 (map zlen (map cgem_event_enc cg_referenced_first_v1)))
    = Some ((1, [0; 0; 2]), [cg_sample1; cg_sample1]).
Proof. exact c01_ex_cgem_referenced_first_pf. Qed.

(* digi collections: the members of the raw-data base appear at top level in place of the base, with the same values and
   in the same order; every other member is kept; none is lost or duplicated.  The only side condition is the absence of
   a field-name clash, which the check evaluates on every schema it meets *)
Theorem C01_digi_flatten_lossless : forall fields : list (bytes * pv),
  fields <> [] -> In RAW (map fst fields) -> NoDup (map fst (splice fields)) ->
  flatten_digi (PRec fields) = Some (PRec (splice fields)) /\
  (forall kv, In kv (splice fields) <->
     (In kv fields /\ fst kv <> RAW) \/ (exists sub, In (RAW, PRec sub) fields /\ In kv sub)).
Proof. exact c01_digi_flatten_lossless_pf. Qed.
Print Assumptions C01_digi_flatten_lossless.

(* factory selection: registered collections go to the TObjArray reader (the CGEM cluster collection of a file without
   TCgemCluster streamer info to the dedicated reader), non-TObject bases inside BES3 branches to the header-reading base
   reader, listed matrices to the symmetric-matrix reader — and the unspecified iteration order of Python's factory SET
   inside one priority class cannot change the outcome *)
Theorem C01_select : forall r : req,
  (r_top r = TTObjArray -> r_registered r = true -> r_cgem_path r && negb (r_has_tcgemcluster r) = false -> select r = Some FTObjArray) /\
  (r_cgem_path r = true -> r_has_tcgemcluster r = false -> select r = Some FCgem) /\
  (r_top r = TBASE -> r_ftype r = 0 -> r_in_bes3 r = true -> r_target_item r = false ->
   r_cgem_path r && negb (r_has_tcgemcluster r) = false -> select r = Some FBes3Base) /\
  (r_target_item r = true -> r_top r = TPrimName -> r_cgem_path r && negb (r_has_tcgemcluster r) = false -> select r = Some FSym).
Proof. exact c01_select_pf. Qed.
Print Assumptions C01_select.

Theorem C01_select_order_irrelevant : forall (r : req) (order : list fac),
  req_consistent r -> (forall f, In f order) -> prio_sorted order -> select_in order r = select r.
Proof. exact select_order_irrelevant. Qed.
Print Assumptions C01_select_order_irrelevant.

(* ---- non-vacuity: a concrete class with a base, an array, a vector, a member-wise map and a referenced TObject *)
Definition ex_cls : mty :=
  MBase [84] [[66]; [97]; [98]; [99]; [100]]
        [MTObj; MBase [82] [[120]] [MPrim [] PU32]; MPrim [2%nat] PI32; MStl [] (SVec (SPrim PF64)); MStl [] (SMap (SPrim PI32) (SPrim PF64))].
Definition ex_val : val :=
  VRec 3 [VTObj {| to_ver := 1; to_uid := 5; to_bits := 16; to_pidf := 77 |}; VRec 1 [VNum 4000000000]; VList [VNum (-1); VNum 2];
          VHdr 9 [] (VList [VNum 4607182418800017408; VNum 9221120237041090561]);
          VHdr 16393 [0; 1; 2; 3; 4; 5] (VList [VPair (VNum (-7)) (VNum 1); VPair (VNum 8) (VNum 2)])].
Example C01_ex_roundtrip : mdec ex_cls (menc ex_cls ex_val ++ [1; 2; 3]) = Some (ex_val, [1; 2; 3]).
Proof. vm_compute. reflexivity. Qed.
Example C01_ex_branch :
  let evs := [({| ch_nbytes := 100; ch_ver := 3; ch_tver := 1; ch_uid := 0; ch_bits := 33554432; ch_name := 0; ch_low := 0 |},
               [(HNew 90 [84], ex_val); (HRef 60 2147483650, ex_val)]);
              ({| ch_nbytes := 14; ch_ver := 3; ch_tver := 1; ch_uid := 0; ch_bits := 33554432; ch_name := 0; ch_low := 0 |}, []);
              ({| ch_nbytes := 50; ch_ver := 3; ch_tver := 1; ch_uid := 0; ch_bits := 33554432; ch_name := 0; ch_low := 0 |},
               [(HRef 60 2147483650, ex_val)])] in
  let stored := map (event_enc (menc ex_cls)) evs in
  read_branch (mdec ex_cls) (concat stored) (0 :: prefix_sums 0 (map zlen stored)) = Some ([0; 2; 2; 3], [ex_val; ex_val; ex_val]).
Proof. vm_compute. reflexivity. Qed.
Example C01_ex_view :
  mview ex_cls ex_val =
  Some (PRec [([97], PRec [([120], PNum 4000000000)]); ([98], PList [PNum (-1); PNum 2]);
              ([99], PList [PNum 4607182418800017408; PNum 9221120237041090561]);
              ([100], PList [PRec [(KEY, PNum (-7)); (VAL, PNum 1)]; PRec [(KEY, PNum 8); (VAL, PNum 2)]])]).
Proof. vm_compute. reflexivity. Qed.
Example C01_ex_flatten :
  flatten_digi (PRec [(RAW, PRec [([105], PNum 1); ([116], PNum 2)]); ([109], PNum 3)]) =
  Some (PRec [([105], PNum 1); ([116], PNum 2); ([109], PNum 3)]).
Proof. vm_compute. reflexivity. Qed.
