(* C17 — Geometry results always reflect the current geometry tables.
   Statements only; proofs in C17Proofs.v.  Model: PV.Model.Cache (hand-written mirror of pybes3/_cache_numba.py,
   the import-time check of pybes3/__init__.py and numba's compile-or-load), tied to the working tree by the
   correspondence check of tools/props/c17.py.

   Quantification: every theorem is for ALL op lists / ALL states satisfying the invariant (induction; no bound),
   ALL environment choices of a clean-up run (directory order, crash point k, failing and vanished removals).
   Hypotheses (hist_ok, unfolded in C17_assumptions_meaning):
     clock   — every file-writing event carries 0 < dt: it is stamped in a later timestamp tick than all earlier ones;
     process — when a process compiles a kernel (creates a cache) the table it holds in memory is the current one. *)
From Coq Require Import ZArith List Bool.
From PV.Model Require Import Cache.
From PV.Props Require Import C17Proofs.
Import ListNotations.
Local Open Scope Z_scope.

(* what the two assumptions say, op by op *)
Theorem C17_assumptions_meaning : forall s o,
  op_ok s o <->
  match o with
  | UpdateTable _ dt => 0 < dt
  | FirstUse t fn dt => 0 < dt /\ (will_compile s t fn = true -> loaded s t = None \/ loaded s t = Some (ver s t))
  | _ => True
  end.
Proof. exact op_ok_meaning. Qed.
Print Assumptions C17_assumptions_meaning.

(* a purely syntactic sufficient condition for the assumptions (see `disciplined`) *)
Theorem C17_disciplined_histories_ok : forall ops,
  disciplined (fun _ => false) (fun _ => false) ops = true -> hist_ok init ops.
Proof. exact disciplined_hist_ok. Qed.
Print Assumptions C17_disciplined_histories_ok.

(* the freshness invariant, written out: after ANY history, a cache compiled from an older version of its table is
   strictly older than the table file; no file is stamped in the future; no cache claims a version from the future *)
Theorem C17_invariant : forall ops, hist_ok init ops ->
  let s := run init ops in
  (forall f g, In f (fs s) -> In g (fs s) -> is_cache f = true -> f_built f < ver s (f_tbl f) ->
               is_src (f_tbl f) g = true -> f_mtime f < f_mtime g) /\
  (forall f, In f (fs s) -> f_mtime f <= clock s) /\
  (forall f, In f (fs s) -> is_cache f = true -> f_built f <= ver s (f_tbl f)).
Proof. exact invariant_reachable. Qed.
Print Assumptions C17_invariant.

Theorem C17_invariant_initial : Inv init.
Proof. exact inv_init. Qed.
Print Assumptions C17_invariant_initial.

Theorem C17_invariant_preserved : forall s o, Inv s -> op_ok s o -> Inv (step s o).
Proof. exact inv_step. Qed.
Print Assumptions C17_invariant_preserved.

(* after an import that completes: no stale cache is left, and every lookup of the new process returns values of the
   current tables (any kernels, any order, whether compiled now or loaded from a surviving cache) *)
Theorem C17_import_discards_stale : forall s e, Inv s -> o_err (step s (Import e)) = ENone ->
  no_stale (step s (Import e)) /\
  forall us, use_values (step s (Import e)) us = map (fun u => Some (ver s (fst (fst u)))) us.
Proof. exact import_discards_stale. Qed.
Print Assumptions C17_import_discards_stale.

(* headline, over all histories from the initial state; the import completes unless the environment interferes *)
Theorem C17_stale_never_survives_import : forall ops e, hist_ok init ops ->
  let s1 := step (run init ops) (Import e) in
  (o_err s1 = ENone -> no_stale s1 /\
                       forall us, use_values s1 us = map (fun u => Some (ver (run init ops) (fst (fst u)))) us) /\
  (benign e -> forallb not_drop ops = true -> o_err s1 = ENone).
Proof. exact stale_never_survives_import. Qed.
Print Assumptions C17_stale_never_survives_import.

(* nothing is removed when no cache is older than its table (no invariant, no clock assumption needed; equal mtimes keep) *)
Theorem C17_fresh_kept : forall s e,
  (forall c g, In c (fs s) -> In g (fs s) -> is_cache c = true -> is_src (f_tbl c) g = true -> f_mtime g <= f_mtime c) ->
  fs (step s (Import e)) = fs s /\ o_removed (step s (Import e)) = [].
Proof. exact fresh_kept. Qed.
Print Assumptions C17_fresh_kept.

(* a clean-up interrupted after any number k of removals (any directory order, any further removal failures) leaves a
   state from which the next import again discards every stale cache *)
Theorem C17_crash_safe : forall s e1 k e2, Inv s ->
  let s1 := step s (Import (with_budget e1 (Some k))) in
  let s2 := step s1 (Import e2) in
  Inv s1 /\
  (o_err s2 = ENone -> no_stale s2 /\ forall us, use_values s2 us = map (fun u => Some (ver s (fst (fst u)))) us) /\
  (benign e2 -> tables_present (fs s) -> o_err s2 = ENone).
Proof. exact crash_safe. Qed.
Print Assumptions C17_crash_safe.

(* forced clear: if it returns normally no cache file is left; it does return normally, reporting every cache file as
   removed, when the environment is benign and both table files exist *)
Theorem C17_forced_clear_all : forall s e,
  (o_err (step s (ForcedClear e)) = ENone -> forall f, In f (fs (step s (ForcedClear e))) -> is_cache f = false) /\
  (benign e -> tables_present (fs s) ->
     o_err (step s (ForcedClear e)) = ENone /\
     forall c, In c (fs s) -> is_cache c = true -> In (fid c) (o_removed (step s (ForcedClear e)))).
Proof. exact forced_clear_all. Qed.
Print Assumptions C17_forced_clear_all.

(* ---- the assumptions cannot be dropped (concrete witnesses, computed) ---- *)
Theorem C17_import_discards_stale_needs_clock :
  let s := run init [Import env0; FirstUse Mdc 1 1; UpdateTable Mdc 0; Import env0; FirstUse Mdc 1 1] in
  o_err s = ENone /\ ver s Mdc = 2 /\ o_value s = Some 1 /\ stale_ids s = [mkid Mdc KNbi 1; mkid Mdc KNbc 1] /\
  hist_okb init hist_equal_mtime = false.
Proof. exact import_discards_stale_needs_clock. Qed.
Print Assumptions C17_import_discards_stale_needs_clock.

Theorem C17_import_discards_stale_needs_fresh_load :
  let s := run init [Import env0; FirstUse Mdc 1 1; UpdateTable Mdc 1; ForcedClear env0; FirstUse Mdc 2 1;
                     Import env0; FirstUse Mdc 2 1] in
  o_err s = ENone /\ ver s Mdc = 2 /\ o_value s = Some 1 /\ stale_ids s = [mkid Mdc KNbi 2; mkid Mdc KNbc 2] /\
  hist_okb init hist_long_lived = false /\
  forallb (fun o => match o with UpdateTable _ dt | FirstUse _ _ dt => 0 <? dt | _ => true end) hist_long_lived = true.
Proof. exact import_discards_stale_needs_fresh_load. Qed.
Print Assumptions C17_import_discards_stale_needs_fresh_load.

Theorem C17_forced_clear_needs_tables :
  let s := run init [Import env0; FirstUse Emc 1 1; DropTable Mdc; ForcedClear env0] in
  o_err s = EValue /\ map fid (filter is_cache (fs s)) = [mkid Emc KNbi 1; mkid Emc KNbc 1].
Proof. exact forced_clear_needs_tables. Qed.
Print Assumptions C17_forced_clear_needs_tables.

(* ---- non-vacuity: a 17-op history with both tables, loads from disk, an update between imports, two successive
        interrupted clean-ups, a forced clear; it satisfies every hypothesis and exercises every branch ---- *)
Example C17_demo_history_satisfies_assumptions :
  hist_okb init hist_demo = true /\ disciplined (fun _ => false) (fun _ => false) hist_demo = true /\
  forallb not_drop hist_demo = true.
Proof. vm_compute. repeat split. Qed.
Print Assumptions C17_demo_history_satisfies_assumptions.

(* the two crashes really leave partial states (stale files present), the completing import removes the rest and the
   lookups afterwards are current; the emc caches (fresh) survive all three *)
Example C17_demo_crash_points :
  let s7 := run init (firstn 7 hist_demo) in let s8 := step s7 (Crash 2) in let s9 := step s8 (Crash 1) in
  let s10 := step s9 (Import env0) in
  stale_ids s7 = [mkid Mdc KNbi 2; mkid Mdc KNbc 2; mkid Mdc KNbi 1; mkid Mdc KNbc 1] /\
  (o_err s8, o_removed s8, stale_ids s8) = (EInterrupt, [mkid Mdc KNbi 2; mkid Mdc KNbc 2], [mkid Mdc KNbi 1; mkid Mdc KNbc 1]) /\
  (o_err s9, o_removed s9, stale_ids s9) = (EInterrupt, [mkid Mdc KNbi 1], [mkid Mdc KNbc 1]) /\
  (o_err s10, o_removed s10, stale_ids s10) = (ENone, [mkid Mdc KNbc 1], []) /\
  map fid (filter is_cache (fs s10)) = [mkid Emc KNbi 1; mkid Emc KNbc 1] /\
  use_values s10 [(Mdc, 2, 1); (Emc, 1, 1)] = [Some 2; Some 1].
Proof. vm_compute. repeat split. Qed.
Print Assumptions C17_demo_crash_points.

(* fresh_kept's hypothesis holds in a state with caches, and the import there removes nothing *)
Example C17_demo_fresh_kept :
  let s := run init (firstn 4 hist_demo) in
  all_fresh (fs s) = true /\ length (filter is_cache (fs s)) = 6%nat /\ o_removed (step s (Import env0)) = [].
Proof. vm_compute. repeat split. Qed.
Print Assumptions C17_demo_fresh_kept.

(* forced clear on a state with caches of both tables removes all six files *)
Example C17_demo_forced_clear :
  let s := run init (firstn 4 hist_demo) in let s' := step s (ForcedClear env0) in
  o_err s' = ENone /\ length (o_removed s') = 6%nat /\ filter is_cache (fs s') = [].
Proof. vm_compute. repeat split. Qed.
Print Assumptions C17_demo_forced_clear.

(* failing removals: the file stays, ImportError is raised, the import does not complete *)
Example C17_demo_denied_removal :
  let s := run init (firstn 7 hist_demo) in let s' := step s (Import (mkEnv [] None [mkid Mdc KNbc 1] [])) in
  o_err s' = EImport /\ alive s' = false /\ stale_ids s' = [mkid Mdc KNbc 1].
Proof. vm_compute. repeat split. Qed.
Print Assumptions C17_demo_denied_removal.
