(* C09 — Geometry lookups agree with the published tables and with each other.  Statements only.
   Tables (exact dyadic values scaled by 2^K) and kernels are regenerated from the working tree on every run. *)
From Coq Require Import ZArith List Bool Reals.
Import ListNotations.
From PV.Lib Require Import Bits Tables RTables.
From PV.Gen Require Import TabMdcInt TabEmcInt GidMdc GidEmc TabPos PosCode.
From PV.Gen Require Import TabMdcPos_east_x TabMdcPos_east_y TabMdcPos_east_z TabMdcPos_west_x TabMdcPos_west_y TabMdcPos_west_z.
From PV.Gen Require Import TabEmcPos_0 TabEmcPos_1 TabEmcPos_2 TabEmcPos_3 TabEmcPos_4 TabEmcPos_5 TabEmcPos_6 TabEmcPos_7.
From PV.Props Require Import C09Proofs.

(* every accessor returns the row of the published table: right column, right index *)
Theorem C09_mdc_lookup_is_row : forall g,
  mdc_gid_to_west_x g = rlookup mdc_pos_K mdc_west_x g /\ mdc_gid_to_west_y g = rlookup mdc_pos_K mdc_west_y g /\
  mdc_gid_to_west_z g = rlookup mdc_pos_K mdc_west_z g /\ mdc_gid_to_east_x g = rlookup mdc_pos_K mdc_east_x g /\
  mdc_gid_to_east_y g = rlookup mdc_pos_K mdc_east_y g /\ mdc_gid_to_east_z g = rlookup mdc_pos_K mdc_east_z g /\
  mdc_gid_to_layer g = tlookup mdc_layer g /\ mdc_gid_to_wire g = tlookup mdc_wire g /\
  mdc_gid_to_superlayer g = tlookup mdc_superlayer g /\ mdc_gid_to_stereo g = tlookup mdc_stereo g /\
  mdc_gid_to_is_stereo g = tlookup mdc_is_stereo g.
Proof. exact mdc_lookup_is_row. Qed.
Print Assumptions C09_mdc_lookup_is_row.

Theorem C09_emc_lookup_is_row : forall g k,
  emc_gid_to_center_x g = rlookup emc_pos_K emc_center_x g /\ emc_gid_to_center_y g = rlookup emc_pos_K emc_center_y g /\
  emc_gid_to_center_z g = rlookup emc_pos_K emc_center_z g /\
  emc_gid_to_front_center_x g = rlookup emc_pos_K emc_front_center_x g /\
  emc_gid_to_front_center_y g = rlookup emc_pos_K emc_front_center_y g /\
  emc_gid_to_front_center_z g = rlookup emc_pos_K emc_front_center_z g /\
  emc_gid_to_point_x g k = rlookup2 emc_pos_K emc_points_x g k /\ emc_gid_to_point_y g k = rlookup2 emc_pos_K emc_points_y g k /\
  emc_gid_to_point_z g k = rlookup2 emc_pos_K emc_points_z g k /\
  t2w emc_points_x = 8%Z /\ t2w emc_points_y = 8%Z /\ t2w emc_points_z = 8%Z /\
  emc_gid_to_part g = tlookup emc_part g /\ emc_gid_to_theta g = tlookup emc_theta g /\ emc_gid_to_phi g = tlookup emc_phi g.
Proof. exact emc_lookup_is_row. Qed.
Print Assumptions C09_emc_lookup_is_row.

(* for every wire and EVERY real z (inside or outside the span) the interpolated point is on the line through the ends *)
Theorem C09_wire_on_line : forall g (z : R), (0 <= g < 6796)%Z ->
  ((mdc_gid_z_to_x g z - mdc_gid_to_west_x g) * (mdc_gid_to_east_z g - mdc_gid_to_west_z g)
    = (mdc_gid_to_east_x g - mdc_gid_to_west_x g) * (z - mdc_gid_to_west_z g) /\
  (mdc_gid_z_to_y g z - mdc_gid_to_west_y g) * (mdc_gid_to_east_z g - mdc_gid_to_west_z g)
    = (mdc_gid_to_east_y g - mdc_gid_to_west_y g) * (z - mdc_gid_to_west_z g) /\
  mdc_gid_to_east_z g <> mdc_gid_to_west_z g)%R.
Proof. exact wire_on_line. Qed.
Print Assumptions C09_wire_on_line.

Theorem C09_wire_endpoints : forall g, (0 <= g < 6796)%Z ->
  mdc_gid_z_to_x g (mdc_gid_to_west_z g) = mdc_gid_to_west_x g /\ mdc_gid_z_to_y g (mdc_gid_to_west_z g) = mdc_gid_to_west_y g /\
  mdc_gid_z_to_x g (mdc_gid_to_east_z g) = mdc_gid_to_east_x g /\ mdc_gid_z_to_y g (mdc_gid_to_east_z g) = mdc_gid_to_east_y g.
Proof. exact wire_endpoints. Qed.
Print Assumptions C09_wire_endpoints.

Theorem C09_mid_is_mean : forall g, (0 <= g < 6796)%Z ->
  (mdc_gid_z_to_x g 0 = (mdc_gid_to_west_x g + mdc_gid_to_east_x g) / 2 /\
   mdc_gid_z_to_y g 0 = (mdc_gid_to_west_y g + mdc_gid_to_east_y g) / 2)%R.
Proof. exact mid_is_mean. Qed.
Print Assumptions C09_mid_is_mean.

(* stereo sign = sign of sin(phi_west - phi_east) computed exactly from the table's end points (the wrapped twist) *)
Theorem C09_stereo_sign_is_twist : forall g, (0 <= g < 6796)%Z ->
  tlookup mdc_stereo g =
  sgn (tlookup mdc_east_x g * tlookup mdc_west_y g - tlookup mdc_east_y g * tlookup mdc_west_x g)%Z.
Proof. exact stereo_sign_is_twist. Qed.
Print Assumptions C09_stereo_sign_is_twist.

Theorem C09_stereo_flag_layer_superlayer : forall g, (0 <= g < 6796)%Z ->
  let l := mdc_gid_to_layer g in
  mdc_gid_to_is_stereo g = (if mdc_gid_to_stereo g =? 0 then 0 else 1)%Z /\
  mdc_gid_to_stereo g = mdc_gid_to_stereo (tlookup layer_start_gid l) /\
  mdc_layer_to_is_stereo l = mdc_gid_to_is_stereo g /\
  mdc_layer_to_superlayer l = mdc_gid_to_superlayer g /\ (0 <= l < 43)%Z.
Proof. exact stereo_flag_layer_superlayer. Qed.
Print Assumptions C09_stereo_flag_layer_superlayer.

Theorem C09_stereo_uniform_in_layer : forall g1 g2, (0 <= g1 < 6796)%Z -> (0 <= g2 < 6796)%Z ->
  mdc_gid_to_layer g1 = mdc_gid_to_layer g2 -> mdc_gid_to_stereo g1 = mdc_gid_to_stereo g2.
Proof. exact stereo_uniform_in_layer. Qed.
Print Assumptions C09_stereo_uniform_in_layer.

(* barrel crystals (part = 1; rows 780*k + i of the table): |8*centre - sum of the 8 corners| <= 8*2^-40 cm and
   |4*front centre - sum of corners 0..3| <= 4*2^-40 cm, per coordinate, for all 5280 of them *)
Theorem C09_barrel_centroids :
  centroid_chunk_ok 0 emc_chunk_rows_0 emc_center_x_0 emc_center_y_0 emc_center_z_0 emc_front_center_x_0 emc_front_center_y_0 emc_front_center_z_0 emc_points_x_0 emc_points_y_0 emc_points_z_0 = true /\
  centroid_chunk_ok 1 emc_chunk_rows_1 emc_center_x_1 emc_center_y_1 emc_center_z_1 emc_front_center_x_1 emc_front_center_y_1 emc_front_center_z_1 emc_points_x_1 emc_points_y_1 emc_points_z_1 = true /\
  centroid_chunk_ok 2 emc_chunk_rows_2 emc_center_x_2 emc_center_y_2 emc_center_z_2 emc_front_center_x_2 emc_front_center_y_2 emc_front_center_z_2 emc_points_x_2 emc_points_y_2 emc_points_z_2 = true /\
  centroid_chunk_ok 3 emc_chunk_rows_3 emc_center_x_3 emc_center_y_3 emc_center_z_3 emc_front_center_x_3 emc_front_center_y_3 emc_front_center_z_3 emc_points_x_3 emc_points_y_3 emc_points_z_3 = true /\
  centroid_chunk_ok 4 emc_chunk_rows_4 emc_center_x_4 emc_center_y_4 emc_center_z_4 emc_front_center_x_4 emc_front_center_y_4 emc_front_center_z_4 emc_points_x_4 emc_points_y_4 emc_points_z_4 = true /\
  centroid_chunk_ok 5 emc_chunk_rows_5 emc_center_x_5 emc_center_y_5 emc_center_z_5 emc_front_center_x_5 emc_front_center_y_5 emc_front_center_z_5 emc_points_x_5 emc_points_y_5 emc_points_z_5 = true /\
  centroid_chunk_ok 6 emc_chunk_rows_6 emc_center_x_6 emc_center_y_6 emc_center_z_6 emc_front_center_x_6 emc_front_center_y_6 emc_front_center_z_6 emc_points_x_6 emc_points_y_6 emc_points_z_6 = true /\
  centroid_chunk_ok 7 emc_chunk_rows_7 emc_center_x_7 emc_center_y_7 emc_center_z_7 emc_front_center_x_7 emc_front_center_y_7 emc_front_center_z_7 emc_points_x_7 emc_points_y_7 emc_points_z_7 = true /\
  (emc_chunk_rows_0 + emc_chunk_rows_1 + emc_chunk_rows_2 + emc_chunk_rows_3 + emc_chunk_rows_4 +
   emc_chunk_rows_5 + emc_chunk_rows_6 + emc_chunk_rows_7 = 6240 /\ emc_chunk = 780 /\ emc_nchunk = 8 /\
   zlen (t2flat emc_points_x) = 49920 /\ zlen emc_center_x = 6240 /\
   zlen (filter (fun p => p =? 1) emc_part) = 5280)%Z.
Proof. exact (conj centroid_chunk_0 (conj centroid_chunk_1 (conj centroid_chunk_2 (conj centroid_chunk_3 (conj centroid_chunk_4
              (conj centroid_chunk_5 (conj centroid_chunk_6 (conj centroid_chunk_7 chunk_rows_total)))))))). Qed.
Print Assumptions C09_barrel_centroids.

(* tables handed to the caller are private copies: for EVERY history of retrievals, in-place modifications of handed-out
   tables and lookups, each lookup returns the pristine table's value — given that the accessor hands out copies, which
   is what the regenerated model records for both get_mdc_wire_position and get_emc_crystal_position *)
Theorem C09_copies_private : forall t ops hs,
  run true {| tabs := t; handed := hs |} ops = map (pristine t) ops.
Proof. exact copies_private. Qed.
Print Assumptions C09_copies_private.

Theorem C09_accessors_hand_out_copies : mdc_table_handed_out_as_copy = true /\ emc_table_handed_out_as_copy = true.
Proof. split; reflexivity. Qed.
Print Assumptions C09_accessors_hand_out_copies.

Theorem C09_alias_would_break : exists t ops, run false {| tabs := t; handed := [] |} ops <> map (pristine t) ops.
Proof. exact alias_refuted. Qed.

Example C09_nonvacuous : (0 <= 6795 < 6796)%Z /\ tlookup mdc_stereo 20 = (-1)%Z /\ tlookup mdc_is_stereo 20 = 1%Z /\
  tlookup emc_part 480 = 1%Z /\ run true {| tabs := [[1;2;3]%Z]; handed := [] |} [Get; Mutate 0 0 1 99%Z; Lookup 0 1] = [None; None; Some 2%Z].
Proof. vm_compute. repeat split; congruence. Qed.
