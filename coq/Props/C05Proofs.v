(* C05 — proofs about the REGENERATED digi-ID kernels (PV.Gen.DigiId, emitted from digi_id.py).
   Spec lemmas first (each kernel = div/mod expression in the documented field layout), then the
   property statements, all for unbounded Z arguments. *)
From Coq Require Import ZArith Lia Bool ZifyBool.
From PV.Lib Require Import Bits BitTac.
From PV.Gen Require Import DigiId.
Local Open Scope Z_scope.
Ltac Zify.zify_post_hook ::= Z.to_euclidean_division_equations.

Ltac pows :=
  change (2^0) with 1 in *; change (2^1) with 2 in *; change (2^2) with 4 in *; change (2^3) with 8 in *;
  change (2^4) with 16 in *; change (2^5) with 32 in *; change (2^6) with 64 in *; change (2^7) with 128 in *;
  change (2^8) with 256 in *; change (2^9) with 512 in *; change (2^11) with 2048 in *;
  change (2^12) with 4096 in *; change (2^14) with 16384 in *; change (2^15) with 32768 in *;
  change (2^16) with 65536 in *; change (2^24) with 16777216 in *; change (2^32) with 4294967296 in *.

Definition T24 : Z := 16777216.
Definition tag_of (w : Z) : Z := (w / 16777216) mod 256.

Lemma tag_get w : Z.shiftr (Z.land w 4278190080) 24 = tag_of w.
Proof. unfold tag_of. fget 8 24. reflexivity. Qed.

Ltac chk f := unfold f; digi_consts; rewrite tag_get; reflexivity.
Lemma check_mdc_spec w : check_mdc_id w = (tag_of w =? 16).   Proof. chk check_mdc_id. Qed.
Lemma check_tof_spec w : check_tof_id w = (tag_of w =? 32).   Proof. chk check_tof_id. Qed.
Lemma check_emc_spec w : check_emc_id w = (tag_of w =? 48).   Proof. chk check_emc_id. Qed.
Lemma check_muc_spec w : check_muc_id w = (tag_of w =? 64).   Proof. chk check_muc_id. Qed.
Lemma check_cgem_spec w : check_cgem_id w = (tag_of w =? 96). Proof. chk check_cgem_id. Qed.

(* ------------------------------ MDC ------------------------------ *)
Lemma mdc_wire_spec w : mdc_id_to_wire w = w mod 512.
Proof. unfold mdc_id_to_wire, u16; digi_consts. fget 9 0. pows. lia. Qed.
Lemma mdc_layer_spec w : mdc_id_to_layer w = (w / 512) mod 64.
Proof. unfold mdc_id_to_layer, u8; digi_consts. fget 6 9. pows. lia. Qed.
Lemma mdc_stereo_spec w : mdc_id_to_is_stereo w = ((w / 32768) mod 2 =? 1).
Proof. unfold mdc_id_to_is_stereo; digi_consts. fget 1 15. reflexivity. Qed.
Lemma mdc_get_spec wire layer wt : get_mdc_digi_id wire layer wt =
  wire mod 512 + (layer mod 64) * 512 + (wt mod 2) * 32768 + 16 * T24.
Proof. unfold get_mdc_digi_id, u32, T24; digi_consts. fput 9 0. fput 6 9. fput 1 15. rewrite shiftl_mul by lia.
  pows. lor_step 9. lor_step 15. lor_step 24. pows. lia. Qed.

(* ------------------------------ TOF ------------------------------ *)
Lemma tof_part_spec w : tof_id_to_part w =
  if (w / 16384) mod 4 =? 3 then 3 + (w / 2048) mod 2 else (w / 16384) mod 4.
Proof. unfold tof_id_to_part, u8; digi_consts. fget 2 14. fget 1 11. pows. cbv zeta.
  destruct ((w / 16384) mod 4 =? 3) eqn:E; lia. Qed.
Lemma tof_end_spec w : tof_id_to_end w = w mod 2.
Proof. unfold tof_id_to_end, u8; digi_consts. fget 1 0. pows. lia. Qed.
Lemma tof_lm2_spec w part : _tof_id_to_layer_or_module_2 w part =
  if part <? 3 then (w / 256) mod 2 else (w / 32) mod 64.
Proof. unfold _tof_id_to_layer_or_module_2, u8; digi_consts. fget 1 8. fget 6 5. pows. cbv zeta.
  destruct (part <? 3); lia. Qed.
Lemma tof_ps2_spec w part : _tof_id_to_phi_or_strip_2 w part =
  if part <? 3 then (w / 2) mod 128 else (w / 2) mod 16.
Proof. unfold _tof_id_to_phi_or_strip_2, u8; digi_consts. fget 7 1. fget 4 1. pows. cbv zeta.
  destruct (part <? 3); lia. Qed.
Lemma tof_lm1_spec w : _tof_id_to_layer_or_module_1 w = _tof_id_to_layer_or_module_2 w (tof_id_to_part w).
Proof. reflexivity. Qed.
Lemma tof_ps1_spec w : _tof_id_to_phi_or_strip_1 w = _tof_id_to_phi_or_strip_2 w (tof_id_to_part w).
Proof. reflexivity. Qed.
Lemma tof_get_spec part l p e : get_tof_digi_id part l p e =
  if part <? 3
  then e mod 2 + (p mod 128) * 2 + (l mod 2) * 256 + (part mod 4) * 16384 + 32 * T24
  else e mod 2 + (p mod 16) * 2 + (l mod 64) * 32 + ((part - 3) mod 2) * 2048 + 3 * 16384 + 32 * T24.
Proof. unfold get_tof_digi_id, u32, T24; digi_consts. destruct (part <? 3).
  - fput 2 14. fput 1 8. fput 7 1. fput 1 0. rewrite shiftl_mul by lia. pows.
    lor_step 14. lor_step 8. lor_step 1. lor_step 24. lia.
  - fput 2 14. fput 1 11. fput 6 5. fput 4 1. fput 1 0. rewrite shiftl_mul by lia. pows.
    lor_step 14. lor_step 11. lor_step 5. lor_step 1. lor_step 24. lia. Qed.

(* ------------------------------ EMC ------------------------------ *)
Lemma emc_module_spec w : emc_id_to_module w = (w / 65536) mod 16.
Proof. unfold emc_id_to_module, u8; digi_consts. fget 4 16. pows. lia. Qed.
Lemma emc_theta_spec w : emc_id_to_theta w = (w / 256) mod 64.
Proof. unfold emc_id_to_theta, u8; digi_consts. fget 6 8. pows. lia. Qed.
Lemma emc_phi_spec w : emc_id_to_phi w = w mod 256.
Proof. unfold emc_id_to_phi, u8; digi_consts. fget 8 0. pows. lia. Qed.
Lemma emc_get_spec m t p : get_emc_digi_id m t p =
  p mod 256 + (t mod 64) * 256 + (m mod 16) * 65536 + 48 * T24.
Proof. unfold get_emc_digi_id, u32, T24; digi_consts. fput 4 16. fput 6 8. fput 8 0. rewrite shiftl_mul by lia.
  pows. lor_step 16. lor_step 8. lor_step 24. lia. Qed.

(* ------------------------------ MUC ------------------------------ *)
Lemma muc_part_spec w : muc_id_to_part w = (w / 65536) mod 16.
Proof. unfold muc_id_to_part, u8; digi_consts. fget 4 16. pows. lia. Qed.
Lemma muc_segment_spec w : muc_id_to_segment w = (w / 4096) mod 16.
Proof. unfold muc_id_to_segment, u8; digi_consts. fget 4 12. pows. lia. Qed.
Lemma muc_layer_spec w : muc_id_to_layer w = (w / 256) mod 16.
Proof. unfold muc_id_to_layer, u8; digi_consts. fget 4 8. pows. lia. Qed.
Lemma muc_channel_spec w : muc_id_to_channel w = w mod 256.
Proof. unfold muc_id_to_channel, u8; digi_consts. fget 8 0. pows. lia. Qed.
Lemma muc_get_spec p s l c : get_muc_digi_id p s l c =
  c mod 256 + (l mod 16) * 256 + (s mod 16) * 4096 + (p mod 16) * 65536 + 64 * T24.
Proof. unfold get_muc_digi_id, u32, T24; digi_consts. fput 4 16. fput 4 12. fput 4 8. fput 8 0.
  rewrite shiftl_mul by lia. pows. lor_step 16. lor_step 12. lor_step 8. lor_step 24. lia. Qed.

(* ------------------------------ CGEM ------------------------------ *)
Lemma cgem_layer_spec w : cgem_id_to_layer w = w mod 8.
Proof. unfold cgem_id_to_layer, u8; digi_consts. fget 3 0. pows. lia. Qed.
Lemma cgem_sheet_spec w : cgem_id_to_sheet w = (w / 8) mod 8.
Proof. unfold cgem_id_to_sheet, u8; digi_consts. fget 3 3. pows. lia. Qed.
Lemma cgem_strip_spec w : cgem_id_to_strip w = (w / 128) mod 4096.
Proof. unfold cgem_id_to_strip, u16; digi_consts. fget 12 7. pows. lia. Qed.
Lemma cgem_isx_spec w : cgem_id_to_is_x_strip w = ((w / 64) mod 2 =? 0).
Proof. unfold cgem_id_to_is_x_strip; digi_consts. fget 1 6. reflexivity. Qed.
Lemma cgem_get_spec l sh st f : get_cgem_digi_id l sh st f =
  l mod 8 + (sh mod 8) * 8 + ((- f - 1) mod 2) * 64 + (st mod 4096) * 128 + 96 * T24.
Proof. unfold get_cgem_digi_id, u32, T24; digi_consts. fput 12 7. fput 1 6. fput 3 3. fput 3 0.
  rewrite shiftl_mul by lia. rewrite lnot_eq. pows. lor_step 7. lor_step 6. lor_step 3. lor_step 24. lia. Qed.
Lemma cgem_getb_spec l sh st b : get_cgem_digi_id_b l sh st b =
  l mod 8 + (sh mod 8) * 8 + (b2z (negb b)) * 64 + (st mod 4096) * 128 + 96 * T24.
Proof. unfold get_cgem_digi_id_b, u32, T24; digi_consts. fput 12 7. fput 1 6. fput 3 3. fput 3 0.
  rewrite shiftl_mul by lia. pows. destruct b; cbn [negb b2z];
  lor_step 7; lor_step 6; lor_step 3; lor_step 24; lia. Qed.

(* ===================================================================================== *)
(* Property statements                                                                    *)
(* ===================================================================================== *)
Definition only_tag (t : Z) (w : Z) : Prop :=
  check_mdc_id w = (t =? 16) /\ check_tof_id w = (t =? 32) /\ check_emc_id w = (t =? 48) /\
  check_muc_id w = (t =? 64) /\ check_cgem_id w = (t =? 96).

Ltac tags := unfold only_tag; rewrite check_mdc_spec, check_tof_spec, check_emc_spec, check_muc_spec, check_cgem_spec;
  unfold tag_of, T24 in *.

(* decode (encode a) = a mod field width, for ALL integer arguments: round trip for in-range values,
   truncation of wide values and absence of leaks into other fields or the tag, in one statement *)
Lemma mdc_decode_encode wire layer wt :
  let w := get_mdc_digi_id wire layer wt in
  mdc_id_to_wire w = wire mod 512 /\ mdc_id_to_layer w = layer mod 64 /\
  mdc_id_to_is_stereo w = (wt mod 2 =? 1) /\ only_tag 16 w /\ 0 <= w < 2^32.
Proof. intro w; subst w. tags. rewrite mdc_wire_spec, mdc_layer_spec, mdc_stereo_spec, mdc_get_spec.
  unfold T24. pows. lia. Qed.

Lemma emc_decode_encode m t p :
  let w := get_emc_digi_id m t p in
  emc_id_to_module w = m mod 16 /\ emc_id_to_theta w = t mod 64 /\ emc_id_to_phi w = p mod 256 /\
  only_tag 48 w /\ 0 <= w < 2^32.
Proof. intro w; subst w. tags. rewrite emc_module_spec, emc_theta_spec, emc_phi_spec, emc_get_spec.
  unfold T24. pows. lia. Qed.

Lemma muc_decode_encode p s l c :
  let w := get_muc_digi_id p s l c in
  muc_id_to_part w = p mod 16 /\ muc_id_to_segment w = s mod 16 /\ muc_id_to_layer w = l mod 16 /\
  muc_id_to_channel w = c mod 256 /\ muc_id_to_gap w = l mod 16 /\ muc_id_to_strip w = c mod 256 /\
  only_tag 64 w /\ 0 <= w < 2^32.
Proof. intro w; subst w. tags. unfold muc_id_to_gap, muc_id_to_strip.
  rewrite muc_part_spec, muc_segment_spec, muc_layer_spec, muc_channel_spec, muc_get_spec.
  unfold T24. pows. lia. Qed.

Lemma cgem_decode_encode l sh st f :
  let w := get_cgem_digi_id l sh st f in
  cgem_id_to_layer w = l mod 8 /\ cgem_id_to_sheet w = sh mod 8 /\ cgem_id_to_strip w = st mod 4096 /\
  cgem_id_to_is_x_strip w = (f mod 2 =? 1) /\ only_tag 96 w /\ 0 <= w < 2^32.
Proof. intro w; subst w. tags. rewrite cgem_layer_spec, cgem_sheet_spec, cgem_strip_spec, cgem_isx_spec, cgem_get_spec.
  unfold T24. pows. lia. Qed.

Lemma cgem_decode_encode_b l sh st b :
  let w := get_cgem_digi_id_b l sh st b in
  cgem_id_to_layer w = l mod 8 /\ cgem_id_to_sheet w = sh mod 8 /\ cgem_id_to_strip w = st mod 4096 /\
  cgem_id_to_is_x_strip w = b /\ only_tag 96 w /\ 0 <= w < 2^32.
Proof. intro w; subst w. tags. rewrite cgem_layer_spec, cgem_sheet_spec, cgem_strip_spec, cgem_isx_spec, cgem_getb_spec.
  unfold T24. pows. destruct b; cbn [negb b2z]; lia. Qed.

Lemma tof_scint_decode_encode part l p e : 0 <= part < 3 ->
  let w := get_tof_digi_id part l p e in
  tof_id_to_part w = part /\
  _tof_id_to_layer_or_module_1 w = l mod 2 /\ _tof_id_to_layer_or_module_2 w part = l mod 2 /\
  _tof_id_to_phi_or_strip_1 w = p mod 128 /\ _tof_id_to_phi_or_strip_2 w part = p mod 128 /\
  tof_id_to_end w = e mod 2 /\ only_tag 32 w /\ 0 <= w < 2^32.
Proof. intros Hp w; subst w. tags. rewrite tof_lm1_spec, tof_ps1_spec, !tof_lm2_spec, !tof_ps2_spec, !tof_part_spec,
  tof_end_spec, tof_get_spec. unfold T24. pows.
  assert (E1 : (part <? 3) = true) by lia. rewrite E1.
  set (W := e mod 2 + p mod 128 * 2 + l mod 2 * 256 + part mod 4 * 16384 + 32 * 16777216).
  assert (E2 : ((W / 16384) mod 4 =? 3) = false) by (subst W; lia). rewrite E2.
  assert (E3 : ((W / 16384) mod 4 <? 3) = true) by (subst W; lia). rewrite E3.
  subst W. lia. Qed.

Lemma tof_mrpc_decode_encode part l p e : 3 <= part ->
  let w := get_tof_digi_id part l p e in
  tof_id_to_part w = 3 + (part - 3) mod 2 /\
  _tof_id_to_layer_or_module_1 w = l mod 64 /\ _tof_id_to_layer_or_module_2 w part = l mod 64 /\
  _tof_id_to_phi_or_strip_1 w = p mod 16 /\ _tof_id_to_phi_or_strip_2 w part = p mod 16 /\
  tof_id_to_end w = e mod 2 /\ only_tag 32 w /\ 0 <= w < 2^32.
Proof. intros Hp w; subst w. tags. rewrite tof_lm1_spec, tof_ps1_spec, !tof_lm2_spec, !tof_ps2_spec, !tof_part_spec,
  tof_end_spec, tof_get_spec. unfold T24. pows.
  assert (E1 : (part <? 3) = false) by lia. rewrite E1.
  set (W := e mod 2 + p mod 16 * 2 + l mod 64 * 32 + (part - 3) mod 2 * 2048 + 3 * 16384 + 32 * 16777216).
  assert (E2 : ((W / 16384) mod 4 =? 3) = true) by (subst W; lia). rewrite E2.
  assert (E3 : (3 + (W / 2048) mod 2 <? 3) = false) by (subst W; lia). rewrite E3.
  subst W. lia. Qed.

(* re-composition of every tagged 32-bit word: all defined bits come back *)
Definition DEFINED_MDC  : Z := 0xFF00FFFF.
Definition DEFINED_EMC  : Z := 0xFF0F3FFF.
Definition DEFINED_MUC  : Z := 0xFF0FFFFF.
Definition DEFINED_CGEM : Z := 0xFF07FFFF.
Definition DEFINED_TOF_SCINT : Z := 0xFF00C1FF.
Definition DEFINED_TOF_MRPC  : Z := 0xFF00CFFF.

Lemma land3 w a b c : Z.land w (Z.lor (Z.lor a b) c) = Z.lor (Z.lor (Z.land w a) (Z.land w b)) (Z.land w c).
Proof. rewrite !Z.land_lor_distr_r. reflexivity. Qed.

Ltac lmask k off := rewrite (land_mask _ _ k off) by (try lia; reflexivity).

Lemma mdc_recompose w : 0 <= w < 2^32 -> check_mdc_id w = true ->
  get_mdc_digi_id (mdc_id_to_wire w) (mdc_id_to_layer w) (b2z (mdc_id_to_is_stereo w)) = Z.land w DEFINED_MDC.
Proof. intros Hw Hc. rewrite check_mdc_spec in Hc. unfold tag_of in Hc.
  rewrite mdc_get_spec, mdc_wire_spec, mdc_layer_spec, mdc_stereo_spec. unfold T24.
  change DEFINED_MDC with (Z.lor (Z.shiftl (Z.ones 16) 0) (Z.shiftl (Z.ones 8) 24)).
  rewrite Z.land_lor_distr_r. rewrite !land_shifted_ones by lia. pows. lor_step 24.
  destruct ((w / 32768) mod 2 =? 1) eqn:E; cbn [b2z]; lia. Qed.

Lemma emc_recompose w : 0 <= w < 2^32 -> check_emc_id w = true ->
  get_emc_digi_id (emc_id_to_module w) (emc_id_to_theta w) (emc_id_to_phi w) = Z.land w DEFINED_EMC.
Proof. intros Hw Hc. rewrite check_emc_spec in Hc. unfold tag_of in Hc.
  rewrite emc_get_spec, emc_module_spec, emc_theta_spec, emc_phi_spec. unfold T24.
  change DEFINED_EMC with (Z.lor (Z.lor (Z.shiftl (Z.ones 14) 0) (Z.shiftl (Z.ones 4) 16)) (Z.shiftl (Z.ones 8) 24)).
  rewrite land3. rewrite !land_shifted_ones by lia. pows. change (2^14) with 16384. lor_step 16. lor_step 24. lia. Qed.

Lemma muc_recompose w : 0 <= w < 2^32 -> check_muc_id w = true ->
  get_muc_digi_id (muc_id_to_part w) (muc_id_to_segment w) (muc_id_to_layer w) (muc_id_to_channel w)
  = Z.land w DEFINED_MUC.
Proof. intros Hw Hc. rewrite check_muc_spec in Hc. unfold tag_of in Hc.
  rewrite muc_get_spec, muc_part_spec, muc_segment_spec, muc_layer_spec, muc_channel_spec. unfold T24.
  change DEFINED_MUC with (Z.lor (Z.shiftl (Z.ones 20) 0) (Z.shiftl (Z.ones 8) 24)).
  rewrite Z.land_lor_distr_r. rewrite !land_shifted_ones by lia. pows. change (2^20) with 1048576. lor_step 24. lia. Qed.

Lemma cgem_recompose_b w : 0 <= w < 2^32 -> check_cgem_id w = true ->
  get_cgem_digi_id_b (cgem_id_to_layer w) (cgem_id_to_sheet w) (cgem_id_to_strip w) (cgem_id_to_is_x_strip w)
  = Z.land w DEFINED_CGEM.
Proof. intros Hw Hc. rewrite check_cgem_spec in Hc. unfold tag_of in Hc.
  rewrite cgem_getb_spec, cgem_layer_spec, cgem_sheet_spec, cgem_strip_spec, cgem_isx_spec. unfold T24.
  change DEFINED_CGEM with (Z.lor (Z.shiftl (Z.ones 19) 0) (Z.shiftl (Z.ones 8) 24)).
  rewrite Z.land_lor_distr_r. rewrite !land_shifted_ones by lia. pows. change (2^19) with 524288. lor_step 24.
  destruct ((w / 64) mod 2 =? 0) eqn:E; cbn [negb b2z]; lia. Qed.

Lemma cgem_recompose w : 0 <= w < 2^32 -> check_cgem_id w = true ->
  get_cgem_digi_id (cgem_id_to_layer w) (cgem_id_to_sheet w) (cgem_id_to_strip w) (b2z (cgem_id_to_is_x_strip w))
  = Z.land w DEFINED_CGEM.
Proof. intros Hw Hc. rewrite <- cgem_recompose_b by assumption.
  rewrite cgem_get_spec, cgem_getb_spec. destruct (cgem_id_to_is_x_strip w); cbn [negb b2z]; lia. Qed.

Lemma tof_recompose w : 0 <= w < 2^32 -> check_tof_id w = true ->
  get_tof_digi_id (tof_id_to_part w) (_tof_id_to_layer_or_module_1 w) (_tof_id_to_phi_or_strip_1 w) (tof_id_to_end w)
  = Z.land w (if tof_id_to_part w <? 3 then DEFINED_TOF_SCINT else DEFINED_TOF_MRPC).
Proof. intros Hw Hc. rewrite check_tof_spec in Hc. unfold tag_of in Hc.
  rewrite tof_get_spec, tof_lm1_spec, tof_ps1_spec, tof_lm2_spec, tof_ps2_spec, tof_end_spec, !tof_part_spec. unfold T24.
  destruct ((w / 16384) mod 4 =? 3) eqn:E.
  - assert (E3 : (3 + (w / 2048) mod 2 <? 3) = false) by lia. rewrite E3.
    change DEFINED_TOF_MRPC with (Z.lor (Z.lor (Z.shiftl (Z.ones 12) 0) (Z.shiftl (Z.ones 2) 14)) (Z.shiftl (Z.ones 8) 24)).
    rewrite land3. rewrite !land_shifted_ones by lia. pows. lor_step 14. lor_step 24. lia.
  - assert (E3 : ((w / 16384) mod 4 <? 3) = true) by lia. rewrite E3.
    change DEFINED_TOF_SCINT with (Z.lor (Z.lor (Z.shiftl (Z.ones 9) 0) (Z.shiftl (Z.ones 2) 14)) (Z.shiftl (Z.ones 8) 24)).
    rewrite land3. rewrite !land_shifted_ones by lia. pows. lor_step 14. lor_step 24. lia. Qed.

(* The defined-bit masks are exactly tag | union of the field masks regenerated from the source *)
Lemma defined_masks_are_field_unions :
  DEFINED_MDC = Z.lor DIGI_FLAG_MASK (Z.lor DIGI_MDC_WIRE_MASK (Z.lor DIGI_MDC_LAYER_MASK DIGI_MDC_WIRETYPE_MASK)) /\
  DEFINED_EMC = Z.lor DIGI_FLAG_MASK (Z.lor DIGI_EMC_MODULE_MASK (Z.lor DIGI_EMC_THETA_MASK DIGI_EMC_PHI_MASK)) /\
  DEFINED_MUC = Z.lor DIGI_FLAG_MASK (Z.lor DIGI_MUC_PART_MASK (Z.lor DIGI_MUC_SEGMENT_MASK
                   (Z.lor DIGI_MUC_LAYER_MASK DIGI_MUC_CHANNEL_MASK))) /\
  DEFINED_CGEM = Z.lor DIGI_FLAG_MASK (Z.lor DIGI_CGEM_STRIP_MASK (Z.lor DIGI_CGEM_STRIPTYPE_MASK
                   (Z.lor DIGI_CGEM_SHEET_MASK DIGI_CGEM_LAYER_MASK))) /\
  DEFINED_TOF_SCINT = Z.lor DIGI_FLAG_MASK (Z.lor DIGI_TOF_PART_MASK (Z.lor DIGI_TOF_END_MASK
                   (Z.lor DIGI_TOF_SCINT_LAYER_MASK DIGI_TOF_SCINT_PHI_MASK))) /\
  DEFINED_TOF_MRPC = Z.lor DIGI_FLAG_MASK (Z.lor DIGI_TOF_PART_MASK (Z.lor DIGI_TOF_END_MASK
                   (Z.lor DIGI_TOF_MRPC_ENDCAP_MASK (Z.lor DIGI_TOF_MRPC_MODULE_MASK DIGI_TOF_MRPC_STRIP_MASK)))).
Proof. repeat split; vm_compute; reflexivity. Qed.
