(* C07 — array = map of scalar; layout model (nested lists, extract_index, unflatten, rebuild) and its induction. *)
From Coq Require Import Reals List Permutation Lia Arith Bool.
Import ListNotations.
From PV.Gen Require Import HelixCode.
From PV.Model Require Export Nest.

Definition jac_obj atan2 r_in dr phi0 dz kappa tanl x0 y0 z0 x1 y1 z1 : list R :=
  let a f := f r_in dr phi0 dz kappa tanl x0 y0 z0 x1 y1 z1 in
  [a (cp_obj_J00 atan2); a (cp_obj_J01 atan2); a (cp_obj_J02 atan2); a cp_obj_J03; a cp_obj_J04;
   a (cp_obj_J10 atan2); a (cp_obj_J11 atan2); a (cp_obj_J12 atan2); a cp_obj_J13; a cp_obj_J14;
   a cp_obj_J20; a cp_obj_J21; a cp_obj_J22; a cp_obj_J23; a cp_obj_J24;
   a (cp_obj_J30 atan2); a (cp_obj_J31 atan2); a (cp_obj_J32 atan2); a cp_obj_J33; a (cp_obj_J34 atan2);
   a cp_obj_J40; a cp_obj_J41; a cp_obj_J42; a cp_obj_J43; a cp_obj_J44].
Definition jac_arr atan2 r_in dr phi0 dz kappa tanl x0 y0 z0 x1 y1 z1 : list R :=
  let a f := f r_in dr phi0 dz kappa tanl x0 y0 z0 x1 y1 z1 in
  [a (cp_arr_J00 atan2); a (cp_arr_J01 atan2); a (cp_arr_J02 atan2); a cp_arr_J03; a cp_arr_J04;
   a (cp_arr_J10 atan2); a (cp_arr_J11 atan2); a (cp_arr_J12 atan2); a cp_arr_J13; a cp_arr_J14;
   a cp_arr_J20; a cp_arr_J21; a cp_arr_J22; a cp_arr_J23; a cp_arr_J24;
   a (cp_arr_J30 atan2); a (cp_arr_J31 atan2); a (cp_arr_J32 atan2); a cp_arr_J33; a (cp_arr_J34 atan2);
   a cp_arr_J40; a cp_arr_J41; a cp_arr_J42; a cp_arr_J43; a cp_arr_J44].

Lemma array_jacobian_is_scalar_jacobian atan2 r_in dr phi0 dz kappa tanl x0 y0 z0 x1 y1 z1 :
  jac_arr atan2 r_in dr phi0 dz kappa tanl x0 y0 z0 x1 y1 z1 = jac_obj atan2 r_in dr phi0 dz kappa tanl x0 y0 z0 x1 y1 z1.
Proof. reflexivity. Qed.

Lemma elementwise_independent (T U : Type) (f : T -> U) (pre post : list T) (t : T) :
  nth (length pre) (map f (pre ++ t :: post)) (f t) = f t.
Proof. rewrite map_app. cbn [map]. rewrite app_nth2; rewrite map_length; [|lia]. rewrite Nat.sub_diag. reflexivity. Qed.

Lemma perm_equivariant (T U : Type) (f : T -> U) (l l' : list T) : Permutation l l' -> Permutation (map f l) (map f l').
Proof. apply Permutation_map. Qed.

