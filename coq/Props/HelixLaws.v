(* Composition laws (C11), documented formulas and round trip (C13), array branch = scalar branch (C07) for the
   REGENERATED helix code, built on the characterisation lemmas of HelixCommon. *)
From Coq Require Import Reals Lra Lia ZArith List.
Import ListNotations.
From PV.Lib Require Import RealAux.
From PV.Model Require Import HelixSpec.
From PV.Gen Require Import HelixCode.
From PV.Props Require Import HelixCommon.
Local Open Scope R_scope.

Section Laws.
Variable atan2 : R -> R -> R.
Hypothesis A2 : atan2_spec atan2.

(* a helix state: parameters + pivot; kappa and tanl are carried unchanged by HelixObject.change_pivot (translator-checked glue) *)
Record hstate := { h_dr : R; h_phi0 : R; h_dz : R; h_x : R; h_y : R; h_z : R }.

Definition move (kappa tanl : R) (h : hstate) (p : R * R * R) : hstate :=
  let '(x1, y1, z1) := p in
  {| h_dr := ndr (h_dr h) (h_phi0 h) kappa (h_dz h) tanl (h_x h) (h_y h) (h_z h) x1 y1 z1;
     h_phi0 := nphi0 atan2 (h_dr h) (h_phi0 h) kappa (h_dz h) tanl (h_x h) (h_y h) (h_z h) x1 y1 z1;
     h_dz := ndz atan2 (h_dr h) (h_phi0 h) kappa (h_dz h) tanl (h_x h) (h_y h) (h_z h) x1 y1 z1;
     h_x := x1; h_y := y1; h_z := z1 |}.

Definition hcx kappa h := centre_x (h_dr h) (h_phi0 h) kappa (h_x h).
Definition hcy kappa h := centre_y (h_dr h) (h_phi0 h) kappa (h_y h).
Definition off_centre kappa h (p : R * R * R) : Prop := hcx kappa h - fst (fst p) <> 0 \/ hcy kappa h - snd (fst p) <> 0.
Definition canonical kappa h : Prop := 0 < sg kappa * (h_dr h + r kappa) /\ 0 <= h_phi0 h < 2 * PI.

Variables kappa tanl : R.
Hypothesis Hk : kappa <> 0.

Lemma move_pivot h p : (h_x (move kappa tanl h p), h_y (move kappa tanl h p), h_z (move kappa tanl h p)) = p.
Proof. destruct p as [[a b] c]. reflexivity. Qed.

Lemma move_centre h p : off_centre kappa h p -> hcx kappa (move kappa tanl h p) = hcx kappa h /\ hcy kappa (move kappa tanl h p) = hcy kappa h.
Proof.
  destruct p as [[x1 y1] z1]. intro Ho. unfold hcx, hcy, move. cbn [h_dr h_phi0 h_x h_y].
  apply (centre_preserved atan2 A2 _ _ _ _ _ _ _ _ _ _ _ Hk). exact Ho.
Qed.

Lemma move_phi0_range h p : 0 <= h_phi0 (move kappa tanl h p) < 2 * PI.
Proof. destruct p as [[x1 y1] z1]. cbn. apply nphi0_range. exact Hk. Qed.

(* dr' and phi0' depend on the old state only through the circle centre *)
Lemma move_dr_phi_by_centre h h' p : hcx kappa h = hcx kappa h' -> hcy kappa h = hcy kappa h' ->
  h_dr (move kappa tanl h p) = h_dr (move kappa tanl h' p) /\ h_phi0 (move kappa tanl h p) = h_phi0 (move kappa tanl h' p).
Proof.
  destruct p as [[x1 y1] z1]. intros EX EY. cbn [move h_dr h_phi0].
  rewrite !(ndr_char _ _ _ _ _ _ _ _ _ _ _ Hk), !(nphi0_char atan2 _ _ _ _ _ _ _ _ _ _ _ Hk).
  unfold rho, X, Y, CX, CY. unfold hcx, hcy in EX, EY. rewrite EX, EY. split; reflexivity.
Qed.

Lemma move_canonical h p : off_centre kappa h p -> canonical kappa (move kappa tanl h p).
Proof.
  destruct p as [[x1 y1] z1]. intro Ho. split; [|apply move_phi0_range].
  cbn [move h_dr]. rewrite (ndr_plus_r _ _ _ _ _ _ _ _ _ _ _ Hk).
  replace (sg kappa * (sg kappa * rho (h_dr h) (h_phi0 h) kappa (h_x h) (h_y h) x1 y1))
    with ((sg kappa * sg kappa) * rho (h_dr h) (h_phi0 h) kappa (h_x h) (h_y h) x1 y1) by ring.
  rewrite (sg_sq kappa Hk). rewrite Rmult_1_l. apply rho_pos. exact Ho.
Qed.

(* if the direction sg*(centre - p') is rho' (cos th, sin th) with th in [0, 2pi) then phi0' = th and rho = rho' *)
Lemma nphi0_determined dr phi0 dz x0 y0 z0 x1 y1 z1 rho' th :
  0 < rho' -> 0 <= th < 2 * PI ->
  sg kappa * X dr phi0 kappa x0 x1 = rho' * cos th -> sg kappa * Y dr phi0 kappa y0 y1 = rho' * sin th ->
  nphi0 atan2 dr phi0 kappa dz tanl x0 y0 z0 x1 y1 z1 = th /\ rho dr phi0 kappa x0 y0 x1 y1 = rho'.
Proof.
  intros Hr Hth EX EY.
  assert (Ho : X dr phi0 kappa x0 x1 <> 0 \/ Y dr phi0 kappa y0 y1 <> 0).
  { destruct (Req_dec (X dr phi0 kappa x0 x1) 0) as [Z1|]; [|left; assumption].
    destruct (Req_dec (Y dr phi0 kappa y0 y1) 0) as [Z2|]; [|right; assumption]. exfalso.
    rewrite Z1, Rmult_0_r in EX. rewrite Z2, Rmult_0_r in EY.
    pose proof (sin2_cos2 th) as E. unfold Rsqr in E.
    assert (cos th = 0) by (apply (Rmult_eq_reg_l rho'); lra). assert (sin th = 0) by (apply (Rmult_eq_reg_l rho'); lra). nra. }
  destruct (nphi0_trig atan2 A2 dr phi0 kappa dz tanl x0 y0 z0 x1 y1 z1 Hk Ho) as [HC HS].
  pose proof (rho_pos dr phi0 kappa x0 y0 x1 y1 Ho) as Rp.
  destruct (polar_unique _ _ _ _ Rp Hr (eq_trans HC EX) (eq_trans HS EY)) as [ER [k Hk']].
  split; [|exact ER].
  pose proof (nphi0_range atan2 dr phi0 kappa dz tanl x0 y0 z0 x1 y1 z1) as Rg. pose proof PI_RGT_0.
  assert (k = 0%Z).
  { apply IZR_small. split; apply (Rmult_lt_reg_r (2 * PI)); lra. }
  subst k. rewrite Hk'. simpl. ring.
Qed.

(* C11: moving to the current pivot changes nothing (canonical input) *)
Lemma pivot_identity h : canonical kappa h ->
  move kappa tanl h (h_x h, h_y h, h_z h) = h.
Proof.
  destruct h as [dr phi0 dz x0 y0 z0]. intros [Hc Hp]. cbn [h_dr h_phi0 h_dz h_x h_y h_z] in *.
  assert (EX : sg kappa * X dr phi0 kappa x0 x0 = (sg kappa * (dr + r kappa)) * cos phi0) by (unfold X, CX, centre_x, r; ring).
  assert (EY : sg kappa * Y dr phi0 kappa y0 y0 = (sg kappa * (dr + r kappa)) * sin phi0) by (unfold Y, CY, centre_y, r; ring).
  destruct (nphi0_determined dr phi0 dz x0 y0 z0 x0 y0 z0 _ phi0 Hc Hp EX EY) as [EP ER].
  unfold move. cbn [h_dr h_phi0 h_dz h_x h_y h_z].
  assert (ED : ndr dr phi0 kappa dz tanl x0 y0 z0 x0 y0 z0 = dr).
  { rewrite (ndr_char _ _ _ _ _ _ _ _ _ _ _ Hk), ER.
    replace (sg kappa * (sg kappa * (dr + r kappa))) with ((sg kappa * sg kappa) * (dr + r kappa)) by ring.
    rewrite (sg_sq kappa Hk). ring. }
  assert (EZ : ndz atan2 dr phi0 kappa dz tanl x0 y0 z0 x0 y0 z0 = dz).
  { rewrite (ndz_char atan2 _ _ _ _ _ _ _ _ _ _ _ Hk), (dphi_char atan2). cbv zeta. rewrite EP.
    replace (phi0 - phi0) with 0 by ring. rewrite (pymod_small 0 (2 * PI)) by (pose proof PI_RGT_0; lra).
    pose proof PI_RGT_0. destruct (Rlt_dec PI 0); [lra|]. ring. }
  rewrite ED, EP, EZ. reflexivity.
Qed.

(* C11: path independence for one intermediate pivot; dz agrees up to whole helix pitches 2 pi r tanl *)
Lemma path_independent_2 h p1 p2 : off_centre kappa h p1 ->
  let h1 := move kappa tanl h p1 in let h2 := move kappa tanl h1 p2 in let hd := move kappa tanl h p2 in
  h_dr h2 = h_dr hd /\ h_phi0 h2 = h_phi0 hd /\ (h_x h2, h_y h2, h_z h2) = (h_x hd, h_y hd, h_z hd) /\
  exists k : Z, h_dz h2 = h_dz hd + IZR k * (2 * PI * r kappa * tanl).
Proof.
  intro Ho. cbv zeta. destruct (move_centre h p1 Ho) as [EX EY].
  destruct (move_dr_phi_by_centre (move kappa tanl h p1) h p2 EX EY) as [ED EP].
  split; [exact ED|]. split; [exact EP|]. split; [rewrite !move_pivot; reflexivity|].
  destruct p1 as [[x1 y1] z1], p2 as [[x2 y2] z2]. destruct h as [dr phi0 dz x0 y0 z0].
  cbn [move h_dr h_phi0 h_dz h_x h_y h_z] in *.
  rewrite !(ndz_char atan2 _ _ _ _ _ _ _ _ _ _ _ Hk).
  rewrite !(ndz_char atan2 _ _ _ _ _ _ _ _ _ _ _ Hk) in EP.
  destruct (dphi_cong atan2 dr phi0 kappa dz tanl x0 y0 z0 x1 y1 z1) as [k1 H1].
  destruct (dphi_cong atan2 dr phi0 kappa dz tanl x0 y0 z0 x2 y2 z2) as [k3 H3].
  set (d1 := ndr dr phi0 kappa dz tanl x0 y0 z0 x1 y1 z1) in *.
  set (f1 := nphi0 atan2 dr phi0 kappa dz tanl x0 y0 z0 x1 y1 z1) in *.
  set (z1' := z0 + dz - r kappa * tanl * dphi atan2 dr phi0 kappa dz tanl x0 y0 z0 x1 y1 z1 - z1) in *.
  destruct (dphi_cong atan2 d1 f1 kappa z1' tanl x1 y1 z1 x2 y2 z2) as [k2 H2].
  exists (k3 - k1 - k2)%Z. rewrite !minus_IZR.
  rewrite H2, H3, EP. unfold z1'. rewrite H1. ring.
Qed.

(* ... and exactly equal when the accumulated turning angle stays within half a turn *)
Lemma path_independent_2_dz_exact h p1 p2 : off_centre kappa h p1 ->
  let '(x1, y1, z1) := p1 in let '(x2, y2, z2) := p2 in
  let h1 := move kappa tanl h p1 in
  let d01 := dphi atan2 (h_dr h) (h_phi0 h) kappa (h_dz h) tanl (h_x h) (h_y h) (h_z h) x1 y1 z1 in
  let d12 := dphi atan2 (h_dr h1) (h_phi0 h1) kappa (h_dz h1) tanl x1 y1 z1 x2 y2 z2 in
  - PI < d01 + d12 < PI ->
  h_dz (move kappa tanl h1 p2) = h_dz (move kappa tanl h p2).
Proof.
  destruct p1 as [[x1 y1] z1], p2 as [[x2 y2] z2]. intros Ho. cbv zeta. intro Hsum.
  destruct (move_centre h (x1, y1, z1) Ho) as [EX EY].
  destruct (move_dr_phi_by_centre (move kappa tanl h (x1, y1, z1)) h (x2, y2, z2) EX EY) as [_ EP].
  destruct h as [dr phi0 dz x0 y0 z0]. cbn [move h_dr h_phi0 h_dz h_x h_y h_z] in *.
  rewrite !(ndz_char atan2 _ _ _ _ _ _ _ _ _ _ _ Hk).
  rewrite !(ndz_char atan2 _ _ _ _ _ _ _ _ _ _ _ Hk) in EP.
  set (D01 := dphi atan2 dr phi0 kappa dz tanl x0 y0 z0 x1 y1 z1) in *.
  set (d1 := ndr dr phi0 kappa dz tanl x0 y0 z0 x1 y1 z1) in *.
  set (f1 := nphi0 atan2 dr phi0 kappa dz tanl x0 y0 z0 x1 y1 z1) in *.
  set (z1' := z0 + dz - r kappa * tanl * D01 - z1) in *.
  set (D12 := dphi atan2 d1 f1 kappa (ndz atan2 dr phi0 kappa dz tanl x0 y0 z0 x1 y1 z1) tanl x1 y1 z1 x2 y2 z2) in *.
  set (D12' := dphi atan2 d1 f1 kappa z1' tanl x1 y1 z1 x2 y2 z2).
  assert (E12 : D12' = D12).
  { unfold D12', D12. rewrite !(dphi_char atan2). cbv zeta.
    rewrite !(nphi0_char atan2 _ _ _ _ _ _ _ _ _ _ _ Hk). reflexivity. }
  set (D02 := dphi atan2 dr phi0 kappa dz tanl x0 y0 z0 x2 y2 z2).
  destruct (dphi_cong atan2 dr phi0 kappa dz tanl x0 y0 z0 x1 y1 z1) as [k1 H1]. fold D01 f1 in H1.
  destruct (dphi_cong atan2 dr phi0 kappa dz tanl x0 y0 z0 x2 y2 z2) as [k3 H3]. fold D02 in H3.
  destruct (dphi_cong atan2 d1 f1 kappa z1' tanl x1 y1 z1 x2 y2 z2) as [k2 H2]. fold D12' in H2. rewrite E12 in H2.
  pose proof (dphi_range atan2 dr phi0 kappa dz tanl x0 y0 z0 x2 y2 z2) as R3. fold D02 in R3.
  assert (ES : D01 + D12 = D02 + 2 * IZR (k1 + k2 - k3) * PI).
  { rewrite minus_IZR, plus_IZR. rewrite H1, H2, H3. rewrite EP. ring. }
  assert (K : (k1 + k2 - k3 = 0)%Z).
  { apply IZR_small. pose proof PI_RGT_0. split; apply (Rmult_lt_reg_r (2 * PI)); lra. }
  rewrite K in ES. simpl in ES. unfold z1'. rewrite E12. 
  replace (z1 + (z0 + dz - r kappa * tanl * D01 - z1) - r kappa * tanl * D12 - z2)
    with (z0 + dz - r kappa * tanl * (D01 + D12) - z2) by ring.
  rewrite ES. ring.
Qed.

(* C11: any finite sequence of pivots = the direct move to the last one (dr, phi0, reported pivot exactly; dz up to pitches) *)
Fixpoint moves (h : hstate) (ps : list (R * R * R)) : hstate :=
  match ps with [] => h | p :: rest => moves (move kappa tanl h p) rest end.

Fixpoint all_off_centre (h : hstate) (ps : list (R * R * R)) : Prop :=
  match ps with [] => True | p :: rest => off_centre kappa h p /\ all_off_centre (move kappa tanl h p) rest end.

Lemma all_off_centre_by_centre ps : forall h h', hcx kappa h = hcx kappa h' -> hcy kappa h = hcy kappa h' ->
  all_off_centre h ps -> all_off_centre h' ps.
Proof.
  induction ps as [|p rest IH]; intros h h' EX EY H; [exact I|].
  destruct H as [Ho Hr]. assert (Ho' : off_centre kappa h' p) by (unfold off_centre in *; rewrite <- EX, <- EY; exact Ho).
  split; [exact Ho'|].
  destruct (move_centre h p Ho) as [A1 A2']. destruct (move_centre h' p Ho') as [B1 B2].
  apply (IH (move kappa tanl h p)); [congruence | congruence | exact Hr].
Qed.

Lemma path_independent ps : forall h p q, all_off_centre h (p :: ps ++ [q]) ->
  let hn := moves h (p :: ps ++ [q]) in let hd := move kappa tanl h q in
  h_dr hn = h_dr hd /\ h_phi0 hn = h_phi0 hd /\ (h_x hn, h_y hn, h_z hn) = q /\
  exists k : Z, h_dz hn = h_dz hd + IZR k * (2 * PI * r kappa * tanl).
Proof.
  induction ps as [|p' rest IH]; intros h p q Hall; cbv zeta.
  - cbn [moves app]. destruct Hall as [Ho _].
    destruct (path_independent_2 h p q Ho) as (E1 & E2 & _ & E4). cbv zeta in *.
    repeat split; [exact E1 | exact E2 | apply move_pivot | exact E4].
  - cbn [moves app]. destruct Hall as [Ho Hr].
    specialize (IH (move kappa tanl h p) p' q Hr). cbv zeta in IH. cbn [moves app] in IH.
    destruct IH as (E1 & E2 & E3 & [k Ek]).
    destruct (path_independent_2 h p q Ho) as (F1 & F2 & _ & [k' Fk]). cbv zeta in *.
    repeat split; [rewrite E1; exact F1 | rewrite E2; exact F2 | exact E3 |].
    exists (k + k')%Z. rewrite Ek, Fk, plus_IZR. ring.
Qed.

(* C11: there and back restores the parameters (canonical input, turning angle not the half turn) *)
Lemma pivot_inverse h p : canonical kappa h -> off_centre kappa h p ->
  let '(x1, y1, z1) := p in
  dphi atan2 (h_dr h) (h_phi0 h) kappa (h_dz h) tanl (h_x h) (h_y h) (h_z h) x1 y1 z1 < PI ->
  move kappa tanl (move kappa tanl h p) (h_x h, h_y h, h_z h) = h.
Proof.
  destruct p as [[x1 y1] z1]. intros Hc Ho Hd.
  pose proof (path_independent_2 h (x1, y1, z1) (h_x h, h_y h, h_z h) Ho) as P. cbv zeta in P.
  destruct P as (E1 & E2 & _ & _).
  pose proof (pivot_identity h Hc) as Id.
  set (hb := move kappa tanl (move kappa tanl h (x1, y1, z1)) (h_x h, h_y h, h_z h)) in *.
  assert (EZ : h_dz hb = h_dz (move kappa tanl h (h_x h, h_y h, h_z h))).
  { pose proof (path_independent_2_dz_exact h (x1, y1, z1) (h_x h, h_y h, h_z h) Ho) as Q. cbv zeta in Q.
    apply Q. clear Q.
    set (h1 := move kappa tanl h (x1, y1, z1)).
    set (d01 := dphi atan2 (h_dr h) (h_phi0 h) kappa (h_dz h) tanl (h_x h) (h_y h) (h_z h) x1 y1 z1) in *.
    set (d10 := dphi atan2 (h_dr h1) (h_phi0 h1) kappa (h_dz h1) tanl x1 y1 z1 (h_x h) (h_y h) (h_z h)).
    pose proof (dphi_range atan2 (h_dr h) (h_phi0 h) kappa (h_dz h) tanl (h_x h) (h_y h) (h_z h) x1 y1 z1) as R1. fold d01 in R1.
    pose proof (dphi_range atan2 (h_dr h1) (h_phi0 h1) kappa (h_dz h1) tanl x1 y1 z1 (h_x h) (h_y h) (h_z h)) as R2. fold d10 in R2.
    (* d01 + d10 is a multiple of 2 pi: phi0 returns to itself *)
    destruct (dphi_cong atan2 (h_dr h) (h_phi0 h) kappa (h_dz h) tanl (h_x h) (h_y h) (h_z h) x1 y1 z1) as [k1 H1]. fold d01 in H1.
    destruct (dphi_cong atan2 (h_dr h1) (h_phi0 h1) kappa (h_dz h1) tanl x1 y1 z1 (h_x h) (h_y h) (h_z h)) as [k2 H2]. fold d10 in H2.
    assert (EB : nphi0 atan2 (h_dr h1) (h_phi0 h1) kappa (h_dz h1) tanl x1 y1 z1 (h_x h) (h_y h) (h_z h) = h_phi0 h).
    { change (h_phi0 hb = h_phi0 h). rewrite E2. rewrite Id. reflexivity. }
    assert (ES : d01 + d10 = 2 * IZR (k1 + k2) * PI).
    { rewrite plus_IZR, H1, H2, EB. change (h_phi0 h1) with (nphi0 atan2 (h_dr h) (h_phi0 h) kappa (h_dz h) tanl (h_x h) (h_y h) (h_z h) x1 y1 z1). ring. }
    pose proof PI_RGT_0.
    assert (K : (k1 + k2 = 0)%Z).
    { apply IZR_small. split; apply (Rmult_lt_reg_r (2 * PI)); lra. }
    rewrite K in ES. simpl in ES. lra. }
  rewrite Id in E1, E2, EZ.
  destruct h as [dr phi0 dz x0 y0 z0]. unfold hb in *. cbn [move h_dr h_phi0 h_dz h_x h_y h_z] in *.
  rewrite E1, E2, EZ. reflexivity.
Qed.

End Laws.

(* ---------------- C13: documented formulas ---------------- *)
Section Formulas.
Variables dr phi0 kappa dz tanl x0 y0 z0 : R.

Lemma position_formula :
  obj_position_x dr phi0 kappa dz tanl x0 y0 z0 = x0 + dr * cos phi0 /\
  obj_position_y dr phi0 kappa dz tanl x0 y0 z0 = y0 + dr * sin phi0 /\
  obj_position_z dr phi0 kappa dz tanl x0 y0 z0 = z0 + dz.
Proof. unfold obj_position_x, obj_position_y, obj_position_z. repeat split; ring. Qed.

Lemma momentum_formula : kappa <> 0 ->
  obj_momentum_pt dr phi0 kappa dz tanl x0 y0 z0 = 1 / Rabs kappa /\
  cos (obj_momentum_phi dr phi0 kappa dz tanl x0 y0 z0) = cos (phi0 + PI / 2) /\
  sin (obj_momentum_phi dr phi0 kappa dz tanl x0 y0 z0) = sin (phi0 + PI / 2) /\
  0 <= obj_momentum_phi dr phi0 kappa dz tanl x0 y0 z0 < 2 * PI /\
  obj_momentum_pz dr phi0 kappa dz tanl x0 y0 z0 = (1 / Rabs kappa) * tanl.
Proof.
  intro Hk. unfold obj_momentum_pt, obj_momentum_phi, obj_momentum_pz.
  rewrite pymod_2pi_cos, pymod_2pi_sin. repeat split; try reflexivity; apply pymod_range; pose proof PI_RGT_0; lra.
Qed.

Lemma charge_formula : (1 / 10000000000 < Rabs kappa) -> obj_charge dr phi0 kappa dz tanl x0 y0 z0 = Rsign kappa.
Proof.
  intro H. unfold obj_charge, Rsign.
  destruct (Rlt_dec 0 kappa) as [P|P].
  - rewrite Rabs_pos_eq in H by lra. destruct (Rlt_dec (1 / 10000000000) kappa); [reflexivity|lra].
  - destruct (Rlt_dec kappa 0) as [N|N].
    + rewrite Rabs_left in H by lra. destruct (Rlt_dec (1 / 10000000000) kappa); [lra|].
      destruct (Rlt_dec kappa (- (1 / 10000000000))); [reflexivity|lra].
    + assert (kappa = 0) by lra. subst. rewrite Rabs_R0 in H. lra.
Qed.

Lemma radius_formula : kappa <> 0 ->
  obj_radius dr phi0 kappa dz tanl x0 y0 z0 = 1000 / (299792458 / 100000000) * obj_momentum_pt dr phi0 kappa dz tanl x0 y0 z0.
Proof. intro Hk. unfold obj_radius, obj_momentum_pt. field. repeat split; try (apply Rabs_no_R0; exact Hk); lra. Qed.

(* record / array front-ends compute the same expressions as the object front-end *)
Lemma frontends_agree :
  awk_momentum_pt kappa tanl phi0 = obj_momentum_pt dr phi0 kappa dz tanl x0 y0 z0 /\
  awk_momentum_phi kappa tanl phi0 = obj_momentum_phi dr phi0 kappa dz tanl x0 y0 z0 /\
  awk_momentum_pz kappa tanl phi0 = obj_momentum_pz dr phi0 kappa dz tanl x0 y0 z0 /\
  k_kappa_to_radius kappa = obj_radius dr phi0 kappa dz tanl x0 y0 z0 /\
  k_kappa_to_charge kappa = obj_charge dr phi0 kappa dz tanl x0 y0 z0 /\
  awk_position_x dr phi0 dz x0 y0 z0 = obj_position_x dr phi0 kappa dz tanl x0 y0 z0 /\
  awk_position_y dr phi0 dz x0 y0 z0 = obj_position_y dr phi0 kappa dz tanl x0 y0 z0 /\
  awk_position_z dr phi0 dz x0 y0 z0 = obj_position_z dr phi0 kappa dz tanl x0 y0 z0.
Proof. repeat split; reflexivity. Qed.
End Formulas.

(* ---------------- C07: the array branch of the pivot change is the scalar branch, track by track ---------------- *)
Lemma array_branch_is_scalar_branch atan2 r_in dr phi0 dz kappa tanl x0 y0 z0 x1 y1 z1 :
  cp_arr_elementwise = true /\ cp_obj_elementwise = true /\
  cp_arr_out_new_dr r_in dr phi0 dz kappa tanl x0 y0 z0 x1 y1 z1 = cp_obj_out_new_dr r_in dr phi0 dz kappa tanl x0 y0 z0 x1 y1 z1 /\
  cp_arr_out_new_phi0 atan2 r_in dr phi0 dz kappa tanl x0 y0 z0 x1 y1 z1 = cp_obj_out_new_phi0 atan2 r_in dr phi0 dz kappa tanl x0 y0 z0 x1 y1 z1 /\
  cp_arr_out_dphi atan2 r_in dr phi0 dz kappa tanl x0 y0 z0 x1 y1 z1 = cp_obj_out_dphi atan2 r_in dr phi0 dz kappa tanl x0 y0 z0 x1 y1 z1 /\
  cp_arr_out_new_dz atan2 r_in dr phi0 dz kappa tanl x0 y0 z0 x1 y1 z1 = cp_obj_out_new_dz atan2 r_in dr phi0 dz kappa tanl x0 y0 z0 x1 y1 z1.
Proof. repeat split; reflexivity. Qed.

(* ---------------- C13: constructing a helix from its own position / momentum / charge / pivot reproduces it -------- *)
Section RoundTrip.
Variable atan2 : R -> R -> R.
Hypothesis A2 : atan2_spec atan2.
Variables dr phi0 kappa dz tanl x0 y0 z0 : R.
Hypothesis Hk : 1 / 10000000000 < Rabs kappa.
Hypothesis Hphi : 0 <= phi0 < 2 * PI.

Let charge := obj_charge dr phi0 kappa dz tanl x0 y0 z0.
Let m_pt := obj_momentum_pt dr phi0 kappa dz tanl x0 y0 z0.
Let m_phi := obj_momentum_phi dr phi0 kappa dz tanl x0 y0 z0.
Let m_pz := obj_momentum_pz dr phi0 kappa dz tanl x0 y0 z0.
Let px := obj_position_x dr phi0 kappa dz tanl x0 y0 z0.
Let py := obj_position_y dr phi0 kappa dz tanl x0 y0 z0.
Let pz := obj_position_z dr phi0 kappa dz tanl x0 y0 z0.

Lemma kappa_nz : kappa <> 0.
Proof. intro E. rewrite E, Rabs_R0 in Hk. lra. Qed.

Lemma PI_bounds : 3 < PI <= 4.
Proof. split; [pose proof PI2_3_2; lra | exact PI_4]. Qed.

Lemma rt_kappa : phys_kappa charge m_pt m_phi m_pz px py pz x0 y0 z0 = kappa.
Proof.
  unfold phys_kappa, charge, m_pt. rewrite (charge_formula dr phi0 kappa dz tanl x0 y0 z0 Hk).
  unfold obj_momentum_pt. pose proof kappa_nz. pose proof (Rabs_no_R0 _ H).
  transitivity (Rsign kappa * Rabs kappa); [field; assumption | apply Rsign_abs].
Qed.

Lemma rt_phi0 : phys_phi0 charge m_pt m_phi m_pz px py pz x0 y0 z0 = phi0.
Proof.
  unfold phys_phi0, m_phi, obj_momentum_phi. pose proof PI_RGT_0.
  destruct (pymod_exists (phi0 + PI / 2) (2 * PI)) as [k Hk']. rewrite Hk'.
  replace (phi0 + PI / 2 + IZR k * (2 * PI) - PI / 2) with (phi0 + IZR k * (2 * PI)) by ring.
  rewrite pymod_shift by lra. apply pymod_small; lra.
Qed.

Lemma rt_dz_tanl : phys_dz charge m_pt m_phi m_pz px py pz x0 y0 z0 = dz /\ phys_tanl charge m_pt m_phi m_pz px py pz x0 y0 z0 = tanl.
Proof.
  unfold phys_dz, phys_tanl, pz, m_pz, m_pt, obj_position_z, obj_momentum_pz, obj_momentum_pt.
  pose proof (Rabs_no_R0 _ kappa_nz). split; [ring | field; assumption].
Qed.

Lemma rt_dr : phys_dr atan2 charge m_pt m_phi m_pz px py pz x0 y0 z0 = dr.
Proof.
  unfold phys_dr. pose proof rt_phi0 as EP0. unfold phys_phi0 in EP0. rewrite EP0. clear EP0.
  unfold px, py, obj_position_x, obj_position_y.
  replace (x0 + dr * cos phi0 - x0) with (dr * cos phi0) by ring.
  replace (y0 + dr * sin phi0 - y0) with (dr * sin phi0) by ring.
  assert (ER : sqrt (dr * cos phi0 * (dr * cos phi0) + dr * sin phi0 * (dr * sin phi0)) = Rabs dr).
  { replace (dr * cos phi0 * (dr * cos phi0) + dr * sin phi0 * (dr * sin phi0)) with (Rsqr dr).
    - apply sqrt_Rsqr_abs.
    - unfold Rsqr. pose proof (sin2_cos2 phi0) as E. unfold Rsqr in E.
      transitivity (dr * dr * (sin phi0 * sin phi0 + cos phi0 * cos phi0)); [rewrite E; ring | ring]. }
  rewrite ER. pose proof PI_bounds as PB. pose proof PI_RGT_0.
  destruct (Rtotal_order dr 0) as [Hn|[Hz|Hp]].
  - (* dr < 0: the direction is phi0 + pi, not close to phi0 *)
    assert (Hoff : dr * cos phi0 <> 0 \/ dr * sin phi0 <> 0).
    { destruct (Req_dec (cos phi0) 0) as [C|C]; [right|left; nra].
      pose proof (sin2_cos2 phi0) as E. unfold Rsqr in E. rewrite C in E. nra. }
    destruct (A2 _ _ Hoff) as [HX HY]. rewrite ER in HX, HY. rewrite Rabs_left in * by lra.
    set (th := atan2 (dr * sin phi0) (dr * cos phi0)) in *.
    assert (C1 : cos th = cos (phi0 + PI)) by (rewrite neg_cos; nra).
    assert (S1 : sin th = sin (phi0 + PI)) by (rewrite neg_sin; nra).
    destruct (angle_unique _ _ C1 S1) as [k Hk'].
    (* the code compares the two directions on the circle: (th - phi0 + pi) mod 2 pi is close to pi iff they coincide *)
    assert (EM : pymod (th - phi0 + PI) (2 * PI) = 0).
    { rewrite Hk'. replace (phi0 + PI + 2 * IZR k * PI - phi0 + PI) with (0 + IZR (k + 1) * (2 * PI)) by (rewrite plus_IZR; ring).
      rewrite pymod_shift by lra. apply pymod_small; lra. }
    destruct (isclose_dec (pymod (th - phi0 + PI) (2 * PI)) PI) as [Hc|Hc]; [|ring].
    exfalso. unfold isclose in Hc. rewrite EM in Hc. replace (0 - PI) with (- PI) in Hc by ring.
    rewrite Rabs_Ropp, (Rabs_pos_eq PI) in Hc by lra. lra.
  - subst dr. rewrite Rabs_R0. destruct (isclose_dec _ _); ring.
  - (* dr > 0: the direction is phi0 itself *)
    assert (Hoff : dr * cos phi0 <> 0 \/ dr * sin phi0 <> 0).
    { destruct (Req_dec (cos phi0) 0) as [C|C]; [right|left; nra].
      pose proof (sin2_cos2 phi0) as E. unfold Rsqr in E. rewrite C in E. nra. }
    destruct (A2 _ _ Hoff) as [HX HY]. rewrite ER in HX, HY. rewrite Rabs_pos_eq in * by lra.
    set (th := atan2 (dr * sin phi0) (dr * cos phi0)) in *.
    assert (C1 : cos th = cos phi0) by nra. assert (S1 : sin th = sin phi0) by nra.
    destruct (angle_unique _ _ C1 S1) as [k Hk'].
    assert (EM : pymod (th - phi0 + PI) (2 * PI) = PI).
    { rewrite Hk'. replace (phi0 + 2 * IZR k * PI - phi0 + PI) with (PI + IZR k * (2 * PI)) by ring. rewrite pymod_shift by lra.
      apply pymod_small; lra. }
    destruct (isclose_dec (pymod (th - phi0 + PI) (2 * PI)) PI) as [Hc|Hc]; [reflexivity|].
    exfalso. apply Hc. unfold isclose. rewrite EM. replace (PI - PI) with 0 by ring. rewrite Rabs_R0.
    pose proof (Rabs_pos PI). lra.
Qed.

End RoundTrip.

Lemma physics_roundtrip atan2 (A2 : atan2_spec atan2) dr phi0 kappa dz tanl x0 y0 z0 :
  1 / 10000000000 < Rabs kappa -> 0 <= phi0 < 2 * PI ->
  let charge := obj_charge dr phi0 kappa dz tanl x0 y0 z0 in
  let m_pt := obj_momentum_pt dr phi0 kappa dz tanl x0 y0 z0 in
  let m_phi := obj_momentum_phi dr phi0 kappa dz tanl x0 y0 z0 in
  let m_pz := obj_momentum_pz dr phi0 kappa dz tanl x0 y0 z0 in
  let px := obj_position_x dr phi0 kappa dz tanl x0 y0 z0 in
  let py := obj_position_y dr phi0 kappa dz tanl x0 y0 z0 in
  let pz := obj_position_z dr phi0 kappa dz tanl x0 y0 z0 in
  phys_dr atan2 charge m_pt m_phi m_pz px py pz x0 y0 z0 = dr /\
  phys_phi0 charge m_pt m_phi m_pz px py pz x0 y0 z0 = phi0 /\
  phys_kappa charge m_pt m_phi m_pz px py pz x0 y0 z0 = kappa /\
  phys_dz charge m_pt m_phi m_pz px py pz x0 y0 z0 = dz /\
  phys_tanl charge m_pt m_phi m_pz px py pz x0 y0 z0 = tanl.
Proof.
  intros Hk Hp. cbv zeta.
  split; [apply (rt_dr atan2 A2); assumption|]. split; [apply rt_phi0; assumption|].
  split; [apply rt_kappa; assumption|]. apply rt_dz_tanl; assumption.
Qed.

Lemma canonical_example : canonical 2 {| h_dr := 1; h_phi0 := 1; h_dz := 0; h_x := 0; h_y := 0; h_z := 0 |}.
Proof.
  unfold canonical, sg, r, rsigned, alpha. cbn [h_dr h_phi0]. rewrite Rsign_pos by lra. pose proof PI2_3_2.
  split; [|lra]. assert (0 < 1000 / (299792458 / 100000000) / 2 - 1).
  { assert (100 < 1000 / (299792458 / 100000000)) by (apply (Rmult_lt_reg_r (299792458 / 100000000)); [lra|]; unfold Rdiv; rewrite Rmult_assoc, Rinv_l by lra; lra). lra. }
  lra.
Qed.

Lemma roundtrip_hyps_example : atan2_spec atan2_c /\ 1 / 10000000000 < Rabs (-2) /\ 0 <= 6 < 2 * PI.
Proof. split; [exact atan2_c_spec|]. rewrite Rabs_left by lra. pose proof PI2_3_2. split; lra. Qed.

(* C13: the array/record front-end builds dr with the kernel _fix_dr_sign; it is the object front-end's sign choice *)
Lemma awk_fix_dr_sign_is_obj_choice atan2 charge m_pt m_phi m_pz px py pz x0 y0 z0 :
  k_fix_dr_sign (sqrt ((px - x0) * (px - x0) + (py - y0) * (py - y0))) (phys_phi0 charge m_pt m_phi m_pz px py pz x0 y0 z0)
                (atan2 (py - y0) (px - x0))
  = phys_dr atan2 charge m_pt m_phi m_pz px py pz x0 y0 z0.
Proof.
  unfold k_fix_dr_sign, phys_dr, phys_phi0. destruct (isclose_dec _ _); [reflexivity | ring].
Qed.
