(* C11 — Pivot changes compose: identity, inverse and path independence.  Statements only.
   `move kappa tanl h p` (HelixLaws) = the regenerated pivot change applied to the state h (dr, phi0, dz, pivot),
   kappa and tanl being carried unchanged by HelixObject.change_pivot (translator-checked glue). *)
From Coq Require Import Reals List.
Import ListNotations.
From PV.Lib Require Import RealAux.
From PV.Model Require Import HelixSpec.
From PV.Gen Require Import HelixCode.
From PV.Props Require Import HelixCommon HelixLaws C12Proofs C11ErrProofs.
Local Open Scope R_scope.

Theorem C11_pivot_identity : forall atan2, atan2_spec atan2 -> forall kappa tanl, kappa <> 0 ->
  forall h, canonical kappa h -> move atan2 kappa tanl h (h_x h, h_y h, h_z h) = h.
Proof. exact pivot_identity. Qed.
Print Assumptions C11_pivot_identity.

Theorem C11_pivot_inverse : forall atan2, atan2_spec atan2 -> forall kappa tanl, kappa <> 0 ->
  forall h p, canonical kappa h -> off_centre kappa h p ->
  let '(x1, y1, z1) := p in
  dphi atan2 (h_dr h) (h_phi0 h) kappa (h_dz h) tanl (h_x h) (h_y h) (h_z h) x1 y1 z1 < PI ->
  move atan2 kappa tanl (move atan2 kappa tanl h p) (h_x h, h_y h, h_z h) = h.
Proof. exact pivot_inverse. Qed.
Print Assumptions C11_pivot_inverse.

(* any finite sequence of pivots p :: ps ++ [q] ends where the direct move to q ends; dz up to whole helix pitches *)
Theorem C11_path_independent : forall atan2, atan2_spec atan2 -> forall kappa tanl, kappa <> 0 ->
  forall ps h p q, all_off_centre atan2 kappa tanl h (p :: ps ++ [q]) ->
  let hn := moves atan2 kappa tanl h (p :: ps ++ [q]) in let hd := move atan2 kappa tanl h q in
  h_dr hn = h_dr hd /\ h_phi0 hn = h_phi0 hd /\ (h_x hn, h_y hn, h_z hn) = q /\
  exists k : Z, h_dz hn = h_dz hd + IZR k * (2 * PI * r kappa * tanl).
Proof. exact path_independent. Qed.
Print Assumptions C11_path_independent.

(* dz exactly when the accumulated turning angle stays within half a turn *)
Theorem C11_path_independent_dz_exact : forall atan2, atan2_spec atan2 -> forall kappa tanl, kappa <> 0 ->
  forall h p1 p2, off_centre kappa h p1 ->
  let '(x1, y1, z1) := p1 in let '(x2, y2, z2) := p2 in
  let h1 := move atan2 kappa tanl h p1 in
  let d01 := dphi atan2 (h_dr h) (h_phi0 h) kappa (h_dz h) tanl (h_x h) (h_y h) (h_z h) x1 y1 z1 in
  let d12 := dphi atan2 (h_dr h1) (h_phi0 h1) kappa (h_dz h1) tanl x1 y1 z1 x2 y2 z2 in
  - PI < d01 + d12 < PI ->
  h_dz (move atan2 kappa tanl h1 p2) = h_dz (move atan2 kappa tanl h p2).
Proof. exact path_independent_2_dz_exact. Qed.
Print Assumptions C11_path_independent_dz_exact.

Theorem C11_phi0_in_range_and_pivot_reported : forall atan2 kappa tanl, kappa <> 0 -> forall h p,
  0 <= h_phi0 (move atan2 kappa tanl h p) < 2 * PI /\
  (h_x (move atan2 kappa tanl h p), h_y (move atan2 kappa tanl h p), h_z (move atan2 kappa tanl h p)) = p.
Proof. intros atan2 kappa tanl Hk h p. split; [apply move_phi0_range; exact Hk | apply move_pivot]. Qed.
Print Assumptions C11_phi0_in_range_and_pivot_reported.

(* every output of a pivot change is canonical, so the identity / inverse laws apply to everything the code produces *)
Theorem C11_outputs_are_canonical : forall atan2, atan2_spec atan2 -> forall kappa tanl, kappa <> 0 -> forall h p,
  off_centre kappa h p -> canonical kappa (move atan2 kappa tanl h p).
Proof. intros atan2 A kappa tanl Hk h p. apply move_canonical; assumption. Qed.
Print Assumptions C11_outputs_are_canonical.

Example C11_canonical_satisfiable : canonical 2 {| h_dr := 1; h_phi0 := 1; h_dz := 0; h_x := 0; h_y := 0; h_z := 0 |}.
Proof. exact canonical_example. Qed.

(* ---------------------------------------------------------------- the error matrix is part of the result *)
(* Jmove h p = the regenerated 5 x 5 Jacobian of the pivot change of state h to p (entries cp_obj_J.. with r = HelixObject.radius);
   turn h p = the turning angle the code computes for that move; JEJt J E = J E J^T; carry h ps E = E moved along ps step by step *)

(* within half a turn the turning angles of successive moves add up to the turning angle of the direct move *)
Theorem C11_turning_angles_add : forall atan2, atan2_spec atan2 -> forall kappa tanl, kappa <> 0 -> forall h p1 p2,
  off_centre kappa h p1 ->
  - PI < turn atan2 kappa tanl h p1 + turn atan2 kappa tanl (move atan2 kappa tanl h p1) p2 < PI ->
  turn atan2 kappa tanl h p2 = turn atan2 kappa tanl h p1 + turn atan2 kappa tanl (move atan2 kappa tanl h p1) p2.
Proof. exact turns_add. Qed.
Print Assumptions C11_turning_angles_add.

(* chain rule of the regenerated Jacobian: J(h -> p2) = J(h1 -> p2) J(h -> p1) *)
Theorem C11_jacobian_chain_rule : forall atan2, atan2_spec atan2 -> forall kappa tanl, kappa <> 0 -> forall h p1 p2,
  off_centre kappa h p1 ->
  - PI < turn atan2 kappa tanl h p1 + turn atan2 kappa tanl (move atan2 kappa tanl h p1) p2 < PI ->
  forall i j, (i < 5)%nat -> (j < 5)%nat ->
  mmul (Jmove atan2 kappa tanl (move atan2 kappa tanl h p1) p2) (Jmove atan2 kappa tanl h p1) i j = Jmove atan2 kappa tanl h p2 i j.
Proof. exact jacobian_chain_2. Qed.
Print Assumptions C11_jacobian_chain_rule.

(* any error matrix E (no symmetry or definiteness needed), any finite sequence of pivots whose accumulated turning angle stays
   within half a turn: moving E step by step = moving it directly to the last pivot, entry by entry *)
Theorem C11_error_matrix_path_independent : forall atan2, atan2_spec atan2 -> forall kappa tanl, kappa <> 0 -> forall h q ps E,
  off_centre kappa h q ->
  turns_within atan2 kappa tanl (move atan2 kappa tanl h q) (turn atan2 kappa tanl h q) ps ->
  all_off_centre atan2 kappa tanl (move atan2 kappa tanl h q) ps ->
  forall i j, (i < 5)%nat -> (j < 5)%nat ->
  carry atan2 kappa tanl h (q :: ps) E i j = JEJt (Jmove atan2 kappa tanl h (last ps q)) E i j.
Proof. exact error_path_independent. Qed.
Print Assumptions C11_error_matrix_path_independent.

(* there and back: from a canonical helix, over a turning angle that is not the half turn, the error matrix returns to itself *)
Theorem C11_error_matrix_inverse : forall atan2, atan2_spec atan2 -> forall kappa tanl, kappa <> 0 -> forall h p E,
  canonical kappa h -> off_centre kappa h p -> turn atan2 kappa tanl h p <> PI ->
  forall i j, (i < 5)%nat -> (j < 5)%nat ->
  JEJt (Jmove atan2 kappa tanl (move atan2 kappa tanl h p) (h_x h, h_y h, h_z h)) (JEJt (Jmove atan2 kappa tanl h p) E) i j = E i j.
Proof. exact error_there_and_back. Qed.
Print Assumptions C11_error_matrix_inverse.

(* the move to the own pivot of a canonical helix has the identity as its Jacobian *)
Theorem C11_error_matrix_identity : forall atan2, atan2_spec atan2 -> forall kappa tanl, kappa <> 0 -> forall h E,
  canonical kappa h -> forall i j, (i < 5)%nat -> (j < 5)%nat ->
  JEJt (Jmove atan2 kappa tanl h (h_x h, h_y h, h_z h)) E i j = E i j.
Proof.
  intros atan2 A2 kappa tanl Hk h E Hc i j Hi Hj.
  rewrite (JEJt_ext _ (fun a b => mid a b) E (Jmove_own_pivot_is_identity atan2 A2 kappa tanl Hk h Hc (canonical_off_own_pivot kappa h Hc)) i j Hi Hj).
  apply JEJt_identity; assumption.
Qed.
Print Assumptions C11_error_matrix_identity.

(* the Jacobian used above is the code's, in closed form *)
Theorem C11_jacobian_closed_form : forall atan2 dr phi0 kappa dz tanl x0 y0 z0 x1 y1 z1, kappa <> 0 -> forall i j,
  Jcode atan2 dr phi0 kappa dz tanl x0 y0 z0 x1 y1 z1 i j =
  Jabs (r kappa) kappa tanl (r kappa + dr) (1 / (sg kappa * rho dr phi0 kappa x0 y0 x1 y1))
       (dphi atan2 dr phi0 kappa dz tanl x0 y0 z0 x1 y1 z1) i j.
Proof. exact Jcode_is_Jabs. Qed.
Print Assumptions C11_jacobian_closed_form.

Example C11_chain_hypotheses_satisfiable :
  off_centre 2 hex (0, 0, 0) /\
  turns_within atan2_c 2 1 (move atan2_c 2 1 hex (0, 0, 0)) (turn atan2_c 2 1 hex (0, 0, 0)) [(0, 0, 0)] /\
  all_off_centre atan2_c 2 1 (move atan2_c 2 1 hex (0, 0, 0)) [(0, 0, 0)].
Proof. exact chain_hyps_example. Qed.
