(* C13 — Helix position/momentum follow the documented formulas and round-trip.  Statements only. *)
From Coq Require Import Reals Lra.
From PV.Lib Require Import RealAux.
From PV.Gen Require Import HelixCode.
From PV.Props Require Import HelixCommon HelixLaws.
Local Open Scope R_scope.

Theorem C13_position_formula : forall dr phi0 kappa dz tanl x0 y0 z0,
  obj_position_x dr phi0 kappa dz tanl x0 y0 z0 = x0 + dr * cos phi0 /\
  obj_position_y dr phi0 kappa dz tanl x0 y0 z0 = y0 + dr * sin phi0 /\
  obj_position_z dr phi0 kappa dz tanl x0 y0 z0 = z0 + dz.
Proof. exact position_formula. Qed.
Print Assumptions C13_position_formula.

Theorem C13_momentum_formula : forall dr phi0 kappa dz tanl x0 y0 z0, kappa <> 0 ->
  obj_momentum_pt dr phi0 kappa dz tanl x0 y0 z0 = 1 / Rabs kappa /\
  cos (obj_momentum_phi dr phi0 kappa dz tanl x0 y0 z0) = cos (phi0 + PI / 2) /\
  sin (obj_momentum_phi dr phi0 kappa dz tanl x0 y0 z0) = sin (phi0 + PI / 2) /\
  0 <= obj_momentum_phi dr phi0 kappa dz tanl x0 y0 z0 < 2 * PI /\
  obj_momentum_pz dr phi0 kappa dz tanl x0 y0 z0 = (1 / Rabs kappa) * tanl.
Proof. exact momentum_formula. Qed.
Print Assumptions C13_momentum_formula.

Theorem C13_charge_and_radius : forall dr phi0 kappa dz tanl x0 y0 z0, 1 / 10000000000 < Rabs kappa ->
  obj_charge dr phi0 kappa dz tanl x0 y0 z0 = Rsign kappa /\
  obj_radius dr phi0 kappa dz tanl x0 y0 z0 = 1000 / (299792458 / 100000000) * obj_momentum_pt dr phi0 kappa dz tanl x0 y0 z0.
Proof. intros. split; [apply charge_formula; assumption | apply radius_formula; intro E; subst; rewrite Rabs_R0 in *; lra]. Qed.
Print Assumptions C13_charge_and_radius.

(* construct-from-physics round trip: position, momentum, charge and pivot reported by a helix reproduce the helix,
   for either charge, any pivot, phi0 anywhere in [0, 2pi) including the wrap, dr of either sign and zero *)
Theorem C13_physics_roundtrip : forall atan2, atan2_spec atan2 ->
  forall dr phi0 kappa dz tanl x0 y0 z0, 1 / 10000000000 < Rabs kappa -> 0 <= phi0 < 2 * PI ->
  let charge := obj_charge dr phi0 kappa dz tanl x0 y0 z0 in
  let m_pt := obj_momentum_pt dr phi0 kappa dz tanl x0 y0 z0 in
  let m_phi := obj_momentum_phi dr phi0 kappa dz tanl x0 y0 z0 in
  let m_pz := obj_momentum_pz dr phi0 kappa dz tanl x0 y0 z0 in
  let px := obj_position_x dr phi0 kappa dz tanl x0 y0 z0 in
  let py := obj_position_y dr phi0 kappa dz tanl x0 y0 z0 in
  let pz := obj_position_z dr phi0 kappa dz tanl x0 y0 z0 in
  phys_dr atan2 charge m_pt m_phi m_pz px py pz x0 y0 z0 = dr /\
  phys_phi0 charge m_pt m_phi m_pz px py pz x0 y0 z0 = phi0 /\
  phys_kappa charge m_pt m_phi m_pz px py pz x0 y0 z0 = kappa /\
  phys_dz charge m_pt m_phi m_pz px py pz x0 y0 z0 = dz /\
  phys_tanl charge m_pt m_phi m_pz px py pz x0 y0 z0 = tanl.
Proof. exact physics_roundtrip. Qed.
Print Assumptions C13_physics_roundtrip.

(* the record / array front-ends evaluate the same expressions as the object front-end *)
Theorem C13_frontends_agree : forall dr phi0 kappa dz tanl x0 y0 z0,
  awk_momentum_pt kappa tanl phi0 = obj_momentum_pt dr phi0 kappa dz tanl x0 y0 z0 /\
  awk_momentum_phi kappa tanl phi0 = obj_momentum_phi dr phi0 kappa dz tanl x0 y0 z0 /\
  awk_momentum_pz kappa tanl phi0 = obj_momentum_pz dr phi0 kappa dz tanl x0 y0 z0 /\
  k_kappa_to_radius kappa = obj_radius dr phi0 kappa dz tanl x0 y0 z0 /\
  k_kappa_to_charge kappa = obj_charge dr phi0 kappa dz tanl x0 y0 z0 /\
  awk_position_x dr phi0 dz x0 y0 z0 = obj_position_x dr phi0 kappa dz tanl x0 y0 z0 /\
  awk_position_y dr phi0 dz x0 y0 z0 = obj_position_y dr phi0 kappa dz tanl x0 y0 z0 /\
  awk_position_z dr phi0 dz x0 y0 z0 = obj_position_z dr phi0 kappa dz tanl x0 y0 z0.
Proof. exact frontends_agree. Qed.
Print Assumptions C13_frontends_agree.

Example C13_nonvacuous : atan2_spec atan2_c /\ 1 / 10000000000 < Rabs (-2) /\ 0 <= 6 < 2 * PI.
Proof. exact roundtrip_hyps_example. Qed.

(* the array / record constructor chooses the sign of dr with the kernel _fix_dr_sign: the same choice as the object constructor *)
Theorem C13_array_constructor_dr_sign : forall atan2 charge m_pt m_phi m_pz px py pz x0 y0 z0,
  k_fix_dr_sign (sqrt ((px - x0) * (px - x0) + (py - y0) * (py - y0))) (phys_phi0 charge m_pt m_phi m_pz px py pz x0 y0 z0)
                (atan2 (py - y0) (px - x0))
  = phys_dr atan2 charge m_pt m_phi m_pz px py pz x0 y0 z0.
Proof. exact awk_fix_dr_sign_is_obj_choice. Qed.
Print Assumptions C13_array_constructor_dr_sign.
